#!/bin/sh
# tools/refaccheck.sh <patch file> <label> "<props>" : run the quick checks against a behaviour-preserving refactoring of /repo
# (fresh scratch worktree + isolated copy of /verif); every VIOLATION here is a false alarm to investigate
patch="$1"; label="$2"; props="$3"
wt="/var/tmp/rw-$label"; git -C /repo worktree remove --force "$wt" 2>/dev/null; rm -rf "$wt"
git -C /repo worktree add -q --detach "$wt" HEAD || exit 3
( cd "$wt" && git apply "$patch" ) || { echo "[$label] patch does not apply"; git -C /repo worktree remove --force "$wt"; exit 3; }
cp="/var/tmp/rv-$label"; rm -rf "$cp"; mkdir -p "$cp"; rsync -a --exclude .git --exclude replays /verif/ "$cp/"; mkdir -p "$cp/ev" "$cp/rp"
for p in $props; do
  ( cd "$cp" && INDIPY_REPO="$wt" VERIF_EVIDENCE_DIR="$cp/ev" VERIF_REPLAY_DIR="$cp/rp" ./check "$p" quick > "$cp/check-$p.log" 2>&1; echo "rc=$?" >> "$cp/check-$p.log" )
  rc=$(tail -1 "$cp/check-$p.log")
  if [ "$rc" != "rc=0" ]; then
    echo "[$label x $p] $rc  $(grep -E 'seed=' $cp/check-$p.log | cut -c1-200)"
    grep -E "fails on the implementation|disagree|proof side|implementation:|model:|harness" "$cp/check-$p.log" | cut -c1-500 | head -8
    mkdir -p /var/tmp/refac-fail; cp "$cp/check-$p.log" "/var/tmp/refac-fail/$label-$p.log"; cp "$cp"/rp/$p-* /var/tmp/refac-fail/ 2>/dev/null
  else echo "[$label x $p] ok"; fi
done
cd /; git -C /repo worktree remove --force "$wt"; rm -rf "$cp"
