#!/bin/sh
# tools/seedall.sh : run every stored seeded change through the quick check of its property; one summary line each
cd "$(dirname "$0")/.."
for d in seeded/C*; do
  out=$(sh tools/seedtest.sh "$(pwd)/$d" quick 2>&1)
  v=$(echo "$out" | grep -c "^VIOLATION")
  nf=$(echo "$out" | grep -c "no-failing-input-found")
  line=$(echo "$out" | grep " quick seed=" | tail -1 | sed 's/.*: //')
  echo "$(basename $d) violation=$v no_failing_input=$nf  $line"
done
