"""Correspondence component `xml`: the character level of the wire format.

Ties lean/Indi/Model/Xml.lean to what the library really calls:
  parse    ET.fromstring(text)                      vs  Xml.parseDoc   (the element as from_xml can see it, or ParseError)
  ser      ET.tostring(element)                     vs  Xml.serElem
  msg      IndiMessage.to_string / from_string      vs  Xml.toString / Xml.fromString   (whole messages, byte level)
  session  Buffer.append/process with the REAL parser vs Buf.session with the MODEL parser (no table: framing + expat + from_xml)

The model answers `uns` for inputs outside its fragment (DOCTYPE, names with ':' or non-ASCII characters, unusual XML
declarations, BOM); those are counted (`model-unsupported`) and not compared.

Case: {"op": "parse", "text": str} | {"op": "ser", "elem": elem} | {"op": "msg", "msg": recipe}
    | {"op": "session", "threshold": int|None, "pieces": [str]}
"""
import xml.etree.ElementTree as ET

from harness import Query, Watchdog, enc_elem, enc_list, enc_msg, enc_str, exc_name, msg_view, time_limit
import comp_buf
import comp_codec

NAME = "xml"

UNS = "uns"


def real_parse(text):
    try:
        x = ET.fromstring(text)
    except ET.ParseError:
        return "err"
    return "ok " + enc_elem(comp_codec.elem_of_et(x))


def run_impl(case, outcome):
    from indi.message import IndiMessage

    op = case["op"]
    outcome.count("op:" + op)
    qs = []
    if op == "parse":
        text = case["text"]
        r = real_parse(text)
        outcome.count("parse:" + r[:3].strip())
        outcome.nontrivial.add(text)
        qs.append(Query("xml parse " + enc_str(text), (r, UNS), "corr"))
    elif op == "ser":
        e = case["elem"]
        data = ET.tostring(comp_codec.et_of_elem(e)).decode("ascii")
        outcome.nontrivial.add(data)
        qs.append(Query("xml ser " + enc_elem(e), enc_str(data), "corr"))
        # and the model parser reads the real writer's bytes back as the same element
        qs.append(Query("xml parse " + enc_str(data), (real_parse(data), UNS), "corr"))
    elif op == "msg":
        m = comp_codec.build(case["msg"])
        v = msg_view(m)
        data = m.to_string().decode("latin1")
        outcome.nontrivial.add(data)
        outcome.count("kind:" + v["tag"])
        qs.append(Query("xml tostring " + enc_msg(v), enc_str(data), "corr"))
        try:
            back = "ok " + enc_msg(msg_view(IndiMessage.from_string(data)))
        except ET.ParseError:
            back = "err ParseError"
        except Exception as e:  # noqa
            back = "err " + exc_name(e)
        qs.append(Query("xml fromstring " + enc_str(data), (back, "err unsupported"), "corr"))
    elif op == "session":
        from indi.transport import Buffer

        b = Buffer()
        b.max_buffer_size_before_frontal_cleanup = case["threshold"]
        calls = []
        group = case.get("group", 1)          # append `group` pieces, then process once (the API allows it)
        pieces = case["pieces"]
        merged = []
        all_got = []
        for k in range(0, len(pieces), group):
            got = []

            def cb(m):
                got.append(m)
                if len(got) > 10000:
                    raise Watchdog("callback flood")

            for piece in pieces[k:k + group]:
                b.append(piece)
            merged.append("".join(pieces[k:k + group]))
            with time_limit(20):
                b.process(cb)
            all_got.extend(got)
            calls.append(enc_list(lambda m: enc_msg(msg_view(m)), got) + " ; " + enc_str(b.data))
        outcome.nontrivial.add((case["threshold"], tuple(case["pieces"]), group))
        outcome.count("session-pieces", len(case["pieces"]))
        outcome.count("appends-per-process:%d" % group)
        T = "~" if case["threshold"] is None else str(case["threshold"])
        qs.append(Query("xml session %s %s" % (T, enc_list(enc_str, merged)), (" | ".join(calls), UNS), "corr",
                        "Buffer (append x%d, then process) against the buffer model fed the same characters" % group))
        if group > 1 and case.get("admissible"):
            # C02: what has been delivered once everything arrived does not depend on how the stream was fed
            flat = enc_list(lambda m: enc_msg(msg_view(m)), all_got) + " ; " + enc_str(b.data)
            qs.append(Query("xml sessionflat %s %s" % (T, enc_list(enc_str, ["".join(pieces)])), (flat, UNS), "oracle",
                            "C02: with %d appends per process() call the messages delivered differ from feeding the stream whole" % group))
    elif op == "transport":
        qs.extend(run_transport(case, outcome))
    else:
        raise ValueError(op)
    return qs


class _PieceReader:
    """StreamReader / stdin stand-in that hands out exactly the given pieces, then end-of-file"""

    def __init__(self, pieces, text=False):
        self.pieces = list(pieces)
        self.text = text

    async def read(self, n):
        import asyncio
        await asyncio.sleep(0)
        if not self.pieces:
            return b""
        p = self.pieces.pop(0)
        if isinstance(n, int) and 0 < n < len(p):          # a stream reader never returns more than it was asked for
            self.pieces.insert(0, p[n:])
            p = p[:n]
        return p

    async def readline(self):
        import asyncio
        await asyncio.sleep(0)
        if not self.pieces:
            return ""
        p = self.pieces.pop(0)
        return p.decode("latin1") if self.text else p


class _NullWriter:
    def write(self, data):
        pass

    async def drain(self):
        pass

    def close(self):
        pass

    def is_closing(self):
        return False


def run_transport(case, outcome):
    """the receive loop of a real connection handler (client TCP, client BLOB connection, server TCP) fed BYTE pieces: the bytes
    are decoded piece by piece on the way into the buffer, so framing must not depend on where the pieces are cut"""
    import asyncio

    from indi.routing import Router
    from indi.transport.client import tcp as ctcp
    from indi.transport.server import tcp as stcp

    kind, pieces = case["handler"], [bytes.fromhex(p) for p in case["pieces"]]
    got = []

    class Rec:
        def process_message(self, message, sender=None):
            got.append(message)

        def register_client(self, c):
            pass

        def unregister_client(self, c):
            pass

    died = []

    async def main():
        if kind == "server":
            h = stcp.ConnectionHandler(_PieceReader(pieces), _NullWriter(), Rec())
        else:
            h = ctcp.ConnectionHandler(_PieceReader(pieces), _NullWriter(), got.append, for_blobs=(kind == "client-blob"))
        try:
            with time_limit(60):
                await h.wait_for_messages()
        except (KeyboardInterrupt, SystemExit):
            raise
        except BaseException as e:  # noqa
            died.append(type(e).__name__)
        return h

    h = asyncio.run(main())
    if died:
        outcome.count("receive-loop-died:" + died[0])
        return [Query("spec istrue False", "True", "oracle", "the receive loop of the %s handler died with %s on a byte stream cut into %d pieces" % (kind, died[0], len(pieces)))]
    T = "~" if kind == "client-blob" else "2048"
    text_pieces = [p.decode("latin1") for p in pieces]
    flat = enc_list(lambda m: enc_msg(msg_view(m)), got) + " ; " + enc_str(h.buffer.data)
    outcome.nontrivial.add((kind, tuple(case["pieces"])))
    outcome.count("transport:" + kind)
    return [Query("xml sessionflat %s %s" % (T, enc_list(enc_str, text_pieces)), (flat, UNS), "corr",
                  "the receive loop (decode each piece, append, process) against the buffer model over the same characters"),
            Query("xml sessionflat %s %s" % (T, enc_list(enc_str, ["".join(text_pieces)])), (flat, UNS), "oracle",
                  "C02: what a connection delivers depends on how the byte stream was cut into pieces")]


# --------------------------------------------------------------------------
# generators

ALPHABET = list("<>/&;#x\"'= \t\r\n!-?[]:.") + ["a", "b", "Z", "_", "0", "9", "é", "\x00", "\x0b", "\x7f", "\x85", "\xa0", "￾", "퟿", "\U0001d11e"]
WORDS = ["<a>", "</a>", "<a/>", "<b ", "c='1'", 'd="2"', "<!--", "-->", "--", "<![CDATA[", "]]>", "]]", "<?pi ", "?>", "<?xml version=\"1.0\"?>",
         "<?xml version='1.0' standalone='yes'?>", "<?xml version=\"1.0\" encoding=\"utf-8\"?>", "<?xml version=\"1.1\"?>", "<?XML ?>", "<?xml?>",
         "&amp;", "&lt;", "&gt;", "&quot;", "&apos;", "&#65;", "&#x41;", "&#0;", "&#9;", "&#xD;", "&#x110000;", "&#xFFFE;", "&#55296;", "&bogus;", "&#;", "&#x;",
         "&", "<!DOCTYPE a>", "<a:b/>", "xmlns='u'", "xml:lang='en'", "\r\n", "\r", "\n", " ", "\t", "text", "<a b='1' b='2'/>", "<a b='1'c='2'/>",
         "<a b = '1' />", "<a\nb\n=\n\"x\ny\"\n>", "</a >", "< a/>", "<a/ >", "<1a/>", "<a.b-c_d/>", "<-a/>", "﻿", "<é/>", "<a é='1'/>", "<a>]]></a>",
         "<a><![CDATA[x]]]]><![CDATA[>]]></a>", "<a><b><c>deep</c>tail</b>t2<d/></a>", "<a>x<!-- c -->y<?p q?>z<b/>w</a>", "<a><?xml version='1.0'?></a>"]


def rand_text(rng, n):
    return "".join(rng.choice(["a", "b", " ", "1", ":", "é", "\U0001d11e", "&amp;", "&lt;", "&#10;", "&#x20;", "]", ">", "\n", "\r\n", "\t", "'", '"', "-", "/", "="])
                   for _ in range(rng.randint(0, n)))


def rand_doc(rng, depth=0):
    """a mostly well-formed document from the grammar, exercising every construct of the model"""
    name = rng.choice(["a", "bb", "defTextVector", "oneText", "x1", "A_b", "n.m", "k-l"])

    def attr():
        k = rng.choice(["p", "q", "name", "device", "r2", "s_t"])
        q = rng.choice(['"', "'"])
        val = rand_text(rng, 6).replace(q, "").replace("<", "")
        eq = rng.choice(["=", " =", "= ", " = ", "=\n"])
        return k, "%s%s%s%s%s" % (k, eq, q, val, q)

    ats, seen = [], set()
    for _ in range(rng.choice([0, 0, 1, 2, 3])):
        k, a = attr()
        if k in seen and rng.random() < 0.9:
            continue
        seen.add(k)
        ats.append(rng.choice([" ", "  ", "\n", "\t", "\r\n"]) + a)
    start = "<" + name + "".join(ats) + rng.choice(["", "", " ", "\n"])
    r = rng.random()
    if r < 0.25:
        return start + "/>"
    inner = []
    for _ in range(rng.choice([0, 1, 1, 2, 3, 4])):
        c = rng.random()
        if c < 0.35:
            inner.append(rand_text(rng, 8).replace("<", "").replace("]]>", "]]"))
        elif c < 0.6 and depth < 3:
            inner.append(rand_doc(rng, depth + 1))
        elif c < 0.7:
            inner.append("<!--" + rand_text(rng, 5).replace("--", "- ").rstrip("-") + "-->")
        elif c < 0.8:
            inner.append("<![CDATA[" + rng.choice(["", "x", "<&>", "]", "]]", "a]]b", "\r\n", "]>"]) + "]]>")
        elif c < 0.9:
            inner.append("<?" + rng.choice(["p", "target", "xm", "xmlx"]) + rng.choice(["", " ", " data ", " ? >", " ??"]) + "?>")
        else:
            inner.append(rng.choice(["&amp;", "&#x1D11E;", "&#13;", "&quot;", "&apos;", "&#38;", "&#60;"]))
    return start + ">" + "".join(inner) + "</" + name + rng.choice(["", "", " ", "\n"]) + ">"


def with_prolog(rng, doc):
    pro = rng.choice(["", "", '<?xml version="1.0"?>', "<?xml version='1.0'?>\n", '<?xml version="1.0" standalone="no" ?>', " ", "\n", "<!-- c -->", "<?pi x?>",
                      '<?xml version="1.0"?><!-- c -->\n', "\n<?xml version='1.0'?>", '<?xml version="1.0"?><?xml version="1.0"?>'])
    epi = rng.choice(["", "", "\n", " ", "<!-- e -->", "<?p?>", "x", "<a/>", "&amp;", "\r\n\t", "<!-- e", "<![CDATA[x]]>"])
    return pro + doc + epi


def mutate(rng, text):
    k = rng.randrange(len(text) + 1)
    r = rng.random()
    ins = rng.choice(ALPHABET) if rng.random() < 0.7 else rng.choice(WORDS)
    if r < 0.4:
        return text[:k] + ins + text[k:]
    if r < 0.7 and text:
        return text[:k] + text[k + 1:]
    return text[:k] + ins + text[k + 1:]


def library_docs():
    msgs = comp_buf.corpus_messages()
    docs = [m.to_string().decode("latin1") for m in msgs]
    for sp in comp_buf.SPELLINGS[1:]:
        docs.extend(sp.get("decl", "") + comp_buf.spell(m, sp) for m in msgs)
    return docs


CODEPOINTS = (list(range(0, 0x180)) + [0x7FF, 0x800, 0xD7FF, 0xE000, 0xFFFD, 0xFFFE, 0xFFFF, 0x10000, 0x10FFFF, 0x2028, 0x2029, 0xFEFF, 0x85, 0x1D11E])


def gen_parse(rng, tier):
    thorough = tier == "thorough"
    docs = library_docs()
    for d in docs:
        yield {"op": "parse", "text": d}
    # every truncation of a sample of documents; the element alone (what Buffer hands to the parser)
    for d in (docs if thorough else docs[::7]):
        body = d[d.index("<", 1) if d.startswith("<?") else 0:]
        for k in range(0, len(body) + 1, 1 if thorough else 2):
            yield {"op": "parse", "text": body[:k]}
    # every code point class: raw and as decimal / hexadecimal reference, in text, in an attribute value, in a name, in a comment
    cps = CODEPOINTS + ([rng.randrange(0x110000) for _ in range(3000)] if thorough else [rng.randrange(0x110000) for _ in range(150)])
    for cp in cps:
        if 0xD800 <= cp <= 0xDFFF:
            refs = ["&#%d;" % cp, "&#x%x;" % cp]
            raw = []
        else:
            refs = ["&#%d;" % cp, "&#x%X;" % cp, "&#0%d;" % cp]
            raw = [chr(cp)]
        for t in raw + refs:
            yield {"op": "parse", "text": "<a>x%sy</a>" % t}
            yield {"op": "parse", "text": "<a b='x%sy'/>" % t}
        for t in raw:
            yield {"op": "parse", "text": "<a%s/>" % t}
            yield {"op": "parse", "text": "<%s/>" % t}
            yield {"op": "parse", "text": "<a><!--%s--><?p %s?><![CDATA[%s]]></a>" % (t, t, t)}
            yield {"op": "parse", "text": "%s<a/>%s" % (t, t)}
    for w in WORDS:
        for ctx in ("%s", "<a>%s</a>", "<a %s/>", "<a b='%s'/>", "<a/>%s", "%s<a/>", "<a><b>%s</b></a>"):
            yield {"op": "parse", "text": ctx % w}
    # grammar-based documents and their mutations
    n = 6000 if thorough else 700
    for _ in range(n):
        d = with_prolog(rng, rand_doc(rng))
        yield {"op": "parse", "text": d}
        if rng.random() < 0.6:
            yield {"op": "parse", "text": mutate(rng, d)}
    # mutations of library output
    for _ in range(4000 if thorough else 500):
        d = rng.choice(docs)
        for _k in range(rng.choice([1, 1, 2, 3])):
            d = mutate(rng, d)
        yield {"op": "parse", "text": d}
    # word salad
    for _ in range(3000 if thorough else 400):
        yield {"op": "parse", "text": "".join(rng.choice(WORDS) if rng.random() < 0.6 else rng.choice(ALPHABET) for _ in range(rng.randint(1, 9)))}
    # all short strings over the markup alphabet
    import itertools
    alpha = "<>/a &;'=!-?"
    for L in range(0, 5 if thorough else 4):
        for t in itertools.product(alpha, repeat=L):
            yield {"op": "parse", "text": "".join(t)}


def rand_value(rng):
    return "".join(rng.choice(["a", "B", "7", " ", "<", ">", "&", '"', "'", "\n", "\r", "\t", "é", "\xff", "Ā", " ", "\U0001d11e", "]", "]]>", ";", "#", "=", "/"])
                   for _ in range(rng.randint(0, 7)))


def gen_ser(rng, tier):
    thorough = tier == "thorough"
    # every code point class in text and attribute
    cps = [c for c in CODEPOINTS if not (0xD800 <= c <= 0xDFFF)]
    for cp in cps:
        yield {"op": "ser", "elem": {"tag": "t", "attrs": [("k", "x%sy" % chr(cp))], "text": "x%sy" % chr(cp), "children": []}}
    for _ in range(3000 if thorough else 400):
        tag = rng.choice(["a", "defNumberVector", "x_1", "n.m-o"])
        attrs, seen = [], set()
        for _k in range(rng.choice([0, 1, 2, 3])):
            k = rng.choice(["p", "q", "name", "device", "label"])
            if k not in seen:
                seen.add(k)
                attrs.append((k, rand_value(rng)))
        children = []
        for _k in range(rng.choice([0, 0, 1, 2, 3])):
            cattrs = [("name", rand_value(rng))] if rng.random() < 0.7 else []
            children.append({"tag": rng.choice(["oneText", "c", "defSwitch"]), "attrs": cattrs, "text": rand_value(rng) if rng.random() < 0.7 else ""})
        yield {"op": "ser", "elem": {"tag": tag, "attrs": attrs, "text": rand_value(rng) if rng.random() < 0.5 else "", "children": children}}


def gen_msg(rng, tier):
    import comp_wire

    for case in comp_wire.gen_cases(rng, tier):
        yield {"op": "msg", "msg": case["msg"]}


def gen_session(rng, tier):
    """Buffer with the real parser vs the buffer model with the model parser: the C02 and C11 streams, reduced to (threshold, pieces)"""
    thorough = tier == "thorough"
    k = 0
    for gen in (comp_buf.gen_c02, comp_buf.gen_c11):
        for case in gen(rng, "quick"):
            k += 1
            if not thorough and k % 4:
                continue
            for pieces in case["partitions"][:4 if thorough else 2]:
                if sum(len(p) for p in pieces) > 2500 or len(pieces) > 400:
                    continue
                yield {"op": "session", "threshold": case["threshold"], "pieces": pieces}
                adm = (gen is comp_buf.gen_c02 and case.get("segs") is not None and case.get("corrupt") is None
                       and case.get("tkind") != "one-below")
                if len(pieces) >= 2 and k % 3 == 0:
                    yield {"op": "session", "threshold": case["threshold"], "pieces": pieces, "group": 2 + (k // 3) % 2, "admissible": adm}
                    # the classic shape: a whole message, its trailing newline as a piece of its own, then process
                    yield {"op": "session", "threshold": case["threshold"], "pieces": [p for piece in pieces for p in (piece[:-1], piece[-1:]) if p][:60], "group": 2,
                           "admissible": adm and len(pieces) <= 30}


def gen_transport(rng, tier):
    """byte streams as a foreign peer may send them (raw Latin-1 and raw UTF-8 text, not only the library's ASCII references)
    through the receive loops of the client, client-BLOB and server handlers, cut everywhere"""
    thorough = tier == "thorough"
    texts = ["Temperature (\u00b0C)", "caf\u00e9 \u00fc\u00df", "\u4e2d\u6587 \U0001d11e", "plain"]
    streams = []
    for i, txt in enumerate(texts):
        body = ('<setTextVector device="D" name="P%d" state="Ok"><oneText name="e">%s</oneText></setTextVector>\n'
                '<message device="D" message="%s"/>\n' % (i, txt, txt))
        streams.append(body.encode("utf-8"))
        try:
            streams.append(body.encode("latin1"))
        except UnicodeEncodeError:
            pass
    for data in streams:
        n = len(data)
        cutsets = [[c] for c in range(1, n, 1 if thorough else 3)] + [list(range(k, n, 7)) for k in range(1, 8)] + [list(range(1, n))]
        for cuts in cutsets:
            pieces = comp_buf.cuts_to_pieces(data, cuts)
            for kind in (["client", "client-blob", "server"] if thorough or len(cuts) > 1 else [rng.choice(["client", "client-blob", "server"])]):
                yield {"op": "transport", "handler": kind, "pieces": [p.hex() for p in pieces]}
    # bursts whose length is exactly a size named by a constant of the transport source (the read size), or a multiple of it,
    # arriving in reads of exactly that size, after which the peer is quiet and closes: every message must still be delivered
    files = ["indi/transport/client/tcp.py", "indi/transport/server/tcp.py", "indi/transport/server/tty.py", "indi/transport/buffer.py",
             "indi/transport/client/__init__.py", "indi/transport/server/__init__.py"]
    for c in comp_buf.int_constants(files, floor=64):
        if c > 16384:
            continue
        for mult in (1, 2, 3):
            total = c * mult
            msgs, k = [], 0
            while True:
                m = '<setTextVector device="D" name="P%d" state="Ok"><oneText name="e">v%d</oneText></setTextVector>\n' % (k, k)
                if sum(len(x) for x in msgs) + len(m) + 60 > total:
                    break
                msgs.append(m)
                k += 1
            used = sum(len(x) for x in msgs)
            pad = total - used - len('<message device="D" message=""/>\n')
            if pad < 0 or pad > 1500:
                continue
            msgs.append('<message device="D" message="%s"/>\n' % ("p" * pad))
            data = "".join(msgs).encode("ascii")
            assert len(data) == total
            for size in {c, total}:
                pieces = [data[i:i + size] for i in range(0, total, size)]
                for kind in ("client", "client-blob", "server"):
                    yield {"op": "transport", "handler": kind, "pieces": [p.hex() for p in pieces], "exact": c}
