#!/usr/bin/env python
"""Translator, part 2: boolean decision expressions of the library -> lean/Indi/Generated/Decisions.lean

For a handful of curated sites the Python expression that decides something the properties depend on is located in the
AST of the working tree, translated to a Lean function over typed variables, and emitted as

    def <name>? : Option (<type>) := some (fun ... => <translated expression>)          -- or `none`

The hand-written models keep their own (readable) version of each decision; `Indi/Properties/Decisions.lean` proves, for
whatever was generated, that it equals the model's version on the whole domain (`decide` over finite domains, `omega` for
the arithmetic ones).  A mutated operator or constant therefore breaks a named theorem; an equivalent rewrite keeps it
true (the obligation is semantic); a restructuring the translator cannot follow yields `none`, for which the theorem holds
vacuously and the tie for that site is the correspondence alone (recorded in the evidence, not an alarm).

A site = (file, class.function, kind, names the expression must mention, environment).  The environment maps Python
sub-expressions (compared as `ast.unparse` text) to typed Lean variables; attribute chains that evaluate to constants in the
live module (`const.BLOBEnable.ALSO`) become string literals; `isinstance(x, C)` with a message class becomes the class's tag.
"""
import ast
import importlib
import os

REPO = os.environ.get("INDIPY_REPO", "/repo")


class Untranslatable(Exception):
    pass


def lean_str(s):
    if all(32 <= ord(ch) < 127 for ch in s) and '"' not in s and "\\" not in s:
        return '(s "%s")' % s
    return "(cps [%s])" % ", ".join(str(ord(ch)) for ch in s)


class Tr:
    """Python boolean expression -> (Lean term, type); types: bool, str, ostr (Option Str), nat, onat (Option Nat), none"""

    def __init__(self, env, module):
        self.env = env              # unparse text -> (lean name, type)
        self.module = module        # live module for constant evaluation

    def const_of(self, node):
        """attribute chain / name that evaluates to a str constant in the live module"""
        try:
            val = eval(compile(ast.Expression(node), "<site>", "eval"), vars(self.module))
        except Exception:  # noqa
            raise Untranslatable("cannot evaluate %s" % ast.unparse(node))
        if isinstance(val, str):
            return lean_str(val), "str"
        if val is None:
            return "none", "none"
        if isinstance(val, bool):
            return ("true" if val else "false"), "bool"
        if isinstance(val, int):
            return str(val), "nat"
        raise Untranslatable("constant of unsupported type %r" % (val,))

    def lookup(self, node):
        """environment entry for a sub-expression: exact text, `len(_)` for any len() call, `*.attr` for any attribute chain
        ending in .attr, `name.*` for any attribute of the variable `name` (so that private attribute names do not matter)"""
        text = ast.unparse(node)
        if text in self.env:
            return self.env[text]
        if isinstance(node, ast.Call) and isinstance(node.func, ast.Name) and node.func.id == "len" and "len(_)" in self.env:
            return self.env["len(_)"]
        if isinstance(node, ast.Attribute):
            if "*." + node.attr in self.env:
                return self.env["*." + node.attr]
            if isinstance(node.value, ast.Name) and node.value.id + ".*" in self.env:
                return self.env[node.value.id + ".*"]
        return None

    def tr(self, node):
        text = ast.unparse(node)
        hit = self.lookup(node)
        if hit is not None:
            return hit
        if isinstance(node, ast.Constant):
            if node.value is None:
                return "none", "none"
            if isinstance(node.value, bool):
                return ("true" if node.value else "false"), "bool"
            if isinstance(node.value, str):
                return lean_str(node.value), "str"
            if isinstance(node.value, int) and node.value >= 0:
                return str(node.value), "nat"
            raise Untranslatable(text)
        if isinstance(node, ast.BoolOp):
            parts = [self.as_bool(v) for v in node.values]
            op = " && " if isinstance(node.op, ast.And) else " || "
            return "(" + op.join(parts) + ")", "bool"
        if isinstance(node, ast.UnaryOp) and isinstance(node.op, ast.Not):
            return "(!" + self.as_bool(node.operand) + ")", "bool"
        if isinstance(node, ast.Compare):
            terms = [node.left] + list(node.comparators)
            out = []
            for a, op, b in zip(terms, node.ops, terms[1:]):
                out.append(self.cmp(a, op, b))
            return "(" + " && ".join(out) + ")", "bool"
        if isinstance(node, ast.BinOp) and isinstance(node.op, (ast.Add, ast.Sub)):
            a, ta = self.tr(node.left)
            b, tb = self.tr(node.right)
            if ta == tb == "int":
                return "(%s %s %s)" % (a, "+" if isinstance(node.op, ast.Add) else "-", b), "int"
            if ta in ("int", "nat") and tb in ("int", "nat"):
                ca = a if ta == "int" else "(%s : Int)" % a
                cb = b if tb == "int" else "(%s : Int)" % b
                return "(%s %s %s)" % (ca, "+" if isinstance(node.op, ast.Add) else "-", cb), "int"
            raise Untranslatable(text)
        if isinstance(node, ast.Call) and isinstance(node.func, ast.Name) and node.func.id == "isinstance" and len(node.args) == 2:
            subj = ast.unparse(node.args[0])
            key = "isinstance(%s, _)" % subj
            if key not in self.env:
                raise Untranslatable(text)
            var, ty = self.env[key]
            try:
                cls = eval(compile(ast.Expression(node.args[1]), "<site>", "eval"), vars(self.module))
                classes = cls if isinstance(cls, tuple) else (cls,)
                tags = [c.tag_name() for c in classes]
            except Exception:  # noqa
                raise Untranslatable(text)
            return "(" + " || ".join("decide (%s = %s)" % (var, lean_str(t)) for t in tags) + ")", "bool"
        if isinstance(node, (ast.Attribute, ast.Name)):
            return self.const_of(node)
        raise Untranslatable(text)

    def as_bool(self, node):
        t, ty = self.tr(node)
        if ty == "bool":
            return t
        if ty == "onat":            # truthiness of an optional int: present and non-zero
            return "(match %s with | some v_ => decide (v_ ≠ 0) | none => false)" % t
        if ty == "nat":
            return "decide (%s ≠ 0)" % t
        if ty == "ostr":            # truthiness of an optional string: present and not empty
            return "(match %s with | some v_ => !v_.isEmpty | none => false)" % t
        raise Untranslatable("not boolean: " + ast.unparse(node))

    def cmp(self, a, op, b):
        if isinstance(op, (ast.In, ast.NotIn)):
            if not isinstance(b, (ast.Tuple, ast.List)):
                raise Untranslatable("membership in a non-literal collection")
            alts = [self.cmp(a, ast.Eq(), e) for e in b.elts]
            body = "(" + " || ".join(alts) + ")"
            return body if isinstance(op, ast.In) else "(!" + body + ")"
        ta, tya = self.tr(a)
        tb, tyb = self.tr(b)
        if isinstance(op, (ast.Is, ast.IsNot, ast.Eq, ast.NotEq)):
            neg = isinstance(op, (ast.IsNot, ast.NotEq))
            if tyb == "none" or tya == "none":
                x, tyx = (ta, tya) if tyb == "none" else (tb, tyb)
                if tyx in ("ostr", "onat"):
                    r = "%s.isNone" % x
                elif tyx == "none":
                    r = "true"
                else:
                    r = "false"             # a plain string / number is never None
                return "(!%s)" % r if neg else r
            if isinstance(op, (ast.Is, ast.IsNot)):
                raise Untranslatable("identity comparison of non-None values")
            if {tya, tyb} <= {"str", "ostr"}:
                la = ta if tya == "ostr" else "(some %s)" % ta
                lb = tb if tyb == "ostr" else "(some %s)" % tb
                if tya == tyb == "str":
                    la, lb = ta, tb
                r = "decide (%s = %s)" % (la, lb)
                return "(!%s)" % r if neg else r
            if tya == tyb == "bool":
                r = "decide (%s = %s)" % (ta, tb)
                return "(!%s)" % r if neg else r
            raise Untranslatable("equality between %s and %s" % (tya, tyb))
        if isinstance(op, (ast.Lt, ast.LtE, ast.Gt, ast.GtE)):
            sym = {ast.Lt: "<", ast.LtE: "≤", ast.Gt: ">", ast.GtE: "≥"}[type(op)]
            if tya == "onat" or tyb == "onat":
                # Python would raise on None; every curated site guards the comparison by `is not None` (short circuit),
                # so the value chosen for `none` is never consulted: false
                if tya == "onat" and tyb in ("nat",):
                    return "(match %s with | some v_ => decide (v_ %s %s) | none => false)" % (ta, sym, tb)
                if tyb == "onat" and tya in ("nat",):
                    return "(match %s with | some v_ => decide (%s %s v_) | none => false)" % (tb, ta, sym)
                raise Untranslatable("ordering with optional operands")
            if tya in ("nat", "int") and tyb in ("nat", "int"):
                if tya != tyb:
                    ta = ta if tya == "int" else "(%s : Int)" % ta
                    tb = tb if tyb == "int" else "(%s : Int)" % tb
                return "decide (%s %s %s)" % (ta, sym, tb)
            raise Untranslatable("ordering between %s and %s" % (tya, tyb))
        raise Untranslatable("operator " + type(op).__name__)


def find_function(tree, qualname):
    parts = qualname.split(".")
    node = tree
    for p in parts:
        found = None
        for ch in ast.iter_child_nodes(node):
            if isinstance(ch, (ast.ClassDef, ast.FunctionDef, ast.AsyncFunctionDef)) and ch.name == p:
                found = ch
                break
        if found is None:
            # a function defined inside a conditional block of its parent (`if polling_enabled: async def poll(): ...`)
            deeper = [ch for ch in ast.walk(node) if ch is not node
                      and isinstance(ch, (ast.ClassDef, ast.FunctionDef, ast.AsyncFunctionDef)) and ch.name == p]
            if len(deeper) != 1:
                return None
            found = deeper[0]
        node = found
    return node


def candidates(fn, kind):
    for node in ast.walk(fn):
        if kind == "if" and isinstance(node, ast.If):
            if not node.orelse and len(node.body) == 1 and isinstance(node.body[0], (ast.Continue, ast.Break)):
                # a guard (`if X: continue`): what lets the loop body proceed is `not X`
                yield ast.UnaryOp(op=ast.Not(), operand=node.test)
            else:
                yield node.test
        elif kind == "while" and isinstance(node, ast.While):
            yield node.test
        elif kind == "if" and isinstance(node, ast.comprehension):
            for c in node.ifs:
                yield c
        elif kind == "return" and isinstance(node, ast.Return) and node.value is not None:
            yield node.value
        elif kind.startswith("assign:") and isinstance(node, ast.Assign) and len(node.targets) == 1 \
                and ast.unparse(node.targets[0]) == kind.split(":", 1)[1]:
            yield node.value


def mentions(expr, names):
    """every name occurs in the expression's text; a name written `!x` must NOT occur"""
    text = ast.unparse(expr)
    return all((n[1:] not in text) if n.startswith("!") else (n in text) for n in names)


SITES = [
    # name, file, module, function, kind, must mention, lean binder, lean type, environment
    ("routerDeliver", "indi/routing/router.py", "indi.routing.router", "Router.process_message", "if", ["is_blob", "client_blob_policy"],
     "fun (isBlob : Bool) (p : Str) =>", "Bool → Str → Bool",
     {"is_blob": ("isBlob", "bool"), "client_blob_policy": ("p", "str")}),
    ("routerIsBlob", "indi/routing/router.py", "indi.routing.router", "Router.process_message", "assign:is_blob", ["isinstance", "message"],
     "fun (tag : Str) =>", "Str → Bool",
     {"isinstance(message, _)": ("tag", "str")}),
    ("driverAccepts", "indi/device/driver.py", "indi.device.driver", "Driver.accepts", "return", ["device"],
     "fun (device : Option Str) (name : Str) =>", "Option Str → Str → Bool",
     {"device": ("device", "ostr"), "self.name": ("name", "str")}),
    ("bufLoopGuard", "indi/transport/buffer.py", "indi.transport.buffer", "Buffer._find_message_in_buffer", "while", ["end", "len(data)"],
     "fun (pos : Nat) (len : Nat) =>", "Nat → Nat → Bool",
     {"end": ("pos", "nat"), "len(data)": ("len", "nat")}),
    ("bufCleanupDue", "indi/transport/buffer.py", "indi.transport.buffer", "Buffer.process", "if", ["max_buffer_size_before_frontal_cleanup", "data_len"],
     "fun (threshold : Option Nat) (n : Nat) =>", "Option Nat → Nat → Bool",
     {"self.max_buffer_size_before_frontal_cleanup": ("threshold", "onat"), "self.data_len": ("n", "nat")}),
    ("callbackAccepts", "indi/client/client.py", "indi.client.client", "_CallbackConfig.accepts_event", "return", ["self.device", "isinstance"],
     "fun (cbDev cbVec cbElem evDev evVec evElem : Option Str) (typeOk : Bool) =>", "Option Str → Option Str → Option Str → Option Str → Option Str → Option Str → Bool → Bool",
     {"self.device": ("cbDev", "ostr"), "self.vector": ("cbVec", "ostr"), "self.element": ("cbElem", "ostr"),
      "event.device.name if event.device else None": ("evDev", "ostr"), "event.vector.name if event.vector else None": ("evVec", "ostr"),
      "event.element.name if event.element else None": ("evElem", "ostr"), "isinstance(event, self.event_type)": ("typeOk", "bool")}),
    # --- Router: who is offered a message at all (C04, C05)
    ("routerToDevice", "indi/routing/router.py", "indi.routing.router", "Router.process_message", "if", ["device", "sender", "accepts"],
     "fun (isSender : Bool) (accepts : Bool) =>", "Bool → Bool → Bool",
     {"device == sender": ("isSender", "bool"), "device is sender": ("isSender", "bool"), "sender == device": ("isSender", "bool"), "sender is device": ("isSender", "bool"),
      "device != sender": ("(!isSender)", "bool"), "device is not sender": ("(!isSender)", "bool"),
      "device.accepts(message.device)": ("accepts", "bool")}),
    ("routerToClient", "indi/routing/router.py", "indi.routing.router", "Router.process_message", "if", ["client", "sender", "!client_blob_policy"],
     "fun (isSender : Bool) =>", "Bool → Bool",
     {"client == sender": ("isSender", "bool"), "client is sender": ("isSender", "bool"), "sender == client": ("isSender", "bool"), "sender is client": ("isSender", "bool"),
      "client != sender": ("(!isSender)", "bool"), "client is not sender": ("(!isSender)", "bool")}),
    # --- Buffer: a complete element that is not a message is skipped (C11, C12)
    ("bufSkip", "indi/transport/buffer.py", "indi.transport.buffer", "Buffer.process", "if", ["message", "end"],
     "fun (found : Bool) (e : Option Nat) =>", "Bool → Option Nat → Bool",
     {"message": ("found", "bool"), "end": ("e", "onat")}),
    # --- SwitchVector.apply_rule (C09)
    ("switchTurnsOn", "indi/device/properties/instance/vectors.py", "indi.device.properties.instance.vectors", "SwitchVector.apply_rule", "if", ["new_value"],
     "fun (v : Str) =>", "Str → Bool", {"new_value": ("v", "str")}),
    ("switchClearsOthers", "indi/device/properties/instance/vectors.py", "indi.device.properties.instance.vectors", "SwitchVector.apply_rule", "if", ["rule", "AT_MOST_ONE"],
     "fun (rule : Str) =>", "Str → Bool", {"*.rule": ("rule", "str")}),
    ("switchKeepsLast", "indi/device/properties/instance/vectors.py", "indi.device.properties.instance.vectors", "SwitchVector.apply_rule", "if", ["rule", "!AT_MOST_ONE"],
     "fun (rule : Str) =>", "Str → Bool", {"*.rule": ("rule", "str")}),
    ("switchIsOtherOn", "indi/device/properties/instance/vectors.py", "indi.device.properties.instance.vectors", "SwitchVector.apply_rule", "if", ["el", "sender", "!len("],
     "fun (other : Bool) (v : Str) =>", "Bool → Str → Bool",
     {"el != sender": ("other", "bool"), "el is not sender": ("other", "bool"), "sender != el": ("other", "bool"), "sender is not el": ("other", "bool"),
      "el == sender": ("(!other)", "bool"), "el is sender": ("(!other)", "bool"), "el.*": ("v", "str")}),
    ("switchNoOtherOn", "indi/device/properties/instance/vectors.py", "indi.device.properties.instance.vectors", "SwitchVector.apply_rule", "if", ["len("],
     "fun (n : Nat) =>", "Nat → Bool", {"len(_)": ("n", "nat")}),
    # --- a property is published only while it and its group are switched on (C07)
    ("vectorEnabled", "indi/device/properties/instance/vectors.py", "indi.device.properties.instance.vectors", "Vector.enabled", "return", ["group"],
     "fun (own : Bool) (grp : Bool) =>", "Bool → Bool → Bool",
     {"self.group.enabled": ("grp", "bool"), "self._group.enabled": ("grp", "bool"), "self.*": ("own", "bool")}),
    # --- waitforevent (C17)
    ("waitRelease", "indi/client/client.py", "indi.client.client", "BaseClient.waitforevent.cb", "if", ["release", "lock"],
     "fun (release : Bool) (lockSet : Bool) =>", "Bool → Bool → Bool",
     {"release": ("release", "bool"), "lock.is_set()": ("lockSet", "bool")}),
    ("waitPollGuard", "indi/client/client.py", "indi.client.client", "BaseClient.waitforevent.poll", "while", ["lock"],
     "fun (lockSet : Bool) =>", "Bool → Bool", {"lock.is_set()": ("lockSet", "bool")}),
    ("waitTimeoutGuard", "indi/client/client.py", "indi.client.client", "BaseClient.waitforevent.timeout_check", "if", ["lock"],
     "fun (lockSet : Bool) =>", "Bool → Bool", {"lock.is_set()": ("lockSet", "bool")}),
    ("waitTimeoutArmed", "indi/client/client.py", "indi.client.client", "BaseClient.waitforevent", "if", ["timeout", "!lock", "!result"],
     "fun (timeout : Option Nat) =>", "Option Nat → Bool", {"timeout": ("timeout", "onat")}),
    # --- the driver's event contract and publication guards (C14, C07)
    ("setValueDefault", "indi/device/properties/instance/elements.py", "indi.device.properties.instance.elements", "Element.set_value", "if", ["prevent_default"],
     "fun (vetoed : Bool) =>", "Bool → Bool", {"e.prevent_default": ("vetoed", "bool"), "*.prevent_default": ("vetoed", "bool")}),
    ("toSetSilent", "indi/device/properties/instance/vectors.py", "indi.device.properties.instance.vectors", "Vector.to_set_message", "if", ["enabled", "!e.enabled"],
     "fun (enabled : Bool) =>", "Bool → Bool", {"self.enabled": ("enabled", "bool")}),
    ("toDefDeletes", "indi/device/properties/instance/vectors.py", "indi.device.properties.instance.vectors", "Vector.to_def_message", "if", ["enabled", "!e.enabled"],
     "fun (enabled : Bool) =>", "Bool → Bool", {"self.enabled": ("enabled", "bool")}),
    ("driverGetAll", "indi/device/driver.py", "indi.device.driver", "Driver.message_from_client", "if", ["msg.name", "!in "],
     "fun (name : Option Str) =>", "Option Str → Bool", {"msg.name": ("name", "ostr")}),
]


def translate_all(repo=REPO):
    out, notes, all_terms = [], {}, {}
    for name, rel, modname, qual, kind, must, binder, ltype, env in SITES:
        term, why = None, None
        try:
            src = open(os.path.join(repo, rel), encoding="utf-8").read()
            fn = find_function(ast.parse(src), qual)
            if fn is None:
                raise Untranslatable("function %s not found" % qual)
            import decision_shapes
            recorded = decision_shapes.load().get(name)
            if recorded is not None and decision_shapes.digest(fn) != recorded:
                # restructured: one expression of it no longer is the whole decision (see tools/decision_shapes.py)
                raise Untranslatable("the control-flow skeleton of %s differs from the one the site was curated for" % qual)
            cands = [c for c in candidates(fn, kind) if mentions(c, must)]
            if not cands:
                raise Untranslatable("0 candidate expressions")
            module = importlib.import_module(modname)
            results = []
            for c in cands:
                t, ty = Tr(env, module).tr(c)
                results.append(Tr(env, module).as_bool(c) if ty != "bool" else t)
            # the same decision may be written at several places (a loop and a comprehension): `<name>?` is the first
            # reading, `<name>All` lists every reading - the theorems demand that ALL of them agree with the model
            term = results[0]
            all_terms[name] = results
            notes[name] = ast.unparse(cands[0])
        except Untranslatable as e:
            why = str(e)
        except Exception as e:  # noqa
            why = "%s: %s" % (type(e).__name__, e)
        if term is None:
            notes[name] = "FALLBACK: " + why
            out.append("def %s? : Option (%s) := none   -- %s" % (name, ltype, why.replace("\n", " ")[:200]))
        else:
            out.append("/-- `%s` in %s -/\ndef %s? : Option (%s) :=\n  some (%s %s)" % (notes[name].replace("-/", "- /"), qual, name, ltype, binder, term))
        out.append("/-- every place where that decision is written in %s (empty when the translator did not follow the site) -/\ndef %sAll : List (%s) :=\n  [%s]"
                   % (qual, name, ltype, ", ".join("(%s %s)" % (binder, x) for x in (all_terms.get(name) or []) if term is not None)))
    text = ("-- GENERATED by tools/extract_decisions.py from the working tree of the repository. Do not edit.\n"
            "import Indi.Model.Basic\nnamespace Indi.Generated\nopen Indi\n\n" + "\n\n".join(out) + "\n\nend Indi.Generated\n")
    return text, notes


if __name__ == "__main__":
    text, notes = translate_all()
    print(text)
    print(notes)
