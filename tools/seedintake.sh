#!/bin/sh
# tools/seedintake.sh <ID> <outdir> <n> [tier]
# validates a seeded change produced by a sub-agent (in a fresh scratch worktree built from its patch.diff, never the
# agent's own worktree and never /repo) and runs the property's check against it in an isolated copy of /verif:
#   demo passes on the clean checkout / fails with the change; pinned test suite passes with the change; ./check <ID>.
# writes /verif/seeded/<ID>-<n>/{patch.diff,demo.py,notes.md,validation.txt}
id="$1"; out="$2"; n="$3"; tier="${4:-quick}"
dst="/verif/seeded/$id-$n"; mkdir -p "$dst"
cp "$out/patch.diff" "$out/demo.py" "$dst/" ; [ -f "$out/notes.md" ] && cp "$out/notes.md" "$dst/"
v="$dst/validation.txt"; : > "$v"
wt="/var/tmp/sw-$id-$n"; git -C /repo worktree remove --force "$wt" 2>/dev/null; rm -rf "$wt"
git -C /repo worktree add -q --detach "$wt" HEAD || exit 3
cd "$wt" || exit 3
PYTHONPATH="$wt" DEMO_ANY_PATH=1 timeout 600 /venv/bin/python -B "$dst/demo.py" > /var/tmp/intake-$id.demo0 2>&1; a=$?
if git apply "$dst/patch.diff"; then echo "patch applies to the clean checkout ($(git diff --stat | tail -1))" >> "$v"; else echo "PATCH DOES NOT APPLY" >> "$v"; fi
PYTHONPATH="$wt" DEMO_ANY_PATH=1 timeout 600 /venv/bin/python -B "$dst/demo.py" > /var/tmp/intake-$id.demo1 2>&1; b=$?
echo "demo on clean checkout: exit $a ; with the change: exit $b" >> "$v"
tail -3 /var/tmp/intake-$id.demo1 | cut -c1-300 >> "$v"
echo "pinned suite with the change: $(PYTHONPATH="$wt" /venv/bin/python -B -m pytest -q -p no:cacheprovider --timeout=900 2>&1 | tail -1)" >> "$v"
# isolated copy of the machinery
cp="/var/tmp/vseed-$id-$n"; rm -rf "$cp"; mkdir -p "$cp"
rsync -a --exclude .git --exclude replays /verif/ "$cp/"
mkdir -p "$cp/ev" "$cp/rp"
( cd "$cp" && INDIPY_REPO="$wt" VERIF_EVIDENCE_DIR="$cp/ev" VERIF_REPLAY_DIR="$cp/rp" ./check "$id" "$tier" > "$cp/check.log" 2>&1; echo "check exit $?" >> "$cp/check.log" )
echo "--- ./check $id $tier against the changed tree:" >> "$v"
grep -E "VIOLATION|KNOWN-FINDING|fails on the implementation|disagree|proof side|check exit|seed=|harness" "$cp/check.log" | cut -c1-700 >> "$v"
cd /; git -C /repo worktree remove --force "$wt"; rm -rf "$cp" /var/tmp/intake-$id.*
cat "$v"
