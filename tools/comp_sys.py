"""Correspondence component `sys`: a whole deployment in one process —
real drivers (built from JSON definitions, optionally through class inheritance) + Router + real server TCP connection
handlers + fragmenting in-memory byte pipes + real client TCP connection handlers + `Client` (control + BLOB connection),
and in-process `SnoopingClient`s of other drivers.

Case: {"op": "sys", "devices": [definition | {"chain": [partial definitions...], "name": ...}], "frag": "1024"|"1"|"random",
       "clients": ["net" | "net-also" | "snoop:<driver index>"], "ops": [...], "oracles": [...]}
  driver ops  ["a"|"s", di, g, v, e, value]  ["st", di, g, v, state]  ["ev", di, g, v, bool]  ["eg", di, g, bool]
  client ops  ["cw", ci, device, property, {element: python value spec}]     assign + submit
              ["lagbatch", ci, [driver ops]]                                 the driver ops back to back while client ci's control connection lags its BLOB connection
              ["hs", ci, device|None, property|None]                        another handshake (getProperties for everything / a device / a property)
After every operation all in-flight bytes are delivered (quiescence).  Observed: every driver's state (encoded as for the
`dev` component) and every client's mirror (as for the `cli` component).
"""
import asyncio

from harness import Query, Watchdog, enc_bool, enc_list, enc_msg, enc_opt, enc_str, msg_view, time_limit
import comp_cli
import comp_codec
import comp_dev

NAME = "sys"


class Pipe:
    """one direction of a connection; the reader gets the bytes in fragments chosen by the case"""

    def __init__(self, frag, rng, hwm=None):
        self.buf = b""
        self.eof = False
        self.frag = frag
        self.rng = rng
        self.waiter = None
        self.total = 0
        self.hwm = hwm              # back-pressure: drain() of the writing side blocks while more than hwm bytes are unread
        self.drainers = []

    def feed(self, data):
        self.buf += data
        self.total += len(data)
        self.blob_updates = getattr(self, "blob_updates", 0) + data.count(b"<setBLOBVector")     # every message is written whole
        if self.waiter and not self.waiter.done():
            self.waiter.set_result(None)

    async def read(self, n):
        while not self.buf and not self.eof:
            self.waiter = asyncio.get_running_loop().create_future()
            await self.waiter
        if not self.buf:
            return b""
        k = n if self.frag == "1024" else 1 if self.frag == "1" else self.rng.choice([1, 2, 3, 7, 50, 333, 1024])
        k = max(1, min(k, n))
        out, self.buf = self.buf[:k], self.buf[k:]
        if self.hwm is not None and len(self.buf) <= self.hwm:
            for fut in self.drainers:
                if not fut.done():
                    fut.set_result(None)
            self.drainers = []
        await asyncio.sleep(0)
        return out


class PipeWriter:
    def __init__(self, pipe):
        self.pipe = pipe
        self.closed = False

    def write(self, data):
        self.pipe.feed(data)

    async def drain(self):
        p = self.pipe
        if p.hwm is None:
            await asyncio.sleep(0)
            return
        while len(p.buf) > p.hwm and not p.eof:
            fut = asyncio.get_running_loop().create_future()
            p.drainers.append(fut)
            await fut

    def close(self):
        self.closed = True
        self.pipe.eof = True
        for fut in self.pipe.drainers:
            if not fut.done():
                fut.set_result(None)
        if self.pipe.waiter and not self.pipe.waiter.done():
            self.pipe.waiter.set_result(None)


class FakeConnection:
    """what `Client` expects of a connection object: connect(callback, for_blobs) -> client-side ConnectionHandler"""

    def __init__(self, router, frag, rng, pipes, tasks, hwm=None):
        self.router, self.frag, self.rng, self.pipes, self.tasks, self.hwm = router, frag, rng, pipes, tasks, hwm

    async def connect(self, callback, for_blobs=False):
        from indi.transport.client import tcp as ctcp
        from indi.transport.server import tcp as stcp

        up, down = Pipe(self.frag, self.rng, self.hwm), Pipe(self.frag, self.rng, self.hwm)      # client->server, server->client
        self.pipes += [up, down]
        self.tasks.append(asyncio.get_running_loop().create_task(stcp.ConnectionHandler.handler(self.router)(up, PipeWriter(down))))
        await asyncio.sleep(0)
        h = ctcp.ConnectionHandler(down, PipeWriter(up), callback, for_blobs=for_blobs)
        h.up, h.down = up, down
        return h


async def quiesce(pipes):
    calm = 0
    for _ in range(200000):
        await asyncio.sleep(0)
        if any(p.buf for p in pipes):
            calm = 0
        else:
            calm += 1
            if calm > 30:
                return
    raise Watchdog("the system does not become quiescent")


def build_chain(spec, log, tasklog, router):
    """a driver whose groups are spread over a chain of classes (inheritance depth = len(chain))"""
    from indi.device import Driver

    if "chain" not in spec:
        return comp_dev.build_driver(spec, log, tasklog, router), spec
    base = Driver
    merged = {"name": spec["name"], "groups": []}
    cls = None
    for n, part in enumerate(spec["chain"]):
        d = dict(part)
        d["name"] = spec["name"]
        cls = comp_dev.make_class(d, log, tasklog, (base,))
        if spec.get("warm") and n + 1 < len(spec["chain"]):
            # the application also uses the base driver class on its own (an instance without a router), before the derived one
            cls(router=None)
            if spec["warm"] == "sibling":
                comp_dev.make_class(dict(d, groups=[]), log, tasklog, (cls,))(router=None)
        base = cls
        keys = [g["key"] for g in part["groups"]]
        merged["groups"] = [g for g in merged["groups"] if g["key"] not in keys] + part["groups"]
    inst = cls(router=router)
    have = {g["key"] for g in merged["groups"] if inst.get_group(g["key"]) is not None}
    extra = {k for part in spec["chain"] for g in part["groups"] for k in [g["key"]] if inst.get_group(k) is not None} - {g["key"] for g in merged["groups"]}
    if have != {g["key"] for g in merged["groups"]} or extra:
        raise BrokenDefinition("driver %s built by subclassing has groups %s, its classes define %s" % (
            spec["name"], sorted(have | extra), sorted(g["key"] for g in merged["groups"])))
    return inst, merged


class BrokenDefinition(Exception):
    pass


def run_case(case):
    import random

    import indi.message
    from indi.client.client import Client
    from indi.routing import Router

    rng = random.Random(case.get("frag_seed", 0))
    old_now = indi.message.now
    indi.message.now = lambda: "T"

    async def main():
        router = Router()
        pipes, tasks = [], []
        log, tasklog = [], []
        drivers, defns = [], []
        for spec in case["devices"]:
            d, merged = build_chain(spec, log, tasklog, router)
            drivers.append(d)
            defns.append(merged)
        clients = []
        for c in case["clients"]:
            if c.startswith("snoop"):
                di = int(c.split(":")[1])
                sc = drivers[di].snooping_client
                sc.handshake()
                if c.startswith("snoop-also"):
                    # an in-process client that wants the BLOBs too (a driver processing another driver's frames)
                    from indi import message as _m
                    for d in drivers:
                        sc.send_message(_m.EnableBLOB(device=d.name, value="Also"))
                clients.append(sc)
            else:
                hwm = case.get("backpressure")
                cl = Client(FakeConnection(router, case["frag"], rng, pipes, tasks, hwm), FakeConnection(router, case["frag"], rng, pipes, tasks, hwm))
                await cl.start()
                if c == "net-also":
                    pass
                clients.append(cl)
        await quiesce(pipes)
        if any(c == "net-also" for c in case["clients"]):
            from indi import message
            for c, cl in zip(case["clients"], clients):
                if c == "net-also":
                    for d in drivers:
                        cl.control_connection_handler.send_message(message.EnableBLOB(device=d.name, value="Also"))
            await quiesce(pipes)
        obs = [{"drivers": [comp_dev.enc_device(d, df) for d, df in zip(drivers, defns)],
                "states": [comp_dev.enc_state(d, df) for d, df in zip(drivers, defns)],
                "mirrors": [comp_cli.enc_mirror(c) for c in clients], "exc": None}]
        for op in case["ops"]:
            exc = None
            try:
                if op[0] in ("a", "s", "st", "ev", "eg"):
                    di = op[1]
                    comp_dev.apply_op(drivers[di], defns[di], [op[0]] + op[2:])
                elif op[0] == "cw":
                    _, ci, dev, prop, values = op
                    vec = clients[ci][dev][prop]
                    for en, val in values.items():
                        vec[en].value = comp_dev.py_value(val) if isinstance(val, dict) else val
                    vec.submit()
                elif op[0] == "ca":
                    # assign without submitting: the values stay pending on the client until submit(), whatever arrives meanwhile
                    _, ci, dev, prop, values = op
                    vec = clients[ci][dev][prop]
                    for en, val in values.items():
                        vec[en].value = comp_dev.py_value(val) if isinstance(val, dict) else val
                elif op[0] == "cs":
                    clients[op[1]][op[2]][op[3]].submit()
                elif op[0] == "craw":
                    # a message the client API would not build (a write naming an element the property does not have),
                    # sent as it is on the client's control connection
                    clients[op[1]].control_connection_handler.send_message(comp_codec.build(op[2]))
                elif op[0] == "lagbatch":
                    # several driver operations back to back while the server->client direction of client ci's CONTROL
                    # connection lags behind its BLOB connection (a legitimate network schedule); then everything is delivered
                    down = clients[op[1]].control_connection_handler.down
                    held, feed = [], down.feed
                    down.feed = held.append
                    try:
                        for sub in op[2]:
                            comp_dev.apply_op(drivers[sub[1]], defns[sub[1]], [sub[0]] + sub[2:])
                            for _ in range(40):
                                await asyncio.sleep(0)
                        await quiesce([p for p in pipes if p is not down])
                    finally:
                        down.feed = feed
                        for data in held:
                            feed(data)
                elif op[0] == "hs":
                    clients[op[1]].handshake(op[2] if len(op) > 2 else None, op[3] if len(op) > 3 else None)
                elif op[0] == "burst":
                    # operations in quick succession while earlier traffic is still in flight (with back-pressure: while
                    # earlier messages are still queued on the connections' sender locks); gaps = loop iterations in between
                    for sub, gap in zip(op[1], op[2]):
                        if sub[0] == "cw":
                            _, ci, dev, prop, values = sub
                            vec = clients[ci][dev][prop]
                            for en, val in values.items():
                                vec[en].value = comp_dev.py_value(val) if isinstance(val, dict) else val
                            vec.submit()
                        else:
                            comp_dev.apply_op(drivers[sub[1]], defns[sub[1]], [sub[0]] + sub[2:])
                        for _ in range(gap):
                            await asyncio.sleep(0)
            except Exception as e:  # noqa
                exc = type(e).__name__
            await quiesce(pipes)
            obs.append({"drivers": [comp_dev.enc_device(d, df) for d, df in zip(drivers, defns)],
                        "states": [comp_dev.enc_state(d, df) for d, df in zip(drivers, defns)],
                        "mirrors": [comp_cli.enc_mirror(c) for c in clients], "exc": exc,
                        "alive": [not t.done() for t in tasks]})
        # what travelled on each network client's CONTROL connection (server -> client): BLOB updates belong there only if the
        # client asked for them on that connection (enableBLOB Also)
        obs[-1]["control_blob_updates"] = [None if c.startswith("snoop") else getattr(cl.control_connection_handler.down, "blob_updates", 0)
                                           for c, cl in zip(case["clients"], clients)]
        for t in tasks:
            t.cancel()
        for t in asyncio.all_tasks():
            if t is not asyncio.current_task():
                t.cancel()
        await asyncio.sleep(0)
        from indi.transport.server import tcp as stcp
        stcp.ConnectionHandler.connections[:] = []
        return obs, defns

    try:
        with time_limit(60):
            return asyncio.run(main())
    finally:
        indi.message.now = old_now


def blob_redefined_then_updated(ops, defns):
    """does the batch (re)define a BLOB property (enabling it or its group) and later publish an update of it?"""
    defined = set()
    for op in ops:
        di = op[1]
        groups = defns[di]["groups"]
        if op[0] == "ev" and op[4] and groups[op[2]]["vectors"][op[3]]["kind"] == "blob":
            defined.add((di, op[2], op[3]))
        elif op[0] == "eg" and op[3]:
            defined |= {(di, op[2], vi) for vi, v in enumerate(groups[op[2]]["vectors"]) if v["kind"] == "blob"}
        elif op[0] in ("a", "s", "st") and (di, op[2], op[3]) in defined:
            return True
    return False


def wire_len_estimate(value):
    if isinstance(value, dict) and "b" in value:
        return len(value["b"]) // 2 * 4 // 3 + 200
    return 0


def peer_blobs(kind):
    """does setBLOBVector reach this client (network clients through their BLOB connection; in-process ones only if they asked)"""
    return not kind.startswith("snoop") or kind.startswith("snoop-also")


def run_impl(case, outcome):
    try:
        obs, defns = run_case(case)
    except Watchdog as e:
        return [Query("spec istrue False", "True", "oracle", "the deployment hangs: %s" % e)]
    except BrokenDefinition as e:
        return [Query("spec istrue False", "True", "oracle", str(e))]
    want = set(case.get("oracles") or ["C01"])
    qs = []
    outcome.nontrivial.add(str(case["ops"]) + case["frag"] + str(case["clients"]))
    outcome.count("frag:" + case["frag"])
    for n, o in enumerate(obs):
        op = case["ops"][n - 1] if n else ["start"]
        outcome.count("op:" + op[0])
        if o["exc"]:
            outcome.count("exc:" + o["exc"])
        if "C01" in want:
            for ci, mir in enumerate(o["mirrors"]):
                for di, dev in enumerate(o["drivers"]):
                    qs.append(Query("spec c01 %s %s %s" % (peer_blobs(case["clients"][ci]), dev, mir), "True", "oracle",
                                    "after %r client %d (%s) does not see device %d as it is" % (op[:5], ci, case["clients"][ci], di)))
        if n and "C06" in want and op[0] == "cs":
            # the submit of an earlier assignment: the values are those of the matching "ca"
            prior = [o2 for o2 in case["ops"][:n - 1] if o2[0] == "ca" and o2[1:4] == op[1:4]]
            if prior:
                op = ["cw"] + prior[-1][1:]
        if n and "C06" in want and op[0] == "cw":
            _, ci, dname, prop, values = op
            before, after = obs[n - 1], o
            children = []
            for en, val in values.items():
                children.append("%s %s" % (enc_str(en), comp_dev.enc_jvalue(val) if isinstance(val, dict) else "T " + enc_str(str(val))))
            for di, (b, a) in enumerate(zip(before["drivers"], after["drivers"])):
                qs.append(Query("spec c06 %s %s %s %s %s" % (b, enc_str(dname), enc_str(prop), enc_list(lambda x: x, children), a), "True", "oracle",
                                "client write %r: device %d does not hold exactly the submitted values / something else changed" % (op[1:], di)))
        if n and "C08" in want and op[0] in ("a", "s") and isinstance(op[5], dict) and "b" in op[5]:
            di = op[1]
            for ci, kind in enumerate(case["clients"]):
                policy = "Only" if kind == "net" else "Also" if kind in ("net-also",) or kind.startswith("snoop-also") else "Never"
                qs.append(Query("spec c08 %s %s %d %d %d %s %s" % (policy, o["drivers"][di], op[2], op[3], op[4], obs[n - 1]["mirrors"][ci], o["mirrors"][ci]),
                                "True", "oracle", "BLOB %d bytes published by device %d: client %d (%s) holds the wrong thing" % (len(op[5]["b"]) // 2, di, ci, kind)))
    for n, op in enumerate(case["ops"]):
        if op[0] == "burst" and "C08" in want:
            o = obs[n + 1]
            for sub in op[1]:
                if sub[0] in ("a", "s") and isinstance(sub[5], dict) and "b" in sub[5]:
                    for ci, kind in enumerate(case["clients"]):
                        policy = "Only" if kind == "net" else "Also" if kind in ("net-also",) or kind.startswith("snoop-also") else "Never"
                        qs.append(Query("spec c08 %s %s %d %d %d %s %s" % (policy, o["drivers"][sub[1]], sub[2], sub[3], sub[4], obs[n]["mirrors"][ci], o["mirrors"][ci]),
                                        "True", "oracle", "BLOB %d bytes published by device %d in a burst under back-pressure: client %d (%s) holds the wrong thing"
                                        % (len(sub[5]["b"]) // 2, sub[1], ci, kind)))
    if "C08" in want:
        for ci, (kind, nblob) in enumerate(zip(case["clients"], obs[-1].get("control_blob_updates") or [])):
            if kind == "net" and nblob:
                qs.append(Query("spec istrue False", "True", "oracle",
                                "C08: a connection that did not enable BLOBs (client %d's control connection) was sent %d BLOB payload update(s)" % (ci, nblob)))
    if "alive" in obs[-1] and not all(obs[-1]["alive"]):
        qs.append(Query("spec istrue False", "True", "oracle", "a server connection handler ended during the session"))
    # known finding: an element longer than the junk-recovery threshold on a thresholded connection (uploads; BLOBs to an Also client)
    big = any(wire_len_estimate(v) > 2048 for op in case["ops"] if op[0] == "cw" for v in op[4].values())
    big_also = any(wire_len_estimate(op[5]) > 2048 for op in case["ops"] if op[0] in ("a", "s") and len(op) > 5) and "net-also" in case["clients"]
    if any(op[0] in ("lagbatch", "burst") and blob_redefined_then_updated(op[2] if op[0] == "lagbatch" else [s for s in op[1] if s[0] != "cw"], defns) for op in case["ops"]):
        # known finding: a BLOB property's definition (control connection) overtaken by a later update of it (BLOB connection)
        case["kf_keys"] = ["two-connection-reordering"]
    if big or big_also:
        case["kf_keys"] = ["element-over-threshold"]
    elif not any(op[0] in ("lagbatch", "burst", "craw") for op in case["ops"]):
        # correspondence: the Lean deployment model (Model/Sys.lean), step by step from the observed state:
        # the observed next state must be one the model allows (any interleaving of control and BLOB connection)
        kinds = ["%s %s %s" % (peer_blobs(c), c.startswith("snoop"), c == "net-also") for c in case["clients"]]
        qs.append(Query("sys start %s %s %s" % (enc_list(lambda x: x, obs[0]["drivers"]), enc_list(lambda x: x, kinds), enc_list(lambda x: x, obs[0]["mirrors"])),
                        "ok", "corr"))
        for n, op in enumerate(case["ops"]):
            if op[0] in ("a", "s"):
                mop = "d %d %s" % (op[1], comp_dev.enc_op([op[0], op[2], op[3], op[4], op[5] if len(op) > 5 else None]))
            elif op[0] in ("st", "ev", "eg"):
                mop = "d %d %s" % (op[1], comp_dev.enc_op([op[0]] + op[2:]))
            elif op[0] == "cw":
                ws = ["%s %s" % (enc_str(en), comp_cli.enc_cval(comp_dev.py_value(val) if isinstance(val, dict) else val)) for en, val in op[4].items()]
                mop = "cw %d %s %s %s" % (op[1], enc_str(op[2]), enc_str(op[3]), enc_list(lambda x: x, ws))
            elif op[0] == "hs":
                mop = "hs %d %s %s" % (op[1], enc_opt(op[2] if len(op) > 2 else None), enc_opt(op[3] if len(op) > 3 else None))
            elif op[0] == "cs":
                prior = [o2 for o2 in case["ops"][:n] if o2[0] == "ca" and o2[1:4] == op[1:4]]
                if not prior:
                    continue
                ws = ["%s %s" % (enc_str(en), comp_cli.enc_cval(comp_dev.py_value(val) if isinstance(val, dict) else val)) for en, val in prior[-1][4].items()]
                mop = "cw %d %s %s %s" % (op[1], enc_str(op[2]), enc_str(op[3]), enc_list(lambda x: x, ws))
            else:
                continue
            b, a = obs[n], obs[n + 1]
            peers = ["%s %s" % (k, m) for k, m in zip(kinds, b["mirrors"])]
            qs.append(Query("sys next %s %s %s %s %s" % (enc_list(lambda x: x, b["drivers"]), enc_list(lambda x: x, peers), mop,
                                                         enc_list(lambda x: x, a["drivers"]), enc_list(lambda x: x, a["mirrors"])), "ok", "corr"))
    return qs


# --------------------------------------------------------------------------
# generators


def simple_devices(rng, n, handlers=False):
    devs = []
    for i in range(n):
        d = comp_dev.random_definition(rng, name="DEV%d" % i, handlers=handlers)
        # distinct property names per device, everything well-formed
        seen = set()
        for g in d["groups"]:
            for v in g["vectors"]:
                while v["name"] in seen:
                    v["name"] += "x"
                seen.add(v["name"])
                names = set()
                for e in v["elements"]:
                    while e["name"] in names:
                        e["name"] += "x"
                    names.add(e["name"])
                    e.pop("refresh", None)
                    e["enabled"] = True
        devs.append(d)
    return devs


def chain_device(rng, name, depth):
    """groups spread over an inheritance chain of the given depth"""
    full = simple_devices(rng, 1)[0]
    groups = full["groups"]
    while len(groups) < depth:
        extra = simple_devices(rng, 1)[0]["groups"][0]
        extra["key"] = "g%d" % len(groups)
        extra["name"] = "G%d" % len(groups)
        for v in extra["vectors"]:
            v["name"] = "X%d%s" % (len(groups), v["name"])
        groups.append(extra)
    chain = [{"groups": []} for _ in range(depth)]
    for i, g in enumerate(groups):
        chain[i % depth]["groups"].append(g)
    return {"name": name, "chain": chain, "warm": rng.choice([None, "base", "sibling"])}


def random_driver_op(rng, di, defn):
    gi = rng.randrange(len(defn["groups"]))
    g = defn["groups"][gi]
    vi = rng.randrange(len(g["vectors"]))
    v = g["vectors"][vi]
    ei = rng.randrange(len(v["elements"]))
    r = rng.random()
    if r < 0.55:
        return [rng.choice(["a", "s"]), di, gi, vi, ei, comp_dev.random_value(rng, v["kind"])]
    if r < 0.7:
        return ["st", di, gi, vi, rng.choice(comp_dev.STATES)]
    if r < 0.9:
        return ["ev", di, gi, vi, rng.random() < 0.5]
    return ["eg", di, gi, rng.random() < 0.5]


def merged_of(spec):
    if "chain" not in spec:
        return spec
    groups = []
    for part in spec["chain"]:
        keys = [g["key"] for g in part["groups"]]
        groups = [g for g in groups if g["key"] not in keys] + part["groups"]
    return {"name": spec["name"], "groups": groups}


def client_write_op(rng, ci, spec):
    d = merged_of(spec)
    cands = [(g, v) for g in d["groups"] for v in g["vectors"] if v["kind"] != "light" and v.get("enabled", True) and g.get("enabled", True)]
    if not cands:
        return None
    g, v = rng.choice(cands)
    els = rng.sample(v["elements"], rng.randint(1, len(v["elements"])))
    vals = {}
    for e in els:
        k = v["kind"]
        if k == "text":
            vals[e["name"]] = rng.choice(["new", "a<b&c", "é", "x y", "v%d" % rng.randrange(9)])
        elif k == "number":
            vals[e["name"]] = rng.choice(["12", "-1.5", "12:30", "-0:30:00.5", "7;15", "100.", "+3", "1 30 00", "12:30.5", "-0:06.5", "7 45.25", "7;45.2", ".5",
                                          "9007199254740993", "-1234567890123456789", "18014398509481985"])     # integers a double cannot hold
        elif k == "switch":
            vals[e["name"]] = rng.choice(["On", "Off"])
        else:
            vals[e["name"]] = {"b": bytes(rng.randrange(256) for _ in range(rng.choice([0, 1, 5, 100]))).hex(), "fmt": ".bin"}
    return ["cw", ci, d["name"], v["name"], vals]


def gen_c01(rng, tier):
    n = 250 if tier == "thorough" else 40
    for _ in range(n):
        nd = rng.randint(1, 3)
        devices = simple_devices(rng, nd)
        if rng.random() < 0.5:
            devices[0] = chain_device(rng, "DEV0", rng.randint(2, 3))
        clients = rng.choice([["net"], ["net", "snoop:0"], ["net", "net"], ["snoop:0"]]) if nd == 1 else rng.choice([["net"], ["net", "snoop:1"], ["net", "net"]])
        ops = []
        for _k in range(rng.randint(3, 18)):
            if rng.random() < 0.75:
                di = rng.randrange(nd)
                ops.append(random_driver_op(rng, di, merged_of(devices[di])))
            elif rng.random() < 0.7:
                ci = rng.randrange(len(clients))
                w = client_write_op(rng, ci, devices[rng.randrange(nd)])
                if w:
                    ops.append(w)
            else:
                # another handshake: for everything, for one device, for one property (known or not)
                ci = rng.randrange(len(clients))
                d = merged_of(devices[rng.randrange(nd)])
                vs = [v["name"] for g in d["groups"] for v in g["vectors"]]
                ops.append(["hs", ci] + rng.choice([[None, None], [d["name"], None], [d["name"], rng.choice(vs)], [d["name"], "NOSUCH"], ["NODEV", None]]))
        yield {"op": "sys", "devices": devices, "clients": clients, "frag": rng.choice(["1024", "1", "random"]), "frag_seed": rng.randrange(10 ** 6),
               "ops": ops, "oracles": ["C01"]}


def gen_c01_lag(rng, tier):
    """driver operations back to back (no quiescence in between) while a network client's control connection lags its BLOB connection"""
    for k in range(40 if tier == "thorough" else 8):
        dev = blob_device()
        dev["groups"][0]["vectors"][0]["enabled"] = rng.random() < 0.5
        # 1. batches that do not (re)define the BLOB property: must converge
        batch = []
        for _ in range(rng.randint(2, 6)):
            batch.append(rng.choice([["a", 0, 0, 1, 0, {"t": "v%d" % rng.randrange(9)}], ["st", 0, 0, 1, rng.choice(comp_dev.STATES)],
                                     ["ev", 0, 0, 1, rng.random() < 0.5], ["st", 0, 0, 0, rng.choice(comp_dev.STATES)],
                                     ["a", 0, 0, 0, 0, {"b": "%02x" % rng.randrange(256), "fmt": ".x"}]]))
        yield {"op": "sys", "devices": [dev], "clients": ["net", "snoop:0"], "frag": rng.choice(["1024", "1", "random"]), "frag_seed": rng.randrange(10 ** 6),
               "ops": [["lagbatch", 0, batch], ["a", 0, 0, 1, 0, {"t": "after"}]], "oracles": ["C01"]}
    # 2. the BLOB property is defined and then updated within the batch: its definition is overtaken (known finding)
    dev = blob_device()
    dev["groups"][0]["vectors"][0]["enabled"] = False
    yield {"op": "sys", "devices": [dev], "clients": ["net"], "frag": "1024", "frag_seed": 1,
           "ops": [["lagbatch", 0, [["ev", 0, 0, 0, True], ["st", 0, 0, 0, "Busy"]]]], "oracles": ["C01"]}


def gen_c06(rng, tier):
    n = 250 if tier == "thorough" else 40
    for _ in range(n):
        nd = rng.randint(1, 3)
        devices = simple_devices(rng, nd)
        # every property enabled so that the writes have targets
        for d in devices:
            for g in d["groups"]:
                g["enabled"] = True
                for v in g["vectors"]:
                    v["enabled"] = True
        clients = rng.choice([["net"], ["net", "net"], ["net", "snoop:0"]])
        ops = []
        for _k in range(rng.randint(2, 10)):
            w = client_write_op(rng, 0, devices[rng.randrange(nd)])
            if w:
                ops.append(w)
        yield {"op": "sys", "devices": devices, "clients": clients, "frag": rng.choice(["1024", "1", "random"]), "frag_seed": rng.randrange(10 ** 6),
               "ops": ops, "oracles": ["C06", "C01"]}


def gen_c06_subsets(rng, tier):
    """successive writes to DIFFERENT element subsets of one property, the device moving on in between: a write addresses the
    elements it lists and no others - a later write must not re-send what an earlier one sent"""
    n = 120 if tier == "thorough" else 24
    done = 0
    for _ in range(n * 6):
        if done >= n:
            break
        devices = simple_devices(rng, 1)
        for d in devices:
            for g in d["groups"]:
                g["enabled"] = True
                for v in g["vectors"]:
                    v["enabled"] = True
        d = merged_of(devices[0])
        cands = [(gi, vi, v) for gi, g in enumerate(d["groups"]) for vi, v in enumerate(g["vectors"])
                 if v["kind"] in ("text", "number") and len(v["elements"]) >= 2 and len({e["name"] for e in v["elements"]}) == len(v["elements"])
                 and all(e.get("enabled", True) for e in v["elements"]) and v.get("perm", "rw") != "ro"
                 and sum(1 for g2 in d["groups"] for v2 in g2["vectors"] if v2["name"] == v["name"]) == 1]
        if not cands:
            continue
        gi, vi, v = rng.choice(cands)
        names = [e["name"] for e in v["elements"]]
        text = v["kind"] == "text"
        first, second, third = ("one", "two", "three") if text else ("11", "22", "33")
        moved = {"t": "moved"} if text else {"n": 44}
        ops = [["cw", 0, d["name"], v["name"], {names[0]: first}],
               ["a", 0, gi, vi, 0, moved],                                   # the device changes that element on its own
               ["cw", 0, d["name"], v["name"], {names[1]: second}],           # must leave names[0] alone
               ["cw", 0, d["name"], v["name"], {names[-1]: third}]]
        done += 1
        yield {"op": "sys", "devices": devices, "clients": rng.choice([["net"], ["net", "snoop:0"]]), "frag": rng.choice(["1024", "1", "random"]),
               "frag_seed": rng.randrange(10 ** 6), "ops": ops, "oracles": ["C06", "C01"]}


def gen_c06_misaddressed(rng, tier):
    """a write that names an element its property does not have (ignored, with a warning) must not cost a LATER valid write to an
    element of that name elsewhere - same device or another one - anything"""
    n = 60 if tier == "thorough" else 16
    done = 0
    for _ in range(n * 8):
        if done >= n:
            break
        devices = simple_devices(rng, rng.choice([1, 2]))
        for d in devices:
            for g in d["groups"]:
                g["enabled"] = True
                for v in g["vectors"]:
                    v["enabled"] = True
        vecs = [(di, merged_of(spec)["name"], v) for di, spec in enumerate(devices) for g in merged_of(spec)["groups"] for v in g["vectors"]
                if v["kind"] in ("text", "number", "switch") and v.get("perm", "rw") != "ro" and all(e.get("enabled", True) for e in v["elements"])
                and len({e["name"] for e in v["elements"]}) == len(v["elements"])]
        pairs = [(a, b, en) for a in vecs for b in vecs if a is not b and a[2]["kind"] == b[2]["kind"]
                 for en in [e["name"] for e in b[2]["elements"]] if en not in [e["name"] for e in a[2]["elements"]]]
        pairs = [(a, b, en) for a, b, en in pairs
                 if sum(1 for x in vecs if x[0] == b[0] and x[2]["name"] == b[2]["name"]) == 1]
        if not pairs:
            continue
        a, b, en = rng.choice(pairs)
        kind = b[2]["kind"]
        val = {"text": "late", "number": "42", "switch": "On"}[kind]
        tag = {"text": "Text", "number": "Number", "switch": "Switch"}[kind]
        raw = {"cls": "indi.message.news.New%sVector" % tag, "kw": {"device": a[1], "name": a[2]["name"]},
               "children": [{"cls": "indi.message.one_parts.One%s" % tag, "kw": {"name": en, "value": val}, "children": None}]}
        ops = [["craw", 0, raw], ["cw", 0, b[1], b[2]["name"], {en: val}]]
        done += 1
        yield {"op": "sys", "devices": devices, "clients": ["net"], "frag": rng.choice(["1024", "1", "random"]), "frag_seed": rng.randrange(10 ** 6),
               "ops": ops, "oracles": ["C06", "C01"]}


def gen_c06_pending(rng, tier):
    """a value assigned on the client stays pending until submit(): an update of the same element arriving in between (the device
    moved on, another client wrote, the echo of an earlier write) must not make the later submit lose it"""
    n = 120 if tier == "thorough" else 24
    for _ in range(n):
        devices = simple_devices(rng, 1)
        for d in devices:
            for g in d["groups"]:
                g["enabled"] = True
                for v in g["vectors"]:
                    v["enabled"] = True
        d = merged_of(devices[0])
        w = client_write_op(rng, 0, devices[0])
        if not w:
            continue
        _, ci, dname, prop, values = w
        gi, vi = [(gi, vi) for gi, g in enumerate(d["groups"]) for vi, v in enumerate(g["vectors"]) if v["name"] == prop][0]
        v = d["groups"][gi]["vectors"][vi]
        names = [e["name"] for e in v["elements"]]
        ops = [["ca", 0, dname, prop, values]]
        # meanwhile: the driver changes the same elements, and/or a second client writes them
        for en in list(values)[:2]:
            ei = names.index(en)
            ops.append(["a", 0, gi, vi, ei, comp_dev.random_value(rng, v["kind"])])
        if rng.random() < 0.5:
            w2 = client_write_op(rng, 1, devices[0])
            if w2:
                ops.append(w2)
        ops.append(["cs", 0, dname, prop])
        yield {"op": "sys", "devices": devices, "clients": ["net", "net"], "frag": rng.choice(["1024", "1", "random"]), "frag_seed": rng.randrange(10 ** 6),
               "ops": ops, "oracles": ["C06", "C01"]}


def blob_device():
    return {"name": "CAM", "groups": [{"key": "g0", "name": "G0", "enabled": True, "vectors": [
        {"key": "v0", "name": "IMG", "kind": "blob", "state": "Ok", "enabled": True, "perm": "rw", "timeout": 0,
         "elements": [{"key": "e0", "name": "img", "default": None, "enabled": True}, {"key": "e1", "name": "aux", "default": None, "enabled": True}]},
        {"key": "v1", "name": "TXT", "kind": "text", "state": "Ok", "enabled": True, "perm": "rw", "timeout": 0,
         "elements": [{"key": "e0", "name": "t", "default": {"t": "x"}, "enabled": True}]}]}]}


def gen_c08(rng, tier):
    thorough = tier == "thorough"
    sizes = list(range(0, 40)) + [700, 760, 765, 766, 767, 768, 769, 770, 1000, 1023, 1024, 1025, 1400, 1500, 1530, 1536, 1540, 2047, 2048, 2049, 3000, 5000]
    if thorough:
        sizes = list(range(0, 3100, 1 if False else 13)) + list(range(700, 800)) + list(range(1500, 1560)) + [100000, 1000000]
    for frag in ["1024", "1", "random"]:
        for size in sizes:
            if frag == "1" and size > 3000:
                continue
            if not thorough and frag != "1024" and size % 3 and size not in (766, 767, 768, 1024, 1536):
                continue
            data = bytes(rng.randrange(256) for _ in range(size)) if size < 20000 else bytes(range(256)) * (size // 256)
            ops = [["a", 0, 0, 0, 0, {"b": data.hex(), "fmt": rng.choice([".fits", ".x", ""])}], ["a", 0, 0, 1, 0, {"t": "after"}]]
            yield {"op": "sys", "devices": [blob_device()], "clients": ["net", "snoop:0", "net-also"] if size <= 1300 else ["net", "snoop:0"], "frag": frag,
                   "frag_seed": rng.randrange(10 ** 6), "ops": ops, "oracles": ["C08", "C01"]}
            # upload client -> driver
            if size <= 1300 or thorough or (frag == "1024" and size in (1536, 3000)):
                yield {"op": "sys", "devices": [blob_device()], "clients": ["net"], "frag": frag, "frag_seed": rng.randrange(10 ** 6),
                       "ops": [["cw", 0, "CAM", "IMG", {"img": {"b": data.hex(), "fmt": ".bin"}}], ["cw", 0, "CAM", "TXT", {"t": "after"}]], "oracles": ["C06", "C01"]}
    # an in-process client that enabled BLOBs, registered BEFORE the network client: both are handed the same update
    for frag in ["1024", "random"]:
        for size in (1, 300, 1500) if not thorough else (1, 3, 300, 768, 1500, 5000):
            data = bytes(rng.randrange(256) for _ in range(size))
            ops = [["a", 0, 0, 0, 0, {"b": data.hex(), "fmt": ".fits"}], ["a", 0, 0, 1, 0, {"t": "after"}], ["a", 0, 0, 0, 0, {"b": data[::-1].hex(), "fmt": ".x"}]]
            yield {"op": "sys", "devices": [blob_device()], "clients": ["snoop-also:0", "net"], "frag": frag, "frag_seed": rng.randrange(10 ** 6),
                   "ops": ops, "oracles": ["C08", "C01"]}
    # a driver that keeps one BLOB object per element (a frame buffer), refills it and publishes it again: same length, longer, shorter
    for frag in ["1024", "random"]:
        frames = [bytes(rng.randrange(256) for _ in range(n)) for n in (300, 300, 300, 1200, 40, 40, 0, 300)]
        ops = [["a", 0, 0, 0, 0, {"b": frames[0].hex(), "fmt": ".fits"}]]
        for fr in frames[1:]:
            ops.append([rng.choice(["a", "s"]), 0, 0, 0, 0, {"b": fr.hex(), "fmt": ".fits", "reuse": True}])
        ops.append(["a", 0, 0, 1, 0, {"t": "after"}])
        yield {"op": "sys", "devices": [blob_device()], "clients": ["net", "snoop:0"], "frag": frag, "frag_seed": rng.randrange(10 ** 6), "ops": ops, "oracles": ["C08", "C01"]}
    # all 256 byte values, empty, partial follow-ups
    yield {"op": "sys", "devices": [blob_device()], "clients": ["net", "net"], "frag": "random", "frag_seed": 1,
           "ops": [["a", 0, 0, 0, 0, {"b": bytes(range(256)).hex(), "fmt": ".bin"}], ["a", 0, 0, 0, 1, {"b": "", "fmt": ".e"}], ["a", 0, 0, 0, 0, None],
                   ["a", 0, 0, 1, 0, {"t": "still alive"}]], "oracles": ["C08", "C01"]}


def gen_c01_burst(rng, tier):
    """schedules: slow peers (a writer's drain() blocks while the peer has unread bytes, so later messages queue on the
    connection's sender lock) and operations in quick succession at every phase of the hand-over; once everything is
    delivered every client must see every device as it is"""
    n = 120 if tier == "thorough" else 24
    for _ in range(n):
        nd = rng.randint(1, 2)
        devices = simple_devices(rng, nd)
        for d in devices:                                  # BLOB properties stay out: their two-connection ordering is the known finding
            for g in d["groups"]:
                g["vectors"] = [v for v in g["vectors"] if v["kind"] != "blob"] or [dict(blob_device()["groups"][0]["vectors"][1], name="T" + g["key"])]
        clients = rng.choice([["net"], ["net", "net"], ["net", "snoop:0"]])
        ops = []
        for _b in range(rng.randint(1, 3)):
            subs, gaps = [], []
            for _k in range(rng.randint(3, 9)):
                di = rng.randrange(nd)
                if rng.random() < 0.8:
                    op = random_driver_op(rng, di, merged_of(devices[di]))
                    if op[0] in ("ev", "eg") and rng.random() < 0.7:
                        op = [rng.choice(["a", "s"]), di, op[2], 0 if op[0] == "eg" else op[3], 0,
                              comp_dev.random_value(rng, merged_of(devices[di])["groups"][op[2]]["vectors"][0 if op[0] == "eg" else op[3]]["kind"])]
                    subs.append(op)
                else:
                    w = client_write_op(rng, 0, devices[di])
                    if w:
                        subs.append(w)
                    else:
                        continue
                gaps.append(rng.choice([0, 0, 1, 1, 2, 3, 5]))
            ops.append(["burst", subs, gaps])
        yield {"op": "sys", "devices": devices, "clients": clients, "frag": rng.choice(["1024", "random", "random"]), "frag_seed": rng.randrange(10 ** 6),
               "backpressure": rng.choice([0, 0, 16, 300, 4096]), "ops": ops, "oracles": ["C01"]}


def gen_c01_reannounce(rng, tier):
    """update, re-announcement (the property switched off and on again, or re-requested), another update of the SAME property -
    back to back, so that all of it reaches the client in one read: the client must end with the last update"""
    n = 60 if tier == "thorough" else 16
    done = 0
    for _ in range(n * 6):
        if done >= n:
            break
        devices = simple_devices(rng, 1)
        d = merged_of(devices[0])
        cands = [(gi, vi, v) for gi, g in enumerate(d["groups"]) for vi, v in enumerate(g["vectors"])
                 if v["kind"] in ("text", "number") and g.get("enabled", True) and v.get("enabled", True) and v["elements"][0].get("enabled", True)
                 and sum(1 for g2 in d["groups"] for v2 in g2["vectors"] if v2["name"] == v["name"]) == 1]
        if not cands:
            continue
        gi, vi, v = rng.choice(cands)
        vals = [{"t": "first"}, {"t": "second"}, {"t": "third"}] if v["kind"] == "text" else [{"n": 1}, {"n": 2}, {"n": 3}]
        subs = [["a", 0, gi, vi, 0, vals[0]], ["ev", 0, gi, vi, False], ["ev", 0, gi, vi, True], ["a", 0, gi, vi, 0, vals[1]]]
        if rng.random() < 0.5:
            subs += [["st", 0, gi, vi, "Busy"], ["a", 0, gi, vi, 0, vals[2]]]
        done += 1
        yield {"op": "sys", "devices": devices, "clients": rng.choice([["net"], ["net", "snoop:0"]]), "frag": "1024" if not done % 2 else rng.choice(["1024", "random"]),
               "frag_seed": rng.randrange(10 ** 6),
               # once back to back, once with the client's control connection lagging so that everything arrives in ONE read
               "ops": [["burst", subs, [0] * len(subs)]] if done % 2 else [["lagbatch", 0, subs]], "oracles": ["C01"]}


def gen_c08_burst(rng, tier):
    """a large BLOB immediately followed by more traffic to a slow peer: the later message queues behind the BLOB on the
    connection and must neither cut into it nor get lost"""
    sizes = [70000, 200000] if tier != "thorough" else [50000, 70000, 131072, 200000, 500000]
    for size in sizes:
        for hwm in ([0, 1000] if tier != "thorough" else [0, 100, 1000, 65536]):
            data = bytes(range(256)) * (size // 256)
            subs = [["a", 0, 0, 0, 0, {"b": data.hex(), "fmt": ".fits"}], ["st", 0, 0, 0, "Busy"], ["a", 0, 0, 0, 1, {"b": "0102", "fmt": ".x"}], ["a", 0, 0, 1, 0, {"t": "after"}]]
            yield {"op": "sys", "devices": [blob_device()], "clients": ["net", "snoop:0"], "frag": "1024", "frag_seed": rng.randrange(10 ** 6), "backpressure": hwm,
                   "ops": [["burst", subs, [0, rng.choice([0, 1]), 0, 2]], ["a", 0, 0, 1, 0, {"t": "later"}]], "oracles": ["C08", "C01"]}
