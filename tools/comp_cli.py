"""Correspondence component `cli`: the client mirror (indi/client/*.py) on a real BaseClient.

Case: {"op": "cli", "ops": [op...], "oracles": [...]}
  ["m", recipe]                                      client.process_message(message built by comp_codec)
  ["on", {"id", "device", "vector", "element", "type", "fn", "async", "raises"}]   client.onevent(...)
  ["rm", {"id"|None, "device", "vector", "element", "type", "fn"}]                client.rmonevent(...)
Observed per op: exception class, the mirror through the public API (list_devices / list_vectors / list_elements /
.state / .value / .label / .group ...), every callback's own log of events, devices for which a BLOB handshake was sent,
number of registered callbacks.
"""
import asyncio

from harness import Query, enc_bool, enc_list, enc_msg, enc_opt, enc_str, msg_view
import comp_codec

NAME = "cli"

KIND_OF = {"NumberVector": "number", "SwitchVector": "switch", "TextVector": "text", "BLOBVector": "blob", "LightVector": "light"}


def enc_cval(v):
    from indi.device import values

    if v is None:
        return "N"
    if isinstance(v, values.BLOB):
        return "B h%s %s" % (v.binary.hex(), enc_opt(v.format))
    return "T " + enc_str(str(v))


def enc_mirror(client):
    devs = []
    for dn in client.list_devices():
        dev = client[dn]
        vs = []
        for vn in dev.vectors.keys():                     # list_vectors() renders names with str(); keys are the attributes
            vec = dev.vectors[vn]
            es = []
            for en in vec.elements.keys():
                el = vec.elements[en]
                es.append("%s %s %s" % (enc_opt(el.name), enc_opt(el.label), enc_cval(el.value)))
            vs.append("%s %s %s %s %s %s %s %s" % (KIND_OF[type(vec).__name__], enc_opt(vec.name), enc_opt(vec.group), enc_opt(vec.label),
                                                   enc_opt(vec.timestamp), enc_opt(vec.message), enc_opt(vec.state), enc_list(lambda x: x, es)))
        devs.append("%s %s" % (enc_opt(dn), enc_list(lambda x: x, vs)))
    return enc_list(lambda x: x, devs)


def enc_event(ev):
    from indi.client import events

    d = ev.device.name if ev.device else None
    v = ev.vector.name if ev.vector else None
    if isinstance(ev, events.ValueUpdate):
        return "V %s %s %s %s %s" % (enc_opt(d), enc_opt(v), enc_opt(ev.element.name if ev.element else None), enc_cval(ev.old_value), enc_cval(ev.new_value))
    if isinstance(ev, events.StateUpdate):
        return "S %s %s %s %s" % (enc_opt(d), enc_opt(v), enc_opt(ev.old_state), enc_opt(ev.new_state))
    if isinstance(ev, events.DefinitionUpdate):
        return "D %s %s" % (enc_opt(d), enc_opt(v))
    return "?"


def enc_cb(cb):
    return "%d %s %s %s %s %d %s %s" % (cb["id"], enc_opt(cb.get("device")), enc_opt(cb.get("vector")), enc_opt(cb.get("element")),
                                        cb.get("type", "base"), cb.get("fn", cb["id"]), enc_bool(cb.get("async", False)), enc_bool(cb.get("raises", False)))


def enc_op(op):
    if op[0] == "m":
        return "m " + enc_msg(msg_view(comp_codec.build(op[1])))
    if op[0] == "on":
        return "on " + enc_cb(op[1])
    c = op[1]
    return "rm %s %s %s %s %s %s" % ("~" if c.get("id") is None else str(c["id"]), enc_opt(c.get("device")), enc_opt(c.get("vector")),
                                     enc_opt(c.get("element")), c.get("type") or "~", "~" if c.get("fn") is None else str(c["fn"]))


def run_ops(ops):
    from indi.client import events
    from indi.client.client import BaseClient

    types = {"base": events.BaseEvent, "value": events.ValueUpdate, "state": events.StateUpdate, "definition": events.DefinitionUpdate}
    sent = []

    class Cl(BaseClient):
        def send_message(self, msg):
            sent.append(msg)

    client = Cl()
    logs = {}            # callback id -> [encoded events]
    full_log = []        # everything the catch-all callback 0 has seen so far
    reg_ops = []         # the onevent / rmonevent calls so far (for the specification's own registry)
    ever = []            # every callback ever registered, in registration order
    order = []           # registered callback specs, in registration order (as the model keeps them)
    uuids = {}
    fns = {}

    def make_fn(fn_id, is_async, raises):
        key = (fn_id, is_async, raises)
        if key in fns:
            return fns[key]
        if is_async:
            async def f(event, _key=key):
                for cid in list(f.targets):
                    pass
            # coroutine callbacks get one function object per callback id (so the log can be attributed)
        fns[key] = None
        return None

    class Recorder:
        """callbacks are bound methods (a fresh, equal-but-not-identical object on every attribute access)"""

        def __init__(self, cb):
            self.cb = cb
            self.wrapped = None

        def plain(self, event):
            logs[self.cb["id"]].append(enc_event(event))
            full_log.append(enc_event(event)) if self.cb["id"] == 0 else None
            if self.cb.get("raises"):
                # every third raising callback fails the way `future.result()` on a cancelled future does
                if self.cb["id"] % 3 == 0:
                    import asyncio as _a
                    raise _a.CancelledError("callback %d touched a cancelled future" % self.cb["id"])
                raise RuntimeError("callback %d raises" % self.cb["id"])

        async def coro(self, event):
            logs[self.cb["id"]].append(enc_event(event))
            if self.cb.get("raises"):
                raise RuntimeError("coroutine callback %d raises" % self.cb["id"])

    def callback_for(cb):
        logs.setdefault(cb["id"], [])
        return Recorder(cb)

    fn_objects = {}
    obs = []

    async def main():
        import asyncio as _aio
        _aio.get_running_loop().set_exception_handler(lambda loop, ctx: None)     # raising coroutine callbacks are part of the cases
        for op in ops:
            del sent[:]
            for k in logs:
                logs[k] = []
            exc = None
            before_mirror = enc_mirror(client)
            before_cbs = [dict(c) for c in order]
            before_reg = list(reg_ops)
            before_ever = list(ever)
            try:
                if op[0] == "m":
                    client.process_message(comp_codec.build(op[1]))
                elif op[0] == "on":
                    cb = op[1]
                    fkey = cb.get("fn", cb["id"])
                    rec = fn_objects.get(fkey)
                    if rec is None:
                        rec = callback_for(cb)
                        fn_objects[fkey] = rec
                    logs.setdefault(cb["id"], [])
                    fn = rec.coro if cb.get("async") else rec.plain
                    if cb.get("wrap") == "partial":
                        # a callable that is not a function object (functools.partial of the handler): no __name__/__qualname__
                        import functools
                        if getattr(rec, "wrapped", None) is None:
                            rec.wrapped = functools.partial(fn)
                        fn = rec.wrapped
                    uid = client.onevent(callback=fn, device=cb.get("device"), vector=cb.get("vector"), element=cb.get("element"),
                                         event_type=types[cb.get("type", "base")])
                    uuids[cb["id"]] = uid
                    order.append(cb)
                    ever.append(cb)
                    reg_ops.append(enc_op(op))
                else:
                    c = op[1]
                    kw = {}
                    if c.get("id") is not None:
                        kw["uuid"] = uuids.get(c["id"], "no-such-uuid")
                    for k in ("device", "vector", "element"):
                        if c.get(k) is not None:
                            kw[k] = c[k]
                    if c.get("type"):
                        kw["event_type"] = types[c["type"]]
                    if c.get("fn") is not None:
                        rec = fn_objects.get(c["fn"])
                        if rec is None:
                            kw["callback"] = object()
                        else:
                            kw["callback"] = getattr(rec, "wrapped", None) or (rec.coro if rec.cb.get("async") else rec.plain)
                    reg_ops.append(enc_op(op))
                    client.rmonevent(**kw)
                    left = {id(x.callback): x for x in client.callbacks}
                    uu = {x.uuid for x in client.callbacks}
                    order[:] = [cb for cb in order if uuids.get(cb["id"]) in uu]
            except (KeyboardInterrupt, SystemExit):
                raise
            except BaseException as e:  # noqa  -- also what a callback touching a cancelled future lets escape
                if type(e).__name__ == "Watchdog":
                    raise
                exc = ("AssertionError" if isinstance(e, AssertionError) else "ValueError" if isinstance(e, ValueError)
                       else "TypeError" if isinstance(e, TypeError) else "KeyError" if isinstance(e, KeyError) else type(e).__name__)
            await asyncio.sleep(0)
            await asyncio.sleep(0)
            deliv = []
            for cb in before_cbs:
                for ev in logs.get(cb["id"], []):
                    deliv.append("c%d %s" % (cb["id"], ev))
            deliv_all = []          # the log of every callback ever registered (removed ones must stay silent)
            for cb in before_ever:
                for ev in logs.get(cb["id"], []):
                    deliv_all.append("c%d %s" % (cb["id"], ev))
            handshakes = [getattr(m, "device", None) for m in sent if type(m).__name__ == "EnableBLOB"]
            obs.append({"exc": exc, "before": before_mirror, "after": enc_mirror(client), "deliv": deliv, "sent": handshakes,
                        "ncb": len(client.callbacks), "cbs": before_cbs, "log": list(full_log), "reg": before_reg, "deliv_all": deliv_all,
                        "has0": any(c["id"] == 0 for c in before_cbs) and any(c["id"] == 0 for c in order)})

    asyncio.run(main())
    return obs


def run_impl(case, outcome):
    ops = case["ops"]
    # callbacks sharing a function object share its log: the generators give every callback its own function unless stated
    obs = run_ops(ops)
    want = set(case.get("oracles") or [])
    lines = []
    qs = []
    for op, o in zip(ops, obs):
        outcome.count("op:" + op[0])
        if o["exc"]:
            outcome.count("exc:" + o["exc"])
        lines.append("%s mirror %s deliv %s sent %s ncb %d" % (o["exc"] or "ok", o["after"], enc_list(lambda x: x, o["deliv"]),
                                                               enc_list(enc_opt, o["sent"]), o["ncb"]))
        if op[0] == "m":
            view = enc_msg(msg_view(comp_codec.build(op[1])))
            outcome.count("msg:" + op[1]["cls"].rsplit(".", 1)[1])
            if "C15" in want:
                qs.append(Query("spec c15 %s %s %s %s" % (o["before"], view, enc_bool(o["exc"] is not None), o["after"]), ("True", "na"), "oracle",
                                "the mirror after a message is the result of applying the INDI client rules, and nothing is raised"))
            if "C16" in want and o["has0"]:
                qs.append(Query("spec c16chain %s %s" % (o["after"], enc_list(lambda x: x, o["log"])), "True", "oracle",
                                "an application that only listens to events holds a stale value: the last announced value of an element differs from its current value"))
            if "C16" in want:
                qs.append(Query("spec c16 %s %s %s %s" % (enc_list(lambda x: x, o["reg"]), o["before"], view, enc_list(lambda x: x, o["deliv_all"])),
                                ("True", "na"), "oracle", "each callback got exactly the events matching its filters; events are exactly the changes"))
    line = enc_list(enc_op, ops)
    outcome.nontrivial.add(line)
    qs.insert(0, Query("cli run " + line, " | ".join(lines), "corr"))
    return qs


# --------------------------------------------------------------------------
# generators

DEVS = ["A", "B"]
PROPS = ["P", "Q"]
ELEMS = ["x", "y", "z"]
KINDS = ["Text", "Number", "Switch", "Light", "BLOB"]
VALS = {"Text": ["v1", "v2", "", None, " padded "], "Number": ["1", "2.5", "1:30", None], "Switch": ["On", "Off"],
        "Light": ["Ok", "Busy", "Alert"], "BLOB": None}


def def_recipe(rng, kind, dev, prop):
    tag = "def%sVector" % kind
    ptag = "def%s" % kind
    n = rng.randint(0, 3)
    names = [rng.choice(ELEMS) for _ in range(n)]
    children = []
    for name in names:
        val = None if kind == "BLOB" else rng.choice(VALS[kind])
        children.append(comp_codec.part_recipe(ptag, name, val, {"label": rng.choice([None, "L-" + name])}))
    r = comp_codec.msg_recipe(tag, tuple(o for o in ("label", "group", "timestamp", "message") if rng.random() < 0.5), children)
    r["kw"]["device"], r["kw"]["name"], r["kw"]["state"] = dev, prop, rng.choice(["Idle", "Ok", "Busy", "Alert"])
    return r


def set_recipe(rng, kind, dev, prop, bad_blob=False):
    import base64

    tag = "set%sVector" % kind
    ptag = "one%s" % kind
    children = []
    for name in [rng.choice(ELEMS + ["unknown"]) for _ in range(rng.randint(0, 3))]:
        if kind == "BLOB":
            data = bytes(rng.randrange(256) for _ in range(rng.choice([0, 0, 1, 3, 10])))
            payload = rng.choice([base64.b64encode(data).decode(), base64.b64encode(data).decode(), None if not data else base64.b64encode(data).decode(), ""if not data else base64.b64encode(data).decode()])
            size = str(len(data))
            if bad_blob:
                payload, size = rng.choice([("!!!", "0"), ("QQ", "1"), (payload, "99"), (payload, "abc"), ("é", "0")])
            children.append(comp_codec.part_recipe(ptag, name, payload, {"size": size, "format": rng.choice([".fits", ""])}))
        else:
            children.append(comp_codec.part_recipe(ptag, name, rng.choice(VALS[kind])))
    r = comp_codec.msg_recipe(tag, tuple(o for o in ("timestamp", "message") if rng.random() < 0.3), children)
    r["kw"]["device"], r["kw"]["name"], r["kw"]["state"] = dev, prop, rng.choice(["Idle", "Ok", "Busy", "Alert"])
    return r


def other_recipe(rng, dev, prop):
    k = rng.random()
    if k < 0.5:
        r = comp_codec.msg_recipe("delProperty", ())
        r["kw"]["device"] = dev
        r["kw"]["name"] = prop if rng.random() < 0.7 else None
        return r
    tag = rng.choice(["message", "pingRequest", "getProperties", "newTextVector", "enableBLOB"])
    r = comp_codec.msg_recipe(tag, ())
    if "device" in comp_codec.MSGS[tag][1] or tag in ("message", "getProperties"):
        r["kw"]["device"] = dev
    return r


def random_stream(rng, n, bad_blob_rate=0.0):
    msgs = []
    for _ in range(n):
        dev, prop = rng.choice(DEVS + ["C"]), rng.choice(PROPS + ["R"])
        kind = rng.choice(KINDS)
        r = rng.random()
        if r < 0.3:
            msgs.append(def_recipe(rng, kind, dev, prop))
        elif r < 0.8:
            msgs.append(set_recipe(rng, kind, dev, prop, bad_blob=rng.random() < bad_blob_rate))
        else:
            msgs.append(other_recipe(rng, dev, prop))
    return msgs


def random_callback(rng, cid):
    f = lambda pool: rng.choice([None, None] + pool)  # noqa
    return {"id": cid, "device": f(DEVS + ["nope"]), "vector": f(PROPS + ["nope"]), "element": f(ELEMS + ["nope"]),
            "type": rng.choice(["base", "base", "value", "state", "definition"]), "fn": cid, "async": rng.random() < 0.25,
            "raises": rng.random() < 0.15, "wrap": "partial" if rng.random() < 0.2 else None}


def gen_c15(rng, tier):
    n = 1200 if tier == "thorough" else 200
    for _ in range(n):
        ops = [["m", m] for m in random_stream(rng, rng.randint(5, 40), bad_blob_rate=0.05)]
        yield {"op": "cli", "ops": ops, "oracles": ["C15"]}


def gen_c16(rng, tier):
    n = 1200 if tier == "thorough" else 200
    for _ in range(n):
        ops = [["on", {"id": 0, "type": "base", "fn": 0}]]
        cid = 0
        live = []
        for m in random_stream(rng, rng.randint(5, 40), bad_blob_rate=0.15):
            r = rng.random()
            if r < 0.25:
                cid += 1
                cb = random_callback(rng, cid)
                live.append(cb)
                ops.append(["on", cb])
            elif r < 0.35 and live:
                if rng.random() < 0.5:
                    cb = rng.choice(live)
                    ops.append(["rm", {"id": cb["id"]}])
                else:
                    cb = rng.choice(live)
                    crit = {k: cb.get(k) for k in ("device", "vector", "element") if rng.random() < 0.5}
                    if rng.random() < 0.3:
                        crit["type"] = cb["type"]
                    if rng.random() < 0.2:
                        crit["fn"] = cb["fn"]
                    ops.append(["rm", crit])
            ops.append(["m", m])
        # every filter combination on one fixed small stream
        yield {"op": "cli", "ops": ops, "oracles": ["C15", "C16"]}
    # an update whose later child is ill-formed: what was applied before it must have been announced
    import base64
    for bad in (("!!!", "0"), ("QUJD", "99"), ("QUJD", "abc"), ("Q", "1")):
        d = comp_codec.msg_recipe("defBLOBVector", (), [comp_codec.part_recipe("defBLOB", "x", None), comp_codec.part_recipe("defBLOB", "y", None)])
        d["kw"]["device"], d["kw"]["name"] = "A", "P"
        good = comp_codec.part_recipe("oneBLOB", "x", base64.b64encode(b"ABC").decode(), {"size": "3", "format": ".x"})
        worse = comp_codec.part_recipe("oneBLOB", "y", bad[0], {"size": bad[1], "format": ".x"})
        u = comp_codec.msg_recipe("setBLOBVector", (), [good, worse])
        u["kw"]["device"], u["kw"]["name"], u["kw"]["state"] = "A", "P", "Busy"
        u2 = comp_codec.msg_recipe("setBLOBVector", (), [comp_codec.part_recipe("oneBLOB", "x", base64.b64encode(b"ABC").decode(), {"size": "3", "format": ".x"})])
        u2["kw"]["device"], u2["kw"]["name"], u2["kw"]["state"] = "A", "P", "Busy"
        yield {"op": "cli", "ops": [["on", {"id": 0, "type": "base", "fn": 0}], ["m", d], ["m", u], ["m", u2]], "oracles": ["C16"]}
    # callbacks of every kind (plain / coroutine, raising or not) in every registration order on the same events:
    # one callback's failure must not cost any other callback an event
    import itertools
    kinds = [(False, False), (False, True), (True, False), (True, True)]
    orders = list(itertools.permutations(kinds)) + [((True, True), (True, False), (True, False)), ((True, False), (True, True), (True, True), (True, False))]
    for order_ in (orders if tier == "thorough" else orders[::3] + orders[-2:]):
        ops = [["on", {"id": 0, "type": "base", "fn": 0}]]
        for i, (is_async, raises) in enumerate(order_):
            ops.append(["on", {"id": i + 1, "type": rng.choice(["base", "value"]), "fn": i + 1, "async": is_async, "raises": raises,
                               "wrap": "partial" if (i + len(order_)) % 2 == 0 else None}])
        ops += [["m", def_recipe(rng, "Number", "A", "P")], ["m", set_recipe(rng, "Number", "A", "P")], ["m", set_recipe(rng, "Number", "A", "P")],
                ["m", def_recipe(rng, "Text", "B", "Q")], ["m", set_recipe(rng, "Text", "B", "Q")], ["m", set_recipe(rng, "Number", "A", "P")]]
        yield {"op": "cli", "ops": ops, "oracles": ["C15", "C16"]}
    # exhaustive filter combinations {absent, matching, non-matching}^3 x event types
    stream = [["m", def_recipe(rng, "Text", "A", "P")], ["m", set_recipe(rng, "Text", "A", "P")], ["m", def_recipe(rng, "Switch", "B", "Q")],
              ["m", set_recipe(rng, "Switch", "B", "Q")], ["m", set_recipe(rng, "Text", "A", "P")]]
    cid = 0
    ops = [["on", {"id": 0, "type": "base", "fn": 0}]]
    for d in (None, "A", "nope"):
        for v in (None, "P", "nope"):
            for e in (None, "x", "nope"):
                for t in ("base", "value", "state", "definition"):
                    cid += 1
                    ops.append(["on", {"id": cid, "device": d, "vector": v, "element": e, "type": t, "fn": cid}])
    yield {"op": "cli", "ops": ops + stream + [["rm", {"device": "A"}]] + stream + [["rm", {"type": "value"}]] + stream + [["rm", {}]] + stream,
           "oracles": ["C15", "C16"]}
