"""Correspondence component `buf`: indi/transport/buffer.py.

The model's parser parameter `tryParse` is instantiated, per stream, with the finite table of
substrings the *real* parser (ET.fromstring + IndiMessage.from_string) accepts, so this component
ties exactly the framing logic (cleanup, candidate scan, loop, threshold) to the code; the parser
itself is the subject of the codec / xml components.

Case: {"op": "buf", "threshold": int|None, "segs": [[gap, body]...]|None, "final": str, "stream": str,
       "partitions": [[piece...]...]}
  segs given  -> admissible-stream case (C02 oracle applies when the Lean side confirms StreamOk)
Observed per partition: for every append+process call the delivered messages, Buffer.data afterwards,
an exception or a watchdog hit.
"""
import itertools
import xml.etree.ElementTree as ET

from harness import Query, Watchdog, enc_list, enc_msg, enc_str, msg_view, time_limit
import comp_codec

NAME = "buf"

_TAGS = None


def tags():
    global _TAGS
    if _TAGS is None:
        from indi.message import IndiMessage

        _TAGS = [m.tag_name() for m in IndiMessage.all_message_classes()]
    return _TAGS


def real_try_parse(x):
    """None: not XML; False: well-formed but not a valid message; else the message"""
    from indi.message import IndiMessage

    try:
        ET.fromstring(x)
    except ET.ParseError:
        return None
    try:
        return IndiMessage.from_string(x)
    except Exception:  # noqa
        return False


def build_table(stream, ids):
    """every substring '<'...'>' of the stream that is a complete XML document -> message id (0: not a valid message)"""
    table = {}
    lts = [i for i, c in enumerate(stream) if c == "<"]
    gts = [j + 1 for j, c in enumerate(stream) if c == ">"]
    for i in lts:
        for j in gts:
            if j > i:
                x = stream[i:j]
                if x in table:
                    continue
                m = real_try_parse(x)
                if m is False:
                    table[x] = 0
                elif m is not None:
                    key = enc_msg(msg_view(m))
                    table[x] = ids.setdefault(key, len(ids) + 1)
    return table


def run_partition(pieces, threshold, ids):
    from indi.transport import Buffer

    b = Buffer()
    b.max_buffer_size_before_frontal_cleanup = threshold
    calls = []
    for piece in pieces:
        delivered = []
        status = ""

        def cb(m):
            delivered.append(m)
            if len(delivered) > 10000:
                raise Watchdog("callback called more than 10000 times in one process()")

        b.append(piece)
        try:
            with time_limit(10):
                b.process(cb)
        except Watchdog as e:
            status = "HANG"
        except Exception as e:  # noqa
            status = "raised:" + type(e).__name__
        out = []
        for m in delivered[:50]:
            if m is None:
                out.append(9998)
            else:
                out.append(ids.get(enc_msg(msg_view(m)), 9999))
        calls.append((out, b.data, status))
        if status:
            break
    return calls


def int_constants(repo_files, floor=4096):
    """integer constants (also constant products / shifts / powers) written in the given source files: sizes at which the
    code may behave differently"""
    import ast
    import os

    from harness import REPO

    found = set()

    def ev(node):
        if isinstance(node, ast.Constant) and isinstance(node.value, int) and not isinstance(node.value, bool):
            return node.value
        if isinstance(node, ast.BinOp) and isinstance(node.op, (ast.Mult, ast.LShift, ast.Pow, ast.Add)):
            a, b = ev(node.left), ev(node.right)
            if a is None or b is None:
                return None
            try:
                if isinstance(node.op, ast.Mult):
                    return a * b
                if isinstance(node.op, ast.Add):
                    return a + b
                if isinstance(node.op, ast.LShift):
                    return a << b if 0 <= b < 64 else None
                return a ** b if 0 <= b < 64 and abs(a) < 2 ** 16 else None
            except Exception:  # noqa
                return None
        return None

    for rel in repo_files:
        path = os.path.join(REPO, rel)
        try:
            tree = ast.parse(open(path, encoding="utf-8").read())
        except Exception:  # noqa
            continue
        for node in ast.walk(tree):
            v = ev(node)
            if v is not None and floor <= v <= 2 ** 29:
                found.add(v)
    return sorted(found)


def run_long(case, outcome):
    """messages around a size named by a constant in the source, threshold disabled; the stream is described to the
    specification by its lengths only"""
    from indi.transport import Buffer

    n = case["payload"]
    body1 = '<setBLOBVector device="CCD" name="IMG" state="Ok"><oneBLOB name="i" size="%d" format=".x">%s</oneBLOB></setBLOBVector>' % (n // 4 * 3, "A" * n)
    body2 = '<setTextVector device="CCD" name="T" state="Ok"><oneText name="t">after</oneText></setTextVector>'
    gap = '<?xml version="1.0"?>\n'
    stream = gap + body1 + "\n" + gap + body2 + "\n"
    cuts = [c for c in case["cuts"] if 0 < c < len(stream)]
    pieces = cuts_to_pieces(stream, cuts)
    b = Buffer()
    b.max_buffer_size_before_frontal_cleanup = None
    calls = []
    for piece in pieces:
        got = []
        b.append(piece)
        with time_limit(300):
            b.process(got.append)
        calls.append([1 if getattr(m, "name", None) == "IMG" and len(m.children) == 1 and len(m.children[0].value or "") == n else 2 if getattr(m, "name", None) == "T" else 99
                      for m in got])
    outcome.count("long-message-chars", len(body1))
    outcome.nontrivial.add(("long", n, tuple(cuts)))
    segs = "2 %d %d %d %d" % (len(gap), len(body1), 1 + len(gap), len(body2))
    return [Query("spec buf02len %s %s" % (segs, enc_list(str, [len(p) for p in pieces])), " | ".join(",".join(str(i) for i in c) for c in calls), "oracle",
                  "C02 with the threshold disabled: a message of %d characters (a size named by a constant in the source) is not delivered whole, once, at the call its last character arrives" % len(body1))]


def gen_c02_constants(rng, tier):
    """sizes named by integer constants in the framing and transport code (none in the version the checks were developed
    against: the generator is then empty)"""
    files = ["indi/transport/buffer.py", "indi/transport/server/tcp.py", "indi/transport/server/tty.py", "indi/transport/client/tcp.py"]
    for c in int_constants(files):
        if c > 2 ** 28:
            continue
        for payload in (c + 4096, c - 4096 - 400):
            payload = max(8, payload // 4 * 4)
            total = payload + 300
            yield {"op": "buflong", "payload": payload, "cuts": [total // 2, total - 50]}
            yield {"op": "buflong", "payload": payload, "cuts": [c + 1, c + 2048]}


def run_many_invalid(case, outcome):
    """thousands of complete elements that are not valid messages (known tag, refused by the constructor), then a valid
    message: no exception, bounded retention, the valid message delivered - whatever the pieces"""
    from indi.transport import Buffer

    stream = case["unit"] * case["count"] + case["tail"]
    T = case["threshold"]
    cuts = [c for c in case["cuts"] if 0 < c < len(stream)]
    pieces = cuts_to_pieces(stream, cuts)
    b = Buffer()
    b.max_buffer_size_before_frontal_cleanup = T
    calls = []
    for piece in pieces:
        got, status = [], ""
        b.append(piece)
        try:
            with time_limit(120):
                b.process(got.append)
        except Watchdog:
            status = "HANG"
        except BaseException as e:  # noqa
            status = "raised:" + type(e).__name__
        calls.append(([1 if getattr(m, "message", None) == "after" else 99 for m in got] + ([9997] if status else []), len(b.data)))
        if status:
            outcome.count(status)
            break
    outcome.nontrivial.add(("many-invalid", case["unit"], case["count"], T, tuple(cuts)))
    outcome.count("invalid-elements", case["count"])
    tstr = "~" if T is None else str(T)
    delivered = [i for d, _n in calls for i in d]
    return [Query("spec buf11 %s %s %s" % (tstr, enc_list(str, [1]), enc_list(lambda c: enc_list(str, c[0]) + " " + str(c[1]), calls)), "True", "oracle",
                  "C11: %d complete-but-invalid elements in %d pieces: an exception, a hang or unbounded retention" % (case["count"], len(pieces))),
            Query("spec istrue %s" % ("True" if delivered == [1] else "False"), "True", "oracle",
                  "C11: the valid message after %d complete-but-invalid elements was not delivered (delivered: %s)" % (case["count"], delivered[:5]))]


def gen_c11_many(rng, tier):
    units = ['<getProperties/>', '<enableBLOB device="A">Sometimes</enableBLOB>', '<newSwitchVector device="A" name="P"><oneSwitch name="e">Maybe</oneSwitch></newSwitchVector>']
    tail = '<message device="D" message="after"/>\n'
    for unit in units:
        for count in (([300, 1500, 4000] if len(unit) < 20 else [300, 1500]) if tier == "thorough" else [1500]):
            n = len(unit) * count
            for T in ([16, 2048, None] if tier == "thorough" else [2048, None]):
                yield {"op": "bufmany", "unit": unit, "count": count, "tail": tail, "threshold": T, "cuts": []}
                yield {"op": "bufmany", "unit": unit, "count": count, "tail": tail, "threshold": T, "cuts": list(range(1024, n, 1024))}


def run_impl(case, outcome):
    if case.get("op") == "buflong":
        return run_long(case, outcome)
    if case.get("op") == "bufmany":
        return run_many_invalid(case, outcome)
    stream = case["stream"]
    T = case["threshold"]
    ids = {}
    table = build_table(stream, ids)
    tstr = "~" if T is None else str(T)
    head = "%s %s %s" % (tstr, enc_list(enc_str, tags()), enc_list(lambda kv: enc_str(kv[0]) + " " + str(kv[1]), table.items()))
    qs = []
    outcome.count("threshold:%s" % case.get("tkind", tstr if T in (None, 16, 128, 2048) else "other"))
    outcome.count("table-size:%d" % min(len(table), 10))
    for pieces in case["partitions"]:
        calls = run_partition(pieces, T, ids)
        outcome.count("pieces:%d" % min(len(pieces), 10))
        bad = [c for c in calls if c[2]]
        for c in bad:
            outcome.count(c[2])
        observed = " | ".join(",".join(str(i) for i in d) + ">" + enc_str(data) for d, data, st in calls)
        pl = enc_list(enc_str, pieces)
        outcome.nontrivial.add((tstr, pl))
        if not bad:
            qs.append(Query("buf session %s %s" % (head, pl), observed, "corr"))
        else:
            qs.append(Query("buf session %s %s" % (head, pl), observed + " !" + bad[0][2], "corr"))
        # C11 oracle: bounded, genuine, nothing raised, no hang
        c11_calls = enc_list(lambda c: enc_list(str, c[0] + ([9997] if c[2] else [])) + " " + str(len(c[1])), calls)
        qs.append(Query("spec buf11 %s %s %s" % (tstr, enc_list(str, sorted(set(table.values()) - {0})), c11_calls), "True", "oracle",
                        "C11: retained <= threshold, only parser results delivered, no exception, no hang"))
        if case.get("segs") is not None:
            segs = []
            for gap, body in case["segs"]:
                mid = table.get(body, 0)
                segs.append("%s %s %d" % (enc_str(gap), enc_str(body), mid))
            deliveries = " | ".join(",".join(str(i) for i in d) for d, data, st in calls)
            if bad:
                deliveries += " !" + bad[0][2]
            if case.get("corrupt") is None:
                qs.append(Query("spec buf02 %s %d %s %s %s" % (head, len(segs), " ".join(segs), enc_str(case["final"]), pl),
                                (deliveries, "na"), "oracle", "C02: each message once, in order, at the call its last character arrives"))
            else:
                flat = ",".join(str(i) for d, data, st in calls for i in d) + (" !" + bad[0][2] if bad else "")
                qs.append(Query("spec buf11c %s %s %d %s %s" % (head, enc_str(case["corrupt"]), len(segs), " ".join(segs), enc_str(case["final"])),
                                (flat, "na"), "oracle", "C11: after a corrupt prefix every later valid message is delivered, in order, and nothing else"))
    return qs


# --------------------------------------------------------------------------
# spellings


def esc_text(t, raw_gt):
    t = t.replace("&", "&amp;").replace("<", "&lt;")
    return t.replace("]]>", "]]&gt;") if raw_gt else t.replace(">", "&gt;")


def esc_attr(t, q):
    # raw newlines / tabs in an attribute value would be normalised to blanks by any XML parser
    t = t.replace("&", "&amp;").replace("<", "&lt;").replace("\n", "&#10;").replace("\t", "&#9;").replace("\r", "&#13;")
    return t.replace('"', "&quot;") if q == '"' else t.replace("'", "&apos;")


def spell(msg, sp):
    """serialise msg (a live message object) in a foreign but equivalent XML spelling"""
    x = msg.to_xml()
    q = sp.get("quote", '"')

    def attrs(e):
        items = list(e.attrib.items())
        if sp.get("reverse_attrs"):
            items.reverse()
        sep = sp.get("attr_sep", " ")
        return "".join("%s%s=%s%s%s" % (sep, k, q, esc_attr(v, q), q) for k, v in items)

    def elem(e, depth):
        ind = ("\n" + "  " * (depth + 1)) if sp.get("indent") else ""
        kids = list(e)
        text = esc_text(e.text, sp.get("raw_gt")) if e.text else ""
        if not kids and not text:
            if sp.get("explicit_empty"):
                return "<%s%s></%s>" % (e.tag, attrs(e), e.tag)
            return "<%s%s%s/>" % (e.tag, attrs(e), sp.get("slash_space", " "))
        inner = text + "".join(ind + elem(k, depth + 1) for k in kids)
        if kids and sp.get("indent"):
            inner += "\n" + "  " * depth
        return "<%s%s>%s</%s%s>" % (e.tag, attrs(e), inner, e.tag, sp.get("close_space", ""))

    return elem(x, 0)


SPELLINGS = [
    {"name": "library"},   # msg.to_string() itself
    {"name": "compact", "decl": "", "slash_space": "", "sep": ""},
    {"name": "indented", "decl": '<?xml version="1.0"?>\n', "indent": True, "sep": "\n"},
    {"name": "single-quotes", "decl": "", "quote": "'", "reverse_attrs": True, "sep": "\n"},
    {"name": "explicit-empty", "decl": "<?xml version='1.0'?>", "explicit_empty": True, "raw_gt": True, "sep": " ", "close_space": " "},
    {"name": "wide-attrs", "decl": "", "attr_sep": "\n   ", "raw_gt": True, "sep": "\r\n"},
]


def encode_stream(msgs, sp):
    """-> (segs [[gap, body]...], final)"""
    segs = []
    pending_gap = ""
    for m in msgs:
        if sp["name"] == "library":
            text = m.to_string().decode("latin1")
            i = text.index("<", 1)            # after the declaration
            j = text.rindex(">") + 1
            segs.append([pending_gap + text[:i], text[i:j]])
            pending_gap = text[j:]
        else:
            body = spell(m, sp)
            segs.append([pending_gap + sp.get("decl", ""), body])
            pending_gap = sp.get("sep", "")
    return segs, pending_gap


def corpus_messages():
    """one message of every kind, with awkward text"""
    texts = ["plain", "1>2", "a<b&c", 'q"uo\'te', "éÿ", "𝄞", "line1\nline2", "]]>", ">>", "/>", "<oneText"]
    msgs = []
    k = 0
    for tag, (cls, base, optional, child, vkind) in comp_codec.MSGS.items():
        for variant in (range(3) if child else range(2)):       # variant 2: a vector without children ("0..n children")
            children = None
            if child:
                kind = comp_codec.PARTS[child][2]
                children = []
                for i in range({0: 1, 1: 2, 2: 0}[variant]):
                    if kind == "free":
                        v = texts[k % len(texts)]
                        k += 1
                    else:
                        v = comp_codec.VALUE_OF_KIND[kind][i % 2]
                    extra = {"label": texts[(k + 3) % len(texts)]} if "label" in comp_codec.PARTS[child][1] and variant else None
                    children.append(comp_codec.part_recipe(child, "e%d" % i, v, extra))
            extra = {}
            if "message" in optional and variant:
                extra["message"] = texts[k % len(texts)]
                k += 1
            r = comp_codec.msg_recipe(tag, tuple(optional) if variant == 1 else (), children, extra=extra or None)
            msgs.append(comp_codec.build(r))
    return msgs


def cuts_to_pieces(stream, cuts):
    cuts = [0] + sorted(cuts) + [len(stream)]
    return [stream[a:b] for a, b in zip(cuts, cuts[1:])]


def gen_c02(rng, tier):
    msgs = corpus_messages()
    thorough = tier == "thorough"
    # (1) every message alone, every spelling: all 1-cuts (2-cuts when short), threshold exactly fitting, default, disabled
    for m in msgs:
        for sp in SPELLINGS:
            segs, final = encode_stream([m], sp)
            stream = "".join(g + b for g, b in segs) + final
            n = len(stream)
            need = max(len(g) + len(b) for g, b in segs)
            parts = [cuts_to_pieces(stream, [c]) for c in range(1, n)]
            if n <= (90 if thorough else 48):
                parts += [cuts_to_pieces(stream, list(c)) for c in itertools.combinations(range(1, n), 2)]
            else:
                parts += [cuts_to_pieces(stream, rng.sample(range(1, n), 2)) for _ in range(60 if thorough else 15)]
            parts.append(list(stream))            # character by character
            parts.append([stream])
            for T in ([need, 2048, None] if sp["name"] in ("library", "compact") or thorough else [rng.choice([need, 2048, None])]):
                yield {"op": "buf", "threshold": T, "tkind": "fitting" if T == need else str(T), "segs": segs, "final": final, "stream": stream,
                       "partitions": parts if T == need or thorough else parts[:: 7] + [list(stream)]}
            # one below the fitting threshold: outside C02's hypothesis (junk recovery may cut it), still compared with the model
            yield {"op": "buf", "threshold": need - 1, "tkind": "one-below", "segs": segs, "final": final, "stream": stream,
                   "partitions": [[stream], list(stream)] + parts[:: 11]}
    # (2) sequences of messages, random k-cut partitions
    nseq = 300 if thorough else 60
    for _ in range(nseq):
        sp = rng.choice(SPELLINGS)
        seq = [rng.choice(msgs) for _ in range(rng.randint(2, 5))]
        segs, final = encode_stream(seq, sp)
        stream = "".join(g + b for g, b in segs) + final
        n = len(stream)
        need = max(len(g) + len(b) for g, b in segs)
        parts = []
        for _p in range(12):
            k = rng.choice([1, 2, 3, 5, 8, 20])
            parts.append(cuts_to_pieces(stream, rng.sample(range(1, n), min(k, n - 1))))
        parts.append([stream])
        parts.append(list(stream))
        # cuts right at and around message boundaries
        bounds = []
        off = 0
        for g, b in segs:
            off += len(g)
            bounds += [off - 1, off, off + 1]
            off += len(b)
            bounds += [off - 1, off, off + 1]
        bounds = sorted({c for c in bounds if 0 < c < n})
        parts.append(cuts_to_pieces(stream, bounds))
        for c in bounds:
            parts.append(cuts_to_pieces(stream, [c]))
        yield {"op": "buf", "threshold": rng.choice([need, need + 5, 2048, None]), "segs": segs, "final": final,
               "stream": stream, "partitions": parts}


FRAGMENTS = ["<", ">", "&", "/>", "</", "<setTextVector", "<oneText", "</oneText>", "</setTextVector>", "<foo", "</foo>", "<foo/>",
             ' name="x"', " device='D'", '"', "'", "<!--", "-->", "<![CDATA[", "]]>", '<?xml version="1.0"?>', "<?", "?>", "\x00", "\n",
             " ", "=", "<getProperties", "<message", "<messageX", "<oneLight name='l'>Ok</oneLight>", "é", "\xff", "&amp;", "&#60;", "&bogus;",
             "<getProperties version='1.7'", "<delProperty device=", "text", "<<", ">>", "<enableBLOB>Also"]


def gen_c11(rng, tier):
    msgs = corpus_messages()
    valid = [m.to_string().decode("latin1") for m in msgs]
    compact = [spell(m, SPELLINGS[1]) for m in msgs]
    thorough = tier == "thorough"
    thresholds = [16, 128, 2048, None]
    # (1) valid messages truncated at every position, followed by valid traffic
    sample = valid if thorough else valid[::3]
    for text in sample:
        follow = rng.choice(compact) + rng.choice(valid)
        streams = [text[:k] + follow for k in range(1, len(text), 1 if thorough else 3)]
        for stream in streams:
            T = rng.choice(thresholds)
            n = len(stream)
            parts = [[stream], cuts_to_pieces(stream, rng.sample(range(1, n), min(3, n - 1)))]
            if rng.random() < 0.2:
                parts.append(list(stream))
            yield {"op": "buf", "threshold": T, "segs": None, "final": "", "stream": stream, "partitions": parts}
    # (2) junk assembled from protocol fragments, interleaved with valid messages
    for _ in range(1500 if thorough else 250):
        parts_ = []
        for _k in range(rng.randint(1, 14)):
            r = rng.random()
            if r < 0.55:
                parts_.append(rng.choice(FRAGMENTS))
            elif r < 0.75:
                parts_.append(rng.choice(compact))
            elif r < 0.85:
                parts_.append(rng.choice(valid))
            elif r < 0.93:
                t = rng.choice(compact)
                parts_.append(t[: rng.randrange(1, len(t))])
            else:
                parts_.append("".join(chr(rng.randrange(256)) for _ in range(rng.randint(1, 12))))
        stream = "".join(parts_)[:600]
        n = len(stream)
        if n < 2:
            continue
        plist = [[stream]]
        for _p in range(3):
            plist.append(cuts_to_pieces(stream, rng.sample(range(1, n), min(rng.choice([1, 2, 4, 9]), n - 1))))
        if n < 150:
            plist.append(list(stream))
        yield {"op": "buf", "threshold": rng.choice(thresholds), "segs": None, "final": "", "stream": stream, "partitions": plist}
    # (1b) resynchronisation with an oracle: a message truncated at every position (corrupt prefix), then a valid
    # stream that alone exceeds the threshold (theorem C11_resync; the Lean side checks its hypotheses per case)
    for T in (64, 128, 2048):
        picks = valid if thorough else rng.sample(valid, 6)
        for text in picks:
            body_start = text.index("<", 1)
            for k in (range(body_start + 1, len(text) - 1) if thorough or T == 64 else rng.sample(range(body_start + 1, len(text) - 1), 4)):
                corrupt = text[body_start:k]
                seq = []
                fitting = [m for m in msgs if len(m.to_string()) <= T]
                if not fitting:
                    continue
                sp = rng.choice(SPELLINGS[:3])
                while sum(len(g) + len(b) for g, b in encode_stream(seq, sp)[0]) <= T + 40:
                    seq.append(rng.choice(fitting))
                segs, final = encode_stream(seq, sp)
                stream = corrupt + "".join(g + b for g, b in segs) + final
                n = len(stream)
                parts = [[stream], cuts_to_pieces(stream, rng.sample(range(1, n), min(4, n - 1))), cuts_to_pieces(stream, list(range(1024, n, 1024)))]
                if n < 400:
                    parts.append(list(stream))
                yield {"op": "buf", "threshold": T, "segs": segs, "final": final, "corrupt": corrupt, "stream": stream, "partitions": parts}
    # (3) long junk beyond every threshold, then valid messages: opener-free junk is a gap of the stream
    # (theorem C11_long_junk_transparent, oracle buf02), junk with a known opener is a corrupt prefix (C11_resync)
    junks = ["x" * 3000, "<foo " * 600, "<" * 2500, "<oneText>" + "y" * 2500, "<foo a='1'>text</foo>" * 40, "</getProperties>" * 30,
             "<bar/>" * 5, "<!-- c -->" * 3, "&amp;<unknownTag " * 10]
    for T in thresholds:
        for junk in junks:
            seq = [rng.choice(msgs) for _ in range(3)]
            seq = [m for m in seq if T is None or len(m.to_string()) <= T] or [msgs[0]]
            segs, final = encode_stream(seq, rng.choice(SPELLINGS[:3]))
            segs[0][0] = junk + segs[0][0]
            stream = "".join(g + b for g, b in segs) + final
            n = len(stream)
            j = len(junk)
            parts = [[stream], cuts_to_pieces(stream, list(range(1024, n, 1024))),
                     cuts_to_pieces(stream, sorted(set([j - 1, j, j + 1, j + 3, j + 7, j + 12, j + 25]) & set(range(1, n)))),
                     [stream[:j]] + list(stream[j:])]
            if thorough or len(junk) < 300:
                parts.append(list(stream))
            yield {"op": "buf", "threshold": T, "segs": segs, "final": final, "stream": stream, "partitions": parts}
        junk = "<setTextVector device='D' " + "a='b' " * 500
        seq = []
        fitting = [m for m in msgs if T is not None and len(m.to_string()) <= T]
        while fitting and sum(len(g) + len(b) for g, b in encode_stream(seq, SPELLINGS[0])[0]) <= T + 40:
            seq.append(rng.choice(fitting))
        if seq:
            segs, final = encode_stream(seq, SPELLINGS[0])
            stream = junk + "".join(g + b for g, b in segs) + final
            yield {"op": "buf", "threshold": T, "segs": segs, "final": final, "corrupt": junk, "stream": stream,
                   "partitions": [[stream], cuts_to_pieces(stream, list(range(1024, len(stream), 1024))), [stream[:len(junk)]] + list(stream[len(junk):])]}
