"""Correspondence component `codec`: the message layer (indi/message/*.py).

Cases (JSON-serialisable, replayable):
  {"op": "eq", "a": recipe, "b": recipe, "rel": how b was derived from a}
  {"op": "fromxml", "elem": {...}}      IndiMessage.from_xml on a hand-built element
  {"op": "fromstring", "xml": "..."}    IndiMessage.from_string on text (expat does the parsing,
                                        the model gets the element expat produced)
  {"op": "toxml", "msg": recipe}        to_xml of a constructed message

A recipe is {"cls": "<module.Class>", "kw": {...}, "children": [recipe...] | None}.
"""
import importlib
import itertools
import xml.etree.ElementTree as ET

from harness import (Query, enc_bool, enc_elem, enc_msg, exc_name, msg_view, part_view)

NAME = "codec"


def cls_by_name(qual):
    mod, _, name = qual.rpartition(".")
    return getattr(importlib.import_module(mod), name)


def fresh(v):
    """a string EQUAL to v but a different object from every literal/constant of the library (what a parser hands over:
    code that compares with `is` instead of `==` behaves differently on it)"""
    if isinstance(v, str) and len(v) > 1:
        w = (v + "\x00")[:-1]
        return w
    return v


def build(recipe):
    cls = cls_by_name(recipe["cls"])
    kw = {k: fresh(v) for k, v in recipe["kw"].items()}
    if recipe.get("children") is not None:
        kw["children"] = tuple(build(c) for c in recipe["children"])
    return cls(**kw)


def elem_of_et(x):
    return {"tag": x.tag, "attrs": list(x.attrib.items()), "text": x.text or "",
            "children": [{"tag": c.tag, "attrs": list(c.attrib.items()), "text": c.text or ""} for c in x]}


def et_of_elem(e):
    x = ET.Element(e["tag"], dict(e["attrs"]))
    x.text = e["text"] if e["text"] != "" else None
    for c in e["children"]:
        y = ET.SubElement(x, c["tag"], dict(c["attrs"]))
        y.text = c["text"] if c["text"] != "" else None
    return x


def elem_view_of_et(x):
    """what to_xml produced, in the model's Elem shape"""
    return {"tag": x.tag, "attrs": list(x.attrib.items()), "text": x.text or "",
            "children": [{"tag": c.tag, "attrs": list(c.attrib.items()), "text": c.text or ""} for c in x]}


def run_impl(case, outcome):
    from indi.message import IndiMessage

    op = case["op"]
    outcome.count("op:" + op)
    if case.get("_after") == "faults" and not _FAULTS_DONE:
        # (also on replay of a single case: the prelude is part of the case)
        run_user_code_faults()
        _FAULTS_DONE.append(True)
        outcome.count("prelude:user-code-faults")
    if op == "eq-edit":
        # two equal messages are compared, one is then edited IN PLACE (a child's attribute or text, the children list),
        # and they are compared again: every comparison must reflect the contents at that moment
        a, b = build(case["a"]), build(case["a"])
        first = (a == b)
        qs = [Query("spec eq %s %s" % (enc_msg(msg_view(a)), enc_msg(msg_view(b))), enc_bool(first), "oracle", "== on two freshly built copies")]
        kind, i, val = case["edit"]
        ch = list(b.children)
        if kind == "child-value":
            ch[i].value = val
        elif kind == "child-name":
            ch[i].name = val
        elif kind == "drop-child":
            del ch[i]
            b.children = tuple(ch) if isinstance(b.children, tuple) else ch
        elif kind == "swap":
            ch[i], ch[i + 1] = ch[i + 1], ch[i]
            b.children = tuple(ch) if isinstance(b.children, tuple) else ch
        second = (a == b)
        third = (b == a)
        va, vb = msg_view(a), msg_view(b)
        outcome.nontrivial.add((enc_msg(va), enc_msg(vb), kind))
        note = "== after an in-place edit (%s) of a message that had been compared before" % kind
        qs.append(Query("spec eq %s %s" % (enc_msg(va), enc_msg(vb)), enc_bool(second), "oracle", note))
        qs.append(Query("spec eq %s %s" % (enc_msg(vb), enc_msg(va)), enc_bool(third), "oracle", note))
        # and a rebuilt copy of the edited contents equals it
        c = build(case["a"])
        qs.append(Query("spec eq %s %s" % (enc_msg(va), enc_msg(msg_view(c))), enc_bool(a == c), "oracle", "== against a rebuilt copy"))
        return qs
    if op == "eq":
        a, b = build(case["a"]), build(case["b"])
        res = a == b
        if (a != b) == res and not hasattr(type(a), "__ne__"):
            pass
        va, vb = msg_view(a), msg_view(b)
        outcome.count("eq:%s:%s" % (case.get("rel", "?").split(":")[0], res))
        outcome.nontrivial.add((enc_msg(va), enc_msg(vb)))
        line = enc_msg(va) + " " + enc_msg(vb)
        return [Query("codec eq " + line, enc_bool(res), "corr"),
                Query("spec eq " + line, enc_bool(res), "oracle")]
    if op in ("fromxml", "fromstring"):
        if op == "fromstring":
            try:
                x = ET.fromstring(case["xml"])
            except ET.ParseError:
                outcome.count("fromstring:not-xml")
                # expat rejects it; so must from_string
                try:
                    IndiMessage.from_string(case["xml"])
                    return [Query("spec conformant M x 0 ~", "True", "oracle", "from_string accepted what ET.fromstring rejects")]
                except ET.ParseError:
                    return []
            elem = elem_of_et(x)
            parse = lambda: IndiMessage.from_string(case["xml"])  # noqa
        else:
            elem = case["elem"]
            parse = lambda: IndiMessage.from_xml(et_of_elem(elem))  # noqa
        try:
            m = parse()
            v = msg_view(m)
            expect = "ok " + enc_msg(v)
        except Exception as e:  # noqa
            v = None
            expect = "err " + exc_name(e)
        outcome.count("parse:" + expect.split(" ")[0] + (":" + expect.split(" ")[1] if v is None else ""))
        outcome.nontrivial.add(enc_elem(elem))
        qs = [Query("codec fromxml " + enc_elem(elem), expect, "corr")]
        if v is not None:
            qs.append(Query("spec conformant " + enc_msg(v), "True", "oracle"))
        return qs
    if op == "toxml":
        m = build(case["msg"])
        x = m.to_xml()
        outcome.nontrivial.add(enc_msg(msg_view(m)))
        return [Query("codec toxml " + enc_msg(msg_view(m)), enc_elem(elem_view_of_et(x)), "corr")]
    raise ValueError(op)


# --------------------------------------------------------------------------
# generators

VOCAB = {
    "state": ["Idle", "Ok", "Busy", "Alert"],
    "perm": ["ro", "wo", "rw"],
    "rule": ["OneOfMany", "AtMostOne", "AnyOfMany"],
    "switch": ["On", "Off"],
    "blob": ["Never", "Also", "Only"],
}

HOSTILE = ["", "ok", "OK", "oK", "indi.message.const", "None", "__main__", "State", "SwitchState", "IDLE",
           "READ_ONLY", "On ", " On", "on", "yes", "True", "1", "zz", "Neverr", "rw,ro", "é", "\U0001d11e",
           "<&>", '"\'', "__doc__", "builtins", "indi.message.const.State"]

TEXTS = ["", "a", "1", "x y", "<&>\"'", "é\U0001d11e", "line1\nline2", "12.5", "-0:30", "Ok", "On", "10 \u212b", "e\u0301"]

PARTS = {
    "defText": ("indi.message.def_parts.DefText", {"name": "e", "label": "L"}, "free"),
    "defNumber": ("indi.message.def_parts.DefNumber", {"name": "e", "label": "L", "format": "%.2f", "min": "0", "max": "10", "step": "1"}, "number"),
    "defSwitch": ("indi.message.def_parts.DefSwitch", {"name": "e", "label": "L"}, "switch"),
    "defLight": ("indi.message.def_parts.DefLight", {"name": "e", "label": "L"}, "state"),
    "defBLOB": ("indi.message.def_parts.DefBLOB", {"name": "e", "label": "L"}, "free"),
    "oneText": ("indi.message.one_parts.OneText", {"name": "e"}, "free"),
    "oneNumber": ("indi.message.one_parts.OneNumber", {"name": "e"}, "number"),
    "oneSwitch": ("indi.message.one_parts.OneSwitch", {"name": "e"}, "switch"),
    "oneLight": ("indi.message.one_parts.OneLight", {"name": "e"}, "state"),
    "oneBLOB": ("indi.message.one_parts.OneBLOB", {"name": "e", "size": "3", "format": ".fits"}, "free"),
}

# tag -> (class, base attrs, optional attrs, child tag, value kind)
MSGS = {
    "defTextVector": ("indi.message.defs.DefTextVector", {"device": "D", "name": "P", "state": "Ok", "perm": "rw"}, ["label", "group", "timestamp", "message", "timeout"], "defText", None),
    "defNumberVector": ("indi.message.defs.DefNumberVector", {"device": "D", "name": "P", "state": "Ok", "perm": "rw"}, ["label", "group", "timestamp", "message", "timeout"], "defNumber", None),
    "defSwitchVector": ("indi.message.defs.DefSwitchVector", {"device": "D", "name": "P", "state": "Ok", "perm": "rw", "rule": "OneOfMany"}, ["label", "group", "timestamp", "message", "timeout"], "defSwitch", None),
    "defLightVector": ("indi.message.defs.DefLightVector", {"device": "D", "name": "P", "state": "Ok"}, ["label", "group", "timestamp", "message"], "defLight", None),
    "defBLOBVector": ("indi.message.defs.DefBLOBVector", {"device": "D", "name": "P", "state": "Ok", "perm": "rw"}, ["label", "group", "timestamp", "message", "timeout"], "defBLOB", None),
    "setTextVector": ("indi.message.sets.SetTextVector", {"device": "D", "name": "P", "state": "Ok"}, ["timeout", "timestamp", "message"], "oneText", None),
    "setNumberVector": ("indi.message.sets.SetNumberVector", {"device": "D", "name": "P", "state": "Ok"}, ["timeout", "timestamp", "message"], "oneNumber", None),
    "setSwitchVector": ("indi.message.sets.SetSwitchVector", {"device": "D", "name": "P", "state": "Ok"}, ["timeout", "timestamp", "message"], "oneSwitch", None),
    "setLightVector": ("indi.message.sets.SetLightVector", {"device": "D", "name": "P", "state": "Ok"}, ["timeout", "timestamp", "message"], "oneLight", None),
    "setBLOBVector": ("indi.message.sets.SetBLOBVector", {"device": "D", "name": "P", "state": "Ok"}, ["timeout", "timestamp", "message"], "oneBLOB", None),
    "newTextVector": ("indi.message.news.NewTextVector", {"device": "D", "name": "P"}, ["timestamp"], "oneText", None),
    "newNumberVector": ("indi.message.news.NewNumberVector", {"device": "D", "name": "P"}, ["timestamp"], "oneNumber", None),
    "newSwitchVector": ("indi.message.news.NewSwitchVector", {"device": "D", "name": "P"}, ["timestamp"], "oneSwitch", None),
    "newBLOBVector": ("indi.message.news.NewBLOBVector", {"device": "D", "name": "P"}, ["timestamp"], "oneBLOB", None),
    "getProperties": ("indi.message.get_properties.GetProperties", {"version": "1.7"}, ["device", "name"], None, None),
    "enableBLOB": ("indi.message.enable_blob.EnableBLOB", {"device": "D"}, ["name"], None, "blob"),
    "delProperty": ("indi.message.del_property.DelProperty", {"device": "D"}, ["name", "timestamp", "message"], None, None),
    "message": ("indi.message.base.Message", {}, ["device", "timestamp", "message"], None, None),
    "pingRequest": ("indi.message.pings.PingRequest", {"uid": "u1"}, [], None, None),
    "pingReply": ("indi.message.pings.PingReply", {"uid": "u1"}, [], None, None),
    "oneLight": ("indi.message.one_light.OneLight", {"name": "e"}, [], None, "state"),
}

VALUE_OF_KIND = {"free": ["v", "", None], "number": ["12.5", "-0:30", None], "switch": ["On", "Off"], "state": ["Ok", "Alert"], "blob": ["Also", "Never"]}


def part_recipe(tag, name="e", value="__default__", extra=None):
    cls, base, kind = PARTS[tag]
    kw = dict(base)
    kw["name"] = name
    kw["value"] = VALUE_OF_KIND[kind][0] if value == "__default__" else value
    if extra:
        kw.update(extra)
    return {"cls": cls, "kw": kw, "children": None}


def msg_recipe(tag, opt=(), children=None, value="__default__", extra=None):
    cls, base, optional, child, vkind = MSGS[tag]
    kw = dict(base)
    for o in opt:
        kw[o] = "opt-" + o
    if vkind:
        kw["value"] = VALUE_OF_KIND[vkind][0] if value == "__default__" else value
    if extra:
        kw.update(extra)
    ch = None
    if child is not None:
        ch = children if children is not None else []
    return {"cls": cls, "kw": kw, "children": ch}


def clone(r):
    return {"cls": r["cls"], "kw": dict(r["kw"]), "children": None if r["children"] is None else [clone(c) for c in r["children"]]}


def perturbations(r, tag):
    """single-point perturbations of recipe r (each must compare unequal) and rebuilt copies"""
    cls, base, optional, child, vkind = MSGS[tag]
    yield "copy", clone(r)
    # attributes
    for k in list(r["kw"]):
        v = r["kw"][k]
        if k in ("state",):
            for alt in VOCAB["state"]:
                if alt != v:
                    b = clone(r); b["kw"][k] = alt; yield "attr-changed:" + k, b
        elif k == "perm":
            b = clone(r); b["kw"][k] = "ro" if v != "ro" else "wo"; yield "attr-changed:perm", b
        elif k == "rule":
            b = clone(r); b["kw"][k] = "AnyOfMany" if v != "AnyOfMany" else "AtMostOne"; yield "attr-changed:rule", b
        elif k == "value" and vkind:
            for alt in VOCAB["blob" if vkind == "blob" else "state"]:
                if alt != v:
                    b = clone(r); b["kw"][k] = alt; yield "text-changed", b
        else:
            b = clone(r); b["kw"][k] = (v or "") + "x"; yield "attr-changed:" + k, b
        if k in optional:
            b = clone(r); del b["kw"][k]; yield "attr-dropped:" + k, b
    for o in optional:
        if o not in r["kw"]:
            b = clone(r); b["kw"][o] = "added"; yield "attr-added:" + o, b
    # rendering equivalence: size as int vs str is the same attribute on the wire
    # children
    ch = r["children"]
    if ch is not None:
        for i in range(len(ch)):
            b = clone(r); b["children"][i]["kw"]["name"] += "x"; yield "child-name-changed:%d" % i, b
            b = clone(r)
            kind = PARTS[child][2]
            cur = b["children"][i]["kw"]["value"]
            alts = [a for a in VALUE_OF_KIND[kind] if a != cur]
            b["children"][i]["kw"]["value"] = alts[0]; yield "child-value-changed:%d" % i, b
            if "label" in b["children"][i]["kw"]:
                b = clone(r); b["children"][i]["kw"]["label"] = None; yield "child-attr-dropped:%d" % i, b
            b = clone(r); del b["children"][i]; yield "child-dropped:%d" % i, b
            b = clone(r); b["children"].insert(i, clone(b["children"][i])); yield "child-duplicated:%d" % i, b
            if i + 1 < len(ch) and ch[i] != ch[i + 1]:
                b = clone(r); b["children"][i], b["children"][i + 1] = b["children"][i + 1], b["children"][i]
                yield "child-swapped:%d" % i, b
        b = clone(r); b["children"].append(part_recipe(child, name="extra")); yield "child-appended", b
    # kind changed (same attributes where the other class takes them)
    for other, (ocls, obase, oopt, ochild, ovkind) in MSGS.items():
        if other != tag and ochild == child and set(obase) == set(base) and ovkind == vkind:
            b = clone(r); b["cls"] = ocls
            # children must be rebuilt with the other class's child kind (same here)
            yield "kind-changed:" + other, b


def gen_eq_cases(rng, tier):
    names = ["a", "b", "c"]
    for tag, (cls, base, optional, child, vkind) in MSGS.items():
        opt_subsets = [(), tuple(optional)] + [(o,) for o in optional[:2]]
        child_lists = [None]
        if child is not None:
            kind = PARTS[child][2]
            vals = VALUE_OF_KIND[kind]
            atoms = [part_recipe(child, n, v) for n in names[:2] for v in vals[:2]]
            child_lists = [[]]
            maxn = 3 if tier == "thorough" else 2
            for n in range(1, maxn + 1):
                for combo in itertools.product(range(len(atoms)), repeat=n):
                    child_lists.append([clone(atoms[i]) for i in combo])
            # one longer list
            child_lists.append([part_recipe(child, "n%d" % i, vals[i % len(vals)]) for i in range(5)])
        for opt in opt_subsets:
            for ch in child_lists:
                a = msg_recipe(tag, opt, ch)
                for rel, b in perturbations(a, tag):
                    yield {"op": "eq", "a": a, "b": b, "rel": rel}
    # random deeper cases
    n = 3000 if tier == "thorough" else 400
    tags = [t for t in MSGS if MSGS[t][3] is not None]
    for _ in range(n):
        tag = rng.choice(tags)
        child = MSGS[tag][3]
        kind = PARTS[child][2]
        k = rng.randint(0, 7)
        ch = [part_recipe(child, rng.choice(names), rng.choice(VALUE_OF_KIND[kind])) for _ in range(k)]
        a = msg_recipe(tag, tuple(o for o in MSGS[tag][2] if rng.random() < 0.5), ch)
        ps = list(perturbations(a, tag))
        rel, b = rng.choice(ps)
        yield {"op": "eq", "a": a, "b": b, "rel": rel}
    # numbers held as Python numbers (messages built by a driver carry floats and ints, not text): two messages whose numeric
    # attribute / child value / child attribute differ only far behind the leading digits are different messages
    close = [(1234567.125, 1234567.25), (2460310.5000001, 2460310.5000002), (0.1234567, 0.12345675), (16777216, 16777217), (5, 5.5),
             (0.0, -0.0), (-0.0, 0.0), (1.0, 1), (2, 2.0)]               # equal as numbers (same hash), different on the wire
    for tag, (cls, base, optional, child, vkind) in MSGS.items():
        numeric_kw = [k for k in list(base) + list(optional) if k in ("timeout",)]
        for x, y in close:
            for k in numeric_kw:
                a = msg_recipe(tag, tuple(optional), [part_recipe(child, "e0")] if child else None)
                a["kw"][k] = x
                b = clone(a); b["kw"][k] = y
                yield {"op": "eq", "a": a, "b": b, "rel": "attr-changed:" + k}
                yield {"op": "eq", "a": a, "b": clone(a), "rel": "copy"}
            if child is not None:
                pbase = PARTS[child][1]
                for k in [k for k in ("min", "max", "step", "size") if k in pbase] + (["value"] if PARTS[child][2] == "number" else []):
                    for pos in (0, 2):
                        ch = [part_recipe(child, "e%d" % i) for i in range(3)]
                        a = msg_recipe(tag, (), ch)
                        a["children"][pos]["kw"][k] = x
                        b = clone(a); b["children"][pos]["kw"][k] = y
                        yield {"op": "eq", "a": a, "b": b, "rel": "child-attr-changed:%d" % pos}
    # long values: a difference far from the start (same length), in the text of every child kind that takes free text and in
    # every free attribute of a message and of a child
    for tag, (cls, base, optional, child, vkind) in MSGS.items():
        if child is None or PARTS[child][2] != "free":
            continue
        for length in (65, 80, 300, 5000 if tier == "thorough" else 1000):
            for pos in (length - 1, length // 2, 64 if length > 64 else 0, 0):
                text = ("QUJD" * (length // 4 + 1))[:length]
                other = text[:pos] + ("Z" if text[pos] != "Z" else "Y") + text[pos + 1:]
                extra = {"size": str(length), "format": ".x"} if child == "oneBLOB" else None
                a = msg_recipe(tag, (), [part_recipe(child, "e0", "v"), part_recipe(child, "e1", text, extra)])
                b = clone(a)
                b["children"][1]["kw"]["value"] = other
                yield {"op": "eq", "a": a, "b": b, "rel": "child-long-value-changed:%d@%d" % (length, pos)}
                yield {"op": "eq", "a": a, "b": clone(a), "rel": "copy"}
                c = clone(a)
                c["children"][1]["kw"]["name"] = text
                d = clone(c)
                d["children"][1]["kw"]["name"] = other
                yield {"op": "eq", "a": c, "b": d, "rel": "child-long-attr-changed:%d@%d" % (length, pos)}
        for k in [k for k in list(base) + list(optional) if k in ("device", "name", "message", "label", "group", "timestamp")][:3]:
            text = "m" * 300
            a = msg_recipe(tag, tuple(optional), [part_recipe(child, "e0", "v")])
            a["kw"][k] = text
            b = clone(a)
            b["kw"][k] = text[:299] + "n"
            yield {"op": "eq", "a": a, "b": b, "rel": "long-attr-changed:" + k}
    for tag in ("message", "delProperty", "getProperties"):
        a = msg_recipe(tag, tuple(MSGS[tag][2]))
        for k in list(a["kw"]):
            if k in ("version",):
                continue
            a2 = clone(a); a2["kw"][k] = "w" * 200
            b2 = clone(a2); b2["kw"][k] = "w" * 199 + "v"
            yield {"op": "eq", "a": a2, "b": b2, "rel": "long-attr-changed:" + k}
    # histories: compare, edit in place, compare again
    for tag, (cls, base, optional, child, vkind) in MSGS.items():
        if child is None:
            continue
        kind = PARTS[child][2]
        vals = VALUE_OF_KIND[kind]
        a = msg_recipe(tag, (), [part_recipe(child, "e0", vals[0]), part_recipe(child, "e1", vals[1 % len(vals)]), part_recipe(child, "e2", vals[0])])
        for edit in (["child-value", 0, vals[1 % len(vals)]], ["child-value", 2, vals[1 % len(vals)]], ["child-name", 1, "renamed"], ["drop-child", 1, None], ["swap", 0, None]):
            if edit[0] == "child-value" and edit[2] is None:
                continue
            yield {"op": "eq-edit", "a": a, "edit": edit}
    # int vs str rendering of an attribute: same wire view, must be equal
    a = msg_recipe("setBLOBVector", (), [part_recipe("oneBLOB", "e", "QUJD", {"size": 3})])
    b = msg_recipe("setBLOBVector", (), [part_recipe("oneBLOB", "e", "QUJD", {"size": "3"})])
    yield {"op": "eq", "a": a, "b": b, "rel": "copy:render"}


def elem_of_recipe(r):
    """the element a conformant peer would send for recipe r (attributes in kw order)"""
    cls = cls_by_name(r["cls"])
    tag = cls.tag_name()
    attrs = [(k, str(v)) for k, v in r["kw"].items() if k != "value" and v is not None]
    text = r["kw"].get("value") or ""
    ch = []
    for c in r["children"] or []:
        ccls = cls_by_name(c["cls"])
        ch.append({"tag": ccls.tag_name(), "attrs": [(k, str(v)) for k, v in c["kw"].items() if k != "value" and v is not None],
                   "text": c["kw"].get("value") or ""})
    return {"tag": tag, "attrs": attrs, "text": str(text), "children": ch}


def gen_parse_cases(rng, tier):
    """systematic perturbations of the quantifier of C13"""
    import copy

    for tag, (cls, base, optional, child, vkind) in MSGS.items():
        children = [part_recipe(child, "e1"), part_recipe(child, "e2")] if child else None
        good = elem_of_recipe(msg_recipe(tag, tuple(optional), children))
        yield {"op": "fromxml", "elem": good}
        yield {"op": "fromxml", "elem": elem_of_recipe(msg_recipe(tag, (), children))}
        # every attribute: absent, hostile values
        for i, (k, v) in enumerate(good["attrs"]):
            e = copy.deepcopy(good); del e["attrs"][i]; yield {"op": "fromxml", "elem": e}
            for h in HOSTILE:
                e = copy.deepcopy(good); e["attrs"][i] = (k, h); yield {"op": "fromxml", "elem": e}
            for vs in VOCAB.values():
                for h in vs:
                    e = copy.deepcopy(good); e["attrs"][i] = (k, h); yield {"op": "fromxml", "elem": e}
        # text of the message
        for h in HOSTILE + [" ", "\n  ", " Also ", "Also", "Ok", " Ok\n"]:
            e = copy.deepcopy(good); e["text"] = h; yield {"op": "fromxml", "elem": e}
        # odd attribute names
        for k in ("self", "children", "value", "junk", "kwargs", "args", "cls", "a-b", "xml:lang"):
            for v in ("", "x", "Also", "Ok"):
                e = copy.deepcopy(good); e["attrs"].append((k, v)); yield {"op": "fromxml", "elem": e}
                e = copy.deepcopy(good); e["attrs"].append((k, v)); e["children"] = []; yield {"op": "fromxml", "elem": e}
        # children of every kind, child perturbations
        for ptag, (pcls, pbase, pkind) in PARTS.items():
            pe = {"tag": ptag, "attrs": [(k, str(v)) for k, v in pbase.items()], "text": VALUE_OF_KIND[pkind][0] or ""}
            e = copy.deepcopy(good); e["children"] = [pe]; yield {"op": "fromxml", "elem": e}
            e = copy.deepcopy(good); e["children"].append(pe); yield {"op": "fromxml", "elem": e}
            if ptag == child:
                for h in HOSTILE + [" ", " On ", "On", "Off", "Ok", "12", "1:30", "1:3", "1;30;00.5", "+5", "1e5", "١٢", "12\n", "1 30", ".",
                                   "10²", "²", "①", "1.₅", "⁵.5", "٣.٥", "1_0", "0x1F", "１２", "½", "Ⅻ", "1.", ".5", "-.5", "1..2", "+", "-"]:
                    e2 = copy.deepcopy(good); c2 = copy.deepcopy(pe); c2["text"] = h; e2["children"] = [c2]
                    yield {"op": "fromxml", "elem": e2}
                for j in range(len(pe["attrs"])):
                    e2 = copy.deepcopy(good); c2 = copy.deepcopy(pe); del c2["attrs"][j]; e2["children"] = [c2]
                    yield {"op": "fromxml", "elem": e2}
                for k in ("self", "value", "children", "junk"):
                    e2 = copy.deepcopy(good); c2 = copy.deepcopy(pe); c2["attrs"].append((k, "x")); e2["children"] = [c2]
                    yield {"op": "fromxml", "elem": e2}
        for ptag in ("defIndiMessagePart", "indiMessagePart", "oneFoo", "defVector", "message", "setTextVector"):
            e = copy.deepcopy(good); e["children"] = [{"tag": ptag, "attrs": [("name", "e")], "text": "v"}]
            yield {"op": "fromxml", "elem": e}
    # number syntax: every string over the number alphabet up to a bounded length, and every
    # single-character edit of valid numbers, as oneNumber / defNumber text
    alphabet = "-+05.:; "
    maxlen = 5 if tier == "thorough" else 4
    strings = []
    for n in range(1, maxlen + 1):
        strings.extend("".join(t) for t in itertools.product(alphabet, repeat=n))
    valid = ["12", "-1.5", "12.", ".5", "+3", "1:30", "1;30.5", "1 30 00", "-1:30:00.5", "0:05", "10:00:59.99"]
    edits = set()
    for v in valid:
        for i in range(len(v) + 1):
            for ch in alphabet + "eE_٣":
                edits.add(v[:i] + ch + v[i:])
                if i < len(v):
                    edits.add(v[:i] + ch + v[i + 1:])
            if i < len(v):
                edits.add(v[:i] + v[i + 1:])
                edits.add(v[:i] + v[i] + v[i:])
    strings.extend(sorted(edits))
    strings.extend(v + tail for v in valid for tail in ("\n", "\n\n", " ", "\t"))
    for k, text in enumerate(strings):
        ptag, msgtag = ("oneNumber", "newNumberVector") if k % 2 == 0 else ("defNumber", "defNumberVector")
        good = elem_of_recipe(msg_recipe(msgtag, (), [part_recipe(ptag, "e1")]))
        good["children"][0]["text"] = text
        yield {"op": "fromxml", "elem": good}
    for tag in ("indiMessage", "defVector", "setVector", "newVector", "defWritableVector", "foo", "", "Message", "oneText", "defText", "newLightVector"):
        yield {"op": "fromxml", "elem": {"tag": tag, "attrs": [("device", "D"), ("name", "P"), ("state", "Ok"), ("perm", "rw")], "text": "", "children": []}}
    # random XML through the real parser
    n = 4000 if tier == "thorough" else 600
    tags = list(MSGS) + ["foo"]
    ptags = list(PARTS) + ["bar"]
    attr_names = ["device", "name", "state", "perm", "rule", "label", "group", "timeout", "timestamp", "message", "version", "uid",
                  "format", "min", "max", "step", "size", "value", "children", "self", "x"]
    pool = HOSTILE + TEXTS + sum(VOCAB.values(), []) + ["D", "P", "1.7", "%.2f", "0", "12"]

    def esc(t):
        return t.replace("&", "&amp;").replace("<", "&lt;").replace('"', "&quot;")

    for _ in range(n):
        tag = rng.choice(tags)
        base = MSGS.get(tag, (None, {}, [], None, None))
        names = list(base[1]) + [a for a in attr_names if rng.random() < 0.25]
        seen = []
        for a in names:
            if a not in seen and rng.random() < 0.93:
                seen.append(a)
        attrs = " ".join('%s="%s"' % (a, esc(base[1][a] if a in base[1] and rng.random() < 0.75 else rng.choice(pool))) for a in seen)
        kids = []
        for _k in range(rng.choice([0, 0, 1, 2, 3])):
            ptag = base[3] if base[3] and rng.random() < 0.8 else rng.choice(ptags)
            pb = PARTS.get(ptag, (None, {"name": "e"}, "free"))
            pat = " ".join('%s="%s"' % (a, esc(str(v))) for a, v in pb[1].items() if rng.random() < 0.93)
            pv = VALUE_OF_KIND[pb[2]][0] if rng.random() < 0.7 else rng.choice(pool)
            kids.append("<%s %s>%s</%s>" % (ptag, pat, esc(pv or ""), ptag))
        text = rng.choice(["", "", " ", "\n", esc(rng.choice(pool))])
        yield {"op": "fromstring", "xml": "<%s %s>%s%s</%s>" % (tag, attrs, text, "".join(kids), tag)}


_FAULTS_DONE = []


def run_user_code_faults():
    """what an application can legitimately have happen before the library parses anything: its own handlers and callbacks
    raising at every point where the library calls user code (each contained by the caller, as an application would).  A
    correct library keeps no trace of it; process-wide state left behind by an interrupted operation shows in what follows."""
    import asyncio

    from indi.client.client import BaseClient
    from indi.device import Driver, events, properties
    from indi.message import IndiMessage
    from indi.routing import Client, Router

    mood = {"raise": True}

    def moody(event):
        if mood["raise"]:
            raise RuntimeError("user handler fails")

    els = dict(t=properties.Text("T", default="x"), u=properties.Text("U", default="y"))
    vec = properties.TextVector("V", elements=els)
    sw = properties.SwitchVector("S", rule="OneOfMany", elements=dict(a=properties.Switch("A", default="On"), b=properties.Switch("B", default="Off")))
    num = properties.NumberVector("N", elements=dict(n=properties.Number("N1", default=1.0)))
    els["t"].attach_event_handler(events.Read, moody)
    els["u"].attach_event_handler(events.Write, moody)
    els["u"].attach_event_handler(events.Change, moody)

    class Dev(Driver):
        name = "FAULTY"
        g = properties.Group("G", vectors=dict(v=vec, s=sw, n=num))

    class Deaf(Client):
        def message_from_device(self, msg):
            if mood["raise"]:
                raise RuntimeError("client endpoint fails")

    async def main():
        router = Router()
        router.register_client(Deaf())
        d = Dev(router=router)
        actions = [
            lambda: setattr(d.g.v, "state_", "Busy"),                      # publication reads T: its Read handler raises
            lambda: d.g.v.t.value,
            lambda: setattr(d.g.v.u, "value", "z"),                        # Change handler raises / delivery raises
            lambda: d.g.v.u.set_value("w"),                                # Write handler raises
            lambda: setattr(d.g.s.b, "value", "On"),                       # delivery of a switch update raises
            lambda: setattr(d.g.n.n, "value", 2.5),
            lambda: setattr(d.g.n, "enabled", False),
            lambda: router.process_message(IndiMessage.from_string('<getProperties version="1.7"/>')),
            lambda: router.process_message(IndiMessage.from_string('<newTextVector device="FAULTY" name="V"><oneText name="U">q</oneText></newTextVector>')),
        ]
        for phase in (True, False, True, False):
            mood["raise"] = phase
            for act in actions:
                try:
                    act()
                except Exception:  # noqa
                    pass
                await asyncio.sleep(0)
        client = BaseClient()
        client.onevent(callback=moody)
        mood["raise"] = True
        for xml in ('<defTextVector device="D" name="P" state="Ok" perm="rw"><defText name="x">1</defText></defTextVector>',
                    '<setTextVector device="D" name="P" state="Busy"><oneText name="x">2</oneText></setTextVector>'):
            try:
                client.process_message(IndiMessage.from_string(xml))
            except Exception:  # noqa
                pass
        mood["raise"] = False

    try:
        asyncio.run(main())
    except Exception:  # noqa
        pass


def gen_parse_after_faults(rng, tier):
    """the hostile parsing cases once more (a sample), in a process in which user handlers and callbacks have raised at every
    point where the library calls user code"""
    for n, case in enumerate(gen_parse_cases(rng, tier)):
        if n % 5 == 0:
            yield dict(case, _after="faults")


def gen_toxml_cases(rng, tier):
    for tag, (cls, base, optional, child, vkind) in MSGS.items():
        for opt in [(), tuple(optional)]:
            for nch in (0, 1, 3):
                ch = [part_recipe(child, "e%d" % i) for i in range(nch)] if child else None
                yield {"op": "toxml", "msg": msg_recipe(tag, opt, ch)}
