"""Correspondence components `num` and `b64`: indi/device/values.py (num_to_str, str_to_num, BLOB base64)
and indi/message/checks.py (number).

Cases:
  {"op": "render", "fmt": "%.6m", "x": "0x1.8p+1" | int}      num_to_str, then OneNumber(...) and str_to_num of the result
  {"op": "parse", "s": "12:30", "fmt": "%.2f"}                str_to_num and checks.number
  {"op": "b64enc", "hex": "00ff.."} / {"op": "b64dec", "s": "QUJD"}
Numbers travel as exact integer ratios, never as decimal floats.
"""
import itertools
from fractions import Fraction

from harness import Query, enc_bool, enc_str, exc_name

NAME = "num"


def to_num(x):
    return float.fromhex(x) if isinstance(x, str) else x


def ratio(v):
    if isinstance(v, int):
        return "%d/1" % v
    p, q = v.as_integer_ratio()
    return "%d/%d" % (p, q)


def run_impl(case, outcome):
    import base64
    import binascii

    from indi.device import values
    from indi.message import checks, one_parts

    op = case["op"]
    outcome.count("op:" + op)
    if op == "render":
        x = to_num(case["x"])
        fmt = case["fmt"]
        try:
            text = values.num_to_str(x, fmt)
            expect = "ok " + enc_str(text)
        except AssertionError:
            text, expect = None, "AssertionError"
        except Exception as e:  # noqa
            text, expect = None, exc_name(e)
        outcome.nontrivial.add((fmt, ratio(x)))
        outcome.count("fmt-kind:" + fmt[-1])
        # formats outside the modelled family (the model answers `unsupported`) are not compared
        qs = [Query("num render %s %s" % (enc_str(fmt), ratio(x)), (expect, "unsupported"), "corr")]
        if text is not None:
            try:
                one_parts.OneNumber(name="n", value=text)
                vok = True
            except Exception:  # noqa
                vok = False
            try:
                back = values.str_to_num(text, fmt)
                back_r = ratio(back)
            except Exception:  # noqa
                back_r = "~"
            qs.append(Query("spec num render %s %s %s %s %s" % (enc_str(fmt), ratio(x), enc_str(text), enc_bool(vok), back_r),
                            ("True", "unsupported"), "oracle", "rendered text valid, denotes x within the resolution, parses back within it"))
        elif expect != "AssertionError" or fmt[-1] != "m":
            qs.append(Query("spec num render %s %s x False ~" % (enc_str(fmt), ratio(x)), "unsupported", "oracle",
                            "rendering raised %s for a format of the family" % expect))
        return qs
    if op == "render-history":
        # rendering is a function of (number, format) alone: a sequence of renderings in ONE process, mixing numbers that
        # compare equal but print differently (0.0 / -0.0, 1 / 1.0 / True); reference for printf formats: CPython's own `%`
        qs = []
        for x, fmt in case["calls"]:
            v = {"-0.0": -0.0, "True": True}.get(x, x) if isinstance(x, str) else x
            try:
                want = (fmt % v).strip()          # the library sends numbers without the blank padding
            except Exception:  # noqa
                continue
            try:
                got = values.num_to_str(v, fmt)
            except Exception as e:  # noqa
                got = "raised " + type(e).__name__
            outcome.count("history-render")
            if got != want:
                qs.append(Query("spec istrue False", "True", "oracle",
                                "num_to_str(%r, %r) = %r after earlier renderings in the same process; printf gives %r" % (v, fmt, got, want)))
            else:
                qs.append(Query("spec istrue True", "True", "oracle"))
        outcome.nontrivial.add(str(case["calls"]))
        return qs
    if op == "parse":
        s = case["s"]
        fmt = case.get("fmt", "%f")
        try:
            v = values.str_to_num(s, fmt)
            expect = ("int %d" % v) if isinstance(v, int) else ("float " + ratio(v))
        except ValueError:
            v, expect = None, "ValueError"
        except Exception as e:  # noqa
            v, expect = None, exc_name(e)
        try:
            checks.number(s.strip())
            vok = True
        except ValueError:
            vok = False
        try:
            checks.number(s)
            vraw = True
        except ValueError:
            vraw = False
        outcome.nontrivial.add(s)
        outcome.count("parse:" + expect.split(" ")[0])
        return [Query("num parse " + enc_str(s), expect, "corr"),
                Query("num check " + enc_str(s), enc_bool(vraw), "corr"),
                Query("spec num parse %s %s %s %s" % (enc_str(s), enc_bool(vok), enc_bool(isinstance(v, int)), "~" if v is None else ratio(v)),
                      ("True", "na"), "oracle", "a number text of the grammar is accepted and parsed to the value it denotes")]
    if op == "b64enc":
        data = bytes.fromhex(case["hex"])
        blob = values.BLOB(data, ".x")
        text = blob.binary_base64
        back = values.BLOB.from_base64(text, ".x")
        outcome.nontrivial.add(case["hex"])
        outcome.count("b64-len:%d" % min(len(data) % 3, 3))
        return [Query("b64 enc h" + case["hex"], enc_str(text), "corr"),
                Query("b64 dec " + enc_str(text), "ok h" + back.binary.hex(), "corr"),
                Query("b64 dec " + enc_str(text), "ok h" + case["hex"], "oracle", "decode(encode(bytes)) = bytes"),
                Query("b64 enc h" + case["hex"], enc_str(text) if back.size == len(data) and not set(text) & set("<>&") else "size/markup", "oracle")]
    if op == "b64dec":
        s = case["s"]
        try:
            out = "ok h" + base64.b64decode(s).hex()
        except binascii.Error as e:
            out = "Error one-more" if "more than a multiple of 4" in str(e) else "Error incorrect-padding"
        except Exception as e:  # noqa
            out = exc_name(e)
        outcome.nontrivial.add(s)
        outcome.count("b64dec:" + out.split(" ")[0] + (out.split(" ")[1] if out.startswith("Error") else ""))
        return [Query("b64 dec " + enc_str(s), out, "corr")]
    raise ValueError(op)


# --------------------------------------------------------------------------

SEXA = {3: 60, 5: 600, 6: 3600, 8: 36000, 9: 360000}


def printf_formats(rng, n):
    flags = ["", "-", "+", " ", "#", "0", "+0", "-0", " 0", "+ ", "#0", "-+"]
    widths = ["", "1", "5", "8", "12"]
    precs = ["", ".0", ".", ".1", ".2", ".3", ".6", ".10"]
    allf = ["%" + f + w + p + c for f in flags for w in widths for p in precs for c in "df"]
    rng.shuffle(allf)
    base = ["%d", "%f", "%.2f", "%5.2f", "%.0f", "%6.3f", "%05d", "%+.1f", "%-8.2f", "%#.0f", "%.3d", "% d", "%08.2f"]
    return base + allf[:n]


def interesting_values(rng, n):
    vals = [0, 1, -1, 0.0, 0.5, -0.5, 1.5, 2.5, -2.5, 0.35, 0.045, 0.125, 1e9, -1e9, 999999999.999, 123456789.125, 1e-7, -1e-7, 0.999999, -0.999999,
            59.5 / 60, 59.95 / 60, 59.995 / 3600 + 59 / 60, 1.9999, 0.99999, 359.99999, -359.999999, 12, -12, 7, 1000000000, -999999999,
            0.1, 0.2, 0.3, 1 / 3, 2 / 3, -1 / 3, 3.14159, -3.14159, 100.005, 0.005, 0.015, 0.025, 1.005, 2.675, -0.04, -0.05, -0.001]
    for _ in range(n):
        r = rng.random()
        if r < 0.3:
            vals.append(rng.uniform(-1, 1))
        elif r < 0.6:
            vals.append(rng.uniform(-360, 360))
        elif r < 0.8:
            vals.append(rng.uniform(-1e9, 1e9))
        elif r < 0.9:
            vals.append(rng.randint(-10 ** 9, 10 ** 9))
        else:
            vals.append(round(rng.uniform(-400, 400), rng.randint(0, 4)))
    return vals


def hexf(v):
    return v if isinstance(v, int) else float(v).hex()


def gen_render(rng, tier):
    thorough = tier == "thorough"
    # (1) the resolution grid of the sexagesimal formats on [-360, 360] degrees
    for frac, base in SEXA.items():
        fmt = "%%%s.%dm" % (rng.choice(["", "10", "3"]), frac)
        total = 360 * base
        if base <= 600 and (thorough or base == 60):
            ks = range(-total, total + 1, 1 if thorough else 5)
        elif base == 3600 and thorough:
            ks = range(-total, total + 1)
        else:
            ks = sorted(set(rng.randrange(-total, total + 1) for _ in range(30000 if thorough else 1500)) | set(range(-200, 201)))
        for k in ks:
            yield {"op": "render", "fmt": fmt, "x": hexf(k / base)}
        # half a unit below / above every kind of carry, (-1, 0), just below whole degrees
        for d in ([0, 1, 9, 59, 99, 359, -1, -59, -360] if not thorough else list(range(-360, 361, 7))):
            for num in (base - 1, base - 0.5, base - 0.50001, base - 0.49999, base - 0.25, 0.5, 0.49999, 0.50001, base / 60 - 0.5, base / 60 * 59 + base / 60 - 0.5,
                        1.5, 2.5, base / 2, base / 2 + 0.5):
                for sign in (1, -1):
                    yield {"op": "render", "fmt": fmt, "x": hexf(sign * (abs(d) + num / base))}
    for fmt in ("%.4m", "%.m", "%.10m", "%5.7m"):
        yield {"op": "render", "fmt": fmt, "x": hexf(1.5)}
    # (2) printf formats x interesting values
    fmts = printf_formats(rng, 400 if thorough else 60)
    vals = interesting_values(rng, 600 if thorough else 80)
    for fmt in fmts:
        for v in (vals if thorough else vals[:50] + rng.sample(vals, 25)):
            yield {"op": "render", "fmt": fmt, "x": hexf(v)}
    for frac in SEXA:
        for v in vals:
            yield {"op": "render", "fmt": "%%.%dm" % frac, "x": hexf(v)}


def gen_history(rng, tier):
    """sequences of renderings in one process: numbers that are equal (and hash alike) but print differently, under the same format"""
    fmts = ["%.2f", "%f", "%5.1f", "%+.1f", "%08.3f", "%.0f", "%d", "%4d", "%.3f"]
    twins = [[0.0, "-0.0"], ["-0.0", 0.0], [1, 1.0, "True"], [1.0, 1], [0, "-0.0", 0.0], [-1, -1.0], [100.0, 100], [2.5, 2.5]]
    for fmt in fmts:
        for tw in twins:
            yield {"op": "render-history", "calls": [[x, fmt] for x in tw]}
    n = 200 if tier == "thorough" else 30
    pool = [0.0, "-0.0", 0, 1, 1.0, -1.0, 12.5, 1e9, -0.001, 0.001, 359.99999]
    for _ in range(n):
        yield {"op": "render-history", "calls": [[rng.choice(pool), rng.choice(fmts)] for _ in range(rng.randint(2, 12))]}


def grammar_strings(rng, n):
    out = []
    for _ in range(n):
        sign = rng.choice(["", "", "-", "+"])
        kind = rng.randrange(8)
        w = str(rng.choice([0, 1, 7, 12, 59, 123, 359, 100000])) if rng.random() < 0.8 else "0" * rng.randint(1, 3) + str(rng.randint(0, 99))
        dd = lambda: "%02d" % rng.choice([0, 1, 9, 30, 59, 60, 99])  # noqa
        fr = lambda: "".join(rng.choice("0123456789") for _ in range(rng.randint(1, 6)))  # noqa
        sep = lambda: rng.choice(":; ")  # noqa
        body = [w, w + "." + fr(), w + ".", "." + fr(), w + sep() + dd(), w + sep() + dd() + "." + fr(),
                w + sep() + dd() + sep() + dd(), w + sep() + dd() + sep() + dd() + "." + fr()][kind]
        pad = rng.choice(["", "", "", " ", "\n", "\t "])
        out.append(pad + sign + body + rng.choice(["", "", " ", "\n"]))
    return out


def gen_parse(rng, tier):
    thorough = tier == "thorough"
    alphabet = "-+0159.:; "
    maxlen = 6 if thorough else 4
    fmts = ["%f", "%.6m", "%d", "%.3m"]
    k = 0
    for n in range(0, maxlen + 1):
        for t in itertools.product(alphabet, repeat=n):
            k += 1
            yield {"op": "parse", "s": "".join(t), "fmt": fmts[k % 4]}
    for s in grammar_strings(rng, 20000 if thorough else 3000):
        k += 1
        yield {"op": "parse", "s": s, "fmt": fmts[k % 4]}
    for s in ["١٢", "١٢:٣٠", "12:٣٠.٥", "1_000", "1e5", "0x10", "inf", "nan", "12:60", "12:5", "12:300", "1:2:3:4", "12::30", "12: 30", "12 30 00.5", "--1", "+-1",
              "1.2.3", "", " ", "9" * 30, "9" * 30 + ".5", "0." + "0" * 30 + "1", "12;30;15", "-0;00;00.5", "+0:00", "-0", "00012", "12\n", "\n12:30\n"]:
        yield {"op": "parse", "s": s, "fmt": "%f"}


def gen_b64(rng, tier):
    thorough = tier == "thorough"
    for b in range(256):
        yield {"op": "b64enc", "hex": "%02x" % b}
    for a, b in itertools.product(range(0, 256, 1 if thorough else 5), repeat=2):
        yield {"op": "b64enc", "hex": "%02x%02x" % (a, b)}
    for n in list(range(0, 70)) + ([1022, 1023, 1024, 1025, 1535, 1536, 1537, 2047, 2048, 2049, 3000] if not thorough else list(range(70, 3001, 7))):
        yield {"op": "b64enc", "hex": bytes(rng.randrange(256) for _ in range(n)).hex()}
    yield {"op": "b64enc", "hex": bytes(range(256)).hex()}
    alphabet = "ABab01+/=\n -_!"
    for n in range(0, 6 if thorough else 5):
        for t in itertools.product(alphabet[: (len(alphabet) if thorough or n < 4 else 8)], repeat=n):
            yield {"op": "b64dec", "s": "".join(t)}
    for s in ["QUJD RA==", "QQ==junk", "QQ=x=", "QQ", "Q", "QUJDRA", "QUJDRA=", "QUJDRA==", "=QUJD", "QU=JD", "QUJD=", "QUJD==", "Q=Q=", "QQ=Q", "====", "QUJD\nRUZH\n",
              "Q\x00UJD", "QUJDé".encode("latin1").decode("latin1")[:4], "QQ==QQ==", "QQ=\n="]:
        yield {"op": "b64dec", "s": s}
    for _ in range(3000 if thorough else 400):
        yield {"op": "b64dec", "s": "".join(rng.choice("ABCDwxyz0189+/= \n!") for _ in range(rng.randint(0, 24)))}
