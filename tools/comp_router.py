"""Correspondence component `router`: indi/routing/router.py with recording endpoints.

Case: {"op": "hist", "ops": [op...]} with op one of
  ["D", id, name|None]            register a device (name None = catch-all, a Proxy subclass)
  ["C", id] / ["U", id]           register / unregister a client
  ["S", tag, device|None, policy|None, sender]   process_message; sender "n" | "c<id>" | "d<id>"
Observed per operation: the ordered list of endpoints whose message_from_client /
message_from_device was called (or the exception class), and at the end
Router.clients and Router.blob_routing.
"""
import itertools

from harness import enc_bool, Query, enc_opt, enc_str
import comp_codec

NAME = "router"


_REUSED = {}


def make_message(tag, device, policy, reuse_key=None):
    """reuse_key: the sender keeps ONE EnableBLOB object and re-sends it with other contents (a client is free to do that)"""
    if tag == "enableBLOB" and reuse_key is not None and reuse_key in _REUSED:
        m = _REUSED[reuse_key]
        m.device = device
        m.value = comp_codec.fresh(policy or "Never")
        return m
    m = _make_message(tag, device, policy)
    if tag == "enableBLOB" and reuse_key is not None:
        _REUSED[reuse_key] = m
    return m


def _make_message(tag, device, policy):
    cls, base, optional, child, vkind = comp_codec.MSGS[tag]
    kw = dict(base)
    if "device" in kw or tag in ("getProperties", "message"):
        kw["device"] = comp_codec.fresh(device)
    if tag == "enableBLOB":
        kw["value"] = comp_codec.fresh(policy or "Never")      # as a parser hands it over: equal to the constant, not the same object
    elif vkind:
        kw["value"] = comp_codec.VALUE_OF_KIND[vkind][0]
    return comp_codec.cls_by_name(cls)(**kw)


def enc_op(op):
    if op[0] == "D":
        return "D %d %s" % (op[1], enc_opt(op[2]))
    if op[0] in ("C", "U"):
        return "%s %d" % (op[0], op[1])
    return "S %s %s %s %s" % (enc_str(op[1]), enc_opt(op[2]), op[3] or "~", op[4])


def enc_reaction(i, r):
    who, tag, device, policy = r
    return "%d %s %s %s %s" % (i, who, enc_str(tag), enc_opt(device), policy or "~")


def run_impl(case, outcome):
    if case.get("op") == "rhist":
        return run_reentrant(case, outcome)
    if case.get("op") == "defaults":
        return run_defaults(case, outcome)
    return run_plain(case, outcome)


def run_defaults(case, outcome):
    """the same history on routers that differ ONLY in DEFAULT_BLOB_POLICY (the class default, a subclass, an instance
    attribute): what a client receives from a device for which it has itself sent an enableBLOB since it registered is
    decided by that setting and must not depend on the router's default"""
    from indi.routing import Client, Device, Router

    def run(make_router):
        router = make_router()
        log = []

        class RecCli(Client):
            def __init__(self, ident):
                self.ident = ident

            def message_from_device(self, msg):
                log.append(self.ident)

        class Dev(Device):
            def __init__(self, name):
                self.name = name

            def accepts(self, device):
                return device is None or device == self.name

            def message_from_client(self, msg):
                pass

        clis, devs, out = {}, {}, []
        explicit = set()
        for op in case["ops"]:
            del log[:]
            judged = None
            if op[0] == "D":
                devs[op[1]] = Dev(op[2])
                router.register_device(devs[op[1]])
            elif op[0] == "C":
                clis.setdefault(op[1], RecCli(op[1]))
                router.register_client(clis[op[1]])
                explicit = {k for k in explicit if k[0] != op[1]}
            elif op[0] == "U":
                if op[1] in clis:
                    router.unregister_client(clis[op[1]])
                explicit = {k for k in explicit if k[0] != op[1]}
            else:
                _, tag, device, policy, sender = op
                sd = None if sender == "n" else (clis.get(int(sender[1:])) if sender[0] == "c" else devs.get(int(sender[1:])))
                msg = make_message(tag, device, policy)
                # (a setting is taken only from a sender the router keeps a policy table for: after a double registration and one
                # unregistration the client is still served but has no table any more)
                if tag == "enableBLOB" and sender[0] == "c" and clis.get(int(sender[1:])) in router.blob_routing:
                    explicit.add((int(sender[1:]), getattr(msg, "device")))
                router.process_message(msg, sd)
                if tag != "enableBLOB" and getattr(msg, "from_device", False):
                    judged = sorted(c for c in set(log) if (c, getattr(msg, "device")) in explicit), \
                        sorted(c for c in clis if (c, getattr(msg, "device")) in explicit)
            out.append(judged)
        return out

    from indi.routing import Router as R0

    class AlsoRouter(R0):
        DEFAULT_BLOB_POLICY = "Also"

    def only_instance():
        r = R0()
        r.DEFAULT_BLOB_POLICY = "Only"
        return r

    base = run(R0)
    qs = []
    outcome.nontrivial.add(str(case["ops"]))
    for label, mk in (("a subclass with DEFAULT_BLOB_POLICY = Also", AlsoRouter), ("an instance with DEFAULT_BLOB_POLICY = Only", only_instance)):
        other = run(mk)
        bad = [(i, case["ops"][i], a, b) for i, (a, b) in enumerate(zip(base, other)) if a != b]
        outcome.count("router-default-variant")
        qs.append(Query("spec istrue %s" % enc_bool(not bad), "True", "oracle",
                        "on %s, clients that set their own policy for the device receive something else than on a plain Router: %s" % (label, bad[:2])))
    return qs


def run_reentrant(case, outcome):
    """endpoints that send from inside their handler: the next pending reaction of an endpoint is sent (with the endpoint as
    sender) each time it is handed a message; the log is depth-first, every delivery tagged with the message it delivers
    (0 = the outer message of the operation, k = reaction number k)"""
    from indi.device import Driver
    from indi.device.proxy import Proxy
    from indi.routing import Client, Router

    log = []
    current = [0]
    pending = [[i + 1] + list(r) for i, r in enumerate(case["reactions"])]
    router = Router()

    def react(who, endpoint):
        for k, r in enumerate(pending):
            if r[1] == who:
                del pending[k]
                msg = make_message(r[2], r[3], r[4])
                outer = current[0]
                current[0] = r[0]
                try:
                    router.process_message(msg, endpoint)
                finally:
                    current[0] = outer
                return

    class RecDrv(Driver):
        def __init__(self, ident, name):
            self.ident = ident
            super().__init__(name=name)

        def message_from_client(self, msg):
            log.append("%d:d%d" % (current[0], self.ident))
            react("d%d" % self.ident, self)

    class RecProxy(Proxy):
        def __init__(self, ident):
            self.ident = ident
            super().__init__(name="proxy%d" % ident)

        def message_from_client(self, msg):
            log.append("%d:d%d" % (current[0], self.ident))
            react("d%d" % self.ident, self)

    class RecCli(Client):
        def __init__(self, ident):
            self.ident = ident

        def message_from_device(self, msg):
            log.append("%d:c%d" % (current[0], self.ident))
            react("c%d" % self.ident, self)

    devs, clis = {}, {}

    def dev(i, name="?"):
        if i not in devs:
            if name is None:
                devs[i] = RecProxy(i)
            elif i % 2:
                # the usual idiom: the device name is a class attribute of the driver class (it shadows the base class's `name`
                # property, so it IS the driver's public name); the instance is created with another `name=` argument
                devs[i] = type("RecDrv_%d" % i, (RecDrv,), {"name": name})(i, "instance-of-" + name)
            else:
                devs[i] = RecDrv(i, name)
        return devs[i]

    def cli(i):
        if i not in clis:
            clis[i] = RecCli(i)
        return clis[i]

    traces, enc_ops = [], []
    for op in case["ops"]:
        del log[:]
        enc_ops.append(enc_op(op))
        try:
            if op[0] == "D":
                router.register_device(dev(op[1], op[2]))
            elif op[0] == "C":
                router.register_client(cli(op[1]))
            elif op[0] == "U":
                router.unregister_client(cli(op[1]))
            else:
                _, tag, device, policy, sender = op
                sd = None if sender == "n" else (cli(int(sender[1:])) if sender[0] == "c" else dev(int(sender[1:])))
                msg = make_message(tag, device, policy)
                enc_ops[-1] = enc_op(["S", tag, getattr(msg, "device"), policy, sender])
                current[0] = 0
                router.process_message(msg, sd)
                outcome.count("send:" + tag)
                outcome.count("nested-deliveries:%d" % min(sum(1 for x in log if not x.startswith("0:")), 4))
        except Exception as e:  # noqa
            log.append("raised:" + type(e).__name__)
            outcome.count("raised:" + type(e).__name__)
        traces.append(" ".join(log))
    rs = [enc_reaction(i + 1, r) for i, r in enumerate(case["reactions"])]
    line = " ".join([str(len(case["ops"]))] + enc_ops + [str(len(rs))] + rs)
    outcome.nontrivial.add(line)
    outcome.count("reactions-fired", len(case["reactions"]) - len(pending))
    return [Query("router rhist " + line, " | ".join(traces), "corr"),
            Query("spec rrouter " + line, " | ".join(traces), "oracle", "re-entrant delivery: a message sent from inside a handler is not routed by its own kind / the policies")]


def run_plain(case, outcome):
    from indi.device import Driver
    from indi.device.proxy import Proxy
    from indi.routing import Client, Router

    log = []

    class RecDrv(Driver):
        def __init__(self, ident, name):
            self.ident = ident
            super().__init__(name=name)

        def message_from_client(self, msg):
            log.append("d%d" % self.ident)

    class RecProxy(Proxy):
        def __init__(self, ident):
            self.ident = ident
            super().__init__(name="proxy%d" % ident)

        def message_from_client(self, msg):
            log.append("d%d" % self.ident)

    class RecCli(Client):
        def __init__(self, ident):
            self.ident = ident

        def message_from_device(self, msg):
            log.append("c%d" % self.ident)

    from indi.device.snoop import SnoopingClient

    class RecSnoop(SnoopingClient):
        """the library's own in-process client (a BaseClient that knows no device yet) as a routing endpoint"""

        def __init__(self, ident):
            super().__init__(None)
            self.ident = ident

        def message_from_device(self, msg):
            log.append("c%d" % self.ident)

    router = Router()
    devs, clis = {}, {}

    def dev(i, name="?"):
        if i not in devs:
            if name is None:
                devs[i] = RecProxy(i)
            elif i % 2:
                # the usual idiom: the device name is a class attribute of the driver class (it shadows the base class's `name`
                # property, so it IS the driver's public name); the instance is created with another `name=` argument
                devs[i] = type("RecDrv_%d" % i, (RecDrv,), {"name": name})(i, "instance-of-" + name)
            else:
                devs[i] = RecDrv(i, name)
        return devs[i]

    def cli(i):
        if i not in clis:
            clis[i] = RecSnoop(i) if i % 2 else RecCli(i)
        return clis[i]

    traces = []
    enc_ops = []
    for op in case["ops"]:
        del log[:]
        enc_ops.append(enc_op(op))
        try:
            if op[0] == "D":
                router.register_device(dev(op[1], op[2]))
            elif op[0] == "C":
                router.register_client(cli(op[1]))
            elif op[0] == "U":
                router.unregister_client(cli(op[1]))
            else:
                _, tag, device, policy, sender = op
                sd = None if sender == "n" else (cli(int(sender[1:])) if sender[0] == "c" else dev(int(sender[1:])))
                msg = make_message(tag, device, policy, reuse_key=(id(router), sender) if sender[0] == "c" and int(sender[1:]) % 2 == 0 else None)
                # what the router sees is the attribute the constructor stored
                enc_ops[-1] = enc_op(["S", tag, getattr(msg, "device"), policy, sender])
                router.process_message(msg, sd)
                outcome.count("send:" + tag)
                outcome.count("deliveries:%d" % min(len(log), 4))
        except Exception as e:  # noqa
            log.append("raised:" + type(e).__name__)
            outcome.count("raised:" + type(e).__name__)
        traces.append(" ".join(log))
    line = " ".join([str(len(case["ops"]))] + enc_ops)
    outcome.nontrivial.add(line)
    outcome.count("history-length:%d" % (10 * (len(case["ops"]) // 10)))
    return [Query("router hist " + line, " | ".join(traces), "corr"),
            Query("spec router " + line, " | ".join(traces), "oracle")]


# --------------------------------------------------------------------------

CLIENT_TAGS = ["getProperties", "enableBLOB", "newTextVector", "newNumberVector", "newSwitchVector", "newBLOBVector", "pingReply"]
DEVICE_TAGS = ["defTextVector", "defNumberVector", "defSwitchVector", "defLightVector", "defBLOBVector", "setTextVector", "setNumberVector",
               "setSwitchVector", "setLightVector", "setBLOBVector", "delProperty", "message", "getProperties", "pingRequest", "oneLight"]
POLICIES = ["Never", "Also", "Only"]
NAMES = ["A", "B", None, "unknown", ""]


def sweep(devs, clis, tags, senders=None):
    ops = []
    senders = senders or (["n"] + ["c%d" % c for c in clis] + ["d%d" % d for d in devs])
    for tag in tags:
        for name in NAMES:
            for s in senders:
                if tag == "enableBLOB":
                    continue
                ops.append(["S", tag, name, None, s])
    return ops


def gen_c04(rng, tier):
    """client-originated messages: all registration states of the bounded universe"""
    all_devs = [(0, "A"), (1, "B"), (2, None)]
    for nd in range(0, 4):
        for dsel in itertools.combinations(all_devs, nd):
            for order in (itertools.permutations(dsel) if tier == "thorough" else [dsel]):
                for nc in range(0, 4):
                    clis = [10 + i for i in range(nc)]
                    pre = [["D", d, n] for d, n in order] + [["C", c] for c in clis]
                    ops = list(pre)
                    ops += sweep([d for d, _ in order], clis, CLIENT_TAGS)
                    # enableBLOB from everybody, for every name and policy, each followed by a relay probe
                    for s in ["n"] + ["c%d" % c for c in clis] + ["c99"] + ["d%d" % d for d, _ in order]:
                        for name in NAMES:
                            for pol in POLICIES:
                                ops.append(["S", "enableBLOB", name, pol, s])
                    # unregister one, send again
                    if clis:
                        ops.append(["U", clis[0]])
                        ops += sweep([d for d, _ in order], clis, ["getProperties", "newTextVector"])
                        ops.append(["S", "enableBLOB", "A", "Also", "c%d" % clis[0]])
                    yield {"op": "hist", "ops": ops}
    yield from gen_random(rng, 150 if tier == "thorough" else 25, CLIENT_TAGS + ["setTextVector"])


def gen_c05(rng, tier):
    """device-originated messages under every policy assignment of the bounded universe"""
    choices = [None] + POLICIES
    combos = list(itertools.product(choices, repeat=3))
    rng.shuffle(combos)
    if tier != "thorough":
        combos = combos[:24]
    for nc in (1, 2, 3):
        clis = [10 + i for i in range(nc)]
        for combo in combos:
            for second in ([None, "Also"] if tier == "thorough" else [rng.choice([None, "Also", "Only"])]):
                ops = [["D", 0, "A"], ["D", 1, "B"]] + [["C", c] for c in clis]
                for c, pol in zip(clis, combo):
                    if pol:
                        ops.append(["S", "enableBLOB", "A", pol, "c%d" % c])
                if second:
                    ops.append(["S", "enableBLOB", "B", second, "c%d" % clis[-1]])
                    ops.append(["S", "enableBLOB", None, second, "c%d" % clis[0]])
                ops += sweep([0, 1], clis, DEVICE_TAGS, senders=["n", "d0", "c%d" % clis[0]])
                # change of mind, unregister / re-register resets
                ops.append(["S", "enableBLOB", "A", "Never", "c%d" % clis[-1]])
                ops += sweep([0, 1], clis, ["setBLOBVector", "setTextVector"], senders=["d0"])
                ops.append(["U", clis[-1]])
                ops.append(["S", "enableBLOB", "A", "Only", "c%d" % clis[-1]])
                ops += sweep([0, 1], clis, ["setBLOBVector", "setTextVector"], senders=["d0"])
                ops.append(["C", clis[-1]])
                ops += sweep([0, 1], clis, ["setBLOBVector", "setTextVector"], senders=["d0"])
                yield {"op": "hist", "ops": ops}
    yield from gen_random(rng, 200 if tier == "thorough" else 40, DEVICE_TAGS + ["enableBLOB", "enableBLOB", "newTextVector"])
    # the router's default policy is configurable (class attribute): explicit settings must not depend on it
    for n, case in enumerate(gen_random(rng, 120 if tier == "thorough" else 30, DEVICE_TAGS + ["enableBLOB", "enableBLOB", "enableBLOB"])):
        yield {"op": "defaults", "ops": case["ops"]}
    for pols in itertools.product(POLICIES, repeat=2):
        ops = [["D", 0, "A"], ["C", 10], ["C", 11], ["S", "enableBLOB", "A", pols[0], "c10"], ["S", "enableBLOB", "A", pols[1], "c10"],
               ["S", "enableBLOB", "A", pols[1], "c11"]] + [["S", tg, "A", None, "d0"] for tg in ("setBLOBVector", "setTextVector", "defTextVector")]
        yield {"op": "defaults", "ops": ops}


def gen_random(rng, n, tags):
    for _ in range(n):
        nd, nc = rng.randint(0, 5), rng.randint(0, 5)
        devs = {}
        reg = set()
        ops = []
        names = ["A", "B", "C", None, "A"]
        for _i in range(rng.randint(5, 200)):
            r = rng.random()
            if r < 0.06 and len(devs) < nd:
                i = len(devs)
                devs[i] = names[i]
                ops.append(["D", i, names[i]])
            elif r < 0.16 and nc:
                c = 10 + rng.randrange(nc)
                if c in reg and rng.random() < 0.9:
                    continue      # double registration only rarely (API misuse, still compared)
                reg.add(c)
                ops.append(["C", c])
            elif r < 0.22 and nc:
                c = 10 + rng.randrange(nc)
                reg.discard(c)
                ops.append(["U", c])
            else:
                tag = rng.choice(tags)
                name = rng.choice(["A", "B", "C", None, "unknown", ""])
                senders = ["n"] + ["c%d" % (10 + i) for i in range(nc)] + ["d%d" % d for d in devs]
                ops.append(["S", tag, name, rng.choice(POLICIES) if tag == "enableBLOB" else None, rng.choice(senders)])
        yield {"op": "hist", "ops": ops}


def gen_reentrant(rng, tier):
    """endpoints that answer from inside the fan-out (what real drivers and snooping clients do): outer and nested messages of
    differing BLOB-ness and direction under every policy assignment; reactions are sends other than enableBLOB"""
    n = 600 if tier == "thorough" else 120
    dtags = ["setBLOBVector", "setTextVector", "defBLOBVector", "setNumberVector", "delProperty", "message", "getProperties"]
    ctags = ["newTextVector", "newBLOBVector", "getProperties", "newSwitchVector"]
    for k in range(n):
        nd, nc = rng.randint(1, 3), rng.randint(1, 4)
        names = ["A", "B", None][:nd]
        clis = [10 + i for i in range(nc)]
        ops = [["D", i, names[i]] for i in range(nd)] + [["C", c] for c in clis]
        for c in clis:
            for name in ("A", "B", None):
                if rng.random() < 0.6:
                    ops.append(["S", "enableBLOB", name, rng.choice(POLICIES), "c%d" % c])
        reactions = []
        for _ in range(rng.randint(1, 8)):
            if rng.random() < 0.55:
                reactions.append(["d%d" % rng.randrange(nd), rng.choice(dtags), rng.choice(["A", "B", "A", None]), None])
            else:
                reactions.append(["c%d" % rng.choice(clis), rng.choice(ctags), rng.choice(["A", "B", "A", None]), None])
        for _ in range(rng.randint(2, 10)):
            if rng.random() < 0.5:
                ops.append(["S", rng.choice(ctags), rng.choice(["A", "B", None]), None, rng.choice(["n"] + ["c%d" % c for c in clis])])
            else:
                ops.append(["S", rng.choice(dtags), rng.choice(["A", "B", None]), None, rng.choice(["n"] + ["d%d" % i for i in range(nd)])])
            if rng.random() < 0.15:
                ops.append(["S", "enableBLOB", rng.choice(["A", "B"]), rng.choice(POLICIES), "c%d" % rng.choice(clis)])
        yield {"op": "rhist", "ops": ops, "reactions": reactions}
