"""Reading the raw state of live driver objects without depending on how the library names its private attributes.

The harness has to see an element's stored value without raising a Read event, a vector's own enabled flag (the public
`enabled` is already combined with the group's), the definition an instance was made from, and the dictionaries of
children.  The library keeps all of that in underscore attributes.  A rewrite that renames them is harmless and must
not raise an alarm, so the names are *discovered*: a probe driver with distinctive values is instantiated once and
`vars()` of each of its objects is searched for the attribute holding the known value.  When the discovery is not
unique (the state moved somewhere else) the public API is used instead (`get_group`, `Group.vectors`, attribute access
by key, `value`, `enabled`, `state_`) and the definitions are taken from the table `comp_dev.make_class` records on the
classes it builds.
"""

_SLOTS = None


def _attrs(o):
    """the instance attributes of o by name (instance dictionary and slots)"""
    out = {}
    for c in type(o).__mro__:
        for k in getattr(c, "__slots__", ()) or ():
            if isinstance(k, str) and k not in ("__dict__", "__weakref__"):
                try:
                    out[k] = getattr(o, k)
                except AttributeError:
                    pass
    try:
        out.update(vars(o))
    except TypeError:
        pass
    return out


def _children(x):
    """one more level: the items of a dict with string keys, the attributes of a plain holder object (not a library object,
    so that the search never climbs to a parent or into a definition)"""
    if isinstance(x, dict):
        return {k: v for k, v in x.items() if isinstance(k, str)}
    if isinstance(x, (str, bytes, int, float, bool, type(None), list, tuple, set, frozenset)) or callable(x) or isinstance(x, _structural()):
        return {}
    return _attrs(x)


def _structural():
    """the classes the search must not look into: the tree itself (parents, children) and the definitions"""
    global _STRUCT
    if _STRUCT is None:
        cs = []
        try:
            from indi.device import Driver, properties
            from indi.routing import Device, Router
            cs += [Driver, Device, Router]
            for n in ("Group", "Vector", "Element", "TextVector", "Text"):
                c = getattr(properties, n, None)
                if isinstance(c, type):
                    cs += [b for b in c.__mro__ if b is not object]
            from indi.device.properties.instance import elements, group, vectors
            cs += [elements.Element, group.Group, vectors.Vector]
        except Exception:
            pass
        _STRUCT = tuple(dict.fromkeys(cs))
    return _STRUCT


_STRUCT = None


def _follow(o, path):
    x = _attrs(o)[path[0]]
    for k in path[1:]:
        x = _children(x)[k]
    return x


def _find(objs_and_preds):
    """the access path p (attribute, or attribute then key/attribute of a holder) with pred(_follow(o, p)) for every
    (o, pred); None unless exactly one"""
    first, _ = objs_and_preds[0]
    paths = []
    for k, x in _attrs(first).items():
        paths.append((k,))
        for k2 in _children(x):
            paths.append((k, k2))
    hits = []
    for p in paths:
        ok = True
        for o, pred in objs_and_preds:
            try:
                if not pred(_follow(o, p)):
                    ok = False
                    break
            except Exception:
                ok = False
                break
        if ok:
            hits.append(p)
    if len(hits) > 1:
        short = [p for p in hits if len(p) == 1]
        if len(short) == 1:
            return short[0]
    return hits[0] if len(hits) == 1 else None


def _discover():
    from indi.device import Driver, properties

    ea, eb = properties.Text("PEEKEA", default="peek-A", enabled=True), properties.Text("PEEKEB", default="peek-B", enabled=False)
    va = properties.TextVector("PEEKVA", state="Busy", enabled=True, elements={"pea": ea})
    vb = properties.TextVector("PEEKVB", state="Alert", enabled=False, elements={"peb": eb})
    ga = properties.Group("PEEKGA", enabled=True, vectors={"pva": va})
    gb = properties.Group("PEEKGB", enabled=False, vectors={"pvb": vb})
    cls = type("PeekProbe", (Driver,), {"name": "PEEKDEV", "pga": ga, "pgb": gb})
    d = cls()
    slots = {}
    is_dict_with = lambda keys: (lambda x: isinstance(x, dict) and set(x) == set(keys))
    slots["groups"] = _find([(d, is_dict_with(["pga", "pgb"]))])
    try:
        GA, GB = d.get_group("pga"), d.get_group("pgb")
        VA, VB = GA.vectors["pva"], GB.vectors["pvb"]
        EA, EB = getattr(VA, "pea"), getattr(VB, "peb")
    except Exception:
        return slots
    slots["g.vectors"] = _find([(GA, is_dict_with(["pva"])), (GB, is_dict_with(["pvb"]))])
    slots["g.enabled"] = _find([(GA, lambda x: x is True), (GB, lambda x: x is False)])
    slots["g.definition"] = _find([(GA, lambda x: x is ga), (GB, lambda x: x is gb)])
    slots["v.elements"] = _find([(VA, is_dict_with(["pea"])), (VB, is_dict_with(["peb"]))])
    slots["v.enabled"] = _find([(VA, lambda x: x is True), (VB, lambda x: x is False)])
    slots["v.state"] = _find([(VA, lambda x: isinstance(x, str) and x == "Busy"), (VB, lambda x: isinstance(x, str) and x == "Alert")])
    slots["v.definition"] = _find([(VA, lambda x: x is va), (VB, lambda x: x is vb)])
    slots["e.value"] = _find([(EA, lambda x: isinstance(x, str) and x == "peek-A"), (EB, lambda x: isinstance(x, str) and x == "peek-B")])
    slots["e.enabled"] = _find([(EA, lambda x: x is True), (EB, lambda x: x is False)])
    slots["e.definition"] = _find([(EA, lambda x: x is ea), (EB, lambda x: x is eb)])
    return slots


def slots():
    global _SLOTS
    if _SLOTS is None:
        import os
        if os.environ.get("VERIF_PEEK_PUBLIC_ONLY"):       # self-test of the fall-back path
            _SLOTS = {}
            return _SLOTS
        try:
            _SLOTS = _discover()
        except Exception:
            _SLOTS = {}
    return _SLOTS


def _slot(obj, role):
    k = slots().get(role)
    if k is not None:
        try:
            return True, _follow(obj, k)
        except Exception:
            pass
    return False, None


def group(d, key):
    ok, x = _slot(d, "groups")
    if ok:
        return x[key]
    return d.get_group(key)


def group_keys(d):
    ok, x = _slot(d, "groups")
    if ok:
        return list(x)
    return [k for k in getattr(type(d), "_peek_defs", {}) if len(k) == 1 and d.get_group(k[0]) is not None]


def vector(g, key):
    ok, x = _slot(g, "g.vectors")
    if ok:
        return x[key]
    return g.vectors[key]


def element(v, key):
    ok, x = _slot(v, "v.elements")
    if ok:
        return x[key]
    return getattr(v, key)


def group_enabled(g):
    ok, x = _slot(g, "g.enabled")
    return x if ok else g.enabled


def vector_enabled(v):
    """the vector's own flag; through the public API only the conjunction with the group's is visible"""
    ok, x = _slot(v, "v.enabled")
    return x if ok else v.enabled


def vector_state(v):
    ok, x = _slot(v, "v.state")
    return x if ok else v.state_


def element_enabled(e):
    ok, x = _slot(e, "e.enabled")
    return x if ok else e.enabled


def raw_value(e):
    """the stored value, without raising a Read event when the slot is known"""
    ok, x = _slot(e, "e.value")
    return x if ok else e.value


def _recorded(obj, path):
    for c in type(obj).__mro__:
        t = c.__dict__.get("_peek_defs")
        if t and path in t:
            return t[path]
    return None


def group_definition(d, g, gkey):
    ok, x = _slot(g, "g.definition")
    return x if ok else _recorded(d, (gkey,))


def vector_definition(d, v, gkey, vkey):
    ok, x = _slot(v, "v.definition")
    return x if ok else _recorded(d, (gkey, vkey))


def element_definition(e, d=None, path=None):
    ok, x = _slot(e, "e.definition")
    if ok:
        return x
    if d is not None and path is not None:
        return _recorded(d, tuple(path))
    raise AttributeError("element definition not reachable")
