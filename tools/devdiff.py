"""debug aid: run one replay case of the dev component and show the first differing operation"""
import json, sys
sys.path.insert(0, '/verif/tools')
import logging; logging.disable(logging.CRITICAL)
import harness as H, comp_dev
rep = json.load(open(sys.argv[1]))
case = rep["case"]
out = H.Outcome()
qs = comp_dev.run_impl(case, out)
q = qs[0]
reply = H.run_model([q.line])[0]
a = q.expect.split(" | "); b = reply.split(" | ")
for i, (x, y) in enumerate(zip(a, b)):
    if x != y:
        print("op", i, case["ops"][i])
        xs, ys = x.split(" "), y.split(" ")
        for j, (u, v) in enumerate(zip(xs, ys)):
            if u != v:
                print(" first differing token", j, u, v)
                break
        def dec(toks):
            return " ".join(H.dec_str(t) if t.startswith("x") and all(c in "0123456789abcdef_" for c in t[1:]) else t for t in toks)
        print(" impl :", dec(xs)[:1500]); print(" model:", dec(ys)[:1500])
        break
else:
    print("no difference", len(a), len(b))
