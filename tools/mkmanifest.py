#!/usr/bin/env python3
"""writes MANIFEST.json from tools/props.py (single source of truth)"""
import json, os, sys
HERE = os.path.dirname(os.path.abspath(__file__))
sys.path.insert(0, HERE)
from props import PROPS, MANIFEST_TEXT

ALL = ["C%02d" % i for i in range(1, 21)]
checks = []
for pid in ALL:
    if pid not in PROPS:
        continue
    p = PROPS[pid]
    t = MANIFEST_TEXT[pid]
    checks.append({
        "property_id": pid,
        "quick_cmd": "./check %s quick" % pid,
        "thorough_cmd": "./check %s thorough" % pid,
        "evidence_file": "evidence/%s.json" % pid,
        "replay_cmd_template": "./check %s --replay {path}" % pid,
        "engine": "lean-proof+correspondence",
        "level_claimed": {"category": p.get("level", "proof"), "text": t["text"], "design_ref": t.get("design_ref", "DESIGN.md section 6")},
        "level_note": t["note"],
        "technique": t["technique"],
    })
na = [{"property_id": pid, "reason": "check not built yet in this revision of /verif (work in progress, see DESIGN.md section 11)"}
      for pid in ALL if pid not in PROPS]
manifest = {
    "version": 1,
    "setup_cmd": "./setup.sh",
    "hooks": {
        "guard": "INDIPY_VERIF",
        "enable": "no source hooks are needed: the checks drive the library through its public API, fake streams and a virtual-clock event loop; INDIPY_VERIF is reserved and unused",
        "baseline_off_cmd": "cd /repo && /venv/bin/python -m pytest -ra -q -p no:cacheprovider --timeout=900 --continue-on-collection-errors",
        "source_commits": [],
        "add_only": True,
    },
    "engines": [
        {"name": "lean-proof+correspondence", "path": "lean/ tools/ check",
         "serves_properties": [c["property_id"] for c in checks],
         "kind_free_text": "Lean 4 models + kernel-checked property theorems over tables regenerated from /repo on every run (tools/extract.py), "
                           "tied to the implementation by a differential line-protocol correspondence (tools/check.py, compiled model lean/Main.lean) "
                           "whose oracle is the Lean spec itself"},
    ],
    "checks": checks,
    "not_applicable": na,
    "notes": "See DESIGN.md. Genuine defects found and repaired in /repo are listed in known_findings.txt (fixed: entries) with demonstrations in findings/demos.py.",
}
json.dump(manifest, open(os.path.join(os.path.dirname(HERE), "MANIFEST.json"), "w"), indent=1)
print("wrote MANIFEST.json with", len(checks), "checks;", len(na), "not_applicable")
