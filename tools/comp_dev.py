"""Correspondence component `dev`: the driver framework (indi/device/**) on real Driver instances.

Case: {"op": "dev", "def": <device definition>, "ops": [op...]}
  definition: {"name", "groups": [{"key","name","enabled","vectors": [{"key","name","label","kind","perm","timeout","rule","state","enabled",
               "elements": [{"key","name","label","default","enabled","format","min","max","step","write":[{id,async,veto}],"change":[{id,async}],"refresh": value|absent}]}]}]}
  value: None | {"t": str} | {"n": int | hexfloat str} | {"b": hex, "fmt": str|None} | {"o": 1}
  ops:   ["a"|"s", g, v, e, value]  assignment / set_value        ["st", g, v, state|None]
         ["ev", g, v, bool]  ["eg", g, bool]  ["ee", g, v, e, bool]      ["c", recipe]  message_from_client(recipe built by comp_codec)
Observed per op: exception class, messages handed to the router (wire views, timestamps canonicalised),
plain handler invocations in call order, coroutine handler invocations in run order, full state snapshot.
"""
import asyncio

from harness import Query, enc_bool, enc_list, enc_msg, enc_opt, enc_str, msg_view
import comp_codec
import peek

NAME = "dev"

KIND_CLASSES = {"text": ("TextVector", "Text"), "number": ("NumberVector", "Number"), "switch": ("SwitchVector", "Switch"),
                "light": ("LightVector", "Light"), "blob": ("BLOBVector", "BLOB")}


class Other:
    """a value of a type no element accepts"""


def py_value(v):
    from indi.device import values

    if v is None:
        return None
    if "t" in v:
        return v["t"]
    if "n" in v:
        return float.fromhex(v["n"]) if isinstance(v["n"], str) else v["n"]
    if "b" in v:
        return values.BLOB(bytes.fromhex(v["b"]), v.get("fmt"))
    return Other()


def enc_value(x):
    from indi.device import values

    if x is None:
        return "N"
    if isinstance(x, str):
        return "T " + enc_str(x)
    if isinstance(x, bool):
        return "O"
    if isinstance(x, int):
        return "R %d/1 True" % x
    if isinstance(x, float):
        p, q = x.as_integer_ratio()
        return "R %d/%d False" % (p, q)
    if isinstance(x, values.BLOB):
        return "B h%s %s" % (x.binary.hex(), enc_opt(x.format))
    return "O"


def enc_jvalue(v):
    return enc_value(py_value(v))


def build_driver(defn, log, tasklog, router=None, bases=None, inherit=None):
    """a real Driver subclass + instance from the JSON definition, with instrumented handlers.
    inherit = {"split": k, "warm": bool}: the first k groups are declared by a base driver class and the rest by a class derived
    from it (how drivers for a family of instruments are written); "warm": the application has also instantiated the base class
    on its own (without a router) before it instantiates the derived one"""
    if inherit and 0 < inherit.get("split", 0) < len(defn["groups"]):
        k = inherit["split"]
        base = make_class(dict(defn, groups=defn["groups"][:k]), log, tasklog, bases)
        if inherit.get("warm"):
            base(router=None)
        d = make_class(dict(defn, groups=defn["groups"][k:]), log, tasklog, (base,))(router=router)
        missing = [g["key"] for g in defn["groups"] if d.get_group(g["key"]) is None]
        if missing:
            raise BrokenDefinition("driver %s built by subclassing lacks the groups %s its classes define" % (defn["name"], missing))
        return d
    return make_class(defn, log, tasklog, bases)(router=router)


class BrokenDefinition(Exception):
    """the library did not build the driver its class definitions describe (a failure of the implementation, not of the harness)"""


def make_class(defn, log, tasklog, bases=None):
    """the Driver subclass for a JSON definition (groups become class attributes, picked up by DriverMeta)"""
    from indi.device import Driver, events, properties

    dct = {"name": defn["name"]}
    recorded = {}
    for g in defn["groups"]:
        vectors = {}
        for v in g["vectors"]:
            vcls_name, ecls_name = KIND_CLASSES[v["kind"]]
            ecls = getattr(properties, ecls_name)
            elements = {}
            for e in v["elements"]:
                kw = {"label": e.get("label"), "default": py_value(e.get("default")), "enabled": e.get("enabled", True)}
                if v["kind"] == "number":
                    for k in ("format", "min", "max", "step"):
                        if k in e:
                            kw[k] = e[k]
                el = ecls(e["name"], **kw)
                for h in e.get("write", []):
                    el.attach_event_handler(events.Write, make_handler(h, "W", log, tasklog))
                for h in e.get("change", []):
                    el.attach_event_handler(events.Change, make_handler(h, "C", log, tasklog))
                if "refresh" in e:
                    el.attach_event_handler(events.Read, make_refresh(py_value(e["refresh"])))
                elements[e["key"]] = el
                recorded[(g["key"], v["key"], e["key"])] = el
            kw = {"label": v.get("label"), "state": v.get("state", "Ok"), "enabled": v.get("enabled", True), "elements": elements}
            if v["kind"] != "light":
                kw["perm"] = v.get("perm", "rw")
                kw["timeout"] = v.get("timeout", 0)
            if v["kind"] == "switch":
                kw["rule"] = v.get("rule", "OneOfMany")
            vectors[v["key"]] = recorded[(g["key"], v["key"])] = getattr(properties, vcls_name)(v["name"], **kw)
        dct[g["key"]] = recorded[(g["key"],)] = properties.Group(g["name"], enabled=g.get("enabled", True), vectors=vectors)
    cls = type("Dev_" + defn["name"], tuple(bases or (Driver,)), dct)
    cls._peek_defs = recorded        # the definitions by key path (tools/peek.py falls back on them)
    return cls


def make_handler(h, kind, log, tasklog):
    hid, veto = h["id"], h.get("veto", False)

    def record(event, seen):
        old = getattr(event, "old_value", None)
        return "h%d %s %s %s %s" % (hid, kind, enc_value(old), enc_value(event.new_value), seen)

    if h.get("async"):
        async def ahandler(event):
            tasklog.append(record(event, "N"))
            if veto:
                event.prevent_default = True      # too late by design: coroutine handlers cannot veto
        return ahandler

    def handler(event):
        log.append(record(event, enc_value(peek.raw_value(event.element))))
        if veto:
            event.prevent_default = True
    return handler


def make_refresh(value):
    def refresh(event):
        event.element.reset_value(value)
    return refresh


def enc_device(d, defn):
    """Lean encoding of the *live* driver (definitions as the library resolved them)"""
    gs = []
    for gdef in defn["groups"]:
        g = peek.group(d, gdef["key"])
        vs = []
        for vdef in gdef["vectors"]:
            v = peek.vector(g, vdef["key"])
            es = []
            for edef in vdef["elements"]:
                e = peek.element(v, edef["key"])
                ed = peek.element_definition(e, d, (gdef["key"], vdef["key"], edef["key"]))
                num = vdef["kind"] == "number"
                es.append("L %s %s %s %s %s %s %s %s %s %s %s" % (
                    enc_str(ed.name), enc_str(str(ed.label)),
                    enc_str(ed.format if num else ""), enc_str(str(ed.min) if num else ""), enc_str(str(ed.max) if num else ""),
                    enc_str(str(ed.step) if num else ""), enc_value(peek.raw_value(e)), enc_bool(peek.element_enabled(e)),
                    enc_list(lambda h: "%d %s %s" % (h["id"], enc_bool(h.get("async", False)), enc_bool(h.get("veto", False))), edef.get("write", [])),
                    enc_list(lambda h: "%d %s" % (h["id"], enc_bool(h.get("async", False))), edef.get("change", [])),
                    enc_jvalue(edef["refresh"]) if "refresh" in edef else "~~"))
            vd = peek.vector_definition(d, v, gdef["key"], vdef["key"])
            light = vdef["kind"] == "light"
            vs.append("V %s %s %s %s %s %s %s %s %s" % (
                enc_str(vd.name), enc_str(str(vd.label)), vdef["kind"],
                "~" if light else enc_str(str(vd.perm)), "~" if light else enc_str(str(vd.timeout)),
                vd.rule if vdef["kind"] == "switch" else "~", enc_str(peek.vector_state(v)), enc_bool(peek.vector_enabled(v)), enc_list(lambda x: x, es)))
        gs.append("G %s %s %s" % (enc_str(peek.group_definition(d, g, gdef["key"]).name), enc_bool(peek.group_enabled(g)), enc_list(lambda x: x, vs)))
    return "DEV %s %s" % (enc_str(d.name), enc_list(lambda x: x, gs))


def enc_state(d, defn):
    out = []
    for gdef in defn["groups"]:
        g = peek.group(d, gdef["key"])
        out.append("g" + enc_bool(peek.group_enabled(g)))
        for vdef in gdef["vectors"]:
            v = peek.vector(g, vdef["key"])
            out.append("v" + enc_bool(peek.vector_enabled(v)) + " " + enc_str(peek.vector_state(v)))
            for edef in vdef["elements"]:
                e = peek.element(v, edef["key"])
                out.append("e" + enc_bool(peek.element_enabled(e)) + " " + enc_value(peek.raw_value(e)))
    return " ".join(out)


def enc_op(op):
    if op[0] in ("a", "s"):
        return "%s %d %d %d %s" % (op[0], op[1], op[2], op[3], enc_jvalue(op[4]))
    if op[0] == "st":
        return "st %d %d %s" % (op[1], op[2], enc_opt(op[3]))
    if op[0] == "ev":
        return "ev %d %d %s" % (op[1], op[2], enc_bool(op[3]))
    if op[0] == "eg":
        return "eg %d %s" % (op[1], enc_bool(op[2]))
    if op[0] == "ee":
        return "ee %d %d %d %s" % (op[1], op[2], op[3], enc_bool(op[4]))
    if op[0] == "c":
        return "c " + enc_msg(msg_view(comp_codec.build(op[1])))
    raise ValueError(op)


def exc_class(e):
    n = type(e).__name__
    if isinstance(e, AssertionError):
        return "AssertionError"
    if isinstance(e, KeyError):
        return "KeyError"
    if isinstance(e, ValueError):
        return "ValueError"
    if isinstance(e, TypeError):
        return "TypeError"
    return "OtherError"


def apply_op(d, defn, op):
    gkeys = [g["key"] for g in defn["groups"]]

    def vec(gi, vi):
        g = peek.group(d, gkeys[gi])
        return peek.vector(g, defn["groups"][gi]["vectors"][vi]["key"])

    def elem(gi, vi, ei):
        return peek.element(vec(gi, vi), defn["groups"][gi]["vectors"][vi]["elements"][ei]["key"])

    def value_for(el, spec):
        # "reuse": the driver keeps ONE values.BLOB object per element (a frame buffer), refills it and publishes it again
        from indi.device import values
        if isinstance(spec, dict) and spec.get("reuse") and "b" in spec and isinstance(peek.raw_value(el), values.BLOB):
            cur = peek.raw_value(el)
            cur.binary = bytes.fromhex(spec["b"])
            cur.format = spec.get("fmt")
            return cur
        return py_value(spec)

    if op[0] == "a":
        el = elem(op[1], op[2], op[3])
        el.value = value_for(el, op[4])
    elif op[0] == "s":
        el = elem(op[1], op[2], op[3])
        el.set_value(value_for(el, op[4]))
    elif op[0] == "st":
        vec(op[1], op[2]).state_ = op[3]
    elif op[0] == "ev":
        vec(op[1], op[2]).enabled = op[3]
    elif op[0] == "eg":
        peek.group(d, gkeys[op[1]]).enabled = op[2]
    elif op[0] == "ee":
        elem(op[1], op[2], op[3]).enabled = op[4]
    elif op[0] == "c":
        d.message_from_client(comp_codec.build(op[1]))


def run_ops(defn, ops, extra=None, loghandler=False, inherit=None):
    """-> (encoded device, [per-op observation dict])"""
    import logging

    import indi.message
    from indi.routing import Client, Router

    published, log, tasklog = [], [], []
    notices = []

    class RecRouter:
        """records what the driver hands to its router (no BLOB policy in the way)"""

        def register_device(self, device):
            pass

        def process_message(self, msg=None, sender=None, message=None):
            m = msg if msg is not None else message
            if sender is None and type(m).__name__ == "Message" and loghandler:
                notices.append(m)          # a log record forwarded by indi.logging.Handler
            else:
                published.append(m)

    old_now = indi.message.now
    indi.message.now = lambda: "T"
    handler = None
    try:
        router = RecRouter()
        if loghandler:
            # the deployment of the shipped example servers: log records of the library become <message> notices
            import indi.logging as ilog
            logging.disable(logging.NOTSET)
            handler = ilog.Handler(router, level=logging.WARNING)
            logging.getLogger("indi").addHandler(handler)
        d = build_driver(defn, log, tasklog, router, inherit=inherit)
        dev_line = enc_device(d, defn)
        obs = []

        async def main():
            for op in ops:
                del published[:], log[:], tasklog[:]
                exc = None
                before = enc_device(d, defn)
                try:
                    apply_op(d, defn, op)
                except Exception as e:  # noqa
                    exc = exc_class(e)
                await asyncio.sleep(0)
                await asyncio.sleep(0)
                obs.append({"exc": exc, "msgs": list(published), "views": [msg_view(m) for m in published],
                            "calls": list(log), "tasks": list(tasklog), "state": enc_state(d, defn),
                            "before": before, "after": enc_device(d, defn)})

        asyncio.run(main())
        return d, dev_line, obs
    finally:
        indi.message.now = old_now
        if handler is not None:
            logging.getLogger("indi").removeHandler(handler)
            logging.disable(logging.CRITICAL)


def enc_obs(o):
    return "%s msgs %s calls %s tasks %s state %s" % (
        o["exc"] or "ok", enc_list(enc_msg, o["views"]), enc_list(lambda c: c, o["calls"]), enc_list(lambda c: c, o["tasks"]), o["state"])


def run_impl(case, outcome):
    defn, ops = case["def"], case["ops"]
    try:
        d, dev_line, obs = run_ops(defn, ops, loghandler=bool(case.get("loghandler")), inherit=case.get("inherit"))
    except BrokenDefinition as e:
        return [Query("spec istrue False", "True", "oracle", str(e))]
    if case.get("inherit"):
        outcome.count("driver-by-subclassing")
    if case.get("loghandler"):
        outcome.count("with-log-handler")
    for op, o in zip(ops, obs):
        outcome.count("op:" + op[0])
        if o["exc"]:
            outcome.count("exc:" + o["exc"])
        outcome.count("msgs:%d" % min(len(o["views"]), 5))
    line = dev_line + " " + enc_list(enc_op, ops)
    outcome.nontrivial.add(line)
    qs = [Query("dev run " + line, " | ".join(enc_obs(o) for o in obs), "corr")]
    qs.extend(oracle_queries(case, d, dev_line, obs, outcome))
    return qs


def oracle_queries(case, d, dev_line, obs, outcome):
    """spec-side queries: which ones are asked depends on case["oracles"] (a set of property ids)"""
    from indi.message import IndiMessage

    want = set(case.get("oracles") or [])
    qs = []
    if "C07" in want and obs and any(op[0] in ("ev", "eg") for op in case["ops"]):
        # which properties are enabled is what the driver's code last assigned, nothing else (judged from the history alone)
        last = max(i for i, op in enumerate(case["ops"]) if op[0] in ("ev", "eg"))
        for k in sorted({last, len(case["ops"]) - 1}):
            qs.append(Query("spec flags %s %s %s" % (obs[0]["before"], enc_list(enc_op, case["ops"][:k + 1]), obs[k]["after"]), "True", "oracle",
                            "after the operations so far a group's / property's enabled switch is not what the driver last assigned"))
    for op, o in zip(case["ops"], obs):
        raised = o["exc"] is not None
        if "C07" in want:
            # every message a driver emits is a valid protocol message that the library's own parser reads back unchanged
            for m, v in zip(o["msgs"], o["views"]):
                try:
                    back = msg_view(IndiMessage.from_string(m.to_string()))
                    qs.append(Query("spec normeq %s %s" % (enc_msg(v), enc_msg(back)), "True", "oracle",
                                    "an emitted message read back by the library's parser differs"))
                except Exception as e:  # noqa
                    qs.append(Query("spec readsback " + enc_msg(v), "unparsable:" + type(e).__name__, "oracle",
                                    "an emitted message is rejected by the library's own parser"))
                qs.append(Query("spec readsback " + enc_msg(v), "True", "corr"))
            if op[0] == "c" and op[1]["cls"].endswith("GetProperties"):
                name = op[1]["kw"].get("name")
                qs.append(Query("spec c07 %s %s %s" % (o["before"], enc_opt(name), enc_list(enc_msg, o["views"])),
                                ("True", "na") if not raised else "raised", "oracle", "getProperties elicits exactly the definitions asked for"))
        if "C12" in want and op[0] == "c":
            view = enc_msg(msg_view(comp_codec.build(op[1])))
            qs.append(Query("spec c12 %s %s %s %s" % (o["before"], view, enc_bool(raised), o["after"]), "True", "oracle",
                            "a client message raised, or changed state it does not validly name"))
        if "C14" in want:
            # "plain Read handlers run before a value is published so that they can refresh it": whatever a set* message shows
            # for an element with a refreshing Read handler is the refreshed value
            for bad in stale_published(case["def"], o["msgs"]):
                qs.append(Query("spec istrue False", "True", "oracle", "published without running the element's Read handler first: " + bad))
        if "C14" in want and op[0] in ("a", "s"):
            nset = sum(1 for v in o["views"] if v["tag"].startswith("set"))
            qs.append(Query("spec c14 %s %d %d %d %s %s %s %s %s %d %s" % (
                o["before"], op[1], op[2], op[3], enc_bool(op[0] == "s"), enc_jvalue(op[4]), enc_bool(raised),
                enc_list(lambda c: c, o["calls"]), enc_list(lambda c: c, o["tasks"]), nset, o["after"]),
                ("True", "na"), "oracle", "event contract: Write, then default update and publication, then Change"))
    return qs


def stale_published(defn, msgs):
    """descriptions of the elements of published set* messages that do not show what their Read handler supplies"""
    import base64

    out = []
    for m in msgs:
        if not type(m).__name__.startswith("Set"):
            continue
        vdefs = [v for g in defn["groups"] for v in g["vectors"] if v["name"] == getattr(m, "name", None)]
        if len(vdefs) != 1 or vdefs[0]["kind"] == "number":
            continue
        vdef = vdefs[0]
        for child in getattr(m, "children", None) or ():
            edefs = [e for e in vdef["elements"] if e["name"] == getattr(child, "name", None)]
            if len(edefs) != 1 or "refresh" not in edefs[0] or edefs[0]["refresh"] is None:
                continue
            want = py_value(edefs[0]["refresh"])
            try:
                if vdef["kind"] == "blob":
                    ok = base64.b64decode(child.value or "") == want.binary and (child.format or "") == (want.format or "")
                else:
                    ok = child.value == want
            except Exception:  # noqa
                ok = False
            if not ok:
                out.append("%s.%s shows %r" % (vdef["name"], edefs[0]["name"], getattr(child, "value", None)))
    return out


# --------------------------------------------------------------------------
# generators

FORMATS = ["%f", "%.2f", "%5.2f", "%d", "%.3m", "%.6m", "%10.9m", "%.0f", "%08.3f", "%+.1f", "%.5m", "%.8m"]
TEXTS = ["x", "", "hello world", "a<b&c>d", 'q"t', "é𝄞", " padded ", " ", "\t", "line1\nline2", "On", "12.5"]
STATES = ["Idle", "Ok", "Busy", "Alert"]
RULES = ["OneOfMany", "AtMostOne", "AnyOfMany"]
KINDS = ["text", "number", "switch", "light", "blob"]


def hexf(v):
    return v if isinstance(v, int) else float(v).hex()


def random_value(rng, kind, hostile=False):
    if kind == "text":
        return rng.choice([{"t": rng.choice(TEXTS)}, {"t": rng.choice(TEXTS)}, None])
    if kind == "number":
        return {"n": hexf(rng.choice([0, 1, -1, 1.5, -0.5, 12.25, 359.99999, 1e9, -3.14159, 7, 100, 0.001, 59.999 / 60, rng.uniform(-400, 400)]))}
    if kind == "switch":
        return {"t": rng.choice(["On", "Off"])}
    if kind == "light":
        return {"t": rng.choice(STATES)}
    return rng.choice([{"b": bytes(rng.randrange(256) for _ in range(rng.randint(0, 9))).hex(), "fmt": rng.choice([".fits", ".x", ""])}, None])


def wrong_value(rng, kind):
    pool = {"text": [{"n": 5}, {"o": 1}, {"b": "00", "fmt": ".x"}],
            "number": [{"t": "12"}, {"o": 1}],
            "switch": [{"t": "Maybe"}, {"t": "on"}, None, {"n": 1}, {"o": 1}],
            "light": [{"t": "Green"}, None, {"n": 1}],
            "blob": [{"t": "QUJD"}, {"n": 3}, {"o": 1}]}
    return rng.choice(pool[kind])


def random_definition(rng, name="D", handlers=True, ngroups=None):
    groups = []
    used_names = set()
    hid = [0]

    def handlers_for(kind):
        out = {}
        if handlers and rng.random() < 0.5:
            out["write"] = [{"id": next_id(), "async": rng.random() < 0.3, "veto": rng.random() < 0.25} for _ in range(rng.randint(1, 2))]
        if handlers and rng.random() < 0.5:
            out["change"] = [{"id": next_id(), "async": rng.random() < 0.3} for _ in range(rng.randint(1, 2))]
        if handlers and kind in ("text", "number") and rng.random() < 0.12:
            out["refresh"] = random_value(rng, kind) or {"t": "fresh"}
        # a BLOB or light element filled in by its Read handler just before it is published (a camera frame fetched on demand)
        if handlers and kind in ("blob", "light") and rng.random() < 0.2:
            out["refresh"] = random_value(rng, kind) or ({"b": "c0ffee", "fmt": ".raw"} if kind == "blob" else {"t": "Busy"})
        return out

    def next_id():
        hid[0] += 1
        return hid[0]

    for gi in range(ngroups or rng.randint(1, 3)):
        vectors = []
        for vi in range(rng.randint(1, 3)):
            kind = rng.choice(KINDS)
            vname = "P%d%d" % (gi, vi) if rng.random() < 0.9 else rng.choice(sorted(used_names) or ["P00"])
            used_names.add(vname)
            elements = []
            for ei in range(rng.randint(1, 3)):
                e = {"key": "e%d" % ei, "name": "E%d" % ei if rng.random() < 0.95 else "E0", "default": random_value(rng, kind),
                     "enabled": rng.random() < 0.9}
                if rng.random() < 0.5:
                    e["label"] = rng.choice(["Label", "a<b", "é"])
                if kind == "number":
                    e["format"] = rng.choice(FORMATS)
                    if rng.random() < 0.5:
                        e["min"], e["max"], e["step"] = rng.choice([(0, 100, 1), (-90.0, 90.0, 0.5), (0, 0, 0)])
                    if e["default"] is None:
                        e["default"] = {"n": 0.0.hex()}
                if kind in ("switch", "light") and e["default"] is None:
                    e["default"] = {"t": "Off" if kind == "switch" else "Ok"}
                e.update(handlers_for(kind))
                elements.append(e)
            v = {"key": "v%d" % vi, "name": vname, "kind": kind, "state": rng.choice(STATES), "enabled": rng.random() < 0.85,
                 "elements": elements}
            if rng.random() < 0.5:
                v["label"] = rng.choice(["Vector label", "x&y"])
            if kind != "light":
                v["perm"] = rng.choice(["rw", "ro", "wo"])
                v["timeout"] = rng.choice([0, 60, 2.5])
            if kind == "switch":
                v["rule"] = rng.choice(RULES)
            vectors.append(v)
        groups.append({"key": "g%d" % gi, "name": "G%d" % gi, "enabled": rng.random() < 0.85, "vectors": vectors})
    return {"name": name, "groups": groups}


def one_tag(kind):
    return {"text": "oneText", "number": "oneNumber", "switch": "oneSwitch", "blob": "oneBLOB", "light": "oneLight"}[kind]


def new_tag(kind):
    return {"text": "newTextVector", "number": "newNumberVector", "switch": "newSwitchVector", "blob": "newBLOBVector"}.get(kind)


def wire_text(rng, kind, valid=True):
    import base64

    if kind == "text":
        return rng.choice(TEXTS + [None])
    if kind == "number":
        return rng.choice(["12", "-1.5", "12:30", "-0:30:00.5", "7;15", "1 30 00", "+3", ".5", "100."]) if valid else rng.choice(["abc", "1:2:3:4", "", "1e5", "--1", "9" * 400, None])
    if kind == "switch":
        return rng.choice(["On", "Off"]) if valid else rng.choice(["Maybe", "on", "", None, "1"])
    if kind == "light":
        return "Ok"
    data = bytes(rng.randrange(256) for _ in range(rng.randint(0, 12)))
    return base64.b64encode(data).decode()


def client_write(rng, defn, hostile):
    """a constructible new*Vector recipe (what the parser would hand to the driver)"""
    for _ in range(50):
        r = client_write1(rng, defn, hostile)
        try:
            comp_codec.build(r)
            return r
        except Exception:  # noqa  -- rejected by the message constructors: never reaches a driver
            continue
    return client_write1(rng, defn, False)


def client_write1(rng, defn, hostile):
    allv = [(g, v) for g in defn["groups"] for v in g["vectors"]]
    g, v = rng.choice(allv)
    kind = v["kind"]
    mkind = kind
    fault = None
    if hostile:
        fault = rng.choice(["unknown-prop", "unknown-elem", "kind-mismatch", "bad-value", "no-children", "dup-children", "bad-size", "missing-size", "light-target"])
    if fault == "kind-mismatch" or kind == "light":
        mkind = rng.choice([k for k in ("text", "number", "switch", "blob") if k != kind])
    tag = new_tag(mkind)
    children = []
    els = v["elements"]
    chosen = rng.sample(els, rng.randint(1, len(els)))
    if fault == "dup-children":
        chosen = chosen + [chosen[0]]
    for e in chosen:
        text = wire_text(rng, mkind, valid=(fault != "bad-value" or rng.random() < 0.3))
        extra = {}
        name = e["name"]
        if fault == "unknown-elem" and rng.random() < 0.6:
            name = "nope"
        if mkind == "blob":
            import base64

            try:
                n = len(base64.b64decode(text or ""))
            except Exception:  # noqa
                n = 0
            extra = {"size": str(n), "format": rng.choice([".bin", ".bin", ".fits", ".fits.z", ".z", ""])}
            if fault == "bad-size":
                extra["size"] = rng.choice(["999", "abc", "-1", " 3 ", "1_0", "1.0", "", "inf", "Infinity", "1e999", "nan", "0x3", "3.0", "１２"])
            if fault == "missing-size":
                extra["size"] = None
            if fault == "bad-value":
                text = rng.choice(["!!!", "QQ", "Q", None, "QUJD=", "é"])
        children.append(comp_codec.part_recipe(one_tag(mkind), name, text, extra or None))
    if fault == "no-children":
        children = []
    pname = v["name"] if fault != "unknown-prop" else rng.choice(["NOPE", "", None])
    r = comp_codec.msg_recipe(tag, (), children)
    r["kw"]["name"] = pname
    r["kw"]["device"] = defn["name"]
    return r


def get_properties(rng, defn):
    names = [v["name"] for g in defn["groups"] for v in g["vectors"]]
    r = comp_codec.msg_recipe("getProperties", ())
    r["kw"]["device"] = rng.choice([defn["name"], None])
    r["kw"]["name"] = rng.choice(names + [None, None, "UNKNOWN", ""])
    return r


def random_ops(rng, defn, n, hostile_rate=0.3):
    ops = []
    for _ in range(n):
        gi = rng.randrange(len(defn["groups"]))
        g = defn["groups"][gi]
        vi = rng.randrange(len(g["vectors"]))
        v = g["vectors"][vi]
        ei = rng.randrange(len(v["elements"]))
        r = rng.random()
        if r < 0.2:
            val = random_value(rng, v["kind"]) if rng.random() < 0.85 else wrong_value(rng, v["kind"])
            ops.append([rng.choice(["a", "s"]), gi, vi, ei, val])
        elif r < 0.27:
            ops.append(["st", gi, vi, rng.choice(STATES + [None, "Bogus"])])
        elif r < 0.34:
            ops.append(["ev", gi, vi, rng.random() < 0.5])
        elif r < 0.39:
            ops.append(["eg", gi, rng.random() < 0.5])
        elif r < 0.43:
            ops.append(["ee", gi, vi, ei, rng.random() < 0.5])
        elif r < 0.6:
            ops.append(["c", get_properties(rng, defn)])
        else:
            ops.append(["c", client_write(rng, defn, rng.random() < hostile_rate)])
    return ops


def gen_cases(rng, tier):
    n = 1500 if tier == "thorough" else 250
    for _ in range(n):
        defn = random_definition(rng)
        yield {"op": "dev", "def": defn, "ops": random_ops(rng, defn, rng.randint(3, 25)), "oracles": ["C07", "C12", "C14"]}


# --------------------------------------------------------------------------
# C12: the fault catalogue, systematically

def five_kind_definition(rng, handlers=False):
    """one property of every kind (switches under each rule), two or three elements each"""
    vecs = []
    for kind, rule in [("text", None), ("number", None), ("switch", "OneOfMany"), ("switch", "AtMostOne"), ("switch", "AnyOfMany"), ("light", None), ("blob", None)]:
        elements = []
        for ei in range(3 if kind == "switch" else 2):
            e = {"key": "e%d" % ei, "name": "E%d" % ei, "enabled": True,
                 "default": {"text": {"t": "x%d" % ei}, "number": {"n": hexf(1.5 * ei)}, "switch": {"t": "On" if ei == 0 else "Off"},
                             "light": {"t": "Ok"}, "blob": ({"b": "414243", "fmt": ".bin"} if ei else None)}[kind]}
            if kind == "number":
                e["format"] = ["%.2f", "%.6m"][ei]
            if handlers and ei == 0:
                e["write"] = [{"id": 1 + len(vecs) * 4, "async": False, "veto": False}]
                e["change"] = [{"id": 2 + len(vecs) * 4, "async": False}]
            elements.append(e)
        v = {"key": "v%d" % len(vecs), "name": "%s%s" % (kind.upper(), rule or ""), "kind": kind, "state": "Ok", "enabled": True, "elements": elements}
        if kind != "light":
            v["perm"], v["timeout"] = "rw", 0
        if rule:
            v["rule"] = rule
        vecs.append(v)
    return {"name": "D", "groups": [{"key": "g0", "name": "G0", "enabled": True, "vectors": vecs[:4]},
                                    {"key": "g1", "name": "G1", "enabled": True, "vectors": vecs[4:]}]}


def fault_catalogue(defn):
    """every hostile-but-constructible client message of the catalogue against every property"""
    import base64

    out = []
    texts = {"text": ["v", "", None, "<&>"], "number": ["12", "abc", "", None, "1:2:3:4", "1e5", "9" * 400, "12:30", "--1", "١٢"],
             "switch": ["On", "Off"], "blob": [base64.b64encode(b"ABC").decode(), "!!!", "QQ", "Q", None, "", "QUJD=", "QU JD", "é"]}
    sizes = ["3", "999", "abc", "-1", " 3 ", "1_0", "3.0", "", None, "inf", "Infinity", "1e999", "nan", "0x3", "１２", "0"]
    allv = [(g, v) for g in defn["groups"] for v in g["vectors"]]
    for g, v in allv:
        for mkind in ("text", "number", "switch", "blob"):          # includes every kind mismatch and light targets
            for ename in ("E0", "E1", "nope", "", None, "GAIN_%", "%s", "%(x)s"):
                for text in texts[mkind]:
                    for size in (sizes if mkind == "blob" and text == texts["blob"][0] else ["3"]):
                        # format strings a client may send: the protocol's compressed-payload suffix `.z` among them
                        # (the payload here is NOT a zlib stream), empty, odd
                        fmts = [".bin", ".fits.z", ".z", "", ".fits.Z", "z", ".tar.gz"] if mkind == "blob" and text == texts["blob"][0] and size == "3" else [".bin"]
                        for fmt in fmts:
                            extra = {"size": size, "format": fmt} if mkind == "blob" else None
                            ch = [comp_codec.part_recipe(one_tag(mkind), ename, text, extra)]
                            for pname in (v["name"], "NOPE", None):
                                r = comp_codec.msg_recipe(new_tag(mkind), (), ch)
                                r["kw"]["name"], r["kw"]["device"] = pname, "D"
                                out.append(r)
            r = comp_codec.msg_recipe(new_tag(mkind), (), [])          # no children
            r["kw"]["name"], r["kw"]["device"] = v["name"], "D"
            out.append(r)
        # duplicate children, valid + invalid + valid
        if v["kind"] in texts:
            k = v["kind"]
            good = texts[k][0]
            extra = {"size": "3", "format": ".bin"} if k == "blob" else None
            for ch in ([comp_codec.part_recipe(one_tag(k), "E0", good, extra)] * 2,
                       [comp_codec.part_recipe(one_tag(k), "E0", good, extra), comp_codec.part_recipe(one_tag(k), "nope", good, extra),
                        comp_codec.part_recipe(one_tag(k), "E1", good, extra)]):
                r = comp_codec.msg_recipe(new_tag(k), (), ch)
                r["kw"]["name"], r["kw"]["device"] = v["name"], "D"
                out.append(r)
    # message kinds a client should not send
    for tag in ("setTextVector", "defTextVector", "delProperty", "message", "enableBLOB", "pingReply", "pingRequest", "oneLight"):
        r = comp_codec.msg_recipe(tag, ())
        if "device" in r["kw"]:
            r["kw"]["device"] = "D"
        if "name" in r["kw"]:
            r["kw"]["name"] = "TEXT"
        out.append(r)
    res = []
    for r in out:
        try:
            comp_codec.build(r)
            res.append(r)
        except Exception:  # noqa  -- rejected at construction: never reaches a driver (wire level: conn component)
            pass
    return res


def gen_c12(rng, tier):
    defn = five_kind_definition(rng)
    faults = fault_catalogue(defn)
    valid = [client_write(rng, defn, False) for _ in range(12)] + [get_properties(rng, defn) for _ in range(4)]
    # every fault at a position in a session of valid traffic
    chunk = 40
    for i in range(0, len(faults), chunk):
        ops = []
        for f in faults[i:i + chunk]:
            ops.append(["c", rng.choice(valid)])
            ops.append(["c", f])
        ops.append(["c", rng.choice(valid)])
        yield {"op": "dev", "def": defn, "ops": ops, "oracles": ["C12"]}
    # the same faults with the log-forwarding handler of the example servers installed (every refusal is logged)
    for i in range(0, len(faults), chunk * 2):
        ops = []
        for f in faults[i:i + chunk * 2:2]:
            ops.append(["c", f])
        ops.append(["c", rng.choice(valid)])
        yield {"op": "dev", "def": defn, "ops": ops, "oracles": ["C12"], "loghandler": True}
    defn_h = five_kind_definition(rng, handlers=True)
    for i in range(0, len(faults), chunk * 4):
        yield {"op": "dev", "def": defn_h, "ops": [["c", f] for f in faults[i:i + chunk * 4:4]], "oracles": ["C12"]}
    n = 600 if tier == "thorough" else 80
    for _ in range(n):
        d2 = random_definition(rng)
        yield {"op": "dev", "def": d2, "ops": random_ops(rng, d2, rng.randint(5, 30), hostile_rate=0.7), "oracles": ["C12"]}


def gen_c14(rng, tier):
    """handler configurations x element kinds x write sequences (client message, set_value, assignment)"""
    n = 900 if tier == "thorough" else 150
    for _ in range(n):
        defn = random_definition(rng, handlers=True, ngroups=rng.randint(1, 2))
        # make sure handlers are plentiful
        for g in defn["groups"]:
            for v in g["vectors"]:
                for e in v["elements"]:
                    if rng.random() < 0.6:
                        e["write"] = [{"id": 100 + rng.randrange(900), "async": rng.random() < 0.3, "veto": rng.random() < 0.3} for _ in range(rng.randint(1, 2))]
                    if rng.random() < 0.6:
                        e["change"] = [{"id": 1000 + rng.randrange(900), "async": rng.random() < 0.3} for _ in range(rng.randint(1, 2))]
        ops = []
        for _k in range(rng.randint(4, 20)):
            gi = rng.randrange(len(defn["groups"]))
            g = defn["groups"][gi]
            vi = rng.randrange(len(g["vectors"]))
            v = g["vectors"][vi]
            ei = rng.randrange(len(v["elements"]))
            r = rng.random()
            if r < 0.7:
                val = random_value(rng, v["kind"])
                if rng.random() < 0.3 and ops and ops[-1][0] in ("a", "s"):
                    val = ops[-1][4]                      # unchanged value
                ops.append([rng.choice(["a", "s", "s"]), gi, vi, ei, val])
            elif r < 0.8:
                ops.append(["ev", gi, vi, rng.random() < 0.5])
            else:
                ops.append(["c", client_write(rng, defn, False)])
        yield {"op": "dev", "def": defn, "ops": ops, "oracles": ["C14"]}


def gen_c07(rng, tier):
    """generated definitions x reachable states x every (device, name) request: existing, disabled, unknown, absent"""
    n = 700 if tier == "thorough" else 120
    for _ in range(n):
        defn = random_definition(rng, handlers=rng.random() < 0.3)
        names = [v["name"] for g in defn["groups"] for v in g["vectors"]]
        ops = random_ops(rng, defn, rng.randint(0, 12), hostile_rate=0.2)
        for name in names + [None, "", "UNKNOWN"]:
            r = comp_codec.msg_recipe("getProperties", ())
            r["kw"]["device"], r["kw"]["name"] = rng.choice([defn["name"], None]), name
            ops.append(["c", r])
            if rng.random() < 0.3:
                ops.extend(random_ops(rng, defn, 2, hostile_rate=0.0))
        case = {"op": "dev", "def": defn, "ops": ops, "oracles": ["C07"]}
        if len(defn["groups"]) > 1 and rng.random() < 0.5:
            case["inherit"] = {"split": rng.randint(1, len(defn["groups"]) - 1), "warm": rng.random() < 0.7}
        yield case
