"""Correspondence component `conn`: the real server connection handlers (transport/server/tcp.py, server/tty.py)
driven through fake streams, with fault injection.

Case: {"op": "conn", "script": [step...]}
  ["connect", i, "tcp"|"tty"]          a new connection i (handler coroutine started)
  ["recv", i, text]                    bytes arrive on connection i (one or more complete client messages, or junk)
  ["dev", j, tag, device]              device j hands a message to the router
  ["fault", i, kind]                   connection i ends: eof | read-error | eof-inside | junk-eof | handler-exc
  ["peer-write-error", i]              the next write on connection i fails (its send task dies); nothing else happens
Observed after every step (loop idle): Router.clients and Router.blob_routing (as connection numbers), writer.closed,
which connections / devices received what.  The model is the router model: connect = register, a parsed client
message = send from that client, any way of ending = unregister.
"""
import asyncio

from harness import Query, enc_opt, enc_str
import comp_codec

NAME = "conn"


class FakeReader:
    def __init__(self):
        self.q = asyncio.Queue()

    def feed(self, item):
        self.q.put_nowait(item)

    async def read(self, n):
        item = await self.q.get()
        if isinstance(item, Exception):
            raise item
        return item

    async def readline(self):          # TTY stdin
        item = await self.q.get()
        if isinstance(item, Exception):
            raise item
        return item.decode("latin1") if isinstance(item, bytes) else item


class FakeWriter:
    def __init__(self):
        self.data = b""
        self.closed = False
        self.fail_next = False

    def write(self, data):
        self.attempts = getattr(self, "attempts", 0) + 1
        if self.fail_next or getattr(self, "broken", False):
            self.fail_next = False
            raise ConnectionResetError("peer went away")
        self.data += data

    async def drain(self):
        await asyncio.sleep(0)
        if getattr(self, "broken", False):
            raise ConnectionResetError("peer went away")
        if getattr(self, "slow", False):
            # a slow peer: the socket buffer is full, drain() waits until the environment lets it go
            fut = asyncio.get_running_loop().create_future()
            self.__dict__.setdefault("waiting", []).append(fut)
            await fut

    def let_go(self):
        self.slow = False
        for fut in self.__dict__.get("waiting", []):
            if not fut.done():
                fut.set_result(None)
        self.__dict__["waiting"] = []

    def close(self):
        self.closed = True

    def is_closing(self):
        # asyncio marks a transport as closing as soon as the peer resets the connection or a write fails
        return self.closed or getattr(self, "closing", False)


class FakeStdout:
    def __init__(self):
        self.data = b""
        self.closed = False
        self.fail_next = False

    async def write(self, s):
        self.attempts = getattr(self, "attempts", 0) + 1
        await asyncio.sleep(0)
        if self.fail_next or getattr(self, "broken", False):
            self.fail_next = False
            raise BrokenPipeError("stdout closed")
        self.data += s.encode("latin1")

    async def flush(self):
        await asyncio.sleep(0)
        if getattr(self, "broken", False):
            raise BrokenPipeError("stdout closed")


async def idle():
    for _ in range(12):
        await asyncio.sleep(0)


def client_message_xml(kind, dev, policy=None, k=0):
    if kind == "enableBLOB":
        return '<enableBLOB device="%s">%s</enableBLOB>' % (dev, policy)
    if kind == "getProperties":
        return '<getProperties version="1.7" device="%s"/>' % dev if dev else '<getProperties version="1.7"/>'
    return '<newTextVector device="%s" name="P"><oneText name="e">v%d</oneText></newTextVector>' % (dev, k)


def run_case(case):
    import logging

    from indi import message
    from indi.device import Driver
    from indi.routing import Router
    from indi.transport.server import tcp as stcp
    from indi.transport.server import tty as stty

    logging.disable(logging.CRITICAL)
    log_handler = []

    async def main():
        router = Router()
        if case.get("loghandler"):
            # the deployment of the shipped example servers: library log records are forwarded to the clients as INDI
            # <message> notices by indi.logging.Handler
            import indi.logging as ilog
            logging.disable(logging.NOTSET)
            h = ilog.Handler(router, level=logging.WARNING)
            logging.getLogger("indi").addHandler(h)
            log_handler.append(h)
        dev_log = []
        raise_flag = {"on": False}

        class RecDrv(Driver):
            def __init__(self, ident, name):
                self.ident = ident
                super().__init__(name=name, router=router)

            def message_from_client(self, msg):
                dev_log.append("d%d" % self.ident)
                if raise_flag["on"]:
                    raise_flag["on"] = False
                    raise RuntimeError("driver blew up while handling a message")

        devs = {0: RecDrv(0, "A"), 1: RecDrv(1, "B")}
        conns = {}          # i -> dict(kind, reader, writer, handler, task)
        obs = []
        k = 0
        for step in case["script"]:
            del dev_log[:]
            marks = {i: getattr(c["writer"], "attempts", 0) for i, c in conns.items()}
            k += 1
            if step[0] == "connect":
                _, i, kind = step
                r = FakeReader()
                if kind == "tcp":
                    w = FakeWriter()
                    before = set(map(id, router.clients))
                    t = asyncio.get_running_loop().create_task(stcp.ConnectionHandler.handler(router)(r, w))
                    await idle()
                    h = [c for c in router.clients if id(c) not in before]
                    conns[i] = {"kind": kind, "reader": r, "writer": w, "handler": h[0] if h else None, "task": t}
                else:
                    w = FakeStdout()
                    h = stty.ConnectionHandler(router, r, w)
                    t = asyncio.get_running_loop().create_task(h.handle())
                    conns[i] = {"kind": kind, "reader": r, "writer": w, "handler": h, "task": t}
            elif step[0] == "recv":
                conns[step[1]]["reader"].feed(step[2].encode("latin1"))
            elif step[0] == "dev":
                _, j, tag, dname = step
                cls, base, optional, child, vkind = comp_codec.MSGS[tag]
                kw = dict(base)
                kw["device"] = dname
                kw["timestamp"] = "k%d" % k
                router.process_message(comp_codec.cls_by_name(cls)(**kw), devs[j])
            elif step[0] == "fault":
                _, i, kind = step
                rd = conns[i]["reader"]
                if kind == "eof":
                    rd.feed(b"")
                elif kind == "read-error":
                    if hasattr(conns[i]["writer"], "is_closing"):
                        conns[i]["writer"].closing = True
                    rd.feed(ConnectionResetError("reset by peer"))
                elif kind == "eof-inside":
                    rd.feed(b'<newTextVector device="A" name="P"><oneText name="e">trunc')
                    rd.feed(b"")
                elif kind == "junk-eof":
                    rd.feed(b"\x00\xff<<<garbage>>>&&& <foo ")
                    rd.feed(b"")
                elif kind == "handler-exc":
                    raise_flag["on"] = True
                    rd.feed(client_message_xml("newTextVector", "A", k=k).encode("latin1"))
            elif step[0] == "peer-write-error":
                conns[step[1]]["writer"].fail_next = True
            elif step[0] == "slow":
                if hasattr(conns[step[1]]["writer"], "let_go"):
                    conns[step[1]]["writer"].slow = True
            elif step[0] == "release":
                if hasattr(conns[step[1]]["writer"], "let_go"):
                    conns[step[1]]["writer"].let_go()
            elif step[0] == "write-broken":
                # the peer's receiving side is gone for good: every later write / drain / flush on this connection fails
                conns[step[1]]["writer"].broken = True
            elif step[0] == "write-reset":
                # the peer reset its receiving side: the transport is marked closing, reads still block; the connection
                # has not ended yet as far as the server can tell, and nobody else may be affected
                if hasattr(conns[step[1]]["writer"], "is_closing"):
                    conns[step[1]]["writer"].closing = True
            await idle()
            # observations
            rev = {id(c["handler"]): i for i, c in conns.items() if c["handler"] is not None}
            try:
                clients = ",".join(str(rev.get(id(c), "?")) for c in router.clients)
                blob = ";".join("%s:%s" % (rev.get(id(c), "?"), ",".join("%s=%s" % (enc_opt(kk), v) for kk, v in d.items()))
                                for c, d in router.blob_routing.items())
            except Exception:  # noqa
                clients, blob = "unreadable", "unreadable"
            got = []
            for i, c in sorted(conns.items()):
                if getattr(c["writer"], "attempts", 0) > marks.get(i, 0):     # a write was attempted (it may have failed)
                    got.append("c%d" % i)
            closed = ",".join(str(i) for i, c in sorted(conns.items()) if c["kind"] == "tcp" and c["writer"].closed)
            done = ",".join(str(i) for i, c in sorted(conns.items()) if c["task"].done())
            obs.append({"clients": clients, "blob": blob, "recipients": list(dev_log) + got, "closed": closed, "done": done})
        for c in conns.values():
            if hasattr(c["writer"], "let_go"):
                for _ in range(50):
                    c["writer"].let_go()
                    await idle()
                    if not c["writer"].__dict__.get("waiting"):
                        break
        await idle()
        if obs:
            obs[-1]["attempts"] = {i: getattr(c["writer"], "attempts", 0) for i, c in conns.items()}
        for c in conns.values():
            c["task"].cancel()
        await idle()
        stcp.ConnectionHandler.connections[:] = []
        return obs

    try:
        return asyncio.run(main())
    finally:
        for h in log_handler:
            logging.getLogger("indi").removeHandler(h)
        logging.disable(logging.CRITICAL)


def run_impl(case, outcome):
    obs = run_case(case)
    if case.get("loghandler"):
        # log notices add traffic the router model does not describe: only the oracles are asked
        outcome.count("with-log-handler")
        qs = []
        kind0 = [s[2] for s in case["script"] if s[0] == "connect" and s[1] == 0][0]
        for n, o in enumerate(obs):
            if case["script"][n][0] == "connect":
                continue
            registered = "0" in o["clients"].split(",")
            is_open = kind0 != "tcp" or "0" not in o["closed"].split(",")
            running = "0" not in o["done"].split(",")
            qs.append(Query("spec c12conn %s %s %s" % tuple("True" if b else "False" for b in (registered, is_open, running)), "True", "oracle",
                            "with indi.logging.Handler installed: after step %d %r the sending connection is registered=%s open=%s serving=%s"
                            % (n, case["script"][n][:3], registered, is_open, running)))
        # the valid write after the hostile message must still reach device A
        last_valid = [n for n, st in enumerate(case["script"]) if st[0] == "recv" and len(st) > 3 and st[3] and st[3][0] == "newTextVector"]
        if last_valid:
            n = last_valid[-1]
            qs.append(Query("spec istrue %s" % ("True" if "d0" in obs[n]["recipients"] else "False"), "True", "oracle",
                            "with indi.logging.Handler installed: a valid write after the hostile message did not reach its device"))
        outcome.nontrivial.add(("loghandler", str(case["script"])))
        return qs
    # the same session for the router model
    ops = ["D 0 " + enc_opt("A"), "D 1 " + enc_opt("B")]
    per_step = []       # index of the model op that corresponds to each script step (None: no router operation)
    ended = set()
    for step in case["script"]:
        outcome.count("step:" + step[0] + (":" + step[2] if step[0] == "fault" else ""))
        if step[0] == "connect":
            ops.append("C %d" % step[1])
            per_step.append(len(ops) - 1)
        elif step[0] == "recv":
            sent = step[3] if len(step) > 3 else None
            if sent and step[1] not in ended:
                kind, dev, policy = sent
                ops.append("S %s %s %s c%d" % (enc_str(kind), enc_opt(dev), policy or "~", step[1]))
                per_step.append(len(ops) - 1)
            else:
                per_step.append(None)
        elif step[0] == "dev":
            ops.append("S %s %s ~ d%d" % (enc_str(step[2]), enc_opt(step[3]), step[1]))
            per_step.append(len(ops) - 1)
        elif step[0] == "fault":
            if step[2] == "handler-exc" and step[1] not in ended:
                # the message reaches the router (and the raising device) before the connection dies
                ops.append("S %s %s ~ c%d" % (enc_str("newTextVector"), enc_opt("A"), step[1]))
                ops.append("U %d" % step[1])
                per_step.append(len(ops) - 2)
            else:
                ops.append("U %d" % step[1])
                per_step.append(len(ops) - 1)
            ended.add(step[1])
        else:
            per_step.append(None)
    line = "%d %s" % (len(ops), " ".join(ops))
    outcome.nontrivial.add(line)
    # expected strings in the model's format: deliveries of the op of each step, then the router state after the whole prefix
    qs = []
    observed_deliv = []
    for st, o, idx in zip(case["script"], obs, per_step):
        observed_deliv.append(" ".join(o["recipients"]))
    # per step: deliveries (model: trace entry idx) and state (model: state after ops[:last op of the step])
    upto = 2
    for n, (st, o, idx) in enumerate(zip(case["script"], obs, per_step)):
        if idx is not None:
            upto = max(upto, idx + 1)
            if st[0] == "fault" and st[2] == "handler-exc":
                upto = max(upto, idx + 2)
        prefix = "%d %s" % (upto, " ".join(ops[:upto]))
        state_expect = "clients %s blob %s" % (o["clients"], o["blob"])
        qs.append(Query("router state " + prefix, state_expect, "corr", "after step %d %r" % (n, st)))
        if idx is not None and st[0] in ("recv", "dev", "fault"):
            if st[0] == "fault" and st[2] != "handler-exc":
                continue
            qs.append(Query("router deliveries %d %s" % (idx, "%d %s" % (idx + 1, " ".join(ops[:idx + 1]))), " ".join(o["recipients"]), "corr",
                            "deliveries of step %d %r" % (n, st)))
            if st[0] in ("dev", "recv"):
                # oracle (C18 "every other connection keeps receiving all device traffic", C05, C04): who must get this message,
                # computed by the specification from the history of registrations, endings and enableBLOBs alone
                qs.append(Query("spec deliveries %d %s" % (idx, "%d %s" % (idx + 1, " ".join(ops[:idx + 1]))), " ".join(o["recipients"]), "oracle",
                                "device traffic of step %d %r did not reach exactly the connections that are open and entitled to it" % (n, st)))
    slow_case = any(st[0] == "slow" for st in case["script"])
    if slow_case:
        # a slow peer's writes happen when it is let go, not at the step that routed them: the per-step recipients are not
        # comparable; what is judged instead is the account at the end - everything routed to a connection while it was
        # registered has been written to it (attempted) once every peer was let go
        qs = [q for q in qs if q.line.startswith("router state")]
        att = obs[-1].get("attempts", {})
        full = "%d %s" % (len(ops), " ".join(ops))
        for i in sorted(att):
            kind_i = [s[2] for s in case["script"] if s[0] == "connect" and s[1] == i][0]
            if kind_i != "tcp":
                continue
            qs.append(Query("spec routedcount %d %s" % (i, full), str(att[i]), "oracle",
                            "connection %d: the number of messages written to it is not the number routed to it while it was registered "
                            "(some in-flight deliveries were lost or duplicated when another connection ended)" % i))
    # the whole receive path in the model (Model/Conn.lean): bytes -> buffer model -> character-level parser -> router model,
    # with the handler's control flow (every way of ending closes and unregisters); one observation per script step
    events, last_of_step = [], []
    for st in case["script"]:
        if st[0] == "connect":
            events.append("K %d %s" % (st[1], "True" if st[2] == "tcp" else "False"))
        elif st[0] == "recv":
            events.append("R %d %s ~" % (st[1], enc_str(st[2])))
        elif st[0] == "dev":
            events.append("P %s %s ~ d%d" % (enc_str(st[2]), enc_opt(st[3]), st[1]))
        elif st[0] == "fault":
            i, kind = st[1], st[2]
            if kind == "eof":
                events.append("E %d" % i)
            elif kind == "read-error":
                events.append("X %d" % i)
            elif kind == "eof-inside":
                events += ["R %d %s ~" % (i, enc_str('<newTextVector device="A" name="P"><oneText name="e">trunc')), "E %d" % i]
            elif kind == "junk-eof":
                events += ["R %d %s ~" % (i, enc_str("\x00\xff<<<garbage>>>&&& <foo ")), "E %d" % i]
            else:
                k_ = 1 + case["script"].index(st)
                events.append("R %d %s 0" % (i, enc_str(client_message_xml("newTextVector", "A", k=k_))))
        last_of_step.append(len(events) - 1 if st[0] not in ("peer-write-error", "write-reset", "write-broken", "slow", "release") else None)
    expected = {}
    for n, (st, o, le) in enumerate(zip(case["script"], obs, last_of_step)):
        if le is not None:
            expected[le] = "clients %s blob %s closed %s done %s got %s" % (o["clients"], o["blob"], o["closed"], o["done"], " ".join(o["recipients"]))
    if not any(st[0] in ("peer-write-error",) for st in case["script"]) and not slow_case:
        # (a failed write kills the sender task only; the model has no event for it)
        devs_ = "2 D 0 %s D 1 %s" % (enc_opt("A"), enc_opt("B"))
        marks = sorted(expected)
        qs.append(Query("conn run %s %d %s %d %s" % (devs_, len(marks), " ".join(str(x) for x in marks), len(events), " ".join(events)),
                        " | ".join(expected[i] for i in marks), "corr", "the whole receive path in the model: framing, parser, router and the handler's control flow"))
    # oracle (C18): after a connection ended it is in neither clients nor blob_routing, its writer is closed, its handler task is done,
    # and it receives nothing afterwards; evaluated in Lean from the observations
    ended_at = {}
    for n, st in enumerate(case["script"]):
        if st[0] == "fault" and st[1] not in ended_at:
            ended_at[st[1]] = n
    for i, n0 in ended_at.items():
        kind_i = [s[2] for s in case["script"] if s[0] == "connect" and s[1] == i][0]
        for n in range(n0, len(obs)):
            o = obs[n]
            present = str(i) in o["clients"].split(",") or any(e.split(":")[0] == str(i) for e in o["blob"].split(";") if e)
            still_open = kind_i == "tcp" and str(i) not in o["closed"].split(",")
            running = str(i) not in o["done"].split(",")
            got = ("c%d" % i) in o["recipients"] and n > n0
            qs.append(Query("spec c18 %s %s %s %s" % tuple("True" if b else "False" for b in (present, still_open, running, got)), "True", "oracle",
                            "connection %d ended at step %d (%s) but at step %d: registered=%s writer-open=%s handler-running=%s got-traffic=%s"
                            % (i, n0, case["script"][n0][2], n, present, still_open, running, got)))
    if case.get("hostile"):
        kind0 = [s[2] for s in case["script"] if s[0] == "connect" and s[1] == 0][0]
        for n, o in enumerate(obs):
            if case["script"][n][0] == "connect":
                continue
            registered = "0" in o["clients"].split(",")
            is_open = kind0 != "tcp" or "0" not in o["closed"].split(",")
            running = "0" not in o["done"].split(",")
            qs.append(Query("spec c12conn %s %s %s" % tuple("True" if b else "False" for b in (registered, is_open, running)), "True", "oracle",
                            "after step %d %r the sending connection is registered=%s open=%s serving=%s" % (n, case["script"][n][:3], registered, is_open, running)))
    return [q for q in qs if q is not None]


# client messages with attributes the classes do not model (names that collide with the library's internals): still valid
# messages, to be routed like any other of their kind
ODD_BUT_VALID = {
    '<newTextVector device="A" name="P" from_client=""><oneText name="e">v</oneText></newTextVector>': ["newTextVector", "A", None],
    '<newTextVector device="A" name="P" from_device="x" children="y"><oneText name="e">v</oneText></newTextVector>': ["newTextVector", "A", None],
    '<getProperties version="1.7" from_client="" from_device="" tag_name="x" to_xml="y"/>': ["getProperties", None, None],
}


def gen_cases(rng, tier):
    thorough = tier == "thorough"
    faults = ["eof", "read-error", "eof-inside", "junk-eof", "handler-exc"]
    kinds = ["tcp", "tty"]

    def base_script(n):
        """handshake, enableBLOB, writes, device traffic for n connections"""
        s = []
        for i in range(n):
            s.append(["connect", i, kinds[i % 2] if n > 1 else rng.choice(kinds)])
        for i in range(n):
            s.append(["recv", i, client_message_xml("getProperties", None), ["getProperties", None, None]])
            pol = rng.choice(["Also", "Only", "Never"])
            s.append(["recv", i, client_message_xml("enableBLOB", "A", pol), ["enableBLOB", "A", pol]])
        s.append(["dev", 0, "setTextVector", "A"])
        s.append(["dev", 0, "setBLOBVector", "A"])
        s.append(["recv", 0, client_message_xml("newTextVector", "A", k=1), ["newTextVector", "A", None]])
        s.append(["dev", 1, "defTextVector", "B"])
        s.append(["dev", 0, "setBLOBVector", "A"])
        return s

    for n in (2, 3):
        base = base_script(n)
        tail = [["dev", 0, "setTextVector", "A"], ["dev", 0, "setBLOBVector", "A"], ["dev", 1, "setTextVector", "B"],
                ["recv", n - 1, client_message_xml("enableBLOB", "B", "Also"), ["enableBLOB", "B", "Also"]], ["dev", 1, "setBLOBVector", "B"]]
        for victim in range(n):
            for fault in faults:
                for pos in range(n, len(base) + 1):          # after the connects, at every step index
                    script = [list(x) for x in base[:pos]] + [["fault", victim, fault]] + [list(x) for x in base[pos:]] + tail
                    # the victim cannot send after it ended
                    seen = False
                    out = []
                    for st in script:
                        if st[0] == "fault":
                            seen = True
                        if seen and st[0] == "recv" and st[1] == victim:
                            continue
                        out.append(st)
                    # a peer that reconnects starts from default settings
                    out += [["connect", 7, rng.choice(kinds)], ["dev", 0, "setBLOBVector", "A"], ["dev", 0, "setTextVector", "A"]]
                    if not thorough and rng.random() < 0.5:
                        continue
                    yield {"op": "conn", "script": out}
    # write error on a peer: nobody else is disturbed
    for n in (2, 3):
        base = base_script(n)
        for victim in range(n):
            pos = rng.randrange(n, len(base))
            yield {"op": "conn", "script": base[:pos] + [["peer-write-error", victim]] + base[pos:] + [["dev", 0, "setTextVector", "A"], ["dev", 1, "setTextVector", "B"]]}
    # a slow peer B with deliveries queued on its sender lock while another connection A ends (every way of ending): B still
    # gets everything that was routed to it
    for n in (2, 3):
        base = base_script(n)
        for fault in (faults if thorough else ["eof", "read-error", "handler-exc"]):
            for victim, slowone in ((0, 1), (1, 0)) if n == 2 else ((0, 2), (2, 0), (1, 2)):
                script = ([list(x) for x in base] + [["slow", slowone], ["dev", 0, "setTextVector", "A"], ["dev", 1, "defTextVector", "B"], ["dev", 0, "setTextVector", "A"],
                                                    ["fault", victim, fault], ["dev", 1, "setTextVector", "B"], ["release", slowone], ["dev", 0, "setTextVector", "A"]])
                yield {"op": "conn", "script": script}
    # two faults on one connection: its write side fails for good (every send task dies), device traffic keeps coming, then its
    # read side ends - by EOF, by a read error, inside a message
    for n in (2, 3):
        base = base_script(n)
        for victim in range(n):
            for fault in (["eof", "read-error"] if not thorough else ["eof", "read-error", "eof-inside", "junk-eof", "handler-exc"]):
                pos = len(base) - rng.randrange(0, 4)
                script = ([list(x) for x in base[:pos]] + [["write-broken", victim], ["dev", 0, "setTextVector", "A"], ["dev", 1, "defTextVector", "B"],
                                                         ["fault", victim, fault], ["dev", 0, "setTextVector", "A"], ["dev", 0, "setBLOBVector", "A"],
                                                         ["connect", 7, rng.choice(kinds)], ["dev", 1, "setTextVector", "B"]])
                yield {"op": "conn", "script": script}
    # the peer resets its receiving side (transport closing, reads still pending), device traffic follows, then the connection ends
    for n in (2, 3):
        base = base_script(n)
        for victim in range(n):
            for pos in ([len(base) - 3, len(base)] if not thorough else range(2 * n + n, len(base) + 1)):
                script = ([list(x) for x in base[:pos]] + [["write-reset", victim], ["dev", 0, "setTextVector", "A"], ["dev", 1, "defTextVector", "B"], ["dev", 0, "setBLOBVector", "A"],
                                                         ["fault", victim, "eof"], ["dev", 0, "setTextVector", "A"], ["dev", 0, "setBLOBVector", "A"]])
                yield {"op": "conn", "script": script}
    # hostile-but-well-formed client messages and byte-level oddities at every position (C12 at the connection level)
    hostile = ['<newTextVector device="A" name="NOPE"><oneText name="e">v</oneText></newTextVector>',
               '<newSwitchVector device="A" name="P"><oneSwitch name="e">Maybe</oneSwitch></newSwitchVector>',
               '<newNumberVector device="A" name="P"><oneNumber name="e">abc</oneNumber></newNumberVector>',
               '<newBLOBVector device="A" name="P"><oneBLOB name="e" size="inf" format=".x">QUJD</oneBLOB></newBLOBVector>',
               '<pingReply uid="7"/>', '<setTextVector device="A" name="P" state="Ok"/>', '<delProperty device="A"/>', '<enableBLOB device="A">Sometimes</enableBLOB>',
               '<newTextVector device="A" name="P"><oneText name="e">caf\xe9 \xff</oneText></newTextVector>', '<message device="A" message="hi"/>',
               '<getProperties version="1.7" device=""/>', '<getProperties version="1.7.1"/>', '<getProperties version="v2" device="A"/>', '<getProperties version=""/>',
               '<getProperties version="1,7" device="A" name="P"/>', '<getProperties/>', '<getProperties version="nan"/>',
               '<newTextVector device="A" name="P" timestamp="not a time"><oneText name="e">v</oneText></newTextVector>',
               '<newTextVector device="A" name="P" from_client=""><oneText name="e">v</oneText></newTextVector>',
               '<newTextVector device="A" name="P" from_device="x" children="y"><oneText name="e">v</oneText></newTextVector>',
               '<getProperties version="1.7" from_client="" from_device="" tag_name="x" to_xml="y"/>', '<newTextVector device="" name="P"><oneText name="e">v</oneText></newTextVector>']
    # the same with the log-forwarding handler of the example servers installed, and names a logging format string would choke on
    pct = ['<newTextVector device="A" name="P"><oneText name="GAIN_%">v</oneText></newTextVector>',
           '<newTextVector device="A" name="%s"><oneText name="e">v</oneText></newTextVector>',
           '<newNumberVector device="A" name="P"><oneNumber name="%(x)s">1</oneNumber></newNumberVector>',
           '<newSwitchVector device="A" name="P"><oneSwitch name="100%">On</oneSwitch></newSwitchVector>',
           '<newTextVector device="%d" name="P"><oneText name="e">%</oneText></newTextVector>']
    for hmsg in pct + hostile[:6]:
        base = base_script(2)
        pos = len(base) // 2
        script = base[:pos] + [["recv", 0, hmsg]] + base[pos:] + [["recv", 0, client_message_xml("newTextVector", "A", k=5), ["newTextVector", "A", None]], ["dev", 1, "setTextVector", "B"]]
        yield {"op": "conn", "script": script, "hostile": True, "loghandler": True}
    hostile = hostile + pct
    for n in (2,):
        base = base_script(n)
        for hmsg in hostile:
            for pos in ([n, len(base) // 2, len(base)] if not thorough else range(n, len(base) + 1)):
                step = ["recv", 0, hmsg] + ([ODD_BUT_VALID[hmsg]] if hmsg in ODD_BUT_VALID else [])
                script = base[:pos] + [step] + base[pos:] + [["recv", 0, client_message_xml("enableBLOB", "B", "Also"), ["enableBLOB", "B", "Also"]],
                                                               ["dev", 1, "setBLOBVector", "B"]]
                yield {"op": "conn", "script": script, "hostile": True}


def gen_hostile(rng, tier):
    """only the hostile-message scripts (C12 at the connection level)"""
    for case in gen_cases(rng, tier):
        if case.get("hostile"):
            yield case
