#!/usr/bin/env python
"""Translator: /repo's current source  ->  lean/Indi/Generated/*.lean

Run with /venv/bin/python -B and PYTHONPATH=<repo>.  Re-derives on every run,
from the live classes of the working tree, the declarative facts the Lean
models are parametrised by:

  Registry.lean  every registered message class and every message part class:
                 tag, from_client / from_device flags, required constructor
                 keywords, the attributes an instance stores (in __dict__
                 order), the constructor keyword each attribute is taken from
                 and the guard that keyword has to pass
  Consts.lean    thresholds, read size, default BLOB policy, handshake
                 policies, str.strip()'s whitespace set, the zero digits of
                 the code point ranges `\\d` matches, number regex literals,
                 sexagesimal fraction bases, protocol version, the XML
                 declaration `to_string` emits

The constructor tables are obtained by *probing the live constructors* (omit
each keyword, pass each value of a probe universe, read __dict__), which is
insensitive to how the checks are spelled in the source and sensitive to what
they accept.  A class the prober cannot classify is emitted with
`supported := false`; the models then answer `unsupported` for it and the tie
for that class is the correspondence alone.

Files are rewritten only if their content changed (keeps lake's build cache).
"""
import ast
import inspect
import json
import os
import re
import sys

HERE = os.path.dirname(os.path.abspath(__file__))
VERIF = os.path.dirname(HERE)
OUT = os.path.join(VERIF, "lean", "Indi", "Generated")


def lean_str(s):
    """Lean `Str` (= List Char) literal"""
    if all(32 <= ord(ch) < 127 for ch in s):
        return '(s "%s")' % s.replace("\\", "\\\\").replace('"', '\\"')
    return "(cps [%s])" % ", ".join(str(ord(ch)) for ch in s)


def lean_opt_str(v):
    return "none" if v is None else "(some %s)" % lean_str(v)


def lean_list(items):
    return "[" + ", ".join(items) + "]"


def lean_bool(b):
    return "true" if b else "false"


# --------------------------------------------------------------------------
# probing


class Fresh(str):
    """a str equal to its content but a distinct object (identity tracking)"""


def fresh(sv):
    return None if sv is None else "".join(list(sv)) if sv != "" else str.__new__(Fresh, "")


def vocab_classes():
    from indi.message import const

    res = []
    for name, obj in vars(const).items():
        if inspect.isclass(obj) and obj.__module__ == const.__name__:
            res.append(obj)
    return res


def probe_universe():
    """candidate values for guarded scalar fields"""
    from indi.message import const

    uni = []

    def add(v):
        if v not in uni:
            uni.append(v)

    for cls in vocab_classes():
        for k, v in vars(cls).items():
            if isinstance(v, str):
                add(v)
                add(v.lower())
                add(v.upper())
            elif v is None:
                add(None)
            add(k)
        add(cls.__name__)
        add(cls.__module__)
        add(cls.__qualname__)
    for v in ("", "12", "-1.5", "1:30", "1:30:00.5", "+3", "1 30", "1;30", "zz§", " Ok", "Ok ", "True", "None", "0", "1"):
        add(v)
    add(None)
    return uni


def all_params(cls):
    names = []
    for k in cls.__mro__:
        init = k.__dict__.get("__init__")
        if init is None:
            continue
        try:
            sig = inspect.signature(init)
        except (TypeError, ValueError):
            continue
        for p in list(sig.parameters.values())[1:]:
            if p.kind in (p.POSITIONAL_OR_KEYWORD, p.KEYWORD_ONLY) and p.name not in names:
                names.append(p.name)
    return names


class Unsupported(Exception):
    pass


def part_classes():
    from indi.message.base import IndiMessagePart

    # every class below IndiMessagePart, through Python's own `__subclasses__()` (what `from_xml` searches, whatever the
    # library calls its private helper for it)
    seen, todo = [], list(IndiMessagePart.__subclasses__())
    while todo:
        c = todo.pop()
        if c not in seen:
            seen.append(c)
            todo.extend(c.__subclasses__())
    return sorted(seen, key=lambda c: (c.__module__, c.__name__))


def sample_part(cls, universe):
    """an instance of part class cls (for children probing)"""
    params = all_params(cls)
    base = find_baseline(cls, params, universe, parts=None)
    return cls(**base)


def try_construct(cls, kwargs):
    try:
        return cls(**kwargs), None
    except TypeError as e:
        return None, "TypeError"
    except ValueError as e:
        return None, "ValueError"
    except Exception as e:  # noqa
        return None, type(e).__name__


def find_baseline(cls, params, universe, parts):
    """keyword arguments with which cls constructs: unique sentinel strings
    wherever the constructor lets them through, vocabulary values elsewhere"""
    import itertools

    base = {p: "zz§" + p for p in params}
    if "children" in params:
        base["children"] = ()
    vocab = []
    for c in vocab_classes():
        for k, v in vars(c).items():
            if isinstance(v, str) and not k.startswith("_") and v not in vocab:
                vocab.append(v)
    candidates = vocab + ["12"]
    for _ in range(len(params) + 2):
        try:
            cls(**base)
            return base
        except TypeError as e:
            raise Unsupported("%s: %s" % (cls.__name__, e))
        except Exception as e:  # noqa
            args = [a for a in getattr(e, "args", ()) if isinstance(a, str)]
            culprit = [p for p in params if p != "children" and base[p] in args]
            if not culprit:
                break
            p = culprit[0]
            for v in candidates:
                trial = dict(base)
                trial[p] = v
                try:
                    cls(**trial)
                    return trial
                except Exception as e2:  # noqa
                    args2 = [a for a in getattr(e2, "args", ()) if isinstance(a, str)]
                    if v not in args2:
                        base = trial
                        break
            else:
                break
    guarded = [p for p in params if p != "children"]
    for r in (1, 2, 3):
        for ps in itertools.combinations(guarded, r):
            for vs in itertools.product(candidates, repeat=r):
                trial = dict(base)
                for p, v in zip(ps, vs):
                    trial[p] = v
                try:
                    cls(**trial)
                    return trial
                except Exception:  # noqa
                    pass
    raise Unsupported("no baseline kwargs found for %s" % cls.__name__)


def classify_guard(accepted, universe):
    """accepted: list of universe values accepted"""
    acc = list(accepted)
    if len(acc) == len(universe):
        return ("any",)
    numberish = {"12", "-1.5", "1:30", "1:30:00.5", "+3", "1 30", "1;30", "0", "1"}
    if None in acc and set(a for a in acc if a is not None) <= numberish and "12" in acc and "zz§" not in acc:
        return ("number",)
    return ("oneOf", acc)


def probe_class(cls, universe, is_part, parts):
    params = all_params(cls)
    base = find_baseline(cls, params, universe, parts)
    # identity-tracked baseline
    tracked = {p: (fresh(v) if isinstance(v, str) else v) for p, v in base.items()}
    obj, err = try_construct(cls, tracked)
    if obj is None:
        raise Unsupported("baseline does not construct for %s: %s" % (cls.__name__, err))
    # required keywords
    required = []
    soft_required = []
    for p in params:
        kw = dict(tracked)
        del kw[p]
        o2, e2 = try_construct(cls, kw)
        if o2 is None:
            if e2 == "ValueError":
                # optional keyword whose default (None) does not pass its guard:
                # table-wise it is optional, the guard column says None is rejected
                soft_required.append(p)
                continue
            if e2 != "TypeError":
                raise Unsupported("omitting %s of %s raises %s" % (p, cls.__name__, e2))
            required.append(p)
    # "self" keyword
    o2, e2 = try_construct(cls, dict(tracked, self="x"))
    if o2 is not None or e2 != "TypeError":
        raise Unsupported("keyword self accepted by %s" % cls.__name__)
    # junk keyword ignored
    o2, e2 = try_construct(cls, dict(tracked, **{"zz-junk": "x"}))
    if o2 is None:
        raise Unsupported("unknown keyword rejected by %s" % cls.__name__)
    if list(vars(o2).keys()) != list(vars(obj).keys()):
        raise Unsupported("unknown keyword stored by %s" % cls.__name__)
    # fields and their sources
    fields = []
    for fname, fval in vars(obj).items():
        source = None
        for p, v in tracked.items():
            if v is fval and (v is not None) and not (isinstance(v, tuple) and len(v) == 0 and p != "children"):
                source = p
        if fname == "children":
            source = "children" if "children" in params else None
        if source is None and fval is not None:
            # maybe transformed value: not supported
            raise Unsupported("attribute %s of %s is not a stored keyword" % (fname, cls.__name__))
        # defaults: optional keywords must default to None
        fields.append([fname, source, None])
    # defaults: construct with required only
    kw = {p: tracked[p] for p in required + soft_required}
    o3, e3 = try_construct(cls, kw)
    if o3 is None:
        raise Unsupported("required-only construction of %s fails: %s" % (cls.__name__, e3))
    for f in fields:
        fname, source, _ = f
        if source is not None and source not in required and source not in soft_required:
            dv = vars(o3).get(fname, "<missing>")
            if fname == "children":
                if dv != []:
                    raise Unsupported("default children of %s is %r" % (cls.__name__, dv))
            elif dv is not None:
                raise Unsupported("default of %s.%s is %r" % (cls.__name__, fname, dv))
    # a keyword consumed but not stored
    stored_sources = {f[1] for f in fields if f[1]}
    consumed_only = [p for p in params if p not in stored_sources]
    # guards
    for f in fields:
        fname, source, _ = f
        if source is None:
            f[2] = ("any",)
            continue
        if fname == "children":
            accepted_tags = []
            for pc in parts:
                inst = parts[pc]
                o4, e4 = try_construct(cls, dict(tracked, children=(inst,)))
                if o4 is not None:
                    if vars(o4)["children"] != (inst,):
                        raise Unsupported("children transformed by %s" % cls.__name__)
                    accepted_tags.append(pc.tag_name())
                elif e4 != "ValueError":
                    raise Unsupported("child rejection of %s raises %s" % (cls.__name__, e4))
            # None -> [], "" accepted, non-empty str rejected
            o4, e4 = try_construct(cls, dict(tracked, children=None))
            if o4 is None or vars(o4)["children"] != []:
                raise Unsupported("children=None not stored as [] by %s" % cls.__name__)
            o4, e4 = try_construct(cls, dict(tracked, children="x"))
            if o4 is not None:
                raise Unsupported("children='x' accepted by %s" % cls.__name__)
            f[2] = ("children", accepted_tags)
            continue
        accepted = []
        for v in universe:
            o4, e4 = try_construct(cls, dict(tracked, **{source: (fresh(v) if isinstance(v, str) else v)}))
            if o4 is not None:
                got = vars(o4)[fname]
                if got != v:
                    raise Unsupported("%s.%s transforms %r into %r" % (cls.__name__, fname, v, got))
                accepted.append(v)
            elif e4 != "ValueError":
                raise Unsupported("guard of %s.%s raises %s" % (cls.__name__, fname, e4))
        f[2] = classify_guard(accepted, universe)
        if source in soft_required and (f[2][0] != "oneOf" or None in f[2][1]):
            raise Unsupported("omitting %s of %s raises ValueError but None passes its guard" % (source, cls.__name__))
    return {
        "tag": cls.tag_name(),
        "py": cls.__module__ + "." + cls.__name__,
        "from_client": bool(getattr(cls, "from_client", False)),
        "from_device": bool(getattr(cls, "from_device", False)),
        "required": required,
        "fields": fields,
        "consumed_only": consumed_only,
        "supported": True,
    }


def probe_registry():
    from indi.message import IndiMessage

    universe = probe_universe()
    pcs = part_classes()
    parts_inst = {}
    part_specs = []
    notes = []
    for pc in pcs:
        try:
            parts_inst[pc] = sample_part(pc, universe)
        except Unsupported as e:
            notes.append(str(e))
    for pc in pcs:
        try:
            part_specs.append(probe_class(pc, universe, True, parts_inst))
        except Unsupported as e:
            notes.append(str(e))
            part_specs.append({"tag": pc.tag_name(), "py": pc.__module__ + "." + pc.__name__, "supported": False,
                               "from_client": False, "from_device": False, "required": [], "fields": [], "consumed_only": []})
    msg_specs = []
    for mc in IndiMessage.all_message_classes():
        try:
            msg_specs.append(probe_class(mc, universe, False, parts_inst))
        except Unsupported as e:
            notes.append(str(e))
            msg_specs.append({"tag": mc.tag_name(), "py": mc.__module__ + "." + mc.__name__, "supported": False,
                              "from_client": bool(getattr(mc, "from_client", False)),
                              "from_device": bool(getattr(mc, "from_device", False)),
                              "required": [], "fields": [], "consumed_only": []})
    return msg_specs, part_specs, notes


def lean_guard(g):
    if g[0] == "any":
        return "Guard.any"
    if g[0] == "number":
        return "Guard.number"
    if g[0] == "oneOf":
        return "(Guard.oneOf %s)" % lean_list([lean_opt_str(v) for v in g[1]])
    if g[0] == "children":
        return "(Guard.children %s)" % lean_list([lean_str(t) for t in g[1]])
    raise ValueError(g)


def lean_class(spec):
    fields = lean_list([
        "{ name := %s, source := %s, guard := %s }" % (lean_str(f[0]), lean_opt_str(f[1]), lean_guard(f[2]))
        for f in spec["fields"]
    ])
    return ("{ tag := %s, supported := %s, fromClient := %s, fromDevice := %s,\n      required := %s,\n      fields := %s }"
            % (lean_str(spec["tag"]), lean_bool(spec["supported"]), lean_bool(spec["from_client"]),
               lean_bool(spec["from_device"]), lean_list([lean_str(r) for r in spec["required"]]), fields))


def gen_registry():
    msgs, parts, notes = probe_registry()
    out = ["-- GENERATED by tools/extract.py from the working tree of the repository. Do not edit.",
           "import Indi.Model.Msg", "namespace Indi.Generated", "open Indi", ""]
    out.append("def messageClasses : List ClassSpec := [")
    out.append(",\n".join("    " + lean_class(m) for m in msgs))
    out.append("  ]\n")
    out.append("def partClasses : List ClassSpec := [")
    out.append(",\n".join("    " + lean_class(p) for p in parts))
    out.append("  ]\n")
    out.append("def registry : Registry := { messages := messageClasses, parts := partClasses }\n")
    out.append("end Indi.Generated")
    return "\n".join(out) + "\n", {"messages": msgs, "parts": parts, "notes": notes}


# --------------------------------------------------------------------------
# constants


def find_number_regexps():
    from indi.message import checks

    src = inspect.getsource(checks.number)
    tree = ast.parse(src)
    lits = []
    for node in ast.walk(tree):
        if isinstance(node, ast.Constant) and isinstance(node.value, str) and node.value.startswith("^"):
            lits.append(node.value)
    return lits


def gen_consts():
    import indi
    from indi.client.client import BaseClient, Client
    from indi.device import values
    from indi.message import IndiMessage, const
    from indi.routing import Router
    from indi.transport import Buffer
    from indi.transport.client import tcp as ctcp

    b = Buffer()
    default_threshold = b.max_buffer_size_before_frontal_cleanup

    class _R:
        pass

    h = ctcp.ConnectionHandler.__new__(ctcp.ConnectionHandler)
    try:
        import asyncio

        async def mk():
            return ctcp.ConnectionHandler(None, None, lambda m: None, for_blobs=True)

        hb = asyncio.run(mk())
        blob_threshold = hb.buffer.max_buffer_size_before_frontal_cleanup
    except Exception:
        blob_threshold = "unknown"

    spaces = [c for c in range(0x110000) if chr(c).isspace()]
    nd = [c for c in range(0x110000) if re.match(r"\d", chr(c))]
    zeros = [c for c in nd if int(chr(c)) == 0]
    ok_nd = len(zeros) * 10 == len(nd) and all(all(re.match(r"\d", chr(z + i)) and int(chr(z + i)) == i for i in range(10)) for z in zeros)

    sent = []

    class Probe(BaseClient):
        def send_message(self, msg):
            sent.append(msg)

    Probe().blob_handshake("D")
    base_policy = [m.value for m in sent]

    def opt_nat(v):
        return "none" if v is None else "(some %d)" % v

    decl = IndiMessage().to_string()
    # b'<?xml version="1.0"?>\n<indiMessage />\n'
    prefix = decl[: decl.index(b"<indiMessage")].decode("latin1")
    suffix = decl[decl.index(b"/>") + 2:].decode("latin1")

    fr = getattr(values, "SEXAGESIMAL_FRACTION_BASE", None)
    out = ["-- GENERATED by tools/extract.py from the working tree of the repository. Do not edit.",
           "import Indi.Model.Basic", "namespace Indi.Generated", "open Indi", ""]
    out.append("def defaultThreshold : Option Nat := %s" % opt_nat(default_threshold))
    out.append("def blobConnThreshold : Option Nat := %s" % (opt_nat(blob_threshold) if blob_threshold != "unknown" else "some 0"))
    out.append("def defaultBlobPolicy : Str := %s" % lean_str(Router.DEFAULT_BLOB_POLICY))
    out.append("def handshakePolicy : List Str := %s" % lean_list([lean_str(p) for p in base_policy]))
    out.append("def protocolVersion : Str := %s" % lean_str(indi.__protocol_version__))
    out.append("def xmlPrefix : Str := %s" % lean_str(prefix))
    out.append("def xmlSuffix : Str := %s" % lean_str(suffix))
    out.append("def pySpaces : List Nat := %s" % lean_list([str(c) for c in spaces]))
    out.append("def ndZeros : List Nat := %s" % lean_list([str(c) for c in zeros]))
    out.append("def ndWellFormed : Bool := %s" % lean_bool(ok_nd))
    out.append("def numberRegexps : List Str := %s" % lean_list([lean_str(r) for r in find_number_regexps()]))
    out.append("def sexaBases : List (Nat × Nat) := %s" % lean_list(
        ["(%d, %d)" % (k, v) for k, v in sorted((fr or {}).items())]))
    out.append("\nend Indi.Generated")
    info = {"default_threshold": default_threshold, "blob_threshold": blob_threshold,
            "default_policy": Router.DEFAULT_BLOB_POLICY, "number_regexps": find_number_regexps()}
    return "\n".join(out) + "\n", info


def write_if_changed(path, content):
    try:
        with open(path) as f:
            if f.read() == content:
                return False
    except FileNotFoundError:
        pass
    os.makedirs(os.path.dirname(path), exist_ok=True)
    with open(path + ".tmp", "w") as f:
        f.write(content)
    os.replace(path + ".tmp", path)
    return True


def main():
    out_dir = sys.argv[1] if len(sys.argv) > 1 else OUT
    reg, reg_info = gen_registry()
    con, con_info = gen_consts()
    changed = []
    if write_if_changed(os.path.join(out_dir, "Registry.lean"), reg):
        changed.append("Registry")
    if write_if_changed(os.path.join(out_dir, "Consts.lean"), con):
        changed.append("Consts")
    dec_notes = {}
    try:
        sys.path.insert(0, HERE)
        import extract_decisions
        dec, dec_notes = extract_decisions.translate_all(os.environ.get("INDIPY_REPO", "/repo"))
        if write_if_changed(os.path.join(out_dir, "Decisions.lean"), dec):
            changed.append("Decisions")
    except Exception as e:  # noqa  -- a translator limitation never takes the run down: every site falls back to `none`
        dec_notes = {"error": "%s: %s" % (type(e).__name__, e)}
    info = {"changed": changed, "registry": reg_info, "consts": con_info, "decisions": dec_notes}
    print(json.dumps(info))


if __name__ == "__main__":
    main()
