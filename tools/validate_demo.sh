#!/bin/sh
# quick part of the validation: demo passes on a clean scratch worktree and fails with the change
d="$(cd "$1" && pwd)"; id="$(basename "$d")"; wt="/var/tmp/vd-$id"
git -C /repo worktree add -q --detach "$wt" HEAD || exit 3
cd "$wt"
DEMO_ANY_PATH=1 PYTHONPATH="$wt" /venv/bin/python -B "$d/demo.py" >/dev/null 2>&1; a=$?
git apply "$d/patch.diff"
DEMO_ANY_PATH=1 PYTHONPATH="$wt" /venv/bin/python -B "$d/demo.py" >/dev/null 2>&1; b=$?
cd /; git -C /repo worktree remove --force "$wt"
echo "$id demo clean=$a changed=$b"
