"""Correspondence component `nested`: driver event handlers that assign from inside a handler (C14 under re-entrancy).

A plain handler may itself assign an element (a driver clamping a value, mirroring it into another element, resetting a
switch); that assignment is a driver-side assignment like any other and must be announced like any other, while the
outer dispatch is still in progress.  The oracle (`Spec.Dev.nestedHolds`, evaluated in Lean) is per assignment: every
accepted assignment whose stored value differs from the previous one is announced to every subscribed Change handler
exactly once with (old, new); nothing else is announced.

Case: {"op": "nested", "kind": "number"|"text"|"switch", "nhandlers": n, "actors": {handler index: [trigger, target, value]},
       "ops": [[how, element index, value]...]}   how in {"assign", "set_value", "client"}
An actor handler, when called with new value == trigger (once per outer operation), assigns `value` to element `target`
(0 = its own element, 1 = the sibling).
"""
import asyncio

from harness import Query, enc_list
from comp_dev import enc_value

NAME = "nested"


def run_impl(case, outcome):
    from indi import message
    from indi.device import Driver, events, properties
    from indi.message import one_parts
    from indi.routing import Client, Router

    kind = case["kind"]
    published = []

    class Rec(Client):
        def message_from_device(self, msg):
            published.append(msg)

    router = Router()
    router.register_client(Rec())
    if kind == "number":
        els = dict(e0=properties.Number("E0", default=0), e1=properties.Number("E1", default=0))
        vec = properties.NumberVector("V", elements=els)
    elif kind == "text":
        els = dict(e0=properties.Text("E0", default="a"), e1=properties.Text("E1", default="a"))
        vec = properties.TextVector("V", elements=els)
    else:
        els = dict(e0=properties.Switch("E0", default="Off"), e1=properties.Switch("E1", default="Off"))
        vec = properties.SwitchVector("V", rule="AnyOfMany", elements=els)

    class Dev(Driver):
        name = "D"
        g = properties.Group("G", vectors=dict(v=vec))

    d = Dev(router=router)
    elements = [d.g.v.e0, d.g.v.e1]
    assigns = [[], []]      # per element: (old, new) of every assignment performed, in order
    calls = [[], []]        # per element: (handler id, old, new)
    fired = set()

    # observe every assignment through the element's own setter: wrap `value` writes by a Write-free path:
    # an assignment is observed as (stored value before, stored value after) around each call the harness or an actor makes
    def do_assign(idx, value, how):
        el = elements[idx]
        before = el._value
        try:
            if how == "assign":
                el.value = value
            elif how == "set_value":
                el.set_value(value)
            else:
                tag = {"number": "Number", "text": "Text", "switch": "Switch"}[kind]
                child = getattr(one_parts, "One" + tag)(name=el.name, value=str(value))
                router.process_message(getattr(message, "New%sVector" % tag)(device="D", name="V", children=(child,)))
        finally:
            pass
        return before

    # record the assignment at the moment the value is stored: a Change handler registered FIRST on every element sees
    # (old, new) of every changing assignment; non-changing assignments are recorded by the caller below
    def make_handler(idx, hid):
        def handler(ev):
            calls[idx].append((hid, ev.old_value, ev.new_value))
            act = case["actors"].get(str(hid))
            if act and ev.new_value == act[0] and (hid, act[0]) not in fired:
                fired.add((hid, act[0]))
                target = idx if act[1] == 0 else 1 - idx
                old = elements[target]._value
                elements[target].value = act[2]
                assigns[target].append((old, act[2]))
        return handler

    hids = [[], []]
    for idx in (0, 1):
        for k in range(case["nhandlers"]):
            hid = 10 * (idx + 1) + k
            hids[idx].append(hid)
            elements[idx]._definition.attach_event_handler(events.Change, make_handler(idx, hid))

    async def main():
        for how, idx, value in case["ops"]:
            fired.clear()
            old = elements[idx]._value
            n_before = len(assigns[idx])
            do_assign(idx, value, how)
            # the outer assignment happened before any nested one of the same element: insert it at its place
            assigns[idx].insert(n_before, (old, value))         # numbers are compared numerically by the oracle (5 == 5.0)
            await asyncio.sleep(0)

    asyncio.run(main())
    qs = []
    for idx in (0, 1):
        outcome.count("assignments", len(assigns[idx]))
        outcome.count("nested-assignments", len(assigns[idx]) - sum(1 for o in case["ops"] if o[1] == idx))
        line = "%s %s %s" % (enc_list(str, hids[idx]),
                             enc_list(lambda a: enc_value(a[0]) + " " + enc_value(a[1]), assigns[idx]),
                             enc_list(lambda c: "%d %s %s" % (c[0], enc_value(c[1]), enc_value(c[2])), calls[idx]))
        outcome.nontrivial.add((case["kind"], line))
        qs.append(Query("spec c14nested " + line, "True", "oracle",
                        "an assignment made while an event was being dispatched was not announced to every Change handler exactly once (or something else was announced)"))
    return qs


def gen_cases(rng, tier):
    n = 400 if tier == "thorough" else 80
    vals = {"number": [0, 5, 10, 15, 20, 7], "text": ["a", "b", "c", "long", "x y"], "switch": ["On", "Off"]}
    for _ in range(n):
        kind = rng.choice(["number", "number", "text", "switch"])
        nh = rng.randint(1, 3)
        actors = {}
        for idx in (0, 1):
            for k in range(nh):
                if rng.random() < 0.5:
                    trig = rng.choice(vals[kind])
                    to = rng.choice([v for v in vals[kind] if v != trig] or vals[kind])
                    actors[str(10 * (idx + 1) + k)] = [trig, rng.choice([0, 0, 1]), to]
        ops = []
        for _k in range(rng.randint(2, 8)):
            how = rng.choice(["assign", "set_value", "client"])
            ops.append([how, rng.randrange(2), rng.choice(vals[kind])])
        yield {"op": "nested", "kind": kind, "nhandlers": nh, "actors": actors, "ops": ops}
