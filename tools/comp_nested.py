"""Correspondence component `nested`: driver event handlers that assign from inside a handler (C14 under re-entrancy).

A plain handler may itself assign an element (a driver clamping a value, mirroring it into another element, resetting a
switch); that assignment is a driver-side assignment like any other and must be announced like any other, while the
outer dispatch is still in progress.  The oracle (`Spec.Dev.nestedHolds`, evaluated in Lean) is per assignment: every
accepted assignment whose stored value differs from the previous one is announced to every subscribed Change handler
exactly once with (old, new); nothing else is announced.

Case: {"op": "nested", "kind": "number"|"text"|"switch", "nhandlers": n, "actors": {handler index: [trigger, target, value]},
       "ops": [[how, element index, value]...]}   how in {"assign", "set_value", "client"}
An actor handler, when called with new value == trigger (once per outer operation), assigns `value` to element `target`
(0 = its own element, 1 = the sibling).
"""
import asyncio

from harness import Query, enc_list
from comp_dev import enc_value
import peek

NAME = "nested"


def run_impl(case, outcome):
    from indi import message
    from indi.device import Driver, events, properties
    from indi.message import one_parts
    from indi.routing import Client, Router

    kind = case["kind"]
    published = []

    class Rec(Client):
        def message_from_device(self, msg):
            published.append(msg)

    router = Router()
    router.register_client(Rec())
    if kind == "number":
        els = dict(e0=properties.Number("E0", default=0), e1=properties.Number("E1", default=0))
        vec = properties.NumberVector("V", elements=els)
    elif kind == "text":
        els = dict(e0=properties.Text("E0", default="a"), e1=properties.Text("E1", default="a"))
        vec = properties.TextVector("V", elements=els)
    else:
        els = dict(e0=properties.Switch("E0", default="Off"), e1=properties.Switch("E1", default="Off"))
        vec = properties.SwitchVector("V", rule="AnyOfMany", elements=els)

    class Dev(Driver):
        name = "D"
        g = properties.Group("G", vectors=dict(v=vec))

    d = Dev(router=router)
    elements = [d.g.v.e0, d.g.v.e1]
    assigns = [[], []]      # per element: (old, new) of every assignment performed, in order
    calls = [[], []]        # per element: (handler id, old, new)
    fired = set()

    # observe every assignment through the element's own setter: wrap `value` writes by a Write-free path:
    # an assignment is observed as (stored value before, stored value after) around each call the harness or an actor makes
    def do_assign(idx, value, how):
        el = elements[idx]
        before = peek.raw_value(el)
        try:
            if how == "assign":
                el.value = value
            elif how == "set_value":
                el.set_value(value)
            else:
                tag = {"number": "Number", "text": "Text", "switch": "Switch"}[kind]
                child = getattr(one_parts, "One" + tag)(name=el.name, value=str(value))
                router.process_message(getattr(message, "New%sVector" % tag)(device="D", name="V", children=(child,)))
        finally:
            pass
        return before

    # record the assignment at the moment the value is stored: a Change handler registered FIRST on every element sees
    # (old, new) of every changing assignment; non-changing assignments are recorded by the caller below
    def make_handler(idx, hid):
        def handler(ev):
            calls[idx].append((hid, ev.old_value, ev.new_value))
            act = case["actors"].get(str(hid))
            if act and ev.new_value == act[0] and (hid, act[0]) not in fired:
                fired.add((hid, act[0]))
                target = idx if act[1] == 0 else 1 - idx
                old = peek.raw_value(elements[target])
                elements[target].value = act[2]
                assigns[target].append((old, act[2]))
        return handler

    hids = [[], []]
    for idx in (0, 1):
        for k in range(case["nhandlers"]):
            hid = 10 * (idx + 1) + k
            hids[idx].append(hid)
            els["e%d" % idx].attach_event_handler(events.Change, make_handler(idx, hid))

    async def main():
        for how, idx, value in case["ops"]:
            fired.clear()
            old = peek.raw_value(elements[idx])
            n_before = len(assigns[idx])
            do_assign(idx, value, how)
            # the outer assignment happened before any nested one of the same element: insert it at its place
            assigns[idx].insert(n_before, (old, value))         # numbers are compared numerically by the oracle (5 == 5.0)
            await asyncio.sleep(0)

    asyncio.run(main())
    qs = []
    for idx in (0, 1):
        outcome.count("assignments", len(assigns[idx]))
        outcome.count("nested-assignments", len(assigns[idx]) - sum(1 for o in case["ops"] if o[1] == idx))
        line = "%s %s %s" % (enc_list(str, hids[idx]),
                             enc_list(lambda a: enc_value(a[0]) + " " + enc_value(a[1]), assigns[idx]),
                             enc_list(lambda c: "%d %s %s" % (c[0], enc_value(c[1]), enc_value(c[2])), calls[idx]))
        outcome.nontrivial.add((case["kind"], line))
        qs.append(Query("spec c14nested " + line, "True", "oracle",
                        "an assignment made while an event was being dispatched was not announced to every Change handler exactly once (or something else was announced)"))
    return qs


def gen_cases(rng, tier):
    n = 400 if tier == "thorough" else 80
    vals = {"number": [0, 5, 10, 15, 20, 7], "text": ["a", "b", "c", "long", "x y"], "switch": ["On", "Off"]}
    for _ in range(n):
        kind = rng.choice(["number", "number", "text", "switch"])
        nh = rng.randint(1, 3)
        actors = {}
        for idx in (0, 1):
            for k in range(nh):
                if rng.random() < 0.5:
                    trig = rng.choice(vals[kind])
                    to = rng.choice([v for v in vals[kind] if v != trig] or vals[kind])
                    actors[str(10 * (idx + 1) + k)] = [trig, rng.choice([0, 0, 1]), to]
        ops = []
        for _k in range(rng.randint(2, 8)):
            how = rng.choice(["assign", "set_value", "client"])
            ops.append([how, rng.randrange(2), rng.choice(vals[kind])])
        yield {"op": "nested", "kind": kind, "nhandlers": nh, "actors": actors, "ops": ops}


# --------------------------------------------------------------------------
# C16: rmonevent called from inside a callback (a later-registered callback is removed while the event is in flight)

def run_inflight(case, outcome):
    from indi.client.client import BaseClient
    from indi.message import IndiMessage

    n, i, j, e, how, coro = case["n"], case["i"], case["j"], case["events"], case["how"], case.get("coro", [])
    sent = []

    class Cl(BaseClient):
        def send_message(self, msg):
            sent.append(msg)

    client = Cl()
    logs = [[] for _ in range(n)]
    uuids = {}
    current = [0]

    class Rec:
        def __init__(self, k):
            self.k = k

        def plain(self, ev):
            logs[self.k].append(current[0])
            if self.k == i and current[0] == 0:
                if how == "uuid":
                    client.rmonevent(uuid=uuids[j])
                else:
                    client.rmonevent(callback=recs[j].coro if j in coro else recs[j].plain)

        async def coro(self, ev):
            logs[self.k].append(current[0])

    recs = [Rec(k) for k in range(n)]

    async def main():
        client.process_message(IndiMessage.from_string(
            '<defTextVector device="D" name="P" state="Ok" perm="rw"><defText name="x">start</defText></defTextVector>'))
        for k in range(n):
            fn = recs[k].coro if (k in coro and k != i) else recs[k].plain
            uuids[k] = client.onevent(callback=fn, device="D", vector="P", element="x")
        from indi.client import events  # noqa
        for t in range(e):
            current[0] = t
            client.process_message(IndiMessage.from_string(
                '<setTextVector device="D" name="P" state="Ok"><oneText name="x">v%d</oneText></setTextVector>' % t))
            for _ in range(5):
                await asyncio.sleep(0)

    asyncio.run(main())
    outcome.nontrivial.add(json_key(case))
    outcome.count("inflight-removal:" + how)
    # value events only (the set message raises one ValueUpdate per changed element)
    line = "%d %d %d %d %s" % (n, i, j, e, enc_list(lambda l: enc_list(str, l), logs))
    return [Query("spec c16inflight " + line, "True", "oracle",
                  "callback %d was removed by callback %d while an event was being dispatched and was still handed an event (or another callback lost one): logs %s" % (j, i, logs))]


def json_key(case):
    import json
    return json.dumps(case, sort_keys=True)


def gen_inflight(rng, tier):
    for n in (2, 3, 4, 5):
        for i in range(n):
            for j in range(i + 1, n):
                for how in ("uuid", "callback"):
                    for coro in ([], [j], list(range(n))):
                        if tier != "thorough" and n >= 4 and rng.random() < 0.6:
                            continue
                        yield {"op": "inflight", "n": n, "i": i, "j": j, "events": 3, "how": how, "coro": coro}


# --------------------------------------------------------------------------
# C14: handlers declared with @on(...) on a driver class that is instantiated more than once

def run_two_instances(case, outcome):
    from indi.device import Driver, events, properties
    from indi.device.events import on
    from indi.routing import Router

    calls = []

    gdef = properties.Group("G", vectors=dict(v=properties.TextVector("V", elements=dict(e0=properties.Text("E0", default="a"), e1=properties.Text("E1", default="a")))))

    class Dev(Driver):
        name = "D"
        g = gdef

        def __init__(self, tag, **kw):
            self.tag = tag
            super().__init__(**kw)

        @on(g.v.e0, events.Write)
        def on_write(self, ev):
            calls.append((self.tag, "write", ev.new_value))
            if case.get("veto") == self.tag:
                ev.prevent_default = True

        @on(g.v.e0, events.Change)
        def on_change(self, ev):
            calls.append((self.tag, "change", ev.new_value))

    cls = Dev
    if case.get("override"):
        # a derived driver that overrides the decorated handlers and repeats the decorator (as the library requires for an
        # override to stay subscribed): each is still ONE handler of its event
        class Sub(Dev):
            @on(gdef.v.e0, events.Write)
            def on_write(self, ev):
                calls.append((self.tag, "write", ev.new_value))
                if case.get("veto") == self.tag:
                    ev.prevent_default = True

            @on(gdef.v.e0, events.Change)
            def on_change(self, ev):
                calls.append((self.tag, "change", ev.new_value))
        cls = Sub
    instances = [cls(k, router=Router()) for k in range(case["instances"])]
    counts = []
    for step, (k, how, value) in enumerate(case["ops"]):
        del calls[:]
        el = instances[k].g.v.e0
        before = peek.raw_value(el)
        if how == "set_value":
            el.set_value(value)
        else:
            el.value = value
        vetoed = how == "set_value" and case.get("veto") is not None
        if how == "set_value":
            counts.append(sum(1 for c in calls if c[0] == k and c[1] == "write"))
        if before != value and not vetoed:
            counts.append(sum(1 for c in calls if c[0] == k and c[1] == "change"))
    outcome.nontrivial.add(json_key(case))
    outcome.count("instances:%d" % case["instances"])
    return [Query("spec c14own " + enc_list(str, counts), "True", "oracle",
                  "a Write/Change handler declared on the driver class was not called exactly once for an operation on its own driver's element: counts %s" % counts)]


def gen_two_instances(rng, tier):
    for instances in (1, 2, 3):
        for veto in (None,):
            for _ in range(6 if tier == "thorough" else 3):
                ops = [[rng.randrange(instances), rng.choice(["set_value", "assign"]), rng.choice(["a", "b", "c", "d"])] for _k in range(rng.randint(2, 8))]
                yield {"op": "twoinst", "instances": instances, "veto": veto, "ops": ops}
                yield {"op": "twoinst", "instances": instances, "veto": veto, "ops": ops, "override": True}


_run_nested = run_impl


def run_impl(case, outcome):  # noqa: F811
    if case["op"] == "inflight":
        return run_inflight(case, outcome)
    if case["op"] == "twoinst":
        return run_two_instances(case, outcome)
    return _run_nested(case, outcome)
