"""Deterministic asyncio event loop with a virtual clock.

`VirtualLoop` is a SelectorEventLoop whose time() is a counter that jumps to the next
timer whenever nothing is ready.  Timers due at the same instant fire in creation order
(asyncio leaves that order unspecified; creation order is one legitimate schedule and it
is the one the Lean model of the scheduler uses).  Nothing ever blocks on the selector.

    loop = VirtualLoop()
    result = loop.run(coro)            # runs to completion (or until quiescent: then raises Quiescent)
"""
import asyncio
import heapq
import itertools
import selectors


class Quiescent(Exception):
    """the main coroutine is still pending but no timer and no ready callback is left"""


class _NullSelector(selectors.BaseSelector):
    def register(self, fileobj, events, data=None):
        return selectors.SelectorKey(fileobj, 0, events, data)

    def unregister(self, fileobj):
        return selectors.SelectorKey(fileobj, 0, 0, None)

    def select(self, timeout=None):
        return []

    def get_map(self):
        return {}


class VirtualLoop(asyncio.SelectorEventLoop):
    def __init__(self):
        super().__init__(selector=None)
        self._vtime = 0.0
        self._seq = itertools.count()
        self._vseqs = {}            # id(timer handle) -> creation sequence number (handles are alive while scheduled)
        self.quiescent = False

    def time(self):
        return self._vtime

    def call_at(self, when, callback, *args, context=None):
        h = super().call_at(when, callback, *args, context=context)
        self._vseqs[id(h)] = next(self._seq)
        return h

    def _run_once(self):
        # drop cancelled timers at the head, then decide whether to advance the clock
        while self._scheduled and self._scheduled[0]._cancelled:
            h = heapq.heappop(self._scheduled)
            h._scheduled = False
        if not self._ready:
            if self._scheduled:
                nxt = min(h._when for h in self._scheduled if not h._cancelled)
                if nxt > self._vtime:
                    self._vtime = nxt
            else:
                self.quiescent = True
                self.stop()
        # fire the timers due now in creation order
        due = [h for h in self._scheduled if not h._cancelled and h._when <= self._vtime]
        if due:
            due.sort(key=lambda h: (h._when, self._vseqs.get(id(h), 0)))
            rest = [h for h in self._scheduled if h not in due and not h._cancelled]
            heapq.heapify(rest)
            self._scheduled = rest
            for h in due:
                h._scheduled = False
                self._vseqs.pop(id(h), None)
                self._ready.append(h)
        # run exactly the callbacks that are ready now (what BaseEventLoop._run_once does after selecting)
        ntodo = len(self._ready)
        for _ in range(ntodo):
            handle = self._ready.popleft()
            if handle._cancelled:
                continue
            handle._run()
        handle = None

    def run(self, coro, max_iterations=200000):
        asyncio.set_event_loop(self)
        task = self.create_task(coro)
        task.add_done_callback(lambda t: self.stop())
        n = 0
        try:
            while not task.done():
                self.quiescent = False
                self._stopping = False
                try:
                    self.run_forever()
                except RuntimeError:
                    raise
                n += 1
                if self.quiescent and not task.done():
                    task.cancel()
                    try:
                        self.run_until_complete(asyncio.gather(task, return_exceptions=True))
                    except Exception:  # noqa
                        pass
                    raise Quiescent()
                if n > max_iterations:
                    raise RuntimeError("virtual loop: too many iterations")
            return task.result()
        finally:
            try:
                pending = [t for t in asyncio.all_tasks(self) if not t.done()]
                for t in pending:
                    t.cancel()
                if pending:
                    self._stopping = False
                    self.run_until_complete(asyncio.gather(*pending, return_exceptions=True))
            except Exception:  # noqa
                pass
            asyncio.set_event_loop(None)
            self.close()
