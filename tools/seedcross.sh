#!/bin/sh
# tools/seedcross.sh <seed dir> "<prop> <prop> ..." [tier] : run other properties' checks against a stored seeded change
# (fresh scratch worktree + isolated copy of /verif; never touches /repo)
d="$(cd "$1" && pwd)"; props="$2"; tier="${3:-quick}"; id="$(basename "$d")"
wt="/var/tmp/sx-$id"; git -C /repo worktree remove --force "$wt" 2>/dev/null; rm -rf "$wt"
git -C /repo worktree add -q --detach "$wt" HEAD || exit 3
( cd "$wt" && git apply "$d/patch.diff" ) || { echo "patch does not apply"; exit 3; }
cp="/var/tmp/vx-$id"; rm -rf "$cp"; mkdir -p "$cp"; rsync -a --exclude .git --exclude replays /verif/ "$cp/"; mkdir -p "$cp/ev" "$cp/rp"
for p in $props; do
  ( cd "$cp" && INDIPY_REPO="$wt" VERIF_EVIDENCE_DIR="$cp/ev" VERIF_REPLAY_DIR="$cp/rp" ./check "$p" "$tier" > "$cp/check-$p.log" 2>&1; echo "rc=$?" >> "$cp/check-$p.log" )
  echo "[$id x $p] $(grep -cE '^VIOLATION' $cp/check-$p.log) violation(s); $(grep -E 'seed=|rc=' $cp/check-$p.log | tr '\n' ' ' | cut -c1-260)"
  grep -E "fails on the implementation|disagree" "$cp/check-$p.log" | cut -c1-400
done
[ -n "$KEEP" ] || { cd /; git -C /repo worktree remove --force "$wt"; rm -rf "$cp"; }
