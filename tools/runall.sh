#!/bin/sh
# tools/runall.sh [tier] [seed] : every registered check, sequentially; prints the verdict lines and exit codes
tier="${1:-quick}"; seed="${2:-0}"
cd "$(dirname "$0")/.."
for p in $(python3 -c "import json; print(' '.join(c['property_id'] for c in json.load(open('MANIFEST.json'))['checks']))"); do
  VERIF_SEED=$seed ./check $p $tier > /var/tmp/runall-$p.log 2>&1; rc=$?
  grep -E "VIOLATION|KNOWN-FINDING|harness failure" /var/tmp/runall-$p.log | cut -c1-200
  echo "rc=$rc $(tail -1 /var/tmp/runall-$p.log | cut -c1-200)"
done
