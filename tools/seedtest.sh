#!/bin/sh
# tools/seedtest.sh <seed dir> [tier]  : apply the seeded change to /repo, run the check of its property, undo
d="$1"; tier="${2:-quick}"
prop=$(python3 -c "import json,sys; print(json.load(open('$d/meta.json'))['property'])")
cd /repo && git apply "$d/patch.diff" || { echo "patch does not apply"; exit 3; }
mkdir -p /var/tmp/seed-evidence /var/tmp/seed-replays
cd /verif && VERIF_EVIDENCE_DIR=/var/tmp/seed-evidence VERIF_REPLAY_DIR=/var/tmp/seed-replays ./check "$prop" "$tier" | tail -4 | cut -c1-600
rc=$?
cd /repo && git checkout -- . 
cd /verif && PYTHONPATH=/repo /venv/bin/python -B tools/extract.py >/dev/null 2>&1
echo "[$d] property=$prop"
