"""Shared machinery of the checks: line-protocol encoders, the Lean model
runner, views of live indipy objects, verdict rule, evidence and replay files.

Runs under /venv/bin/python -B with PYTHONPATH=<repo> (see ./check).
"""
import contextlib
import logging
import fcntl
import hashlib
import json
import os
import random
import re
import signal
import subprocess
import sys
import time

VERIF = os.path.dirname(os.path.dirname(os.path.abspath(__file__)))
REPO = os.environ.get("INDIPY_REPO", "/repo")
LEAN_DIR = os.path.join(VERIF, "lean")
MODEL_EXE = os.path.join(LEAN_DIR, ".lake", "build", "bin", "indi-model")
ALLOWED_AXIOMS = {"propext", "Classical.choice", "Quot.sound"}
FORBIDDEN_RE = re.compile(r"\bsorry\b|\badmit\b|^axiom\s|native_decide|bv_decide|implemented_by|\bunsafe\s|maxHeartbeats\s+0", re.M)

# --------------------------------------------------------------------------
# wire encoding (mirrors lean/Indi/Model/Wire.lean)


def enc_str(x):
    return "x" + "_".join("%x" % ord(c) for c in x)


def enc_opt(x):
    return "~" if x is None else enc_str(x)


def enc_list(f, items):
    items = list(items)
    return " ".join([str(len(items))] + [f(i) for i in items])


def enc_fields(fs):
    return enc_list(lambda kv: enc_str(kv[0]) + " " + enc_opt(kv[1]), fs)


def enc_attrs(fs):
    return enc_list(lambda kv: enc_str(kv[0]) + " " + enc_str(kv[1]), fs)


def enc_part(p):
    return "P " + enc_str(p["tag"]) + " " + enc_fields(p["fields"])


def enc_msg(m):
    ch = "~" if m["children"] is None else enc_list(enc_part, m["children"])
    return "M " + enc_str(m["tag"]) + " " + enc_fields(m["fields"]) + " " + ch


def enc_elem1(e):
    return "e " + enc_str(e["tag"]) + " " + enc_attrs(e["attrs"]) + " " + enc_str(e["text"])


def enc_elem(e):
    return ("E " + enc_str(e["tag"]) + " " + enc_attrs(e["attrs"]) + " " + enc_str(e["text"]) + " "
            + enc_list(enc_elem1, e["children"]))


def enc_bool(b):
    return "True" if b else "False"


def dec_str(tok):
    assert tok[0] == "x", tok
    if tok == "x":
        return ""
    return "".join(chr(int(h, 16)) for h in tok[1:].split("_"))


# --------------------------------------------------------------------------
# views of live objects


def render(v):
    return None if v is None else str(v)


def part_view(obj):
    return {"tag": obj.__class__.tag_name(),
            "fields": [(k, render(v)) for k, v in vars(obj).items()]}


def msg_view(obj):
    d = vars(obj)
    children = None
    if "children" in d:
        ch = d["children"]
        children = [] if isinstance(ch, str) else [part_view(c) for c in ch]
    return {"tag": obj.__class__.tag_name(),
            "fields": [(k, render(v)) for k, v in d.items() if k != "children"],
            "children": children}


def exc_name(e):
    import xml.etree.ElementTree as ET

    if isinstance(e, ET.ParseError):
        return "ParseError"
    n = type(e).__name__
    if n in ("TypeError", "ValueError", "Exception", "KeyError", "AssertionError", "AttributeError"):
        return n
    for base in type(e).__mro__:
        if base.__name__ in ("ValueError", "TypeError"):
            return base.__name__
    return n


# --------------------------------------------------------------------------
# model runner


def run_model(lines, timeout=600):
    """feed query lines to the compiled Lean driver; returns the reply lines"""
    if not lines:
        return []
    data = ("\n".join(lines) + "\n").encode("ascii")
    p = subprocess.run([MODEL_EXE], input=data, stdout=subprocess.PIPE, stderr=subprocess.PIPE, timeout=timeout)
    if p.returncode != 0:
        raise RuntimeError("model driver failed: %s" % p.stderr.decode()[:2000])
    out = p.stdout.decode("ascii").split("\n")
    if out and out[-1] == "":
        out.pop()
    if len(out) != len(lines):
        raise RuntimeError("model driver answered %d lines for %d queries" % (len(out), len(lines)))
    return out


class Watchdog(BaseException):
    """not an Exception: the code under test must not be able to swallow it"""


@contextlib.contextmanager
def time_limit(seconds):
    def handler(signum, frame):
        raise Watchdog("step/time watchdog: %ss exceeded" % seconds)

    old = signal.signal(signal.SIGALRM, handler)
    signal.setitimer(signal.ITIMER_REAL, seconds, 1.0)     # fires again every second until cancelled
    try:
        yield
    finally:
        signal.setitimer(signal.ITIMER_REAL, 0)
        signal.signal(signal.SIGALRM, old)


# --------------------------------------------------------------------------
# a query = one line for the model/spec driver with the reply the
# implementation's behaviour requires


class Query:
    __slots__ = ("line", "expect", "kind", "note")

    def __init__(self, line, expect, kind, note=""):
        self.line = line          # query sent to the Lean driver
        self.expect = expect      # reply that agrees with what the implementation did
        self.kind = kind          # "corr": model vs implementation; "oracle": spec evaluated on the implementation's behaviour
        self.note = note


class Outcome:
    def __init__(self):
        self.cases = 0
        self.queries = 0
        self.corr_fail = []      # (case, query, reply)
        self.oracle_fail = []
        self.nontrivial = set()
        self.samples = []
        self.dist = {}
        self.known = []
        self.harness_errors = []

    def count(self, key, n=1):
        self.dist[key] = self.dist.get(key, 0) + n


def digest(obj):
    return hashlib.sha1(json.dumps(obj, sort_keys=True, default=str).encode()).hexdigest()[:16]


FAILURE_CAP = 400
BUDGET_END = [None]          # wall-clock end of the whole check (set by tools/check.py from VERIF_BUDGET_S)


def evaluate(component, cases, outcome, keep_samples=3, batch=2000, deadline=None):
    """run the implementation on each case (component.run_impl), send the
    resulting queries to the model, compare"""
    pending = []

    def flush():
        if not pending:
            return
        lines = [q.line for _, q in pending]
        replies = run_model(lines)
        for (case, q), reply in zip(pending, replies):
            ok = (reply in q.expect) if isinstance(q.expect, (tuple, list)) else (reply == q.expect)
            if reply == "na":
                outcome.count("oracle-not-applicable")
            if reply in ("uns", "err unsupported"):
                outcome.count("model-unsupported")
            if not ok:
                if q.kind == "oracle":
                    outcome.oracle_fail.append((case, q, reply))
                else:
                    outcome.corr_fail.append((case, q, reply))
        pending.clear()

    def run_one(case):
        outcome.cases += 1
        try:
            with ambient(case.get("_env") if isinstance(case, dict) else None):
                qs = component.run_impl(case, outcome)
        except (KeyboardInterrupt, SystemExit):
            raise
        except BaseException as e:  # noqa  -- the harness could not observe the implementation on this case (also: an escaping
            # CancelledError / watchdog): counted, and reported as "no longer shown to hold" if no failing input is found
            import traceback
            outcome.harness_errors.append((case, "".join(traceback.format_exception_only(type(e), e)).strip()))
            return
        if len(outcome.samples) < keep_samples:
            outcome.samples.append(case)
        for q in qs:
            outcome.queries += 1
            pending.append((case, q))
        if len(pending) >= batch:
            flush()

    extra = extra2 = 0
    budget_end = BUDGET_END[0]
    for n, case in enumerate(cases):
        if deadline is not None and time.time() > deadline:
            outcome.count("search-stopped-at-deadline")
            break
        if len(outcome.oracle_fail) + len(outcome.corr_fail) + len(outcome.harness_errors) >= FAILURE_CAP:
            # failing inputs are at hand: a broken tree can make every further case run into a watchdog
            outcome.count("suite-stopped-after-%d-failures" % FAILURE_CAP)
            break
        if budget_end is not None and time.time() > budget_end:
            outcome.count("suite-stopped-at-time-budget")
            break
        run_one(case)
        # the same case once more under another ambient configuration of the process (every 4th case, at most 2500 per suite):
        # the library must behave the same with its debug logging switched on
        stride = 4 if n < 4000 else 40            # dense at the start of a suite, sparse (but present) all the way through a long one
        if n % stride == 0 and extra < 3500 and isinstance(case, dict) and "_env" not in case and not case.get("loghandler") \
                and getattr(component, "AMBIENT", True):
            extra += 1
            outcome.count("ambient:debuglog")
            run_one(dict(case, _env="debuglog"))
        elif n % stride == 2 and extra2 < 3000 and isinstance(case, dict) and "_env" not in case and getattr(component, "AMBIENT", True):
            # ... and with the application's decimal context set to a low precision (the library must not depend on it)
            extra2 += 1
            outcome.count("ambient:lowprec")
            run_one(dict(case, _env="lowprec"))
    flush()


class _FormattingHandler(logging.Handler):
    """formats every record (so that lazily evaluated log arguments are evaluated) and drops it"""

    def emit(self, record):
        try:
            self.format(record)
        except Exception:  # noqa
            pass


@contextlib.contextmanager
def ambient(env):
    """run a case under an ambient configuration: "debuglog" = the library's loggers at DEBUG with a formatting handler"""
    if env == "lowprec":
        import decimal
        old = decimal.getcontext()
        decimal.setcontext(decimal.Context(prec=6))
        try:
            yield
        finally:
            decimal.setcontext(old)
        return
    if env != "debuglog":
        yield
        return
    lg = logging.getLogger("indi")
    old_level, old_prop = lg.level, lg.propagate
    h = _FormattingHandler()
    lg.addHandler(h)
    lg.setLevel(logging.DEBUG)
    lg.propagate = False
    old_disable = logging.root.manager.disable          # check.py silences the library's logging process-wide
    logging.disable(logging.NOTSET)
    try:
        yield
    finally:
        logging.disable(old_disable)
        lg.removeHandler(h)
        lg.setLevel(old_level)
        lg.propagate = old_prop


# --------------------------------------------------------------------------
# build, audit


def sh(cmd, cwd=None, timeout=3600, env=None):
    p = subprocess.run(cmd, cwd=cwd, stdout=subprocess.PIPE, stderr=subprocess.STDOUT, timeout=timeout, env=env)
    return p.returncode, p.stdout.decode(errors="replace")


@contextlib.contextmanager
def build_lock():
    path = os.path.join(LEAN_DIR, ".build.lock")
    with open(path, "w") as f:
        fcntl.flock(f, fcntl.LOCK_EX)
        try:
            yield
        finally:
            fcntl.flock(f, fcntl.LOCK_UN)


def regen():
    env = dict(os.environ, PYTHONPATH=REPO)
    rc, out = sh([sys.executable, "-B", os.path.join(VERIF, "tools", "extract.py")], env=env)
    lines = [l for l in out.splitlines() if l.startswith("{")]
    if rc != 0 or not lines:
        return None, out
    return json.loads(lines[-1]), out


def lake_build(targets):
    rc, out = sh(["lake", "build"] + targets, cwd=LEAN_DIR)
    return rc, out


def failing_modules(build_out):
    mods = []
    for m in re.finditer(r"^- (Indi[\w.]*)$", build_out, re.M):
        mods.append(m.group(1))
    return mods


def first_errors(build_out, limit=12):
    errs = [l for l in build_out.splitlines() if l.startswith("error:")]
    return errs[:limit]


def audit(prop):
    """`#print axioms` of every property theorem + grep for forbidden constructs.
    returns (theorems: {name: [axioms]}, problems: [str])"""
    problems = []
    path = os.path.join("Indi", "Audit", prop + ".lean")
    rc, out = sh(["lake", "env", "lean", path], cwd=LEAN_DIR)
    theorems = {}
    if rc != 0:
        problems.append("audit file does not check: " + "; ".join(first_errors(out) or out.splitlines()[:5]))
    for m in re.finditer(r"'([^']+)' depends on axioms: \[([^\]]*)\]", out.replace("\n", " ")):
        theorems[m.group(1)] = [a.strip() for a in m.group(2).split(",") if a.strip()]
    for m in re.finditer(r"'([^']+)' does not depend on any axioms", out):
        theorems[m.group(1)] = []
    for name, axs in theorems.items():
        extra = [a for a in axs if a not in ALLOWED_AXIOMS]
        if extra:
            problems.append("theorem %s depends on %s" % (name, extra))
    # forbidden constructs anywhere in the development (comments stripped)
    for root, _, files in os.walk(os.path.join(LEAN_DIR, "Indi")):
        if os.path.basename(root) == "WIP":      # work in progress: imported by no property, audited when it moves to Proofs/
            continue
        for fn in files:
            if not fn.endswith(".lean"):
                continue
            src = open(os.path.join(root, fn)).read()
            src = re.sub(r"/-.*?-/", "", src, flags=re.S)
            src = re.sub(r"--.*", "", src)
            m = FORBIDDEN_RE.search(src)
            if m:
                problems.append("%s contains %r" % (os.path.relpath(os.path.join(root, fn), LEAN_DIR), m.group(0)))
    return theorems, problems


# --------------------------------------------------------------------------
# known findings


def load_known():
    """known_findings.txt: `fixed: property=Cnn <commit> <what>` (suppresses nothing) and
    `finding: property=Cnn key=<key> <what>` (a failing case carrying <key> is a KNOWN-FINDING)"""
    path = os.path.join(VERIF, "known_findings.txt")
    res = []
    if os.path.exists(path):
        for line in open(path):
            line = line.strip()
            m = re.match(r"^(fixed|finding): property=(C\d+) (?:key=(\S+) )?(.*)$", line)
            if m:
                res.append({"status": m.group(1), "property": m.group(2), "key": m.group(3), "what": m.group(4)})
    return res


def write_json(path, obj):
    os.makedirs(os.path.dirname(path), exist_ok=True)
    tmp = path + ".tmp%d" % os.getpid()
    with open(tmp, "w") as f:
        json.dump(obj, f, indent=1, sort_keys=True, default=str)
        f.write("\n")
    os.replace(tmp, path)
