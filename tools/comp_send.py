"""Correspondence component `send`: the outbound side of the real connection handlers
(transport/server/tcp.py, transport/server/tty.py, transport/client/tcp.py) under explorer-chosen I/O schedules.

Case: {"op": "send", "conns": ["tcp"|"tty"|"ctcp", ...], "schedule": ["R" | "C<i>", ...]}
  R     route the next message of the burst: through a real Router to every server connection (tcp, tty), and by
        send_message() to every client connection (ctcp)
  C<i>  complete the oldest pending I/O awaitable of connection i (drain / stdout.write / stdout.flush)
  D<i>  complete the newest pending one (the same one as long as sends are serialised by the lock)
  k<i>  like C<i>, but only ONE loop iteration runs before the next action
  r / c<i>  like R / C<i>, but the NEXT action follows back-to-back in the same loop iteration (no task gets to run in between)
"big": [k...] makes the k-th routed message larger than 64 KiB
After every action the event loop runs until it is idle.  Observed per connection after every action: the sequence of
messages its fake output has accepted (the byte/character stream must be exactly the concatenation of whole to_string()s).
"""
import asyncio
import itertools

from harness import Query

NAME = "send"


class FakeWriter:
    """StreamWriter stand-in: write() appends at once, drain() completes when the explorer says so"""

    def __init__(self, loop):
        self.loop = loop
        self.data = b""
        self.pending = []
        self.closed = False

    def write(self, data):
        self.data += data

    async def drain(self):
        fut = self.loop.create_future()
        self.pending.append((fut, None))
        await fut

    def close(self):
        self.closed = True

    def text(self):
        return self.data.decode("latin1")


class FakeStdout:
    """aiofiles stand-in: write()/flush() are thread-pool jobs; a write's effect happens when its job runs"""

    def __init__(self, loop):
        self.loop = loop
        self.out = ""
        self.pending = []

    async def write(self, s):
        fut = self.loop.create_future()
        self.pending.append((fut, s))
        await fut

    async def flush(self):
        fut = self.loop.create_future()
        self.pending.append((fut, None))
        await fut

    def text(self):
        return self.out


def release(fake, newest=False):
    """the environment completes one pending I/O operation; with several outstanding (possible only without
    the sender lock) it may pick any: `newest` picks the most recently submitted one"""
    if not fake.pending:
        return
    fut, effect = fake.pending.pop(-1 if newest else 0)
    if effect is not None:
        fake.out += effect
    if not fut.done():
        fut.set_result(None)


async def idle():
    for _ in range(8):
        await asyncio.sleep(0)


def split_ids(text, expected):
    """the output must be a concatenation of whole serialised messages; returns their ids or None"""
    ids = []
    pos = 0
    while pos < len(text):
        for mid, ser in expected.items():
            if text.startswith(ser, pos):
                ids.append(mid)
                pos += len(ser)
                break
        else:
            return None
    return ids


def run_case(case):
    from indi import message
    from indi.routing import Router
    from indi.transport.client import tcp as ctcp
    from indi.transport.server import tcp as stcp
    from indi.transport.server import tty as stty

    async def main():
        loop = asyncio.get_running_loop()
        router = Router()
        fakes, handlers = [], []
        for kind in case["conns"]:
            if kind == "tcp":
                f = FakeWriter(loop)
                h = stcp.ConnectionHandler(None, f, router)
            elif kind == "tty":
                f = FakeStdout(loop)
                h = stty.ConnectionHandler(router, None, f)
            else:
                f = FakeWriter(loop)
                h = ctcp.ConnectionHandler(None, f, lambda m: None)
            fakes.append(f)
            handlers.append(h)
        expected = {}
        nxt = 0
        obs = []
        big = set(case.get("big") or [])
        for act in case["schedule"]:
            if act in ("R", "r"):
                nxt += 1
                filler = ("B" * 70000) if nxt in big else ""
                msg = message.DelProperty(device="dev%d" % nxt, name="P" * (nxt % 3), message='text with > and "quotes" %d%s' % (nxt, filler))
                expected[nxt] = msg.to_string().decode("latin1")
                router.process_message(msg, sender=None)
                for kind, h in zip(case["conns"], handlers):
                    if kind == "ctcp":
                        h.send_message(msg)
            elif act == "W":
                # the environment stalls: half a minute passes (virtual clock) and NO outstanding operation completes
                await asyncio.sleep(30)
            else:
                release(fakes[int(act[1:])], newest=act[0] == "D")
            if act[0] == "k":
                # exactly one loop iteration: the released task resumes (and hands the lock over), the woken waiter has not run yet
                await asyncio.sleep(0)
                obs.append(None)
                continue
            if act[0] in "rc":
                # back-to-back: the next action happens in the same loop iteration, nothing gets to run in between
                obs.append(None)
                continue
            await idle()
            obs.append([split_ids(f.text(), expected) for f in fakes])
        # flush: the environment now completes every outstanding operation (oldest first) until nothing is pending and
        # the loop is idle - everything that was routed must then have left, whole and in order (C19_complete)
        final = None
        if case.get("flush", True):
            for _ in range(40 + 8 * nxt):
                if not any(f.pending for f in fakes):
                    break
                for f in fakes:
                    release(f)
                await idle()
            await idle()
            final = [split_ids(f.text(), expected) for f in fakes] if not any(f.pending for f in fakes) else None
        case["_final"] = final
        for t in asyncio.all_tasks(loop):
            if t is not asyncio.current_task(loop):
                t.cancel()
        await idle()
        return obs, nxt

    if "W" in case["schedule"]:
        import vloop
        return vloop.VirtualLoop().run(main())
    return asyncio.run(main())


def model_steps(case, ci):
    """the schedule as seen by connection ci: route + all task starts after every action, completions of its own I/O"""
    steps = []
    for act in case["schedule"]:
        if act in ("R", "r"):
            steps.append(act)
        elif act == "W":
            steps.append("-")          # time passes: the loop runs, nothing completes
        elif int(act[1:]) == ci:
            steps.append("C" if act[0] in "CDk" else "c")
        else:
            steps.append("-" if act[0] in "CDk" else "_")
    return steps


def run_impl(case, outcome):
    if case.get("sparse"):
        return run_sparse(case, outcome)
    obs, n = run_case(case)
    qs = []
    outcome.count("conns:%d" % len(case["conns"]))
    outcome.count("burst:%d" % n)
    outcome.nontrivial.add((tuple(case["conns"]), tuple(case["schedule"])))
    for ci, kind in enumerate(case["conns"]):
        outcome.count("transport:" + kind)
        # model schedule: every action is followed by "run until idle" = start every created task
        toks = []
        marks = []          # index of the last model step of each action
        m = 0
        deferred = 0        # tasks created by back-to-back actions start when the loop next runs
        for act in model_steps(case, ci):
            if act == "R":
                m += 1
                toks += ["R %d" % m] + ["S"] * (1 + deferred)
                deferred = 0
            elif act == "r":
                m += 1
                toks += ["R %d" % m]
                deferred += 1
            elif act == "C":
                toks += ["C"] + ["S"] * deferred
                deferred = 0
            elif act == "c":
                toks += ["C"]
            elif act == "-":
                toks += ["S"] * max(1, deferred)      # other connection's action: the loop runs, pending tasks start
                deferred = 0
            else:
                toks += ["S"] * 0 or ["C"] * 0 or []
                if not toks:
                    toks += []
            marks.append(max(len(toks) - 1, 0))
        per_action = []
        garbled = False
        for o in obs:
            if o is None:
                per_action.append(None)        # no observation between back-to-back actions
                continue
            ids = o[ci]
            if ids is None:
                garbled = True
                per_action.append("garbled")
            else:
                per_action.append(",".join(str(i) for i in ids))
        # the model reports out after every step; pick the steps that end an action
        keep = [i for i, p in enumerate(per_action) if p is not None]
        expect_full = [per_action[i] for i in keep]
        marks = [marks[i] for i in keep]
        qs.append(Query("send runmarks %s %s %s" % ("tty" if kind == "tty" else "tcp", " ".join(str(x) for x in [len(marks)] + marks),
                                                   " ".join([str(len(toks))] + toks)), " | ".join(expect_full), "corr"))
        routed = list(range(1, m + 1))
        outs = [[int(x) for x in p.split(",") if x] for p in per_action if p is not None and p != "garbled"]
        qs.append(Query("spec send %d %s %d %s False" % (len(routed), " ".join(str(x) for x in routed), len(outs),
                                                        " ".join("%d %s" % (len(o), " ".join(str(x) for x in o)) for o in outs)),
                        "True" if not garbled else "garbled-output", "oracle",
                        "the output is whole messages only, in routing order, whatever the completion order"))
        final = case.get("_final")
        if final is not None:
            fin = final[ci]
            qs.append(Query("spec send %d %s 1 %s True" % (len(routed), " ".join(str(x) for x in routed),
                                                           "%d %s" % (len(fin), " ".join(str(x) for x in fin)) if fin is not None else "0"),
                            "True" if fin is not None else "garbled-output", "oracle",
                            "after every outstanding write/flush/drain completed and the loop went idle, connection %d has sent %s of the routed messages %s"
                            % (ci, fin, routed)))
    case.pop("_final", None)
    return qs


def gen_cases(rng, tier):
    thorough = tier == "thorough"
    # exhaustive: every schedule of bounded length over route / complete-on-each-connection
    for conns, maxlen in ((["tcp"], 7), (["tty"], 8), (["ctcp"], 7), (["tcp", "tty"], 6 if not thorough else 7), (["tcp", "tcp"], 6)):
        alphabet = ["R"] + ["C%d" % i for i in range(len(conns))] + (["D0"] if len(conns) == 1 else [])
        for n in range(1, maxlen + 1):
            for sched in itertools.product(alphabet, repeat=n):
                r = sched.count("R")
                if r == 0 or r > 4 or sched[0] != "R":
                    continue
                if not thorough and n == maxlen and rng.random() < 0.5:
                    continue
                yield {"op": "send", "conns": conns, "schedule": list(sched)}
    # a stalled peer: time passes with writes outstanding (no completion), then completions in either order
    for conns in (["tty"], ["tcp"], ["ctcp"]):
        for sched in (["R", "R", "W", "D0", "C0"], ["R", "W", "R", "W", "D0", "D0"], ["R", "R", "R", "W", "C0", "W", "D0", "C0"],
                      ["R", "W", "C0", "R", "W", "R", "D0"], ["R", "R", "W", "W", "D0", "D0", "D0"]):
            yield {"op": "send", "conns": conns, "schedule": sched}
    # back-to-back actions within one loop iteration (a send right after a completion, bursts without yielding)
    for conns in (["tcp"], ["tty"], ["ctcp"]):
        alphabet = ["R", "r", "C0", "c0", "k0"]
        for n in range(2, 7 if thorough else 6):
            for sched in itertools.product(alphabet, repeat=n):
                if sched[0] not in ("R", "r") or sched[-1] in ("r", "c0") or sum(1 for a in sched if a in ("R", "r")) > 4:
                    continue
                if not any(a in ("r", "c0", "k0") for a in sched):
                    continue
                if sched[-1] == "k0" or any(a == "k0" and b != "R" for a, b in zip(sched, sched[1:])):
                    continue
                # a completion can be followed back-to-back only by a routing action: the next awaitable of the same
                # connection does not exist before its task has run
                bad = False
                for i, a in enumerate(sched):
                    if a == "c0":
                        j = i + 1
                        while j < len(sched) and sched[j] == "r":
                            j += 1
                        if j >= len(sched) or sched[j] != "R":
                            bad = True
                if bad:
                    continue
                yield {"op": "send", "conns": conns, "schedule": list(sched) + ["C0", "C0", "C0", "C0", "C0", "C0", "C0", "C0"]}
    # messages larger than 64 KiB among small ones
    for conns in (["tcp"], ["tty"], ["ctcp"], ["tcp", "tty"]):
        for big in ([1], [2], [1, 3]):
            for sched in (["R", "R", "R", "C0", "C0", "C0", "C0", "C0", "C0", "C0", "C0"], ["r", "r", "R", "C0", "C0", "C0", "C0", "C0", "C0", "C0"],
                          ["R", "C0", "R", "R", "C0", "C0", "C0", "C0", "C0", "C0", "C0"]):
                yield {"op": "send", "conns": conns, "schedule": sched, "big": big}
    # random: bursts of up to 5 messages to up to 3 connections, one of which may never complete
    for _ in range(3000 if thorough else 400):
        k = rng.randint(1, 3)
        conns = [rng.choice(["tcp", "tty", "ctcp"]) for _ in range(k)]
        stalled = rng.choice([None] + list(range(k)))
        sched = []
        burst = rng.randint(1, 5)
        routed = 0
        for _a in range(rng.randint(burst, burst * 6)):
            if routed < burst and rng.random() < 0.4:
                sched.append("R")
                routed += 1
            else:
                c = rng.randrange(k)
                if c != stalled:
                    sched.append("%s%d" % (rng.choice("CCD"), c))
        if "R" not in sched:
            sched.insert(0, "R")
        yield {"op": "send", "conns": conns, "schedule": sched}


def gen_constants(rng, tier):
    """bursts as long as the integer constants the transport code names (read sizes, limits): one connection stalled for the
    whole burst, the others must get everything, whole and in order, and the stalled one too once it drains"""
    import comp_buf
    files = ["indi/transport/server/tcp.py", "indi/transport/server/tty.py", "indi/transport/client/tcp.py", "indi/routing/router.py"]
    for c in comp_buf.int_constants(files, floor=8):
        if c > 3000:
            continue
        for conns in (["tcp", "tcp", "tcp"], ["tcp", "tty"]):
            # connection 0 never completes during the burst; the others complete as they go
            sched = []
            for k in range(c + 5):
                sched.append("R")
                if k % 7 == 0:
                    sched += ["C%d" % i for i in range(1, len(conns)) for _ in range(2)]
            yield {"op": "send", "conns": conns, "schedule": sched, "sparse": True}


def run_sparse(case, outcome):
    """long bursts: no model comparison step by step; the oracle judges the final outputs after the flush (everything routed
    has left every connection, whole and in order) and the outputs at the end of the burst (prefixes of the routed sequence,
    complete on the connections that were never stalled)"""
    obs, n = run_case(case)
    routed = list(range(1, n + 1))
    qs = []
    outcome.count("long-burst", n)
    outcome.nontrivial.add((tuple(case["conns"]), n))
    last = [o for o in obs if o is not None][-1]
    final = case.get("_final")
    for ci, kind in enumerate(case["conns"]):
        ids = last[ci]
        out = "0" if ids is None else "%d %s" % (len(ids), " ".join(str(x) for x in ids))
        qs.append(Query("spec send %d %s 1 %s False" % (len(routed), " ".join(str(x) for x in routed), out), "True" if ids is not None else "garbled-output", "oracle",
                        "a burst of %d messages with connection 0 stalled: connection %d's output is not a prefix of what was routed" % (n, ci)))
        if final is not None:
            fin = final[ci]
            qs.append(Query("spec send %d %s 1 %s True" % (len(routed), " ".join(str(x) for x in routed),
                                                           "%d %s" % (len(fin), " ".join(str(x) for x in fin)) if fin is not None else "0"),
                            "True" if fin is not None else "garbled-output", "oracle",
                            "a burst of %d messages with connection 0 stalled: after everything drained connection %d has sent %d of them" % (n, ci, len(fin or []))))
    case.pop("_final", None)
    return qs
