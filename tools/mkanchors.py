#!/usr/bin/env python
"""tools/mkanchors.py : record an AST fingerprint of every module of the library (comments, blank lines and formatting do not
count) in tools/anchors.json.  ./check compares the working tree with it: when library code differs from the version the
checks were developed against, the check of every property also runs its thorough generators for a bounded time (the
deeper search is aimed at exactly the situation in which something may have been broken); the verdict is still decided
by the current tree alone."""
import ast
import hashlib
import json
import os
import sys

REPO = os.environ.get("INDIPY_REPO", "/repo")


def fingerprint(path):
    try:
        tree = ast.parse(open(path, encoding="utf-8").read())
    except Exception as e:  # noqa
        return "unparsable:" + type(e).__name__
    for node in ast.walk(tree):
        # docstrings do not count
        body = getattr(node, "body", None)
        if isinstance(body, list) and body and isinstance(body[0], ast.Expr) and isinstance(getattr(body[0], "value", None), ast.Constant) \
                and isinstance(body[0].value.value, str):
            body[0].value.value = ""
    return hashlib.sha256(ast.dump(tree, include_attributes=False).encode()).hexdigest()[:20]


def current(repo=REPO):
    out = {}
    root = os.path.join(repo, "indi")
    for d, _, files in os.walk(root):
        for fn in sorted(files):
            if fn.endswith(".py"):
                p = os.path.join(d, fn)
                out[os.path.relpath(p, repo)] = fingerprint(p)
    return out


def changed(repo=REPO):
    base_path = os.path.join(os.path.dirname(os.path.abspath(__file__)), "anchors.json")
    if not os.path.exists(base_path):
        return []
    base = json.load(open(base_path))
    cur = current(repo)
    return sorted(k for k in set(base) | set(cur) if base.get(k) != cur.get(k))


if __name__ == "__main__":
    if len(sys.argv) > 1 and sys.argv[1] == "--diff":
        print(changed())
    else:
        path = os.path.join(os.path.dirname(os.path.abspath(__file__)), "anchors.json")
        json.dump(current(), open(path, "w"), indent=1, sort_keys=True)
        print("wrote", path)
