"""Correspondence component `wire`: serialize-then-parse through the real bytes (IndiMessage.to_string / from_string,
i.e. ElementTree's writer and expat), and foreign XML spellings of the same message.

Case: {"op": "wire", "msg": recipe}
Observed: to_string() bytes, the message parsed back, its re-serialisation, the message parsed from each foreign spelling.
The element-level model (`toXml`, `fromXml`) is compared on the elements ElementTree actually produced / was given.
"""
import itertools
import xml.etree.ElementTree as ET

from harness import Query, enc_elem, enc_msg, exc_name, msg_view
import comp_buf
import comp_codec

NAME = "wire"


def run_impl(case, outcome):
    from indi.message import IndiMessage

    m = comp_codec.build(case["msg"])
    v = msg_view(m)
    qs = []
    outcome.count("kind:" + v["tag"])
    outcome.nontrivial.add(enc_msg(v))
    data = m.to_string()
    try:
        data.decode("ascii")
    except UnicodeDecodeError:
        qs.append(Query("spec istrue False", "True", "oracle", "to_string() is not pure ASCII"))
    # element-level model of to_xml
    qs.append(Query("codec toxml " + enc_msg(v), enc_elem(comp_codec.elem_view_of_et(m.to_xml())), "corr"))
    try:
        m2 = IndiMessage.from_string(data)
    except Exception as e:  # noqa
        qs.append(Query("spec istrue False", "True", "oracle", "the library cannot parse its own serialisation: %s %r" % (exc_name(e), data[:200])))
        return qs
    v2 = msg_view(m2)
    x = ET.fromstring(data)
    qs.append(Query("codec fromxml " + enc_elem(comp_codec.elem_of_et(x)), "ok " + enc_msg(v2), "corr"))
    qs.append(Query("spec normeq %s %s" % (enc_msg(v), enc_msg(v2)), "True", "oracle", "serialize-then-parse changed the message"))
    data2 = m2.to_string()
    m3 = IndiMessage.from_string(data2)
    data3 = m3.to_string()
    qs.append(Query("spec istrue %s" % ("True" if data2 == data3 else "False"), "True", "oracle",
                    "the second and third serialisations differ: %r vs %r" % (data2[:200], data3[:200])))
    qs.append(Query("spec normeq %s %s" % (enc_msg(v2), enc_msg(msg_view(m3))), "True", "oracle", "re-parse of the re-serialisation differs"))
    # foreign spellings of the same message
    for sp in comp_buf.SPELLINGS[1:]:
        text = sp.get("decl", "") + comp_buf.spell(m, sp)
        outcome.count("spelling:" + sp["name"])
        try:
            mf = IndiMessage.from_string(text)
            qs.append(Query("spec normeq %s %s" % (enc_msg(v), enc_msg(msg_view(mf))), "True", "oracle",
                            "the %s spelling is read as a different message" % sp["name"]))
        except Exception as e:  # noqa
            qs.append(Query("spec istrue False", "True", "oracle", "the %s spelling is rejected: %s %r" % (sp["name"], exc_name(e), text[:200])))
    return qs


STRINGS = ["plain", "a<b", "a>b", "a&b", 'say "hi"', "it's", "é", "\u4e2d\u6587", "\U0001d11e", "two  spaces", "line1\nline2", "tab\there",
           "]]>", "&amp;", "&#65;", "<tag/>", "a=b", "100%", "x\u00a0y", "\u2028sep", "C:\\path", "ümlaut \"q\" <&>'",
           # strings that are not in Unicode normal form (NFC would change them) and compatibility characters (NFKC would)
           "10 \u212b", "e\u0301t\u00e9", "5 k\u2126", "\u1100\u1161\u11a8", "\uf900", "\ufb01n", "x\u00b2", "\u2460", "A\u030a\u0323"]
ATTR_ONLY = ["trailing ", " leading", "\n", "\t"]          # attribute values keep surrounding whitespace


def gen_cases(rng, tier):
    thorough = tier == "thorough"
    k = 0
    for tag, (cls, base, optional, child, vkind) in comp_codec.MSGS.items():
        subsets = [(), tuple(optional)] + [(o,) for o in optional]
        if thorough:
            subsets = [c for n in range(len(optional) + 1) for c in itertools.combinations(optional, n)]
        for opt in subsets:
            for nch in ([0, 1, 2, 4] if child else [0]):
                children = None
                if child:
                    kind = comp_codec.PARTS[child][2]
                    children = []
                    for i in range(nch):
                        k += 1
                        if kind == "free":
                            val = STRINGS[k % len(STRINGS)] if (k % 5) else None
                        else:
                            val = comp_codec.VALUE_OF_KIND[kind][i % 2]
                        extra = {}
                        if "label" in comp_codec.PARTS[child][1]:
                            extra["label"] = (STRINGS + ATTR_ONLY)[(k * 7) % (len(STRINGS) + len(ATTR_ONLY))] if k % 3 else "e%d" % i   # label == name sometimes
                        children.append(comp_codec.part_recipe(child, "e%d" % i, val, extra or None))
                r = comp_codec.msg_recipe(tag, opt, children)
                # awkward strings in every free attribute
                for a in list(r["kw"]):
                    if a in ("state", "perm", "rule", "value"):
                        continue
                    k += 1
                    if k % 2:
                        r["kw"][a] = (STRINGS + ATTR_ONLY)[k % (len(STRINGS) + len(ATTR_ONLY))]
                if "label" in r["kw"] and k % 4 == 0:
                    r["kw"]["label"] = r["kw"].get("name")        # label equal to the name
                yield {"op": "wire", "msg": r}
    n = 3000 if thorough else 300
    tags = list(comp_codec.MSGS)
    for _ in range(n):
        tag = rng.choice(tags)
        cls, base, optional, child, vkind = comp_codec.MSGS[tag]
        children = None
        if child:
            kind = comp_codec.PARTS[child][2]
            children = []
            for i in range(rng.randint(0, 5)):
                val = rng.choice(STRINGS + [None, ""]) if kind == "free" else rng.choice(comp_codec.VALUE_OF_KIND[kind])
                extra = {"label": rng.choice(STRINGS + ATTR_ONLY + ["e%d" % i])} if "label" in comp_codec.PARTS[child][1] else None
                children.append(comp_codec.part_recipe(child, "e%d" % i, val, extra))
        r = comp_codec.msg_recipe(tag, tuple(o for o in optional if rng.random() < 0.5), children)
        for a in list(r["kw"]):
            if a not in ("state", "perm", "rule", "value") and rng.random() < 0.6:
                r["kw"][a] = "".join(rng.choice(["a", "<", ">", "&", '"', "'", " ", "\n", "\t", "é", "\U0001d11e", "]", "=", "/"]) for _ in range(rng.randint(0, 8)))
        yield {"op": "wire", "msg": r}
