"""Correspondence component `wait`: BaseClient.waitforevent on a deterministic virtual-clock event loop.

Case: {"op": "wait", "kind": "check"|"expect"|"initial", "evkind": "value"|"state", "horizon": H,
       "batches": [[t, [flag, ...]], ...],           # events that pass the wait's filter; flag = satisfies the condition
       "waits": [{"timeout": int|None, "polling": bool, "delay": int, "interval": int}, ...]}   # all started at time 0
Event batches are delivered by call_at callbacks created before the waits start; each batch is processed within one
loop iteration.  Observed per wait: return value (which event: batch time and index) / timeout with the virtual
completion time / still pending at the horizon; getProperties send times; callbacks left.
"""
import asyncio

from harness import Query, enc_bool
import vloop

NAME = "wait"

STATES = ["Idle", "Ok", "Busy"]


def realise(case):
    """turn flags into concrete messages; returns per batch a list of (message xml, event tag)"""
    from indi.message import IndiMessage

    kind, evkind = case["kind"], case["evkind"]
    k = 0
    rot = 1
    out = []
    for t, flags in case["batches"]:
        msgs = []
        for i, f in enumerate(flags):
            k += 1
            tag = "%d/%d" % (t, i)
            if evkind == "value":
                if kind == "check":
                    val = ("M%d" if f else "n%d") % k
                elif kind == "expect":
                    val = "M" if f else "n%d" % k
                else:
                    val = ("m%d" % k) if f else "I"
                xml = ('<setTextVector device="D" name="P" state="Ok"><oneText name="y">noise%d</oneText><oneText name="x">%s</oneText></setTextVector>'
                       % (k, val))
            else:
                if kind == "check":
                    rot += 1
                    st = "Alert" if f else STATES[rot % 3]
                elif kind == "expect":
                    rot += 1
                    st = "Alert" if f else STATES[rot % 3]
                else:
                    rot += 1
                    st = ["Ok", "Busy", "Alert"][rot % 3] if f else "Idle"
                xml = '<setTextVector device="D" name="P" state="%s"><oneText name="y">noise%d</oneText></setTextVector>' % (st, k)
            msgs.append((IndiMessage.from_string(xml), tag))
        out.append((t, msgs))
    return out


def realizable(kind, evkind, flags_in_order):
    """can this flag sequence be produced as actual change events?"""
    prev = None
    for f in flags_in_order:
        if evkind == "value":
            if kind == "expect" and f and prev is True:
                return False
            if kind == "initial" and (not f) and prev is False:
                return False
        else:
            if kind in ("check", "expect") and f and prev is True:
                return False
            if kind == "initial" and (not f) and prev is False:
                return False
        prev = f
    # the very first event must change the initial value / state too
    if flags_in_order:
        if evkind == "state" and kind == "initial" and flags_in_order[0] is False:
            return True     # initial state is Ok, Idle is a change
    return True


def run_case(case):
    from indi.client import events
    from indi.client.client import BaseClient
    from indi.message import IndiMessage

    loop = vloop.VirtualLoop()
    sends = []

    class Cl(BaseClient):
        def send_message(self, msg):
            if type(msg).__name__ == "GetProperties":
                sends.append(int(round(loop.time())))

    client = Cl()
    client.process_message(IndiMessage.from_string(
        '<defTextVector device="D" name="P" state="Ok" perm="rw"><defText name="x">start</defText><defText name="y">n</defText></defTextVector>'))
    plan = realise(case)
    kind, evkind = case["kind"], case["evkind"]
    current = {"tag": None}
    seen_tags = {}

    def deliver(msgs):
        for m, tag in msgs:
            current["tag"] = tag
            client.process_message(m)
        current["tag"] = None

    results = [None] * len(case["waits"])

    async def one_wait(i, w):
        kw = dict(device="D", vector="P", event_type=events.ValueUpdate if evkind == "value" else events.StateUpdate,
                  timeout=w["timeout"], polling_enabled=w["polling"], polling_delay=w["delay"], polling_interval=w["interval"])
        if evkind == "value":
            kw["element"] = "x"
        if kind == "check":
            if evkind == "value":
                kw["check"] = lambda ev: str(ev.new_value).startswith("M")
            else:
                kw["check"] = lambda ev: ev.new_state == "Alert"
        elif kind == "expect":
            kw["expect"] = "M" if evkind == "value" else "Alert"
        else:
            kw["initial"] = "I" if evkind == "value" else "Idle"
        try:
            ev = await client.waitforevent(**kw)
            now = int(round(loop.time()))
            if no_tagger:
                # no observer callback at all: the event is identified by the instant of completion (the first matching
                # event of the batch delivered at that instant)
                here = [fl for t_, fl in case["batches"] if t_ == now]
                tag = "%d/%d" % (now, here[0].index(True)) if len(here) == 1 and True in here[0] else "?"
                results[i] = ("E", tag, now)
            else:
                results[i] = ("E", event_ids.get(id(ev), "?"), now)
        except Exception as e:  # noqa
            results[i] = ("T" if "Timeout" in str(e) else "X:" + type(e).__name__, None, int(round(loop.time())))

    # identify returned events: tag every event object as it is raised, through a catch-all callback registered first
    event_ids = {}

    def tagger(ev):
        event_ids[id(ev)] = current["tag"]
        keep.append(ev)
    keep = []
    # "tagger": "last" - the waits are the client's very FIRST registrations (an application that only ever waits), the
    # observer registers after them; "first" (default) - the application registered a listener before it waits
    tagger_last = case.get("tagger") == "last"
    no_tagger = case.get("tagger") == "none"          # the waits are the ONLY registrations the client ever sees (no wildcard listener)
    if not tagger_last and not no_tagger:
        client.onevent(callback=tagger)

    async def main():
        for t, msgs in plan:
            loop.call_at(t, deliver, msgs)
        tasks = [loop.create_task(one_wait(i, w)) for i, w in enumerate(case["waits"])]
        if tagger_last:
            loop.call_soon(lambda: client.onevent(callback=tagger))      # runs after the first step of every wait
        await asyncio.sleep(case["horizon"] + 0.5)
        pending = [not t.done() for t in tasks]
        ncb = len(client.callbacks) - (0 if no_tagger else 1)
        for t in tasks:
            t.cancel()
        return pending, ncb

    pending, ncb = loop.run(main())
    return results, sorted(sends), pending, ncb


def enc_cfg(w):
    return "%s %s %d %d" % ("~" if w["timeout"] is None else str(w["timeout"]), enc_bool(w["polling"]), w["delay"], w["interval"])


def run_impl(case, outcome):
    results, sends, pending, ncb = run_case(case)
    batches = "%d %s" % (len(case["batches"]), " ".join("%d %d %s" % (t, len(fl), " ".join(enc_bool(f) for f in fl)) for t, fl in case["batches"]))
    qs = []
    npending = sum(1 for p in pending if p)
    for i, w in enumerate(case["waits"]):
        r = results[i]
        if pending[i] or r is None:
            out = "P"
        elif r[0] == "E":
            out = "E " + str(r[1]).replace("/", " ")
        elif r[0] == "T":
            out = "T %d" % r[2]
        else:
            out = r[0]
        # completion must happen at the instant of the event
        if r is not None and r[0] == "E" and r[1] not in (None, "?") and int(str(r[1]).split("/")[0]) != r[2]:
            out += " late@%d" % r[2]
        cb = pending[i]
        if ncb != npending and i == 0:
            cb = not cb            # callbacks left over (or missing): force a mismatch on the first wait
        npoll = sum(1 for x in case["waits"] if x["polling"])
        if npoll > 1 and w["polling"]:
            # several polling waits: the sends cannot be attributed; each wait is judged without them and the merged
            # send times are judged once (queries `wait union` / `spec waitunion` below)
            w = dict(w, polling=False)
        mine = sends if w["polling"] else []
        obs = "%s sends %s cb %s" % (out, ",".join(str(x) for x in mine), enc_bool(cb))
        outcome.count("outcome:" + out.split(" ")[0])
        outcome.count("kind:%s/%s" % (case["kind"], case["evkind"]))
        line = "%s %s %d" % (enc_cfg(w), batches, case["horizon"])
        outcome.nontrivial.add((case["kind"], case["evkind"], line, len(case["waits"])))
        qs.append(Query("wait run " + line, obs, "corr"))
        qs.append(Query("spec wait %s %s %d %s" % (line, out if out[0] in "PET" and "late" not in out else "P", len(mine),
                                                       " ".join(str(x) for x in mine) + (" " if mine else "") + enc_bool(cb)),
                        "True" if out[0] in "PET" and "late" not in out else "bad-outcome:" + out, "oracle",
                        "first match or timeout, never both, never neither; polling before completion only; no callback left"))
    if sum(1 for x in case["waits"] if x["polling"]) > 1:
        cfgs = "%d %s" % (len(case["waits"]), " ".join(enc_cfg(x) for x in case["waits"]))
        got = ",".join(str(x) for x in sends)
        qs.append(Query("wait union %s %s %d" % (cfgs, batches, case["horizon"]), got, "corr"))
        qs.append(Query("spec waitunion %s %s %d" % (cfgs, batches, case["horizon"]), got, "oracle",
                        "concurrent waits are not independent: the getProperties sent are not the merge of each wait's own polling"))
        outcome.count("concurrent-polling-waits")
    return qs


def gen_cases(rng, tier):
    """every third case (and every case with several waits, a second time) with the waits as the client's first registrations"""
    for n, case in enumerate(_gen_cases(rng, tier)):
        yield case
        if len(case["waits"]) > 1 or n % 3 == 0:
            yield dict(case, tagger="last")
        if (len(case["waits"]) > 1 or n % 3 == 1) and len({t_ for t_, _ in case["batches"]}) == len(case["batches"]):
            yield dict(case, tagger="none")


def _gen_cases(rng, tier):
    thorough = tier == "thorough"
    H = 9
    kinds = [("check", "value"), ("expect", "value"), ("initial", "value"), ("check", "state"), ("expect", "state"), ("initial", "state")]
    # (1) one event at every grid instant, matching / non-matching, x timeout x polling
    for kind, evkind in kinds:
        for timeout in [None, 3, 6]:
            for polling, delay, interval in [(False, 1, 1), (True, 1, 2), (True, 2, 3), (True, 3, 1)]:
                for t in range(1, H + 1):
                    if timeout is not None and t == timeout:
                        continue       # exact ties with the timeout instant are outside the quantifier
                    for flags in ([True], [False], [False, True], [True, True] if kind == "check" and evkind == "value" else [True, False],
                                  [False, True, False, True] if kind != "initial" else [True, False, True]):
                        if not realizable(kind, evkind, flags):
                            continue
                        yield {"op": "wait", "kind": kind, "evkind": evkind, "horizon": H, "batches": [[t, flags]],
                               "waits": [{"timeout": timeout, "polling": polling, "delay": delay, "interval": interval}]}
    # (2) several batches, random
    n = 3000 if thorough else 400
    for _ in range(n):
        kind, evkind = rng.choice(kinds)
        times = sorted(rng.sample(range(1, H + 1), rng.randint(0, 4)))
        timeout = rng.choice([None, None, 2, 4, 5, 7, 12])
        times = [t for t in times if t != timeout]
        flat = []
        batches = []
        for t in times:
            fl = [rng.random() < 0.35 for _ in range(rng.randint(1, 3))]
            batches.append([t, fl])
            flat.extend(fl)
        if not realizable(kind, evkind, flat):
            continue
        nw = rng.choice([1, 1, 2, 3])
        waits = []
        for i in range(nw):
            waits.append({"timeout": timeout if i == 0 else rng.choice([None, 2, 5, 8]), "polling": rng.random() < 0.6,
                          "delay": rng.randint(1, 4), "interval": rng.randint(1, 3)})
        waits = [w for w in waits if w["timeout"] is None or all(t != w["timeout"] for t in times)] or waits[:1]
        if any(w["timeout"] is not None and w["timeout"] in times for w in waits):
            continue
        yield {"op": "wait", "kind": kind, "evkind": evkind, "horizon": H, "batches": batches, "waits": waits}
    # (3) concurrent waits released by the same event
    for kind, evkind in kinds:
        for t in (2, 5):
            yield {"op": "wait", "kind": kind, "evkind": evkind, "horizon": H, "batches": [[t, [True]], [t + 2, [True] if kind == "check" and evkind == "value" else [False, True]]],
                   "waits": [{"timeout": None, "polling": False, "delay": 1, "interval": 1}, {"timeout": 8, "polling": True, "delay": 1, "interval": 1},
                             {"timeout": None, "polling": False, "delay": 1, "interval": 1}]}
    # (4) concurrent polling waits on the same property with different phases, one completing (or timing out) before the other
    for kind, evkind in kinds:
        for t1, t2 in ((2, 6), (3, 8), (1, 9)):
            for second in ([False, True], [True]):
                if not realizable(kind, evkind, [True] + second):
                    continue
                yield {"op": "wait", "kind": kind, "evkind": evkind, "horizon": H, "batches": [[t1, [True]], [t2, second]],
                       "waits": [{"timeout": None, "polling": True, "delay": 1, "interval": 2}, {"timeout": t2 + 1 if t2 < 9 else None, "polling": True, "delay": 2, "interval": 1},
                                 {"timeout": 1 if t1 > 1 else 4, "polling": True, "delay": 1, "interval": 1}]}
