#!/usr/bin/env python
"""./check Cnn quick|thorough     decide one property on /repo's current working tree
   ./check Cnn --replay <file>   re-run one recorded case

Steps (DESIGN.md section 2.2): regenerate tables from the source, rebuild the
Lean development (kernel re-checks the property theorems over the new tables),
audit axioms, run the correspondence (implementation vs model) and the oracle
(the Lean spec evaluated on the implementation's behaviour), decide.

exit 0  property held on everything explored
exit 1  VIOLATION line printed (replay file written)
exit 2  infrastructure failure (no verdict)
"""
import importlib
import json
import os
import random
import sys
import time
import traceback

HERE = os.path.dirname(os.path.abspath(__file__))
sys.path.insert(0, HERE)
import harness as H  # noqa: E402
from props import PROPS  # noqa: E402


def main():
    import logging
    logging.disable(logging.CRITICAL)      # the library logs every ignored hostile message
    if len(sys.argv) < 3:
        print(__doc__)
        return 2
    prop = sys.argv[1]
    if prop not in PROPS:
        print("unknown property", prop)
        return 2
    spec = PROPS[prop]
    replay_path = None
    if sys.argv[2] == "--replay":
        replay_path = sys.argv[3]
        tier = "quick"
    else:
        tier = os.environ.get("VERIF_TIER") or sys.argv[2]
        if tier not in ("quick", "thorough"):
            print("tier must be quick or thorough")
            return 2
    seed = int(os.environ.get("VERIF_SEED", "0") or 0)
    t0 = time.time()
    known = [k for k in H.load_known() if k.get("property") == prop]

    # ---- regen + build + audit (serialised across parallel invocations)
    proof_problems = []       # things that make the proof side not check
    build_info = {}
    dev_skip = os.environ.get("VERIF_DEV_SKIP_BUILD") == "1"     # development aid only: no verdict is valid without the build
    theorems = {}
    with H.build_lock():
        if dev_skip:
            print("DEV MODE: regen/build/audit skipped")
            info, out = {}, ""
        else:
            info, out = H.regen()
        if info is None:
            print("extract.py failed:\n" + out[-3000:])
            proof_problems.append("translator tools/extract.py failed on the working tree")
            info = {}
        notes = (info.get("registry") or {}).get("notes") or []
        build_info["translator_notes"] = notes
        # decision expressions: source text the translator followed at each site ("FALLBACK: ..." = not followed, tie by correspondence only)
        build_info["decision_sites"] = info.get("decisions")
        build_info["tables_changed"] = info.get("changed")
        rc, out = (0, "") if dev_skip else H.lake_build(["indi-model"])
        if rc != 0:
            print(out[-4000:])
            # without the executable model there is no oracle: report and stop
            return finish_without_model(prop, tier, seed, t0, out)
        targets = ["Indi.Properties." + prop, "Indi.Audit." + prop]
        rc, out = (0, "") if dev_skip else H.lake_build(targets)
        if dev_skip:
            theorems, problems = {}, []
        elif rc != 0:
            mods = H.failing_modules(out)
            errs = H.first_errors(out)
            proof_problems.append("lake build of %s failed in %s: %s" % (targets[0], mods, " | ".join(errs)))
            theorems, problems = {}, []
        else:
            theorems, problems = H.audit(prop)
        proof_problems.extend(problems)
        # pins (change detectors, see lean/Indi/Properties/Pins.lean): a broken pin escalates the search, it is not a broken proof
        pins_broken = False
        if prop in ("C13", "C10") and not dev_skip:
            rc_p, out_p = H.lake_build(["Indi.Properties.Pins"])
            if rc_p != 0:
                pins_broken = True
                build_info["pins_broken"] = H.first_errors(out_p)[:3]
    build_info["theorems"] = theorems
    build_s = time.time() - t0

    # ---- correspondence + oracle
    # wall-clock budget for the exploration (a tree on which every case runs into a watchdog must not take hours): when it is
    # used up the remaining cases are skipped and the evidence says so; the verdict rests on what was explored
    H.BUDGET_END[0] = time.time() + float(os.environ.get("VERIF_BUDGET_S", "1500" if tier == "quick" else "21600"))
    outcome = H.Outcome()
    rng = random.Random(seed)
    try:
        # every exploration (and every replay) runs in a process in which an application's own handlers and callbacks have
        # already raised at every point where the library calls user code: a correct library keeps no trace of that,
        # process-wide state left behind by an interrupted operation shows in everything that follows
        try:
            import comp_codec
            if not comp_codec._FAULTS_DONE:
                comp_codec.run_user_code_faults()
                comp_codec._FAULTS_DONE.append(True)
            outcome.count("prelude:user-code-faults")
        except Exception:  # noqa
            outcome.count("prelude:user-code-faults-not-run")
        if replay_path:
            rep = json.load(open(replay_path))
            comp = importlib.import_module(rep["component"])
            H.evaluate(comp, [rep["case"]], outcome)
        else:
            for comp_name, gen_name in spec["suites"]:
                comp = importlib.import_module(comp_name)
                gen = getattr(comp, gen_name)
                # corpus of past failures first
                H.evaluate(comp, corpus_cases(prop, comp_name), outcome)
                H.evaluate(comp, gen(rng, tier), outcome)
            import mkanchors
            changed_files = mkanchors.changed(H.REPO) + (["pin: a source literal a recogniser was written for changed"] if pins_broken else [])
            build_info["library_files_changed"] = changed_files
            if proof_problems or outcome.corr_fail or outcome.harness_errors or changed_files:
                # failing-input search: the thorough generators (also whenever the library differs from the version the
                # checks were developed against: a deeper look exactly when something may have been broken)
                if tier != "thorough" and not outcome.oracle_fail:
                    # bounded: the thorough generators, for at most VERIF_SEARCH_S seconds (default 150)
                    deadline = time.time() + float(os.environ.get("VERIF_SEARCH_S", "150"))
                    for comp_name, gen_name in spec["suites"]:
                        comp = importlib.import_module(comp_name)
                        H.evaluate(comp, getattr(comp, gen_name)(random.Random(seed + 1), "thorough"), outcome, deadline=deadline)
    except Exception:
        traceback.print_exc()
        print("harness failure (no verdict)")
        return 2

    # ---- verdict
    violations = []
    known_hits = []
    for case, q, reply in outcome.oracle_fail:
        kf = match_known(known, case)
        if kf:
            known_hits.append((kf, case))
        else:
            violations.append(("oracle_failure", case, q, reply))
    rc = 0
    replay_dir = os.environ.get("VERIF_REPLAY_DIR") or os.path.join(H.VERIF, "replays")
    os.makedirs(replay_dir, exist_ok=True)
    printed = set()
    for kf, case in known_hits:
        if kf["what"] not in printed:
            printed.add(kf["what"])
            print("KNOWN-FINDING: property=%s %s" % (prop, kf["what"]))
    if violations:
        kind, case, q, reply = min(violations, key=lambda v: len(json.dumps(v[1], default=str)))
        path = os.path.join(replay_dir, "%s-%d-oracle.json" % (prop, seed))
        H.write_json(path, {"kind": kind, "property": prop, "component": component_of(spec, case), "case": case,
                            "query": q.line, "implementation_requires": q.expect, "spec_says": reply, "note": q.note,
                            "replay_cmd": "./check %s --replay %s" % (prop, os.path.relpath(path, H.VERIF))})
        print("property %s fails on the implementation: %s" % (prop, json.dumps(case, default=str)[:600]))
        print("VIOLATION property=%s replay=%s" % (prop, path))
        rc = 1
    elif proof_problems or outcome.corr_fail or outcome.harness_errors:
        if outcome.harness_errors:
            case, err = outcome.harness_errors[0]
            proof_problems.append("the harness could not observe the implementation on %d cases (its interface changed?), e.g. %s on %s"
                                  % (len(outcome.harness_errors), err, json.dumps(case, default=str)[:300]))
        path = os.path.join(replay_dir, "%s-%d-unproved.json" % (prop, seed))
        body = {"kind": "proof_broken" if proof_problems else "correspondence_broken", "property": prop,
                "proof_problems": proof_problems,
                "correspondence_disagreements": len(outcome.corr_fail),
                "cases_searched_for_a_failing_input": outcome.cases,
                "replay_cmd": "./check %s quick" % prop}
        if outcome.corr_fail:
            case, q, reply = min(outcome.corr_fail, key=lambda v: len(json.dumps(v[0], default=str)))
            body.update({"component": component_of(spec, case), "case": case, "query": q.line,
                         "implementation_did": q.expect, "model_says": reply})
            print("model and implementation disagree (%d cases), e.g. %s" % (len(outcome.corr_fail), json.dumps(case, default=str)[:600]))
            print("   implementation: %s\n   model:          %s" % (q.expect[:300], reply[:300]))
        for p in proof_problems:
            print("proof side: " + p[:600])
        H.write_json(path, body)
        print("VIOLATION property=%s replay=%s no-failing-input-found" % (prop, path))
        rc = 1

    # ---- evidence
    if not replay_path:
        obligations = len(theorems) + len(spec["suites"])
        discharged = sum(1 for t, ax in theorems.items() if set(ax) <= H.ALLOWED_AXIOMS) if not proof_problems else 0
        discharged += len(spec["suites"]) if not outcome.corr_fail else 0
        ev = {
            "property_id": prop, "tier": tier, "seed": seed, "level": spec.get("level", "proof"),
            "wall_s": round(time.time() - t0, 2), "violations": len(violations) + (1 if rc and not violations else 0),
            "assumptions": spec.get("assumptions", []),
            "coverage": {
                "obligations": max(obligations, 1), "discharged": discharged,
                "checker_cmd": "cd lean && lake build Indi.Properties.%s Indi.Audit.%s && lake env lean Indi/Audit/%s.lean  (#print axioms)" % (prop, prop, prop),
                "trusted_base": spec.get("trusted_base", []) + [
                    "Lean 4.33 kernel", "axioms used: " + ", ".join(sorted({a for ax in theorems.values() for a in ax}) or ["none"]),
                    "tools/extract.py (tables probed from the live classes)", "tools/harness.py + component harness (correspondence, canonicalisation)"],
                "theorems": theorems,
                "evaluations": max(outcome.cases, 1), "queries": outcome.queries,
                "distinct_nontrivial": len(outcome.nontrivial),
                "rule": spec.get("rule", ""),
                "samples": [json.loads(json.dumps(s, default=str)) for s in outcome.samples] or ["none"],
                "input_distribution": outcome.dist,
                "correspondence_disagreements": len(outcome.corr_fail),
                "oracle_failures": len(outcome.oracle_fail),
                "known_findings_hit": len(known_hits),
                "exhaustive": bool(spec.get("exhaustive", False)),
                "translator_notes": build_info.get("translator_notes"),
                "decision_sites_followed_by_the_translator": build_info.get("decision_sites"),
                "library_files_changed_since_baseline": build_info.get("library_files_changed"),
                "build_seconds": round(build_s, 2),
            },
        }
        # VERIF_EVIDENCE_DIR: used by tools/seedtest.sh so that runs against a seeded change never overwrite the evidence of the real tree
        H.write_json(os.path.join(os.environ.get("VERIF_EVIDENCE_DIR") or os.path.join(H.VERIF, "evidence"), prop + ".json"), ev)
    print("%s %s seed=%d: %d cases, %d queries, %d theorems, corr_fail=%d oracle_fail=%d proof_problems=%d  [%.1fs]" % (
        prop, tier, seed, outcome.cases, outcome.queries, len(theorems), len(outcome.corr_fail), len(outcome.oracle_fail),
        len(proof_problems), time.time() - t0))
    return rc


def component_of(spec, case):
    return case.get("_component") or spec["suites"][0][0]


def corpus_cases(prop, comp_name):
    d = os.path.join(H.VERIF, "corpus", comp_name)
    res = []
    if os.path.isdir(d):
        for fn in sorted(os.listdir(d)):
            if fn.endswith(".json"):
                obj = json.load(open(os.path.join(d, fn)))
                if prop in obj.get("properties", [prop]):
                    res.extend(obj["cases"])
    return res


def match_known(known, case):
    keys = set(case.get("kf_keys") or [])
    for k in known:
        if k.get("status") == "finding" and k.get("key") in keys:
            return k
    return None


def finish_without_model(prop, tier, seed, t0, out):
    path = os.path.join(H.VERIF, "replays", "%s-%d-unproved.json" % (prop, seed))
    H.write_json(path, {"kind": "proof_broken", "property": prop,
                        "proof_problems": ["the executable model no longer builds over the regenerated tables: "
                                           + " | ".join(H.first_errors(out))],
                        "replay_cmd": "./check %s quick" % prop})
    print("VIOLATION property=%s replay=%s no-failing-input-found" % (prop, path))
    return 1


if __name__ == "__main__":
    sys.exit(main())
