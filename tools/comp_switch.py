"""Correspondence component `sw`: switch vectors of a real Driver.

Case: {"op": "sw", "rule": "OneOfMany", "init": [bool...], "ops": [op...]} with op
  ["A", i, v]            driver-side assignment (value or bool_value)
  ["W", [[i, v]...]]     client newSwitchVector naming these switches, in order, sent through the router
  ["S", [i...]]          selected_values = [...] (selected_value = x for one name)
Observed per op: the children of every setSwitchVector the driver hands to the router, and the
element values afterwards.
"""
import itertools

from harness import Query, enc_bool
import peek

NAME = "sw"


def bits(vals):
    return "b" + "".join("1" if v else "0" for v in vals)


def enc_op(op):
    if op[0] == "A":
        return "A %d %s" % (op[1], enc_bool(op[2]))
    if op[0] == "W":
        return "W %d %s" % (len(op[1]), " ".join("%d %s" % (i, enc_bool(v)) for i, v in op[1])) if op[1] else "W 0"
    return ("S %d %s" % (len(op[1]), " ".join(str(i) for i in op[1]))).strip()


def make_driver(rule, init, router):
    from indi.device import Driver, properties

    elements = {"e%d" % i: properties.Switch("s%d" % i, default="On" if v else "Off") for i, v in enumerate(init)}

    class Dev(Driver):
        name = "D"
        g = properties.Group("G", vectors=dict(sw=properties.SwitchVector("SW", rule=rule, elements=elements)))

    d = Dev(router=router)
    d.peek_element_definitions = [elements["e%d" % i] for i in range(len(init))]     # handlers are attached to the definitions
    return d


def run_impl(case, outcome):
    from indi import message
    from indi.message import one_parts
    from indi.routing import Client, Router

    published = []

    class Rec(Client):
        def message_from_device(self, msg):
            published.append(msg)
            if case.get("deaf"):
                raise RuntimeError("the link to this client is down")      # delivery fails: the publishing operation raises

    router = Router()
    router.register_client(Rec())
    rule, init = case["rule"], case["init"]
    d = make_driver(rule, init, router)
    vec = d.g.sw
    els = [getattr(vec, "e%d" % i) for i in range(len(init))]
    n = len(init)

    def state():
        return [el.value == "On" for el in els]

    # observers: plain Write and Change handlers on every switch record the vector as a handler sees it at that moment
    # ("always" in C09 includes every moment user code can look); they change nothing
    seen = []
    if case.get("observe", True):
        from indi.device import events

        def observer(ev):
            seen.append([peek.raw_value(el) == "On" for el in els])

        for eldef in d.peek_element_definitions:
            eldef.attach_event_handler(events.Write, observer)
            eldef.attach_event_handler(events.Change, observer)
    # switches hidden at element level (`element.enabled = False`): not published, but part of the property and of its rule
    for i in case.get("hidden") or []:
        els[i].enabled = False
    # vetoing Write handlers (a driver refusing a client's request): a refused write must leave the whole property as it was
    if case.get("veto"):
        from indi.device import events as _ev

        def refuse(ev):
            ev.prevent_default = True

        for i in case["veto"]:
            d.peek_element_definitions[i].attach_event_handler(_ev.Write, refuse)

    qs = []
    steps = []
    before = state()
    for k, op in enumerate(case["ops"]):
        del published[:]
        del seen[:]
        exc = None
        try:
            if op[0] == "A":
                _, i, v = op
                if (k + i) % 2 == 0:
                    els[i].value = "On" if v else "Off"
                else:
                    els[i].bool_value = v
            elif op[0] == "W":
                children = tuple(one_parts.OneSwitch(name="s%d" % i, value="On" if v else "Off") for i, v in op[1])
                router.process_message(message.NewSwitchVector(device="D", name="SW", children=children))
            else:
                names = ["s%d" % i for i in op[1]]
                if len(names) == 1 and k % 2 == 0:
                    vec.selected_value = names[0]
                else:
                    vec.selected_values = names
        except Exception as e:  # noqa
            exc = type(e).__name__
        snaps = []
        for m in published:
            if isinstance(m, message.SetSwitchVector):
                if case.get("hidden"):
                    continue            # a published update lists the visible switches only: judged through the states below
                snaps.append([c.value == "On" for c in m.children])
            else:
                snaps.append("unexpected:" + type(m).__name__)
        after = state()
        outcome.count("op:%s" % op[0])
        outcome.count("rule:%s" % rule)
        if exc:
            outcome.count("raised:" + exc)
        bad = [s for s in snaps if isinstance(s, str)]
        if case.get("deaf"):
            # every publication fails half-way (the exception leaves the operation): whatever state the property is left in
            # still has to satisfy its rule
            non, nbefore = sum(1 for x in after if x), sum(1 for x in before if x)
            ok = True if rule == "AnyOfMany" else (non <= 1 and (rule != "OneOfMany" or nbefore != 1 or non == 1))
            qs.append(Query("spec istrue %s" % enc_bool(ok), "True", "oracle",
                            "after an operation whose publication raised, the %s property is left as %s (was %s)" % (rule, bits(after), bits(before))))
            outcome.nontrivial.add((rule, bits(before), enc_op(op), "deaf"))
            before = after
            continue
        step = (",".join(bits(s) for s in snaps if not isinstance(s, str)) + ">" + bits(after)
                + ("!" + exc if exc else "") + ("".join("!" + b for b in bad)))
        steps.append(step)
        # unknown names (index == n) in a selection raise by design before anything is assigned
        expected_exc = op[0] == "S" and any(i >= n for i in op[1])
        oracle_expect = "True" if (not exc or expected_exc) and not bad else "raised-or-unexpected"
        osnaps = [s for s in snaps if not isinstance(s, str)]
        # what handlers saw: a Write handler sees the state before the store, any later one a state the rule must allow;
        # judged like published snapshots, except that AnyOfMany's "only the named switch differs" is judged on published ones
        hsnaps = [h for h in seen if h != before] if rule != "AnyOfMany" else []
        outcome.count("handler-observations", len(seen))
        allsn = osnaps + hsnaps
        veto = set(case.get("veto") or [])
        named = set(i for i, _v in op[1]) if op[0] == "W" else set()
        if veto and named and named <= veto:
            # every named switch refuses the write: nothing may change, nothing may be published
            qs.append(Query("spec swrefused %s %d %s %s" % (bits(before), len(allsn), " ".join(bits(s) for s in allsn), bits(after)),
                            oracle_expect, "oracle", "a write refused by the driver's Write handler changed the property or published an update"))
            outcome.nontrivial.add((rule, bits(before), enc_op(op), "refused"))
            before = after
            continue
        if veto and named & veto:
            before = after
            continue            # partly refused: the accepted part is judged by the unrefused cases
        qs.append(Query("spec sw %s %s %s %d %s %s" % (rule, bits(before), enc_op(op), len(allsn),
                                                      " ".join(bits(s) for s in allsn), bits(after)),
                        oracle_expect, "oracle", "a published snapshot, a state seen by an event handler, or the final state breaks the rule"))
        outcome.nontrivial.add((rule, bits(before), enc_op(op)))
        before = after
    line = "%s %s %d %s" % (rule, bits(init), len(case["ops"]), " ".join(enc_op(o) for o in case["ops"]))
    if not case.get("veto") and not case.get("hidden") and not case.get("deaf"):
        qs.insert(0, Query("sw run " + line, " | ".join(steps), "corr"))
    return qs


RULES = ["OneOfMany", "AtMostOne", "AnyOfMany"]


def all_single_ops(n):
    ops = []
    for i in range(n):
        for v in (True, False):
            ops.append(["A", i, v])
            ops.append(["W", [[i, v]]])
        ops.append(["S", [i]])
    ops.append(["S", []])
    ops.append(["W", []])
    ops.append(["W", [[n, True]]])          # unknown element
    if n >= 2:
        for i, j in itertools.permutations(range(n), 2):
            for vi, vj in itertools.product((True, False), repeat=2):
                ops.append(["W", [[i, vi], [j, vj]]])
            ops.append(["S", [i, j]])
        ops.append(["W", [[0, True], [n, True], [1, True]]])
    if n >= 3:
        ops.append(["S", list(range(n))])
        ops.append(["W", [[i, True] for i in range(n)]])
        ops.append(["W", [[i, False] for i in range(n)]])
    return ops


def gen_cases(rng, tier):
    """every rule x 1..5 switches x every initial configuration x every single operation from every
    configuration (so every transition of the reachable graph is compared), then random longer sequences"""
    maxn = 5 if tier == "thorough" else 4
    for rule in RULES:
        for n in range(1, maxn + 1):
            ops = all_single_ops(n)
            for init in itertools.product((False, True), repeat=n):
                # one case per initial configuration: each op applied from the initial state would need a fresh
                # driver; instead chain "op, then restore" is not possible through the public API, so one driver per op
                for chunk_start in range(0, len(ops), 1):
                    yield {"op": "sw", "rule": rule, "init": list(init), "ops": [ops[chunk_start]]}
    nrand = 400 if tier == "thorough" else 80
    for _ in range(nrand):
        rule = rng.choice(RULES)
        n = rng.randint(1, 6)
        init = [rng.random() < 0.4 for _ in range(n)]
        ops = []
        for _k in range(rng.randint(2, 25)):
            r = rng.random()
            if r < 0.4:
                ops.append(["A", rng.randrange(n), rng.random() < 0.5])
            elif r < 0.8:
                ops.append(["W", [[rng.randrange(n + (1 if rng.random() < 0.1 else 0)), rng.random() < 0.5] for _ in range(rng.randint(0, 3))]])
            else:
                ops.append(["S", rng.sample(range(n), rng.randint(0, min(n, 2)))])
        yield {"op": "sw", "rule": rule, "init": init, "ops": ops}
    # (3) refused writes: a vetoing Write handler on some switches; client writes (single and multiple) to refused and
    # accepted switches from every configuration that satisfies the rule
    for rule in RULES:
        for n in (2, 3):
            for init in itertools.product((False, True), repeat=n):
                for veto in ([0], [n - 1], list(range(n))):
                    ops = []
                    for i in range(n):
                        for v in (True, False):
                            ops.append(["W", [[i, v]]])
                    ops.append(["W", [[0, True], [n - 1, True]]])
                    for op in ops:
                        yield {"op": "sw", "rule": rule, "init": list(init), "ops": [op], "veto": veto}
    # (4) hidden switches (element-level enabled = False) take part in the rule like any other
    for rule in RULES:
        for n in (2, 3):
            for init in itertools.product((False, True), repeat=n):
                for hidden in ([0], [n - 1]):
                    for op in ([["A", i, True] for i in range(n)] + [["W", [[i, True]]] for i in range(n)] + [["S", [i]] for i in range(n)]):
                        yield {"op": "sw", "rule": rule, "init": list(init), "ops": [op, ["A", (op[1] if op[0] == "A" else 0), True]][:1], "hidden": hidden}
    # (5) every publication fails (the client endpoint raises while the update is delivered): the rule must survive the exception
    for rule in RULES:
        for n in (1, 2, 3):
            for init in itertools.product((False, True), repeat=n):
                if rule != "AnyOfMany" and sum(init) > 1:
                    continue
                for op in all_single_ops(n):
                    if op[0] == "S" and any(i >= n for i in op[1]):
                        continue
                    yield {"op": "sw", "rule": rule, "init": list(init), "ops": [op], "deaf": True}
