#!/usr/bin/env python
"""Control-flow skeletons of the functions the decision translator reads (tools/extract_decisions.py).

The translator turns ONE expression of a function into a Lean definition and a theorem says that this expression is the
model's decision.  That reading is only right while the expression still IS the whole decision - a behaviour-preserving
restructuring (an early `return True` before `return a == b`, a condition tested the other way round with the branches
swapped, guards with `continue`) leaves an expression that no longer means what the theorem says, and the theorem would
fail although nothing is wrong.  So a site is followed only while the enclosing function has the control-flow skeleton it had
when the site was curated (statement kinds and their nesting; expressions, names and constants are NOT part of it).  A
changed operator, operand or constant keeps the skeleton and is judged by the theorem; a restructured function is not
followed (`none`), and that site is then tied by the correspondence and the change-triggered search alone.

    python3 tools/decision_shapes.py --record      # recompute tools/decision_shapes.json from the working tree of the repository
"""
import ast
import hashlib
import json
import os

HERE = os.path.dirname(os.path.abspath(__file__))
PATH = os.path.join(HERE, "decision_shapes.json")


def skeleton(node):
    """statement kinds and nesting of a function / class body; nested function definitions count as one opaque statement each
    (they have their own sites)"""
    def stmts(body):
        out = []
        for s in body:
            if isinstance(s, ast.Expr):
                if isinstance(s.value, ast.Constant) and isinstance(s.value.value, str):
                    continue                                   # docstring
                out.append("Expr")
            elif isinstance(s, (ast.FunctionDef, ast.AsyncFunctionDef, ast.ClassDef)):
                out.append("Def")
            elif isinstance(s, ast.If):
                out.append(["If", stmts(s.body), stmts(s.orelse)])
            elif isinstance(s, (ast.For, ast.AsyncFor, ast.While)):
                out.append([type(s).__name__, stmts(s.body), stmts(s.orelse)])
            elif isinstance(s, ast.Try):
                out.append(["Try", stmts(s.body), [stmts(h.body) for h in s.handlers], stmts(s.orelse), stmts(s.finalbody)])
            elif isinstance(s, (ast.With, ast.AsyncWith)):
                out.append(["With", stmts(s.body)])
            else:
                out.append(type(s).__name__)
        return out
    return stmts(node.body)


def digest(node):
    return hashlib.sha256(json.dumps(skeleton(node)).encode()).hexdigest()[:16]


def load():
    try:
        return json.load(open(PATH))
    except Exception:  # noqa
        return {}


if __name__ == "__main__":
    import sys
    import extract_decisions as ED
    repo = os.environ.get("INDIPY_REPO", "/repo")
    shapes = {}
    for name, rel, modname, qual, kind, must, binder, ltype, env in ED.SITES:
        fn = ED.find_function(ast.parse(open(os.path.join(repo, rel), encoding="utf-8").read()), qual)
        shapes[name] = digest(fn) if fn is not None else None
    if "--record" in sys.argv:
        json.dump(shapes, open(PATH, "w"), indent=1, sort_keys=True)
        print("recorded %d shapes" % len(shapes))
    else:
        old = load()
        print({k: ("same" if old.get(k) == v else "DIFFERENT") for k, v in shapes.items()})
