"""Property table: which correspondence suites and Lean targets decide which property."""

PROPS = {
    "C20": {
        "suites": [("comp_codec", "gen_eq_cases")],
        "rule": "every message kind x optional-attribute subsets x child lists (exhaustive 0..2/3 children over a 2x2 alphabet, one longer list) x "
                "every single-point perturbation (attribute changed/dropped/added, text changed, child i changed/dropped/duplicated/swapped/appended, kind changed) "
                "and rebuilt copies, plus random deeper cases; long values (65-5000 characters) differing late at equal length in child text, child attributes and message attributes; "
                "a pair is non-trivial and distinct by its two wire views",
        "trusted_base": ["Python object -> wire view (harness.msg_view)"],
        "assumptions": ["messages are instances of registered classes built through their constructors (Msg.Built)"],
    },
}

PROPS["C13"] = {
    "suites": [("comp_codec", "gen_parse_cases"), ("comp_codec", "gen_parse_after_faults")],
    "rule": "every message kind: valid element, each attribute absent / replaced by each hostile value (wrong case, foreign vocabulary, Python-internal looking, "
            "arbitrary) and by every vocabulary constant; message text perturbed; odd attribute names (self, children, value, ...); children of every part kind, "
            "child text perturbed with hostile and number-like strings, child attributes dropped; unknown tags; plus random XML through expat; "
            "a case is distinct by the element handed to from_xml; characters that are digits for str.isdigit() but not for \\d",
    "trusted_base": ["xml.etree/expat produce the element the model is given (the model starts at from_xml)", "Python object -> wire view (harness.msg_view)"],
    "assumptions": ["Conformant (Spec/Msg.lean) is my reading of the INDI vocabulary: vocabulary-valued fields must be present and members; absent number text is allowed"],
}

PROPS["C04"] = {
    "suites": [("comp_router", "gen_c04"), ("comp_router", "gen_reentrant"), ("comp_conn", "gen_hostile")],
    "rule": "every subset (thorough: and order) of the devices {A, B, catch-all} x 0..3 registered clients; per state a sweep of every client-originated kind x device name "
            "{A, B, none, unknown} x every sender (nobody, each client, each device), enableBLOB from every sender incl. an unregistered one for every name and policy, "
            "unregister + resend; plus random histories up to 200 operations over 5 devices / 5 clients; a history is distinct by its operation list; re-entrant endpoints (scripted reactions sent from inside the handler) and the library's SnoopingClient among the clients",
    "exhaustive": False,
    "trusted_base": ["recording endpoints: Driver / Proxy subclasses with the real accepts()"],
    "assumptions": ["endpoints do not re-enter the router while a message is being fanned out (recording endpoints)"],
}
PROPS["C05"] = {
    "suites": [("comp_router", "gen_c05"), ("comp_router", "gen_reentrant")],
    "rule": "1..3 clients x policy assignments {unset, Never, Also, Only}^3 for device A (quick: 24 sampled assignments) x second device/whole-server policies; per state a sweep "
            "of every device-originated kind (incl. setBLOBVector, getProperties relay) x device name x sender; change of mind, unregister, enableBLOB while unregistered, re-register; "
            "plus random histories up to 200 operations; a history is distinct by its operation list; re-entrant endpoints whose nested messages differ in BLOB-ness and direction from the outer one",
    "trusted_base": ["recording endpoints"],
    "assumptions": ["endpoints do not re-enter the router while a message is being fanned out (recording endpoints)"],
}

PROPS["C09"] = {
    "suites": [("comp_switch", "gen_cases")],
    "rule": "3 rules x 1..4 (thorough: 5) switches x every initial configuration x every single operation (assignment On/Off via value or bool_value, client write naming one, "
            "two (every ordered pair, every value pair), all, none or an unknown switch, selected_value(s) of one, two, all, none) each on a fresh real Driver, so every transition of the "
            "reachable state graph is compared; plus random operation sequences; distinct by (rule, state before, operation); every state a Write/Change handler can observe during an operation; client writes refused by a vetoing Write handler",
    "exhaustive": True,
    "trusted_base": ["published messages observed through a recording router client"],
    "assumptions": [],
}

PROPS["C02"] = {
    "suites": [("comp_buf", "gen_c02"), ("comp_buf", "gen_c02_constants"), ("comp_xml", "gen_session"), ("comp_xml", "gen_transport")],
    "rule": "one message of every kind in two sizes, text with > < & quotes non-ASCII ]]> in 6 XML spellings (library to_string, compact, indented, single quotes + reversed attributes, "
            "explicit empty elements + raw '>' in text + declaration in single quotes, attributes on separate lines + CRLF); per stream all 1-cut partitions, all 2-cut partitions when "
            "short (sampled otherwise), character-by-character, whole; thresholds {exactly fitting, one below (outside the hypothesis), 2048, disabled}; sequences of 2-5 messages with random "
            "k-cuts and cuts at/around every message boundary; distinct by (threshold, partition); vectors without children; message sizes around every integer constant found in the framing/transport source (threshold disabled, stream described by lengths); the same streams through the buffer model with the character-level model parser",
    "trusted_base": ["the parser parameter of the model is the table of substrings the real parser accepts (tools/comp_buf.build_table)"],
    "assumptions": ["(A1) whatever parses contains the opener of a registered tag; spellings without CDATA/comments containing openers"],
}
PROPS["C11"] = {
    "suites": [("comp_buf", "gen_c11"), ("comp_buf", "gen_c11_many"), ("comp_xml", "gen_session")],
    "rule": "valid messages truncated at every position followed by valid traffic; junk assembled from protocol fragments (known/unknown openers and closers, attributes, quotes, "
            "< > &, comments, CDATA, declarations, NUL, Latin-1, entity references) interleaved with valid and truncated messages and random bytes; long junk beyond every threshold "
            "then valid messages; x random fragmentations x thresholds {16, 128, 2048, disabled}; watchdog on every process(); distinct by (threshold, partition); the same streams through the buffer model with the character-level model parser (no table)",
    "trusted_base": ["table parser as for C02", "step/time watchdog (10 s, 10000 callbacks) stands for 'terminates' on the implementation side"],
    "assumptions": ["resynchronisation is proved for a corrupt prefix in the sense of Spec.Buf2.Corrupt (nothing starting inside it is ever a complete XML document) followed by a valid "
                    "stream longer than the threshold; junk that completes into well-formed XML across the boundary is compared with the model only"],
}

PROPS["C10"] = {
    "suites": [("comp_num", "gen_render"), ("comp_num", "gen_parse"), ("comp_num", "gen_history")],
    "rule": "render: the resolution grid of %.3m on [-360,360] (thorough: the complete grids of %.3m %.5m %.6m, dense random sub-grids of %.8m %.9m), values half a unit around every "
            "field carry, (-1,0), +-1e9, printf formats %[flags][width][.prec]{d,f} (13 common + sampled combinations) x interesting and random values; parse: every string over "
            "'-+0159.:; ' up to length 4 (thorough 6), random strings of the 8-alternative grammar with all separators, signs, padding, and a list of hostile texts (non-ASCII digits, "
            "exponents, 400-digit numbers); distinct by (format, exact value) / text",
    "trusted_base": ["floats travel as exact integer ratios (float.as_integer_ratio)"],
    "assumptions": ["binary64 arithmetic of CPython is IEEE-754 round-to-nearest-even (Arith.fl); |x| <= 1e9 for the resolution claim"],
}

PROPS["DEVTEST"] = {"suites": [("comp_dev", "gen_cases")], "rule": "dev model bring-up"}
PROPS["C07"] = {
    "suites": [("comp_dev", "gen_c07")],
    "rule": "random driver definitions (1-3 groups, all five vector kinds, three switch rules, printf and sexagesimal formats, disabled groups/vectors/elements, BLOBs set/unset, "
            "duplicate property names) x states reached by bounded random histories (assignments, state changes, enable/disable, client writes) x a getProperties request for every existing "
            "property name, absent, empty and unknown names; every message emitted in any operation is serialised and re-parsed by the real library; distinct by (device state, operation list)",
    "trusted_base": ["messages observed through a recording router object"],
    "assumptions": ["well-formed definitions (Spec.Dev.WF); BLOB values carry a format string (devFormats/opFormats: extra hypotheses of C07_emitted_valid)"],
}
PROPS["C12"] = {
    "suites": [("comp_dev", "gen_c12"), ("comp_router", "gen_c04"), ("comp_conn", "gen_hostile")],
    "rule": "driver level: the fault catalogue (unknown device/property/element, every vector kind mismatch incl. light targets, invalid switch/number/base64 text, wrong/missing/odd BLOB "
            "sizes, no children, duplicate children, valid+invalid+valid children, message kinds a client should not send) against one property of every kind, each fault between valid "
            "messages of a session, with and without handlers; plus random definitions with 70% hostile traffic; distinct by (device state, operation list); BLOB format strings incl. the compressed-payload suffix .z; odd getProperties versions and other free-text attributes at the connection level",
    "trusted_base": ["messages rejected by the message constructors never reach a driver (they are the conn component's subject)"],
    "assumptions": ["driver definitions are well-formed (Spec.Dev.WF: valid states/permissions/rules, number formats of C10's family, distinct property names)"],
}
PROPS["C14"] = {
    "suites": [("comp_dev", "gen_c14"), ("comp_nested", "gen_cases"), ("comp_nested", "gen_two_instances")],
    "rule": "handler configurations 0-2 Write and 0-2 Change handlers per element, plain and coroutine, vetoing or not, on elements of every kind; write sequences with changing and "
            "unchanged values via client message, set_value() and direct assignment, on enabled and disabled properties; distinct by (device state, operation list); handlers that assign from inside a Change handler (own element or sibling, all element kinds); @on-declared handlers of a driver class instantiated 1-3 times",
    "trusted_base": ["instrumented handlers record (id, event, payload, element._value); coroutine handlers run on a real asyncio loop after the operation"],
    "assumptions": ["what a coroutine handler sees when it eventually runs is not part of the contract; Read handlers are modelled by their effect (refresh) only"],
}
PROPS["C15"] = {
    "suites": [("comp_cli", "gen_c15"), ("comp_xml", "gen_transport"), ("comp_sys", "gen_c08_burst"), ("comp_sys", "gen_c01_reannounce")],
    "rule": "random streams of def*/set*/delProperty/message/ping/getProperties/new*/enableBLOB over 3 device x 3 property x 4 element names and all five kinds (redefinition, partial "
            "updates, kind mismatches, unknown targets, empty and absent BLOB payloads, duplicate children, whole-device deletion; 5% ill-formed BLOB children as a separate stream); "
            "distinct by message list",
    "trusted_base": ["the mirror is read through the public API (list_devices, device.vectors, vector.elements, .state/.value/.label/.group/...)"],
    "assumptions": ["well-formed stream: BLOB payloads decodable with consistent size (Spec.Cli.streamOk); ill-formed ones are compared with the model only"],
}
PROPS["C16"] = {
    "suites": [("comp_cli", "gen_c16"), ("comp_nested", "gen_inflight")],
    "rule": "streams as in C15 interleaved with onevent/rmonevent (by id, by any subset of criteria incl. callback identity with bound methods, remove-all) at arbitrary points; callbacks plain, "
            "coroutine, raising; exhaustive filter combinations {absent, matching, non-matching}^3 x 4 event types on a fixed stream; a catch-all callback's log feeds the chain oracle; "
            "distinct by operation list; callbacks of every kind (plain/coroutine x raising or not) in every registration order; a callback removing a later-registered callback while an event is in flight",
    "trusted_base": ["callbacks are bound methods of recorder objects; coroutine callbacks run on a real asyncio loop"],
    "assumptions": ["removal happens between messages, not from inside a callback (the quantifier's reading)"],
}
PROPS["C17"] = {
    "suites": [("comp_wait", "gen_cases")],
    "rule": "virtual-time grid 1..9: one batch at every instant (matching, non-matching, mixed batches of up to 4 events) x timeout {none, 3, 6} (ties with the timeout instant excluded) x "
            "polling {off, (1,2), (2,3), (3,1)} x condition kind {check, expect, initial} x event kind {value, state}; random multi-batch streams with 1-3 concurrent waits; concurrent "
            "waits released by the same event; distinct by (kinds, configuration, batches, number of waits); several concurrently polling waits on the same property (their getProperties must be the merge of their own schedules)",
    "trusted_base": ["tools/vloop.py: SelectorEventLoop subclass with a virtual clock; timers due at the same instant fire in creation order; event batches are call_at callbacks created before the waits"],
    "assumptions": ["asyncio's Event/task/timer semantics as recorded in DESIGN.md section 5 (L2g): modelled, tied by running the real coroutine on the virtual loop"],
}
PROPS["C19"] = {
    "suites": [("comp_send", "gen_cases"), ("comp_send", "gen_constants")],
    "rule": "exhaustive: every schedule (sequence over {route next message, complete the oldest pending I/O of connection i}) up to length 6-8 with at most 4 routed messages, for one TCP "
            "server connection, the TTY channel, the client connection, and pairs; random: bursts of 1-5 messages to 1-3 connections of mixed transports with one connection possibly "
            "never completing; after each action the loop runs until idle; distinct by (connections, schedule); after every schedule all outstanding I/O is completed and everything routed must have left",
    "exhaustive": True,
    "trusted_base": ["fake StreamWriter (write appends, drain completes on command) and fake aiofiles stdout (a write takes effect when its job is released): tools/comp_send.py"],
    "assumptions": ["asyncio task FIFO start order and Lock FIFO fairness (modelled, tied by running the real handlers); real sockets and the real thread pool are not exercised"],
}
PROPS["C18"] = {
    "suites": [("comp_conn", "gen_cases")],
    "rule": "session scripts of 2-3 concurrent connections on both server transports (TCP handler, TTY handler; handshake, enableBLOB, client writes, device traffic incl. BLOB updates) "
            "x fault {EOF, read error, EOF inside a message, junk then EOF, exception in a device while the connection's message is handled} on every connection at every step index "
            "(quick: half of the positions, sampled), followed by more device traffic and a reconnecting peer; write error on a peer; hostile client messages at several positions; "
            "distinct by the router-operation rendering of the script; a peer resetting its receiving side while the server still reads; a write side failing for good followed by every read-side ending; the whole session also through the connection model (Model/Conn.lean)",
    "trusted_base": ["fake StreamReader/StreamWriter and fake aiofiles stdin/stdout (tools/comp_conn.py)"],
    "assumptions": ["that every way of ending funnels into close()+unregister is handler control flow: tied by the correspondence, not proved; real sockets are not exercised"],
}
PROPS["C03"] = {
    "suites": [("comp_wire", "gen_cases"), ("comp_codec", "gen_toxml_cases"), ("comp_xml", "gen_msg"), ("comp_xml", "gen_ser"), ("comp_xml", "gen_parse")],
    "rule": "all 22 message kinds x optional-attribute subsets (thorough: all subsets) x 0,1,2,4 children x attribute and text values over markup characters, both quotes, BMP and astral "
            "code points, inner whitespace, newlines and tabs (attributes also with surrounding whitespace; label equal to name) through the real to_string/from_string, the re-serialisation, "
            "and five foreign spellings (compact, indented, single quotes + reversed attributes, explicit empty elements + raw '>', attributes on separate lines + CRLF); random messages; "
            "distinct by wire view; character level: ElementTree's writer and expat against the model on library output, foreign spellings, every truncation, every code-point class, grammar-based documents, mutations",
    "trusted_base": ["ElementTree's writer and expat are modelled at the character level (Model/Xml.lean) and tied by the xml correspondence; inputs outside the modelled fragment are answered 'unsupported' and not compared"],
    "assumptions": ["carriage return and leading/trailing whitespace of text values are excluded (the property's own exclusions)"],
}
PROPS["C01"] = {
    "suites": [("comp_sys", "gen_c01"), ("comp_sys", "gen_c01_lag"), ("comp_sys", "gen_c01_burst"), ("comp_sys", "gen_c01_reannounce"), ("comp_num", "gen_history")],
    "rule": "whole deployments in one process: 1-3 generated drivers (1-3 groups, all five vector kinds, all switch rules, printf and sexagesimal formats, initially enabled/disabled groups "
            "and vectors, one driver optionally built through an inheritance chain of depth 2-3) + real Router + real server TCP handlers + fragmenting byte pipes (1024 / 1 byte / random) + "
            "real client handlers + Client (control + BLOB connection) and in-process SnoopingClients; random histories of driver operations (assign, set_value, state, enabling of "
            "vectors and groups) and client operations (assign+submit, handshake); after EVERY operation and quiescence each client mirror is judged against each driver by Spec.Sys.synced, "
            "and the observed step is checked to be one the Lean deployment model allows (Sys.nextOk); distinct by operations x fragmentation x clients; slow peers (back-pressure) with bursts of operations at every phase of the sender-lock hand-over",
    "trusted_base": ["in-memory pipes and quiescence detection (tools/comp_sys.py); encoders of live drivers and mirrors (comp_dev.enc_device, comp_cli.enc_mirror)"],
    "assumptions": ["operations are separated by quiescence: re-ordering between the control and the BLOB connection is explored within one operation's batch only (model: all interleavings)",
                    "a client that did not enable BLOBs is not sent setBLOBVector (protocol): of a BLOB property it is required to know the definition, not the updates"],
}
PROPS["C06"] = {
    "suites": [("comp_sys", "gen_c06"), ("comp_sys", "gen_c06_pending"), ("comp_sys", "gen_c06_subsets"), ("comp_sys", "gen_c06_misaddressed")],
    "rule": "generated multi-device deployments (as for C01, every property enabled) x random (client, device, property, non-empty element subset) targets x values of the element's domain "
            "(texts with markup, quotes, non-ASCII, inner whitespace; numbers in plain decimal and sexagesimal notation with all three separators; both switch states; byte strings) x "
            "fragmentation {1024, 1, random}; before/after snapshots of EVERY driver judged by Spec.Sys.c06Holds, the writer's mirror by Spec.Sys.synced, the step by Sys.nextOk; values assigned, then traffic changing the same elements (driver, second client), then submit",
    "trusted_base": ["in-memory pipes and quiescence detection (tools/comp_sys.py); encoders of live drivers and mirrors"],
    "assumptions": ["switch elements not named in the write may change under the property's rule (C09 decides how)"],
}
PROPS["C08"] = {
    "suites": [("comp_sys", "gen_c08"), ("comp_sys", "gen_c08_burst"), ("comp_buf", "gen_c02_constants"), ("comp_num", "gen_b64"), ("comp_router", "gen_c05")],
    "rule": "byte strings of every length 0..39 and around the 1024-byte read size and the 2048-character threshold (thorough: every 13th length up to 3100, all of 700..800 and 1500..1560, "
            "100 kB and 1 MB), random contents and all 256 byte values, formats {.fits, .x, empty} x fragmentation {1024, 1, random} x clients {network (BLOB connection Only), network with "
            "Also on the control connection, in-process snooping client (Never)} x direction (driver publishes; client uploads), each followed by ordinary traffic that must still arrive; "
            "a watchdog turns a hang into a failure; base64 codec: every 1-byte and 2-byte string, lengths 0..69 and around 1024/1536/2048, every text over a 14-character alphabet up to "
            "length 4 (thorough 5), malformed paddings, compared with binascii; 70-200 kB frames followed at once by more traffic to a slow peer; a driver refilling one BLOB object (same length, longer, shorter, empty)",
    "trusted_base": ["in-memory pipes, quiescence detection and watchdog (tools/comp_sys.py, harness.time_limit)"],
    "assumptions": ["real sockets and the kernel's buffering are not exercised"],
}
PROPS["SYSTEST"] = {"suites": [("comp_sys", "gen_c01"), ("comp_sys", "gen_c06"), ("comp_sys", "gen_c08")], "rule": "sys bring-up"}
PROPS["CLITEST"] = {"suites": [("comp_cli", "gen_c15"), ("comp_cli", "gen_c16")], "rule": "cli bring-up"}
PROPS["C12TEST"] = {"suites": [("comp_dev", "gen_c12")], "rule": "c12 bring-up"}

MANIFEST_TEXT = {
    "C20": {
        "text": "Kernel-checked theorem C20 (lean/Indi/Properties/C20.lean): for every class table passing the decidable well-formedness check, and every two constructed "
                "messages of any size, the model of __eq__/to_dict returns True exactly when the wire views (kind, all attributes, text, complete ordered children) are equal; "
                "instance obligation on the table regenerated from /repo discharged by decide +kernel on every run. The model is tied to base.py by a differential "
                "correspondence over all kinds x all single-point perturbations (exhaustive for short child lists; long values differing late, at equal length), with the Lean spec (view equality) as oracle on the real ==.",
        "note": "Trusted: Lean kernel + propext/Classical.choice/Quot.sound; tools/extract.py (constructor tables probed from live classes); harness.msg_view (object -> wire view); "
                "the theorem speaks about messages built through registered constructors (Msg.Built).",
        "technique": "Lean 4 theorem (to_dict injectivity, induction over children) + regenerated class table + differential correspondence",
    },
    "C13": {
        "text": "Kernel-checked theorem C13 (lean/Indi/Properties/C13.lean): for ALL XML elements x, if the model of IndiMessage.from_xml over the class table regenerated from /repo "
                "returns a message, that message satisfies Spec.conformant (hand-written INDI vocabulary: state/perm/rule/switch/light/BLOB-enable members, required attributes present, "
                "children of the required kind, number syntax). Generic theorem fromXml_conformant for any table passing the decidable check regConf; the instance on the generated table is "
                "re-decided by the kernel on every run. Tied to the code by the probing translator and a differential correspondence over the quantifier's systematic perturbations and random XML, "
                "with Spec.conformant evaluated in Lean on what the real parser returned as oracle.",
        "note": "Trusted: Lean kernel + standard axioms; tools/extract.py probes constructors over a finite universe of values (strings outside it are covered by the correspondence only); "
                "expat/ElementTree are not modelled here (the model starts from the parsed element); the number recogniser is hand-written for the regular expressions of checks.number and tied to them by the correspondence; a pin on the literals (Properties/Pins.lean) is a change detector that escalates the search, not an obligation.",
        "technique": "Lean 4 generic theorem over class tables + decide +kernel instance on the regenerated table + differential correspondence",
    },
    "C04": {
        "text": "Kernel-checked theorems (lean/Indi/Properties/C04.lean) over ALL histories of register/unregister/send operations: process_deliveries (the model of Router.process_message "
                "delivers exactly Spec.expected), C04_devices (a client-originated message reaches device i iff i is a registered device, not the sender, accepting the name), "
                "C04_device_order, deliveries_nodup (exactly once under the no-double-registration precondition), C04_not_to_sender, C04_clients_only_if_fromDevice, and the table obligations "
                "that getProperties is the only relayed client kind (decide +kernel on the regenerated class table). Correspondence: real Router with recording Driver/Proxy endpoints over "
                "every registration state of the bounded universe and random long histories, with the library's own SnoopingClient among the endpoints, and endpoints that send from inside their handler; "
                "oracle = Spec.expectedTrace / expectedTraceR computed in Lean from the history alone.",
        "note": "Trusted: Lean kernel + standard axioms; class flags from tools/extract.py; Driver.accepts modelled as `no name or same name`, catch-all as Proxy.accepts (tied by correspondence only); "
                "re-entrant delivery (an endpoint sending from inside its handler, which every real driver does) is modelled separately (Model/RtrR.lean) with its own theorems (Properties/C05b.lean) and suite; "
                "Driver.accepts and the router's per-device test (not the sender, accepts the name) are regenerated from the source on every run and proved equal to the model's (Properties/Dec/Router.lean: driverAccepts_agrees, routerToDevice_agrees); "
                "router_process_from_source: the loop skeleton of process_message with the source's own three conditions plugged in computes exactly Rtr.process, for every state, message and sender.",
        "technique": "Lean 4 refinement proof (router state vs history function) + regenerated class flags + differential correspondence",
    },
    "C05": {
        "text": "Kernel-checked theorems (lean/Indi/Properties/C05.lean) over ALL histories: policy_refinement (blob_routing lookup = history function policyOf: most recent accepted enableBLOB "
                "since last registration, else Never), C05_clients (device message reaches client c iff registered, not sender, allows(policy, isBlobUpdate)), allows_table, C05_frame "
                "(independence between clients and between devices), C05_enable_takes_effect, C05_reregister_resets, clients_are_registered, deliveries_nodup; "
                "Properties/C05c.lean: with the router's default policy as a parameter (DEFAULT_BLOB_POLICY is a class attribute an application may override) the policy table reached by ANY history does not depend "
                "on the default (runD_independent) and a client with its own setting for a device is delivered that device's messages under one default iff under any other (C05_explicit_independent_of_default) - "
                "judged on the real Router by running every history on a plain Router, a subclass and an instance with other defaults. Correspondence over all policy "
                "assignments of the bounded universe x every device-originated kind, unregister/re-register, and random long histories; oracle = Spec.expectedTrace in Lean.",
        "note": "Trusted: Lean kernel + standard axioms; class flags and default policy from tools/extract.py; recording endpoints; the delivery condition itself is hand-modelled (deliverCond) "
                "and proved equal to the specification table `allows` for all 6 cases; the condition in router.py and the class test behind is_blob are ALSO translated from the source on every run "
                "(Generated/Decisions.lean) and proved equal to the model's on the whole domain (Properties/Dec/Router.lean: routerDeliver_agrees, routerIsBlob_agrees, routerToClient_agrees, router_process_from_source - the skeleton of process_message with the source's conditions plugged in IS the model): a mutated operator or constant breaks a named theorem. "
                "Re-entrant delivery: Properties/C05b.lean (procR_no_reactions, procR_deliveries_allowed, procR_isBlob_own, traceR_deliveries_allowed: whatever the nesting, every client delivery was decided "
                "with the delivered message's own BLOB-ness and a policy that allows it).",
        "technique": "Lean 4 refinement proof (blob_routing vs history function) + differential correspondence",
    },
    "C09": {
        "text": "Kernel-checked theorems (lean/Indi/Properties/C09.lean) for ANY number of switches, ANY configuration and ANY operation sequence: assignAt_le_one / C09_at_most_one "
                "(AtMostOne, OneOfMany: at most one On in every state and every published snapshot), assignAt_eq_one / C09_exactly_one (OneOfMany keeps exactly one), "
                "assignAt_anyOfMany_frame / C09_any_of_many (only the named switch changes), C09_on_stays_on; lifted to client writes naming several switches, selected_value(s) and whole "
                "histories by induction (run_inv). The model (Switch.assignAt = apply_rule + store + publish) is tied to vectors.py/elements.py by an exhaustive transition-by-transition "
                "correspondence on real Driver instances; oracle = Spec.Switch.holds evaluated in Lean on the observed before/snapshots/after.",
        "note": "The oracle also judges every state a Write/Change handler can observe during an operation, and writes refused by a vetoing Write handler (nothing may change). "
                "The five conditions of SwitchVector.apply_rule are translated from the source on every run (Generated/Decisions.lean) and switch_assign_from_source (Properties/Dec/Switch.lean) proves that the skeleton of an assignment with those conditions plugged in equals the model's assignAt for every rule, vector, element and value. "
                "Every 4th case also runs with the library's loggers at DEBUG (ambient dimension). Trusted: Lean kernel + standard axioms; the correspondence harness; only enabled vectors publish (disabled properties are C07's subject).",
        "technique": "Lean 4 transition invariants + induction over operation sequences + exhaustive transition correspondence",
    },
    "C02": {
        "text": "Kernel-checked theorem C02_abstract (lean/Indi/Properties/C02.lean), for an ARBITRARY parser, tag list and threshold (enabled or disabled): feed any list of pieces whose "
                "concatenation is a prefix of an admissible stream (opener-free junk gaps, bodies that start with a known opener, parse, have no parsing proper prefix, fit the threshold); "
                "the concatenated deliveries are exactly the messages whose last character has arrived - so each message is delivered once, in order, at the call following its last "
                "character, for every partition (C02_fragmentation_independent). Proof: cleanup absorbs, one-shot lemma, session invariant (869 lines, Proofs/Buf.lean). Instance obligations: "
                "no registered tag contains '<', thresholds 2048/None (decide on regenerated tables). CONCRETE level (Properties/Wire.lean, Proofs/Xml*.lean, ~1 400 lines): over the character-level "
                "model of the wire format (Model/Xml.lean: ElementTree's writer; expat + tree builder as a character-driven automaton with a stack) the library's own serialisation of EVERY valid "
                "wire-safe message is proved an admissible encoding for the library's own parser (admissible_serElem: it parses to the normal form, NO proper prefix of it is a complete document - "
                "parseDoc_prefix -, it starts with its registered opener and ends with a non-'>' character before '>'), whatever parses contains a registered opener (parseMsg_needsOpener), the XML "
                "declaration and newline between messages contain no opener (decide +kernel on the regenerated bytes); hence C02_wire / C02_wire': for ANY list of valid messages whose to_string() "
                "fits the threshold (any length when disabled) and ANY partition of the concatenated bytes, the buffer model with the model parser delivers exactly the normal forms of the messages "
                "whose last character has arrived, in order, once. FOREIGN SPELLINGS (Spec/XmlSpell.lean, Proofs/SpellRT.lean, Proofs/SpellMsg.lean, Properties/Spellings.lean): a writer parametrised by a "
                "spelling style (either quote style, white space before attributes / around '=' / before '>' / in end tags, <t></t> or <t/>, indentation before children and before the end tag, raw '>' "
                "in text, reversed attribute order); run_spellElem / parseDoc_spell - the parser automaton reads EVERY such spelling of every acceptable element back as a specified element; "
                "fromXml_spelled - that element is read by from_xml as the same message (constructors look keywords up by name; white space before the first child is swallowed - a decidable fact "
                "about the regenerated class table); parseDoc_spell_prefix - no proper prefix of a spelling is a complete document; admissible_spelling; C02_spelled_stream - ANY stream of valid messages, "
                "each in ANY spelling and preceded by ANY opener-free junk (declaration or not), under ANY fragmentation, is delivered exactly, in order, promptly. CONNECTION level (Properties/C02b.lean): recv_fragmentation_independent_ops/_router/_wf - a served connection of the server model (Model/Conn.lean: receive loop, buffer, parser, router) that is sent the to_string() bytes of ANY list of valid messages cut into ANY reads hands the router exactly the same operations in the same order, and ends in the same server state, as for a single read (the state claim needs distinct connection ids - kernel-checked counterexample without). Tied to buffer.py by a differential correspondence in which the model runs with the table "
                "of substrings the real parser accepts; oracle = Spec expectedCalls computed in Lean after checking StreamOk on the case.",
        "note": "Trusted: Lean kernel + standard axioms; the character-level model is tied to ElementTree/expat by the xml correspondence (ET.fromstring vs Xml.parseDoc on library output, five "
                "foreign spellings, every truncation, grammar-based documents, mutations, word salad, every code-point class raw and as reference; ET.tostring vs Xml.serElem; Buffer with the real "
                "parser vs the buffer model with the MODEL parser on the C02/C11 streams); inputs outside the modelled fragment (DOCTYPE, namespaces, non-ASCII names, encoding declarations) are "
                "answered 'unsupported', counted and not compared. Spelling styles outside the parametrised writer (comments or processing instructions inside the element, CDATA sections, character references for ordinary characters) are "
                "Admissible per case (executable streamOkB) only; tools/comp_buf.build_table.",
        "technique": "Lean 4 proof by induction (well-founded process loop, session invariant) for an abstract parser, instantiated by theorem with a character-level automaton model of expat/ElementTree + differential correspondence (table-instantiated parser and model parser)",
    },
    "C11": {
        "text": "Kernel-checked theorems (lean/Indi/Properties/C11.lean) for ANY text, ANY parser: processLoop is total (termination proof, measure = retained length) with no error outcome; "
                "C11_bounded (retained length <= threshold whenever enabled), C11_genuine (only parser results are delivered, never None), C11_retained_suffix, "
                "C11_junk_delivers_nothing, C11_long_junk_transparent (opener-free junk of ANY length, also beyond the threshold, never prevents or delays the messages around it), "
                "C11_resync (after a corrupt prefix every message of the following valid stream is delivered, in order, once that stream exceeds the threshold). Correspondence against buffer.py over junk assembled from protocol "
                "fragments, truncations at every position and long junk, all thresholds, with a watchdog; oracle c11Holds in Lean on the observed calls.",
        "note": "Trusted: Lean kernel + standard axioms; the per-case executable checks streamOkB/corruptB decide whether a theorem's hypotheses hold for the real parser on that case; "
                "wall-clock hang-freedom of CPython/expat is represented by the watchdog only. The abstract theorems hold for ANY parser, in particular for the character-level model "
                "parser (Model/Xml.lean), which the xml session suite runs inside the buffer model against the real Buffer + expat on the same junk streams.",
        "technique": "Lean 4 termination proof + invariants over the process loop + differential correspondence with watchdog",
    },
    "C10": {
        "text": "Kernel-checked theorems (lean/Indi/Properties/C10.lean, 1250 lines of lemmas in Proofs/Num.lean) for EVERY format of the family and EVERY rational value: "
                "C10_render_valid (whatever num_to_str renders is accepted by the validator), C10_sexa_denotes / C10_f_denotes / C10_d_denotes (the text denotes the value within one unit "
                "of the last place under an independent INDI reader - sign on the whole magnitude; |x| <= 1e9 for sexagesimal), C10_parse_denotes (every text the validator grammar accepts is "
                "parsed: integers exactly, everything else to the correctly rounded value it denotes), C10_sexa_roundtrip. Floating point enters through an abstract Arith with relative "
                "error 2^-53; exact arithmetic is an instance, and so is the model's own binary64 rounding (exactIEEE_accurate, Properties/C10b.lean: round-to-nearest-even in the normal "
                "range has relative error <= 2^-53), giving C10_sexa_roundtrip_ieee for the model exactly as it runs in the correspondence; the protocol's sexagesimal table is pinned "
                "(sexa_table_pinned, re-decided on the regenerated table every run). Correspondence: exact-rational comparison with values.py/checks.py on resolution grids, carry neighbourhoods and all short "
                "strings over the number alphabet (4.5 million cases in the thorough tier); oracle renderHolds/parseHolds in Lean on the implementation's output.",
        "note": "Trusted: Lean kernel + standard axioms; that CPython's float(str) and float(Fraction) round as the model's flIEEE does (tied by the exact-ratio correspondence only); formats outside %[flags][width][.prec]{d,f} and %w.{3,5,6,8,9}m are outside the model; values beyond binary64's "
                "normal range are excluded.",
        "technique": "Lean 4 proofs over exact rationals with an abstract rounding function + exact-ratio differential correspondence",
    },
    "C12": {
        "text": "Kernel-checked theorems (lean/Indi/Properties/DevA.lean, C12.lean; 1130 lines of lemmas): for every well-formed driver state and EVERY client message: C12_no_raise "
                "(message_from_client raises nothing), C12_frame (only elements validly named by the message's children - plus switch siblings under the rule - change; no flag, state or other "
                "property changes), step_wf (every operation preserves well-formedness), C12_session (so after any hostile prefix later messages are handled normally). Router part: the "
                "model of process_message is total (C04/C05). Correspondence: real Driver instances against the systematic fault catalogue; oracle c12Holds in Lean on observed before/after.",
        "note": "Connection level: Model/Conn.lean composes framing (Buf), the character-level parser (Xml), from_xml and the router with the handler's control flow; Properties/C18b.lean proves "
                "C12_any_bytes_keep_serving (ANY bytes on a connection - complete, partial, hostile or junk elements - leave it served and registered as long as no device raises), serving_stays, "
                "retained_bounded; tied by the conn suite (real TCP/TTY handlers, hostile traffic incl. odd handshake versions and BLOB formats). User handler bodies are not modelled. "
                "Trusted: Lean kernel + standard axioms; harness.",
        "technique": "Lean 4 invariant (well-formedness) + totality/frame theorems over all messages + fault-catalogue correspondence",
    },
    "C14": {
        "text": "Kernel-checked theorems C14_write, C14_assign (lean/Indi/Properties/DevA.lean): for every device, element, handler configuration and value, an accepted set_value()/assignment "
                "produces exactly the trace of the contract Spec.Dev.writeContract (each Write handler once with the requested value - plain ones seeing the old value, coroutines as tasks; "
                "veto => nothing stored/published; else stored, one update iff the property is enabled, Change handlers once with (old,new) iff changed, numerically for numbers, by content "
                "for BLOBs). Correspondence on real drivers with instrumented handlers on an asyncio loop; oracle c14Holds in Lean.",
        "note": "Handlers that assign from inside a handler are judged per assignment by Spec.Dev.nestedHolds (oracle only: the driver model has no re-entrant handlers); handlers declared with @on on a "
                "driver class instantiated several times are judged by call counts. Partial: task start order is asyncio's FIFO (observed, not proved); Read handlers are modelled by their refresh effect (a definition of a BLOB property reads no value: Dev.refreshDef) and "
                "judged on the real drivers by what every published set* message shows for an element with a refreshing Read handler (all element kinds but numbers). The default step of set_value (unless vetoed) and the guard of to_set_message (no update while not enabled) are translated from the source and tied to the model (Properties/Dec/Driver.lean). "
                "Trusted: Lean kernel + standard axioms; harness.",
        "technique": "Lean 4 trace-equality theorem against a contract generator + instrumented-handler correspondence",
    },
    "C15": {
        "text": "Kernel-checked theorems (lean/Indi/Properties/C15.lean): C15_step (on every mirror and every well-formed message the model of process_message equals the reference interpreter "
                "refStep of the INDI client rules and raises nothing), C15_stream (lifted to every stream by induction), MirrorWf_step. Correspondence on a real BaseClient through the public API; "
                "oracle c15Holds (refStep) in Lean.",
        "note": "Wire level (foreign spellings, fragmentation) is C02/C03's subject and composed in the sys component; ill-formed BLOB children are outside C15's streams. Trusted: kernel, harness.",
        "technique": "Lean 4 functional refinement to a reference interpreter + differential correspondence",
    },
    "C16": {
        "text": "Kernel-checked theorems (lean/Indi/Properties/C15.lean): C16_events (events = the changes the message makes), C16_deliveries / C16_only_registered / C16_removed (each callback "
                "exactly for the events matching its four filters while registered), C16_changed_only, C16_chain + C16_old_is_previous_new (for every element the last announced value is the "
                "current value, each update event's old value is the previously announced one: the unbroken chain), for all streams and registration schedules. Correspondence with bound-method, "
                "coroutine and raising callbacks; oracles c16Holds (registry computed by the spec from the onevent/rmonevent history) and chainInv on the catch-all log, in Lean.",
        "note": "rmonevent from inside a callback: removing a LATER-registered callback while an event is in flight is judged (Spec.Cli.inflightHolds: it never sees that event); removing an earlier or "
                "the running one is outside the quantifier (DESIGN section 9). The filter expression of accepts_event is regenerated from the source and proved equal to the model's "
                "(callbackAccepts_agrees). Trusted: kernel, harness.",
        "technique": "Lean 4 invariant over event logs + filter semantics theorems + differential correspondence",
    },
    "C07": {
        "text": "Kernel-checked theorems (lean/Indi/Properties/DevB.lean; 2400 lines of lemmas): C07_response (for every well-formed driver state and every getProperties request the "
                "definitions published are exactly one per enabled, wanted property in definition order - listing the enabled elements, current values, numbers as the format renders them, "
                "and the metadata - and nothing else but delProperty notices for disabled properties), C07_emitted_valid (every message emitted by ANY operation is read back unchanged up to "
                "normalisation by the model of the library's parser over the regenerated class table; number text validity is proved, not assumed). Correspondence on real drivers; oracles "
                "c07Holds in Lean, the real parser's re-read compared by norm equality in Lean, and Spec.Dev.flagsHold: which groups and properties are enabled is what the driver's code last assigned - "
                "a function of the operation history alone; flags_follow_history (Properties/C07b.lean) proves that the driver model satisfies that specification after EVERY operation sequence on EVERY device (raising operations and out-of-range addresses included).",
        "note": "C07_emitted_valid carries two extra hypotheses found by the proof attempt: stored and incoming BLOB values have a format string (values.BLOB(b, None) makes the driver emit a "
                "oneBLOB its own parser rejects; recorded in DESIGN.md as usage outside the property). The XML character level is C03's subject. Vector.enabled (own switch AND the group's) is translated from the source on every run and proved equal to the model's (Properties/Dec/Vector.lean). "
                "Drivers are also built by subclassing (base class declaring the first groups, instantiated on its own first). The guards of to_def_message (delProperty while not enabled) and of message_from_client (all properties for an absent/empty name) are translated from the source and tied to the model (Properties/Dec/Driver.lean). Trusted: kernel, translator, harness.",
        "technique": "Lean 4 theorems over the driver model and the regenerated class table + differential correspondence with re-parse by the real library",
    },
    "C01": {
        "text": "Kernel-checked theorems (lean/Indi/Properties/C01.lean, ~4 800 lines of lemmas in Proofs/Sys*.lean) over the Lean deployment model (Model/Sys.lean: drivers, router fan-out with "
                "BLOB policy, wire = fromXml . toXml over the class table regenerated from /repo, client mirrors): C01_start - once every peer has performed the handshake every peer sees every "
                "device as it is (Spec.Sys.allSynced); C01_step - allSynced, well-formedness and dict-shaped mirrors are preserved by EVERY operation in scope (assign, set_value, state, enabling "
                "of properties and groups, client assign+submit, getProperties for everything / a device / a property) under EVERY interleaving of each network peer's control and BLOB connection "
                "(Sys.nextOk); C01_converges - hence in every deployment reachable by any operation sequence under any schedules. Hypotheses (decidable, each shown necessary by a kernel-checked "
                "counterexample theorem C01_needs_*): well-formed drivers, distinct device names, distinct enabled element names per property, BLOB values carry a format. "
                "The model is tied to the code as a refinement check: the real deployment (drivers, Router, server TCP handlers, fragmenting pipes, client handlers, Client with two connections, "
                "SnoopingClient; drivers optionally built through inheritance chains) is driven through random histories and EVERY observed step must satisfy Sys.nextOk from the observed state "
                "and end in mirrors that Spec.Sys.synced - the theorem's very predicate - accepts. Schedules: slow peers (drain() blocks while the peer has unread bytes, later messages queue on the sender "
                "lock) and bursts of operations at every phase of the hand-over must still converge (oracle only).",
        "note": "Operations are separated by quiescence in model and harness; without it a BLOB property's definition can be overtaken by a later update on the BLOB connection (known finding "
                "two-connection-reordering, exhibited by the gen_c01_lag suite). A peer without BLOBs is exempt from BLOB updates (protocol). Element-level enabling publishes nothing and is "
                "out of scope (as in the property). Trusted: kernel, translator, pipes/quiescence harness, encoders of live drivers and mirrors.",
        "technique": "Lean 4 invariant proof over a transition system of the whole deployment (all operation sequences, all connection interleavings) + step-by-step refinement check of the real deployment against the model, with the theorem's predicate as oracle",
    },
    "C06": {
        "text": "Kernel-checked theorems (lean/Indi/Properties/C06.lean, lemmas in Proofs/Sys06.lean): C06_write / C06_write_for - in a deployment where every peer sees the devices as they are, "
                "when a peer submits values for some elements of one property (Sys.submitMsg incl. the client-side constructor guards -> wire -> router -> driver), EVERY driver ends up as "
                "Spec.Sys.c06Holds demands: exactly the named elements of the addressed device take the submitted values (text as it travels, numbers equal to what the text denotes - integers "
                "exactly, others within binary64 rounding (flIEEE_accurate) -, BLOBs byte for byte), nothing else anywhere changes. Hypotheses writesOk/worldOk06 (decidable; each shown "
                "necessary by a kernel-checked counterexample C06_needs_*): distinct property names, the property exists, is enabled and writable, each name denotes exactly one enabled element, "
                "no vetoing Write handler, no refreshing Read handler, values in the element's domain. Tie to the code: real Client.submit -> serializer -> server handler -> framing -> router "
                "-> driver on generated multi-device deployments; before/after snapshots of every driver judged by c06Holds (the theorem's predicate) evaluated in Lean, the step by Sys.nextOk.",
        "note": "Values assigned but not yet submitted must survive whatever arrives before submit() (gen_c06_pending). Switch siblings are free under the rule (C09 decides them). The oracle compares text up to C03's normalisation. Trusted: kernel, translator, harness.",
        "technique": "Lean 4 theorem over the deployment model (exact effect of a client write through serializer, parser and driver) + refinement check of the real deployment with the theorem's predicate as oracle",
    },
    "C08": {
        "text": "Kernel-checked (lean/Indi/Properties/C08.lean, Proofs/B64.lean, Proofs/Sys08.lean): C08_codec - for EVERY byte string decode (encode bs) = bs for the model of binascii's base64, "
                "encoding stays inside the base64 alphabet and has the declared length; C08_down / C08_up - the oneBLOB a driver publishes / a client uploads, read after the wire, decodes to "
                "identical bytes, format and length; C08_publish - when a driver publishes a byte string as the value of a BLOB element, then under EVERY interleaving of the peers' connections "
                "every peer that enabled BLOBs holds identical bytes and format and every other peer holds exactly what it held before (Spec.Sys.c08Holds). Hypotheses worldOk08 + address names "
                "a BLOB element, each shown necessary by a kernel-checked counterexample. Termination of Buffer.process is a theorem by construction (C02/C11: processLoop is total). "
                "Tie to the code: model codec vs binascii exhaustively for short inputs in both directions; the real deployment for every length across the read size and the threshold, three "
                "fragmentations, three client kinds, both directions, judged by c08Holds / c06Holds, with a watchdog for hangs and follow-up traffic that must arrive; 70-200 kB frames followed at once by more "
                "traffic to a slow peer; a driver refilling one BLOB object; message sizes named by integer constants in the framing/transport source (threshold disabled).",
        "note": "Known finding (known_findings.txt, key element-over-threshold): an element longer than the 2048-character junk-recovery threshold on a thresholded connection (any upload above "
                "about 1.5 kB; BLOBs to a client that enabled Also on its control connection) is cut by junk recovery - the threshold working as designed (C02 limits itself to it), contrary to "
                "C08's 'regardless of payload size'; the model's transport delivers whole messages (framing is C02/C11's subject). Real sockets are not exercised. Trusted: kernel, harness.",
        "technique": "Lean 4 theorems (base64 round trip by induction; BLOB publication over the deployment model under all interleavings) + differential codec correspondence + full-deployment runs with watchdog judged by the theorem's predicate",
    },
    "C03": {
        "text": "Kernel-checked theorems (lean/Indi/Properties/C03.lean, 1500 lines of lemmas in Proofs/C03*.lean): for EVERY valid message of every registered kind (Spec.MsgValid.valid over the class "
                "table regenerated from /repo: any attribute subset, any number of children, any text), fromXml (toXml m) succeeds and equals m up to the normalisation named in the property "
                "(C03_roundtrip); what is read back is valid (C03_parsed_valid); parse . serialise is idempotent from the first parse on, hence identical bytes from the second serialisation on "
                "(C03_fixed_point, with the explicit hypothesis that no text is blank - the property's own exclusion of leading/trailing whitespace; the statement without it is refuted by the "
                "kernel-checked C03_fixed_point_counterexample). Generic in the class table; the generated table enters through one decide +kernel fact. BYTE level (Properties/Wire.lean over Model/Xml.lean, the "
                "character-level model of ElementTree's writer and of expat + tree builder): run_serElem / parseDoc_serElem - the parser automaton reads the writer's output for EVERY element over XML "
                "Char (ASCII names, no duplicate attribute, carriage return only in attribute values) back as the very same element (escaping of & < > \" CR LF TAB, character references for all "
                "non-ASCII code points by induction over decimal digits); fromString_toString - from_string(to_string(m)) = from_xml(to_xml(m)) with the declaration and trailing newline regenerated "
                "from the source; toString_fixed_point - the second and third serialisations are identical byte for byte; fromString_spelling - EVERY foreign spelling of the parametrised family (quote style, white "
                "space, indentation, explicit or self-closing empty elements, raw '>', reversed attributes, any prolog that leaves the parser between tokens, trailing white space) of every valid "
                "wire-safe message is read as that message's normal form. Tied to the code by the real "
                "to_string/from_string round trip on all kinds x attribute subsets x children x character classes x five foreign spellings, compared with the model and judged by the Lean spec.",
        "note": "ElementTree's writer and expat are modelled (they are the standard library, not the repository): the model is tied to them by the xml correspondence (113 000 documents in the "
                "thorough tier: library output, foreign spellings, truncations, grammar-based documents, mutations, every code-point class) with 'unsupported' for DOCTYPE/namespaces/non-ASCII names. "
                "Trusted: kernel, translator, harness.msg_view.",
        "technique": "Lean 4 theorems (element-level codec round trip generic in a regenerated class table; character-level round trip of a writer model through a parser automaton) + differential correspondence through the real XML writer and parser",
    },
    "C17": {
        "text": "Kernel-checked theorems (lean/Indi/Properties/C17.lean): C17 - for every configuration (timeout, polling delay/interval >= 1), every timed sequence of event batches (any "
                "arrival instants, also coinciding with polling ticks or the timeout instant, several events per loop iteration) and every horizon, the operational model of waitforevent "
                "(instant by instant: synchronous deliveries, polling/timeout task steps in timer-creation order, waiter) returns exactly what the declarative specification demands: the FIRST "
                "matching event if it arrives no later than the timeout, else a timeout at the timeout instant, else pending; getProperties sent exactly at the polling instants before completion; "
                "no callback left after completion. C17_event_is_genuine / C17_timeout_is_genuine (never both, never neither). Correspondence: the real coroutine on a virtual-clock event loop "
                "on every grid instant, all condition and event kinds, concurrent waits.",
        "note": "Partial: asyncio's Event/timer/task semantics are modelled (DESIGN.md section 5), tied by running the real coroutine on tools/vloop.py; independence of concurrent waits is "
                "observed (each wait is compared with its own model run; the getProperties sent by several polling waits must be the merge of their own schedules), not proved. "
                "The four conditions of waitforevent (callback release, polling-loop guard, timeout guard, arming of the timeout task) are translated from the source on every run and "
                "wait_deliver_from_source / wait_poll_from_source / wait_timeout_from_source (Properties/Dec/Wait.lean) prove that the three parts of the model are the source's skeletons with those conditions plugged in; C17_from_source (Properties/C17b.lean): the instant-by-instant run assembled from "
                "the source's own four conditions satisfies the declarative specification for every configuration, timing and horizon. "
                "Waits are run both after an application callback was registered and as the client's very first registrations.",
        "technique": "Lean 4 invariant over instants (operational model = declarative spec) + virtual-clock correspondence",
    },
    "C18": {
        "text": "Kernel-checked theorems (lean/Indi/Properties/C18.lean) on the router model, for every history: after a connection's unregistration it is in neither clients nor blob_routing "
                "(C18_forgotten), nothing routed afterwards is delivered to it (C18_no_delivery_after), every other connection keeps its registration, its policies and what it is served "
                "(C18_others_stay, C18_others_policies, C18_others_served), a reconnecting peer starts from the default policy (C18_reconnect_default). That every way of ending (EOF, read error, "
                "EOF inside a message, junk then EOF, exception while handling) funnels into close()+unregister is the handlers' control flow, tied by fault injection at every step of session "
                "scripts on the real TCP and TTY handlers with fake streams; oracle: an ended connection is unregistered, closed, finished and silent at every later step.",
        "note": "The handler's control flow is modelled (Model/Conn.lean: connect, bytes, EOF, read error, a device raising while a message is handled, device traffic - over the buffer, parser and "
                "router models) and proved (Properties/C18b.lean): wf_step (a connection is served exactly while the router knows it: an invariant of every event), C18_ending_cleans (every way of ending "
                "leaves it unserved, its writer closed, unknown to the router, without BLOB settings), C18_ended_is_final (nothing is delivered to it afterwards), serving_stays (nobody else is affected). "
                "The conn suite sends the raw session to this model and compares state, closed writers, finished handlers and recipients after every step; faults include a peer resetting its receiving "
                "side while the server still reads, and a write side failing for good followed by every read-side ending. Partial: asyncio itself (task scheduling) is not modelled here; real sockets are not exercised.",
        "technique": "Lean 4 invariant and clean-up theorems over a transition-system model of server connections (handler control flow composed with framing, parsing and routing) + router theorems + fault-injection correspondence on real handlers",
    },
    "C19": {
        "text": "Kernel-checked theorem C19 (lean/Indi/Properties/C19.lean): for EVERY schedule - any interleaving of routing, task starts and I/O completions, including a connection that "
                "never completes - output ++ pending = routed for the model of the lock-protected sender (TCP: write then drain; TTY: write job, flush job); hence the output is always a "
                "prefix of the routed sequence (whole messages, in order, never interleaved: C19_prefix), everything once drained (C19_complete); routing never blocks (C19_route_never_blocks); "
                "the lock hands over FIFO (C19_fifo_handover). Correspondence: exhaustive enumeration of short schedules and random longer ones on the real server TCP, TTY and client TCP "
                "handlers with fake streams whose awaitables the explorer releases (oldest or newest pending); after every schedule all outstanding I/O is completed and the oracle demands that everything "
                "routed has left (completeness).",
        "note": "Partial: asyncio's task-start FIFO and Lock fairness are modelled (DESIGN.md section 5), tied by running the real handlers; the real thread pool and sockets are not exercised.",
        "technique": "Lean 4 invariant over all schedules of a small transition system + exhaustive schedule exploration of the real handlers",
    },
}
