"""Property table: which correspondence suites and Lean targets decide which property."""

PROPS = {
    "C20": {
        "suites": [("comp_codec", "gen_eq_cases")],
        "rule": "every message kind x optional-attribute subsets x child lists (exhaustive 0..2/3 children over a 2x2 alphabet, one longer list) x "
                "every single-point perturbation (attribute changed/dropped/added, text changed, child i changed/dropped/duplicated/swapped/appended, kind changed) "
                "and rebuilt copies, plus random deeper cases; a pair is non-trivial and distinct by its two wire views",
        "trusted_base": ["Python object -> wire view (harness.msg_view)"],
        "assumptions": ["messages are instances of registered classes built through their constructors (Msg.Built)"],
    },
}

MANIFEST_TEXT = {
    "C20": {
        "text": "Kernel-checked theorem C20 (lean/Indi/Properties/C20.lean): for every class table passing the decidable well-formedness check, and every two constructed "
                "messages of any size, the model of __eq__/to_dict returns True exactly when the wire views (kind, all attributes, text, complete ordered children) are equal; "
                "instance obligation on the table regenerated from /repo discharged by decide +kernel on every run. The model is tied to base.py by a differential "
                "correspondence over all kinds x all single-point perturbations (exhaustive for short child lists), with the Lean spec (view equality) as oracle on the real ==.",
        "note": "Trusted: Lean kernel + propext/Classical.choice/Quot.sound; tools/extract.py (constructor tables probed from live classes); harness.msg_view (object -> wire view); "
                "the theorem speaks about messages built through registered constructors (Msg.Built).",
        "technique": "Lean 4 theorem (to_dict injectivity, induction over children) + regenerated class table + differential correspondence",
    },
}
