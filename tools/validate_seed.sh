#!/bin/sh
# tools/validate_seed.sh <seeded/ID dir>: confirm in a scratch worktree that the demo passes without and fails with
# the change, and that the pinned suite still passes with it. Result in <dir>/validation.txt
d="$(cd "$1" && pwd)"; id="$(basename "$d")"
wt="/var/tmp/vs-$id"
git -C /repo worktree add -q --detach "$wt" HEAD || exit 3
out="$d/validation.txt"; : > "$out"
cd "$wt"
DEMO_ANY_PATH=1 PYTHONPATH="$wt" /venv/bin/python -B "$d/demo.py" >/dev/null 2>&1; echo "demo on clean tree: exit $?" >> "$out"
git apply "$d/patch.diff" && echo "patch applies" >> "$out"
DEMO_ANY_PATH=1 PYTHONPATH="$wt" /venv/bin/python -B "$d/demo.py" >/dev/null 2>&1; echo "demo with change: exit $?" >> "$out"
PYTHONPATH="$wt" /venv/bin/python -B -m pytest -q -p no:cacheprovider --timeout=900 2>&1 | tail -1 >> "$out"
cd /; git -C /repo worktree remove --force "$wt"
cat "$out"
