"""mutation test of the decision theorems: mutate the expression at each site in a scratch worktree, regenerate
Generated/Decisions.lean in a scratch copy of /verif, build the area file: the build must FAIL (or the site fall back to none)"""
import ast, os, subprocess, sys, shutil, json
sys.path.insert(0, "/verif/tools")
WT="/var/tmp/mut/wt"; CP="/var/tmp/mut/verif"
subprocess.run(["git","-C","/repo","worktree","remove","--force",WT],capture_output=True)
subprocess.run(["git","-C","/repo","worktree","add","-q","--detach",WT,"HEAD"],check=True)
shutil.rmtree(CP,ignore_errors=True); os.makedirs(CP)
subprocess.run(["rsync","-a","--exclude",".git","--exclude","replays","--exclude","seeded","/verif/",CP+"/"],check=True)
os.environ["INDIPY_REPO"]=WT
import importlib
sys.path.insert(0, WT)
import extract_decisions as ED
AREA={"routerDeliver":"Router","routerIsBlob":"Router","driverAccepts":"Router","routerToDevice":"Router","routerToClient":"Router",
      "bufLoopGuard":"Buffer","bufCleanupDue":"Buffer","bufSkip":"Buffer","callbackAccepts":"Callback",
      "switchTurnsOn":"Switch","switchClearsOthers":"Switch","switchKeepsLast":"Switch","switchIsOtherOn":"Switch","switchNoOtherOn":"Switch",
      "vectorEnabled":"Vector","setValueDefault":"Driver","toSetSilent":"Driver","toDefDeletes":"Driver","driverGetAll":"Driver","waitRelease":"Wait","waitPollGuard":"Wait","waitTimeoutGuard":"Wait","waitTimeoutArmed":"Wait"}

class Mut(ast.NodeTransformer):
    """apply the k-th applicable point mutation"""
    def __init__(self,k): self.k=k; self.n=0; self.desc=None
    def hit(self,d):
        self.n+=1
        if self.n-1==self.k: self.desc=d; return True
        return False
    def visit_BoolOp(self,node):
        self.generic_visit(node)
        if self.hit("and<->or"):
            node.op = ast.Or() if isinstance(node.op,ast.And) else ast.And()
        return node
    def visit_UnaryOp(self,node):
        self.generic_visit(node)
        if isinstance(node.op,ast.Not) and self.hit("drop not"):
            return node.operand
        return node
    def visit_Compare(self,node):
        self.generic_visit(node)
        if len(node.ops)==1:
            op=node.ops[0]
            swap={ast.Eq:ast.NotEq,ast.NotEq:ast.Eq,ast.Lt:ast.LtE,ast.LtE:ast.Lt,ast.Gt:ast.GtE,ast.GtE:ast.Gt,ast.In:ast.NotIn,ast.NotIn:ast.In,ast.Is:ast.IsNot,ast.IsNot:ast.Is}
            if type(op) in swap and self.hit("%s->%s"%(type(op).__name__,swap[type(op)].__name__)):
                node.ops=[swap[type(op)]()]
            if isinstance(node.comparators[0],(ast.Tuple,ast.List)) and len(node.comparators[0].elts)>1 and self.hit("drop tuple element"):
                node.comparators[0].elts=node.comparators[0].elts[:-1]
        return node

results=[]
for site in ED.SITES:
    name, rel, modname, qual, kind, must, binder, ltype, env = site
    path=os.path.join(WT,rel)
    orig=open(path).read()
    tree=ast.parse(orig)
    fn=ED.find_function(tree,qual)
    cands=[c for c in ED.candidates(fn,kind) if ED.mentions(c,must)]
    if not cands: results.append((name,"no candidate")); continue
    # mutate source text by replacing the unparsed candidate segment: operate on the AST node in place, then unparse whole file
    k=0
    while True:
        tree=ast.parse(orig)
        fn=ED.find_function(tree,qual)
        cands=[c for c in ED.candidates(fn,kind) if ED.mentions(c,must)]
        target=cands[0]
        if isinstance(target,ast.UnaryOp) and not hasattr(target,"lineno"):
            target=target.operand          # synthetic negation of a guard: mutate the guard itself
        m=Mut(k)
        # mutate within the target node only
        new=m.visit(target)
        if m.desc is None: break
        # splice: replace node in tree (target mutated in place except when 'drop not' at the root)
        if new is not target:
            for parent in ast.walk(tree):
                for f,v in ast.iter_fields(parent):
                    if v is target: setattr(parent,f,new)
                    elif isinstance(v,list):
                        for i,x in enumerate(v):
                            if x is target: v[i]=new
        ast.fix_missing_locations(tree)
        open(path,"w").write(ast.unparse(tree))
        # regenerate + build
        for mname in [k2 for k2 in list(sys.modules) if k2.startswith("indi")]: del sys.modules[mname]
        text,notes=ED.translate_all(WT)
        open(CP+"/lean/Indi/Generated/Decisions.lean","w").write(text)
        r=subprocess.run(["lake","build","Indi.Properties.Dec."+AREA[name]],cwd=CP+"/lean",capture_output=True,text=True)
        followed=not str(notes.get(name,"")).startswith("FALLBACK")
        results.append((name,m.desc,"followed" if followed else "fallback","BUILD FAILS" if r.returncode!=0 else "build ok"))
        print(results[-1],flush=True)
        open(path,"w").write(orig)
        k+=1
json.dump(results,open("/var/tmp/mut/results.json","w"),indent=1)
subprocess.run(["git","-C","/repo","worktree","remove","--force",WT])
