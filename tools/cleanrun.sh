#!/bin/sh
# tools/cleanrun.sh <seed> [tier] : every registered check against the UNCHANGED /repo, in an isolated copy of /verif
# (so that /verif can be edited meanwhile); prints one line per check; any rc != 0 here is a false alarm to investigate
seed="${1:-0}"; tier="${2:-quick}"
cp="/var/tmp/vclean-$seed"; rm -rf "$cp"; mkdir -p "$cp"; rsync -a --exclude .git --exclude replays --exclude seeded /verif/ "$cp/"; mkdir -p "$cp/ev" "$cp/rp"
cd "$cp" || exit 3
for p in $(python3 -c "import json; print(' '.join(c['property_id'] for c in json.load(open('MANIFEST.json'))['checks']))"); do
  VERIF_SEED=$seed VERIF_EVIDENCE_DIR="$cp/ev" VERIF_REPLAY_DIR="$cp/rp" ./check $p $tier > "$cp/run-$p.log" 2>&1; rc=$?
  grep -E "VIOLATION|harness failure|proof side" "$cp/run-$p.log" | cut -c1-300
  echo "rc=$rc $(tail -1 $cp/run-$p.log | cut -c1-200)"
done
[ -n "$KEEP" ] || rm -rf "$cp"
