#!/usr/bin/env python
"""Demonstrations of the genuine defects found in wlatanowicz/indipy.

Each function returns None when the library behaves as the property demands
and a string describing the failing input otherwise.  Run as

    PYTHONPATH=/repo /venv/bin/python -B findings/demos.py [name ...]

Exit status 1 when any selected demonstration fails.  These are the replays
recorded in known_findings.jsonl ("fixed:" entries); the same inputs are part
of the corpora the checks run first on every run.
"""
import asyncio
import os
import sys
import threading


def with_watchdog(fn, seconds=5):
    res = {}

    def run():
        try:
            res["v"] = fn()
        except BaseException as e:  # noqa
            res["e"] = e

    t = threading.Thread(target=run, daemon=True)
    t.start()
    t.join(seconds)
    if t.is_alive():
        return "HANG"
    if "e" in res:
        return "raised %r" % (res["e"],)
    return res.get("v")


def c20_first_child_ignored():
    from indi import message
    from indi.message import one_parts

    a = message.SetTextVector(device="D", name="P", state="Ok", children=(
        one_parts.OneText(name="a", value="1"), one_parts.OneText(name="b", value="2")))
    b = message.SetTextVector(device="D", name="P", state="Ok", children=(
        one_parts.OneText(name="a", value="DIFFERENT"), one_parts.OneText(name="b", value="2")))
    if a == b:
        return "setTextVector differing in first child compare equal"
    c = message.SetTextVector(device="D", name="P", state="Ok", children=(
        one_parts.OneText(name="b", value="2"),))
    if a == c:
        return "setTextVector with a dropped first child compares equal"


def c13_dictionary_accepts_internals():
    from indi.message import IndiMessage

    bad = []
    for xml in (
        '<setTextVector device="D" name="P" state="indi.message.const"/>',
        '<defSwitchVector device="D" name="P" state="Ok" perm="rw" rule="OneOfMany"><defSwitch name="a"/></defSwitchVector>',
        '<defLightVector device="D" name="P" state="Ok"><defLight name="a"/></defLightVector>',
    ):
        try:
            IndiMessage.from_string(xml)
            bad.append(xml)
        except Exception:
            pass
    if bad:
        return "parser accepted non-conformant: %r" % bad


def c03_message_not_registered():
    from indi.message import IndiMessage, Message

    m = Message(device="D", message="hello")
    try:
        back = IndiMessage.from_string(m.to_string())
    except Exception as e:
        return "<message> notice cannot be parsed: %r" % (e,)
    if back.__class__ is not Message or back.message != "hello":
        return "message notice read back differently"


def c05_blob_policy():
    from indi import message
    from indi.message import one_parts
    from indi.routing import Router

    class C:
        def __init__(self):
            self.got = []

        def message_from_device(self, m):
            self.got.append(m)

    r = Router()
    never, also, only = C(), C(), C()
    for c in (never, also, only):
        r.register_client(c)
    r.process_message(message.EnableBLOB(device="D", value="Also"), sender=also)
    r.process_message(message.EnableBLOB(device="D", value="Only"), sender=only)
    blob = message.SetBLOBVector(device="D", name="P", state="Ok", children=(
        one_parts.OneBLOB(name="b", size=0, format="", value=""),))
    text = message.SetTextVector(device="D", name="T", state="Ok")
    r.process_message(blob, sender=None)
    r.process_message(text, sender=None)
    got = [[type(m).__name__ for m in c.got] for c in (never, also, only)]
    want = [["SetTextVector"], ["SetBLOBVector", "SetTextVector"], ["SetBLOBVector"]]
    if got != want:
        return "BLOB policy deliveries %r, expected %r" % (got, want)


def c12_enableblob_unregistered_sender():
    from indi import message
    from indi.routing import Router

    r = Router()
    seen = []

    class D:
        def accepts(self, d):
            return True

        def message_from_client(self, m):
            seen.append(m)

    r.register_device(D())
    try:
        r.process_message(message.EnableBLOB(device="D", value="Also"))
    except Exception as e:
        return "enableBLOB from an unregistered sender raised %r" % (e,)
    if len(seen) != 1:
        return "device did not get the enableBLOB"


def c11_blob_mode_partial_hangs():
    from indi.transport import Buffer

    def run():
        b = Buffer()
        b.max_buffer_size_before_frontal_cleanup = None
        b.append('<setTextVector device="D" name="P" state="Ok"><oneText name="a">par')
        calls = []

        def cb(m):
            calls.append(m)
            if len(calls) > 1000:
                raise RuntimeError("callback called >1000 times, last arg %r" % (m,))

        b.process(cb)
        if calls:
            return "delivered %r for an incomplete element" % (calls[:1],)

    return with_watchdog(run)


def c10_numbers():
    from indi.device.values import num_to_str, str_to_num
    from indi.message import checks

    bad = []
    for n, fmt, want in ((-0.5, "%.3m", "-0:30"), (1.9999, "%.3m", "2:00"),
                         (0.99999, "%.6m", "1:00:00"), (3.14159, "%5.2f", "3.14")):
        got = num_to_str(n, fmt)
        if got != want:
            bad.append("num_to_str(%r,%r)=%r want %r" % (n, fmt, got, want))
        try:
            checks.number(got)
        except ValueError:
            bad.append("checks.number rejects rendered %r" % (got,))
    for s, fmt, want in (("-0:30", "%.3m", -0.5), ("12:30", "%.2f", 12.5), ("12.5", "%.3m", 12.5),
                         ("12;30;00", "%.6m", 12.5), ("12 30", "%d", 12.5), ("7", "%.6m", 7)):
        try:
            got = str_to_num(s, fmt)
        except Exception as e:
            bad.append("str_to_num(%r,%r) raised %r" % (s, fmt, e))
            continue
        if got != want:
            bad.append("str_to_num(%r,%r)=%r want %r" % (s, fmt, got, want))
    for s in ("12;30", "12 30 00.5"):
        try:
            checks.number(s)
        except ValueError:
            bad.append("checks.number rejects %r" % (s,))
    if bad:
        return "; ".join(bad)


def _switch_driver(rule):
    from indi.device import Driver, properties

    class Dev(Driver):
        name = "D"
        g = properties.Group("G", vectors=dict(
            sw=properties.SwitchVector("SW", rule=rule, default_on="a", elements=dict(
                a=properties.Switch("a"), b=properties.Switch("b"), c=properties.Switch("c")))))

    return Dev()


def c09_selected_values_setter():
    d = _switch_driver("AnyOfMany")
    try:
        d.g.sw.selected_values = ["b", "c"]
    except Exception as e:
        return "selected_values assignment raised %r" % (e,)
    if d.g.sw.selected_values != ("b", "c"):
        return "selected_values = ['b','c'] gave %r" % (d.g.sw.selected_values,)


def _plain_driver():
    from indi.device import Driver, properties

    class Dev(Driver):
        name = "D"
        g = properties.Group("G", vectors=dict(
            txt=properties.TextVector("TXT", elements=dict(a=properties.Text("a", default="x"),
                                                           b=properties.Text("b", default="y"))),
            num=properties.NumberVector("NUM", elements=dict(n=properties.Number("n", default=1.0))),
            blob=properties.BLOBVector("BLOB", elements=dict(b=properties.BLOB("b"))),
            lights=properties.LightVector("LIGHTS", elements=dict(l=properties.Light("l"))),
        ))

    return Dev


def c12_hostile_messages():
    from indi import message
    from indi.message import one_parts
    from indi.routing import Router

    r = Router()
    d = _plain_driver()(router=r)
    bad = []
    hostile = [
        message.NewTextVector(device="D", name="NOPE", children=(one_parts.OneText(name="a", value="1"),)),
        message.NewTextVector(device="D", name="TXT", children=(one_parts.OneText(name="zzz", value="1"),)),
        message.NewNumberVector(device="D", name="NUM", children=(one_parts.OneNumber(name="n", value="1:2:3:4"),)) if False else None,
        message.NewTextVector(device="D", name="NUM", children=(one_parts.OneText(name="n", value="abc"),)),
        message.NewTextVector(device="D", name="LIGHTS", children=(one_parts.OneText(name="l", value="Ok"),)),
        message.NewBLOBVector(device="D", name="BLOB", children=(one_parts.OneBLOB(name="b", size="3", format=".x", value="!!!"),)),
        message.NewBLOBVector(device="D", name="BLOB", children=(one_parts.OneBLOB(name="b", size="99", format=".x", value="QUJD"),)),
        message.NewTextVector(device="D", name="TXT"),
    ]
    for m in hostile:
        if m is None:
            continue
        try:
            r.process_message(m)
        except Exception as e:
            bad.append("%s -> %r" % (m.to_string(), e))
    if d.g.txt.a.value != "x" or d.g.num.n.value != 1.0:
        bad.append("state changed by hostile messages")
    r.process_message(message.NewTextVector(device="D", name="TXT", children=(
        one_parts.OneText(name="zzz", value="1"), one_parts.OneText(name="b", value="applied"))))
    if d.g.txt.b.value != "applied":
        bad.append("valid child after an unknown child was not applied")
    if bad:
        return "; ".join(bad)


def c06_blob_upload():
    from indi.client.client import BaseClient
    from indi.device import values
    from indi.message import IndiMessage
    from indi.routing import Router

    r = Router()
    d = _plain_driver()(router=r)
    sent = []

    class Cl(BaseClient):
        def send_message(self, msg):
            sent.append(msg)

    c = Cl()
    c.process_message(IndiMessage.from_string(d.g.blob.to_def_message().to_string()))
    c["D"]["BLOB"]["b"].value = values.BLOB(b"ABC", ".bin")
    try:
        c["D"]["BLOB"].submit()
    except Exception as e:
        return "client BLOB submit raised %r" % (e,)
    wire = IndiMessage.from_string(sent[-1].to_string())
    try:
        r.process_message(wire)
    except Exception as e:
        return "driver rejected uploaded BLOB: %r" % (e,)
    v = d.g.blob.b.value
    if v is None or v.binary != b"ABC" or v.format != ".bin":
        return "uploaded BLOB not stored"


def c07_definitions_parse_back():
    from indi.device import values
    from indi.message import IndiMessage

    d = _plain_driver()()
    bad = []
    for label, vec in (("num", d.g.num), ("blob-unset", d.g.blob)):
        for m in (vec.to_def_message(), vec.to_set_message()):
            try:
                IndiMessage.from_string(m.to_string())
            except Exception as e:
                bad.append("%s %s unparsable: %r" % (label, type(m).__name__, e))
    d.g.blob.b.value = values.BLOB(b"ABC", ".bin")
    m = d.g.blob.to_def_message()
    if b"object at" in m.to_string():
        bad.append("defBLOB carries repr of the BLOB object")
    if bad:
        return "; ".join(bad)


def c15_client_mirror():
    from indi.client.client import BaseClient
    from indi.message import IndiMessage

    class Cl(BaseClient):
        def send_message(self, msg):
            pass

    c = Cl()
    bad = []
    c.process_message(IndiMessage.from_string(
        '<defBLOBVector device="D" name="B" state="Ok" perm="rw"><defBLOB name="b"/></defBLOBVector>'))
    c.process_message(IndiMessage.from_string(
        '<defTextVector device="D" name="T" state="Ok" perm="rw"><defText name="t">v</defText></defTextVector>'))
    try:
        c.process_message(IndiMessage.from_string(
            '<setBLOBVector device="D" name="B" state="Ok"><oneBLOB name="b" size="0" format=".x"/></setBLOBVector>'))
    except Exception as e:
        bad.append("absent BLOB payload raised %r" % (e,))
    c.process_message(IndiMessage.from_string('<delProperty device="D"/>'))
    if "D" in c.list_devices() and list(c["D"].list_vectors()):
        bad.append("delProperty without name left %r" % (list(c["D"].list_vectors()),))
    if bad:
        return "; ".join(bad)


def c17_first_match():
    from indi.client.client import BaseClient
    from indi.client import events
    from indi.message import IndiMessage

    class Cl(BaseClient):
        def send_message(self, msg):
            pass

    async def main():
        c = Cl()
        c.process_message(IndiMessage.from_string(
            '<defTextVector device="D" name="T" state="Ok" perm="rw"><defText name="t">v</defText></defTextVector>'))
        task = asyncio.get_running_loop().create_task(c.waitforevent(
            device="D", vector="T", element="t", event_type=events.ValueUpdate,
            check=lambda e: True, polling_enabled=False))
        await asyncio.sleep(0)
        for v in ("first", "second"):
            c.process_message(IndiMessage.from_string(
                '<setTextVector device="D" name="T" state="Ok"><oneText name="t">%s</oneText></setTextVector>' % v))
        ev = await task
        if ev.new_value != "first":
            return "wait returned the event with new_value=%r, not the first match" % (ev.new_value,)

    return asyncio.run(main())


def c19_tty_order():
    from indi import message
    from indi.routing import Router
    from indi.transport.server import tty

    class Out:
        def __init__(self):
            self.data = []
            self.n = 0

        async def write(self, s):
            self.n += 1
            # first write is slow (thread pool picks it up later)
            await asyncio.sleep(0.02 if self.n == 1 else 0)
            self.data.append(s)

        async def flush(self):
            await asyncio.sleep(0)

    async def main():
        out = Out()
        h = tty.ConnectionHandler(Router(), None, out)
        h.message_from_device(message.DelProperty(device="A"))
        h.message_from_device(message.DelProperty(device="B"))
        await asyncio.sleep(0.1)
        joined = "".join(out.data)
        if joined.find('device="A"') > joined.find('device="B"'):
            return "TTY output order B before A under a slow first write"

    return asyncio.run(main())


def c01_grandparent_groups():
    from indi.device import Driver, properties

    class A(Driver):
        name = "A"
        ga = properties.Group("GA", vectors=dict(
            t=properties.TextVector("TA", elements=dict(a=properties.Text("a")))))

    class B(A):
        gb = properties.Group("GB", vectors=dict(
            t=properties.TextVector("TB", elements=dict(a=properties.Text("a")))))

    class C(B):
        gc = properties.Group("GC", vectors=dict(
            t=properties.TextVector("TC", elements=dict(a=properties.Text("a")))))

    names = sorted(C()._vectors)
    if names != ["TA", "TB", "TC"]:
        return "driver subclass of a subclass has properties %r" % (names,)


def c08_upload_over_threshold():
    """KNOWN FINDING (not repaired): an element longer than the junk-recovery threshold on a thresholded
    connection is cut by junk recovery - a 3000-byte upload never reaches the driver"""
    from indi import message
    from indi.message import one_parts
    from indi.device import values
    from indi.transport import Buffer

    blob = values.BLOB(bytes(range(256)) * 12, ".bin")
    msg = message.NewBLOBVector(device="CAM", name="IMG", children=[
        one_parts.OneBLOB(name="img", value=blob.binary_base64, format=blob.format, size=blob.size)])
    text = msg.to_string().decode("latin1")
    got = []
    buf = Buffer()                      # the server connection handlers use the default threshold (2048)
    for i in range(0, len(text), 1024):
        buf.append(text[i:i + 1024])
        buf.process(got.append)
    if not got:
        return "an upload of %d bytes (%d characters on the wire) in 1024-byte reads is never delivered" % (blob.size, len(text))




def c01_blob_definition_overtaken():
    """KNOWN FINDING (not repaired): BLOB updates travel on their own connection; a definition still in flight on the
    control connection is overtaken by a later update of the same property, and the client ends up with stale state"""
    import asyncio
    import logging
    import random
    sys.path.insert(0, os.path.join(os.path.dirname(os.path.abspath(__file__)), "..", "tools"))
    import comp_dev
    import comp_sys
    from indi.client.client import Client
    from indi.routing import Router

    logging.disable(logging.CRITICAL)

    async def main():
        router = Router()
        pipes, tasks = [], []
        rng = random.Random(0)
        spec = comp_sys.blob_device()
        spec["groups"][0]["vectors"][0]["enabled"] = False
        d = comp_dev.build_driver(spec, [], [], router)
        cl = Client(comp_sys.FakeConnection(router, "1024", rng, pipes, tasks), comp_sys.FakeConnection(router, "1024", rng, pipes, tasks))
        await cl.start()
        await comp_sys.quiesce(pipes)
        down = cl.control_connection_handler.down          # server -> client direction of the control connection
        held, feed = [], down.feed
        down.feed = held.append                            # ... lags
        vec = d._groups["g0"]._vectors["v0"]
        vec.enabled = True                                 # definition (control) + update (BLOB connection)
        vec.state_ = "Busy"                                # update with the new state (BLOB connection)
        await comp_sys.quiesce([p for p in pipes if p is not down])
        down.feed = feed
        for data in held:
            feed(data)
        await comp_sys.quiesce(pipes)
        res = (vec.state_, cl["CAM"]["IMG"].state)
        for t in tasks:
            t.cancel()
        return res

    dev_state, mirror_state = asyncio.run(main())
    if dev_state != mirror_state:
        return "all traffic delivered: the device's IMG property is %s, the client shows %s" % (dev_state, mirror_state)



DEMOS = {k: v for k, v in list(globals().items()) if k[:1] == "c" and k[1:3].isdigit()}

if __name__ == "__main__":
    names = sys.argv[1:] or sorted(DEMOS)
    rc = 0
    for n in names:
        try:
            r = DEMOS[n]()
        except Exception as e:  # a demo that blows up is a failure too
            r = "demo raised %r" % (e,)
        print("%-40s %s" % (n, "ok" if r is None else "FAIL: " + str(r)))
        if r is not None:
            rc = 1
    sys.exit(rc)
