#!/bin/sh
# offline build of the framework: tables from /repo, Lean library, proofs, audit files, model executable
set -e
HERE="$(cd "$(dirname "$0")" && pwd)"
export PATH="/opt/veriftools/lean/bin:$PATH"
REPO="${INDIPY_REPO:-/repo}"
cd "$HERE"
PYTHONPATH="$REPO" /venv/bin/python -B tools/extract.py >/dev/null
cd lean
lake build Indi indi-model 2>&1 | tail -5
