import Indi.Properties.C03
#print axioms Indi.C03_roundtrip
#print axioms Indi.C03_fixed_point
#print axioms Indi.C03_fixed_point_counterexample
#print axioms Indi.C03_parsed_valid
