import Indi.Properties.C03
import Indi.Properties.Wire
import Indi.Properties.Spellings
#print axioms Indi.C03_roundtrip
#print axioms Indi.C03_fixed_point
#print axioms Indi.C03_fixed_point_counterexample
#print axioms Indi.C03_parsed_valid
#print axioms Indi.Xml.run_serElem
#print axioms Indi.Xml.parseDoc_serElem
#print axioms Indi.Xml.parseDoc_wrapped
#print axioms Indi.Xml.fromString_toString
#print axioms Indi.Xml.wireSafe_canon
#print axioms Indi.Xml.toString_fixed_point
#print axioms Indi.Xml.generated_prefix_ok
#print axioms Indi.Xml.run_spellElem
#print axioms Indi.Xml.parseDoc_spell
#print axioms Indi.Xml.fromXml_spelled
#print axioms Indi.Xml.fromString_spelling
