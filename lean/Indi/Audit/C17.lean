import Indi.Properties.C17
#print axioms Indi.Wait.C17
#print axioms Indi.Wait.C17_event_is_genuine
#print axioms Indi.Wait.C17_timeout_is_genuine
