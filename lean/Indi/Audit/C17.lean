import Indi.Properties.C17
import Indi.Properties.C17b
import Indi.Properties.Dec.Wait
#print axioms Indi.Wait.C17
#print axioms Indi.Wait.C17_event_is_genuine
#print axioms Indi.Wait.C17_timeout_is_genuine
#print axioms Indi.Decisions.waitRelease_agrees
#print axioms Indi.Decisions.waitPollGuard_agrees
#print axioms Indi.Decisions.waitTimeoutGuard_agrees
#print axioms Indi.Decisions.waitTimeoutArmed_agrees
#print axioms Indi.Decisions.wait_deliver_from_source
#print axioms Indi.Decisions.wait_poll_from_source
#print axioms Indi.Decisions.wait_timeout_from_source
#print axioms Indi.Decisions.C17_from_source
#print axioms Indi.Decisions.run_from_source
