import Indi.Properties.C20
#print axioms Indi.C20
#print axioms Indi.generated_regOk
#print axioms Indi.C20_generated
#print axioms Indi.C20_children_differ
