import Indi.Properties.C01
#print axioms Indi.Sys.C01_start
#print axioms Indi.Sys.C01_step
#print axioms Indi.Sys.C01_invariant
#print axioms Indi.Sys.C01_converges
#print axioms Indi.Sys.C01_needs_format
#print axioms Indi.Sys.C01_needs_distinct_elements
#print axioms Indi.Sys.C01_needs_assign_format
#print axioms Indi.Sys.C01_needs_write_format
#print axioms Indi.Sys.C01_needs_dict_mirror
