import Indi.Properties.C01
#print axioms Indi.Sys.C01_link_handshake
#print axioms Indi.Sys.C01_link_wf
#print axioms Indi.Sys.C01_link_emitted
#print axioms Indi.Sys.C01_link_wire
#print axioms Indi.Cli.C15_stream
