import Indi.Properties.C08
#print axioms Indi.Sys.C08_codec
#print axioms Indi.Sys.C08_codec_chars
#print axioms Indi.Sys.C08_codec_length
#print axioms Indi.Sys.C08_down
#print axioms Indi.Sys.C08_up
#print axioms Indi.Sys.C08_publish
#print axioms Indi.Sys.Ex08.C08_publish_needs_format
#print axioms Indi.Sys.Ex08.C08_publish_needs_distinct_names
#print axioms Indi.Sys.Ex08.C08_publish_needs_address
