import Indi.Properties.C08
#print axioms Indi.Sys.C08_codec
#print axioms Indi.Sys.C08_codec_chars
#print axioms Indi.Sys.C08_codec_length
