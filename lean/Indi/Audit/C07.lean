import Indi.Properties.C07
import Indi.Properties.Dec.Vector
import Indi.Properties.C07b
#print axioms Indi.Dev.C07_response
#print axioms Indi.Dev.C07_emitted_valid
#print axioms Indi.Dev.flags_follow_history
#print axioms Indi.Decisions.vectorEnabled_agrees
