import Indi.Properties.C07
#print axioms Indi.Dev.C07_response
#print axioms Indi.Dev.C07_emitted_valid
