import Indi.Properties.C07
import Indi.Properties.Dec.Driver
import Indi.Properties.Dec.Vector
import Indi.Properties.C07b
#print axioms Indi.Dev.C07_response
#print axioms Indi.Dev.C07_emitted_valid
#print axioms Indi.Dev.flags_follow_history
#print axioms Indi.Decisions.vectorEnabled_agrees
#print axioms Indi.Decisions.toDefDeletes_agrees
#print axioms Indi.Decisions.defMsg_deletes_from_source
#print axioms Indi.Decisions.driverGetAll_agrees
