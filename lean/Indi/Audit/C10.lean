import Indi.Properties.C10
import Indi.Properties.C10b
#print axioms Indi.Num.exact_accurate
#print axioms Indi.Num.C10_render_valid
#print axioms Indi.Num.C10_sexa_denotes
#print axioms Indi.Num.C10_f_denotes
#print axioms Indi.Num.C10_d_denotes
#print axioms Indi.Num.C10_parse_denotes
#print axioms Indi.Num.C10_sexa_roundtrip
#print axioms Indi.Num.sexa_table_pinned
#print axioms Indi.Num.exactIEEE_accurate
#print axioms Indi.Num.C10_sexa_roundtrip_ieee
