import Indi.Properties.C18
import Indi.Properties.C18b
#print axioms Indi.Rtr.C18_forgotten
#print axioms Indi.Rtr.C18_no_delivery_after
#print axioms Indi.Rtr.C18_others_stay
#print axioms Indi.Rtr.C18_others_policies
#print axioms Indi.Rtr.C18_others_served
#print axioms Indi.Rtr.C18_reconnect_default
#print axioms Indi.Conn.wf_init
#print axioms Indi.Conn.wf_step
#print axioms Indi.Conn.C18_ending_cleans
#print axioms Indi.Conn.C18_ended_is_final
#print axioms Indi.Conn.serving_stays
