import Indi.Properties.C18
#print axioms Indi.Rtr.C18_forgotten
#print axioms Indi.Rtr.C18_no_delivery_after
#print axioms Indi.Rtr.C18_others_stay
#print axioms Indi.Rtr.C18_others_policies
#print axioms Indi.Rtr.C18_others_served
#print axioms Indi.Rtr.C18_reconnect_default
