import Indi.Properties.C06
#print axioms Indi.Sys.C06_write_for
#print axioms Indi.Sys.C06_write
#print axioms Indi.Num.flIEEE_accurate
#print axioms Indi.Num.C10_parse_denotes
