import Indi.Properties.C06
#print axioms Indi.Sys.C06_link_frame
#print axioms Indi.Sys.C06_link_no_raise
#print axioms Indi.Sys.C06_link_wire
#print axioms Indi.Num.C10_parse_denotes
