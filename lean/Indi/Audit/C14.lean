import Indi.Properties.C14
import Indi.Properties.Dec.Driver
#print axioms Indi.Dev.C14_write
#print axioms Indi.Dev.C14_assign
#print axioms Indi.Decisions.setValueDefault_agrees
#print axioms Indi.Decisions.toSetSilent_agrees
#print axioms Indi.Decisions.setMsg_silent_from_source
