import Indi.Properties.C14
#print axioms Indi.Dev.C14_write
#print axioms Indi.Dev.C14_assign
