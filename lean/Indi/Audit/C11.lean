import Indi.Properties.C11
#print axioms Indi.Buf.C11_bounded
#print axioms Indi.Buf.C11_genuine
#print axioms Indi.Buf.C11_retained_suffix
#print axioms Indi.Buf.C11_junk_delivers_nothing
