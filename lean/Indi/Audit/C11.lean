import Indi.Properties.C11
import Indi.Properties.C11b
import Indi.Properties.Dec.Buffer
#print axioms Indi.Buf.C11_bounded
#print axioms Indi.Buf.C11_genuine
#print axioms Indi.Buf.C11_retained_suffix
#print axioms Indi.Buf.C11_junk_delivers_nothing
#print axioms Indi.Buf.C11_long_junk_transparent
#print axioms Indi.Buf.C11_resync
#print axioms Indi.Decisions.bufLoopGuard_agrees
#print axioms Indi.Decisions.bufCleanupDue_agrees
#print axioms Indi.Decisions.bufSkip_agrees
