import Indi.Properties.C04
import Indi.Properties.Dec.Router
#print axioms Indi.Rtr.process_deliveries
#print axioms Indi.Rtr.C04_devices
#print axioms Indi.Rtr.C04_device_order
#print axioms Indi.Rtr.deliveries_nodup
#print axioms Indi.Rtr.C04_not_to_sender
#print axioms Indi.Rtr.C04_clients_only_if_fromDevice
#print axioms Indi.Rtr.C04_only_getProperties_is_relayed
#print axioms Indi.Rtr.C04_getProperties_is_relayed
#print axioms Indi.Rtr.C04_device_bound_kinds
#print axioms Indi.Rtr.devices_eq
#print axioms Indi.Decisions.driverAccepts_agrees
#print axioms Indi.Decisions.routerToDevice_agrees
#print axioms Indi.Decisions.router_process_from_source
