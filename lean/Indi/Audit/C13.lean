import Indi.Properties.C13
#print axioms Indi.C13
#print axioms Indi.generated_regConf
#print axioms Indi.fromXml_conformant
