import Indi.Properties.C15
#print axioms Indi.Cli.C15_step
#print axioms Indi.Cli.C15_stream
#print axioms Indi.Cli.MirrorWf_step
