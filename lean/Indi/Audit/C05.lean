import Indi.Properties.C05
import Indi.Properties.C05c
import Indi.Properties.C05b
import Indi.Properties.Dec.Router
#print axioms Indi.Rtr.process_deliveries
#print axioms Indi.Rtr.policy_refinement
#print axioms Indi.Rtr.C05_clients
#print axioms Indi.Rtr.policyOf_send_other
#print axioms Indi.Rtr.clients_are_registered
#print axioms Indi.Rtr.allows_table
#print axioms Indi.Rtr.C05_frame
#print axioms Indi.Rtr.C05_enable_takes_effect
#print axioms Indi.Rtr.C05_reregister_resets
#print axioms Indi.Rtr.default_policy_is_never
#print axioms Indi.Rtr.C05_device_kinds
#print axioms Indi.Rtr.deliverCond_eq_allows
#print axioms Indi.Rtr.procR_no_reactions
#print axioms Indi.Rtr.procR_deliveries_allowed
#print axioms Indi.Rtr.procR_isBlob_own
#print axioms Indi.Rtr.procR_rs_sublist
#print axioms Indi.Rtr.traceR_deliveries_allowed
#print axioms Indi.Decisions.routerDeliver_agrees
#print axioms Indi.Decisions.routerIsBlob_agrees
#print axioms Indi.Decisions.routerToClient_agrees
#print axioms Indi.Decisions.router_process_from_source
#print axioms Indi.Rtr.runD_independent
#print axioms Indi.Rtr.C05_explicit_independent_of_default
#print axioms Indi.Rtr.processD_default
