import Indi.Properties.C02
#print axioms Indi.Buf.C02_abstract
#print axioms Indi.Buf.C02_fragmentation_independent
#print axioms Indi.Buf.generated_tagsOk
#print axioms Indi.Buf.generated_thresholds
#print axioms Indi.Buf.cleanup_absorb
