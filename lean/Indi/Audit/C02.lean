import Indi.Properties.C02
import Indi.Properties.Wire
import Indi.Properties.Dec.Buffer
import Indi.Properties.Spellings
import Indi.Properties.C02b
#print axioms Indi.Buf.C02_abstract
#print axioms Indi.Buf.C02_fragmentation_independent
#print axioms Indi.Buf.generated_tagsOk
#print axioms Indi.Buf.generated_thresholds
#print axioms Indi.Buf.cleanup_absorb
#print axioms Indi.Xml.parseMsg_needsOpener
#print axioms Indi.Xml.admissible_serElem
#print axioms Indi.Xml.C02_wire
#print axioms Indi.Xml.C02_wire'
#print axioms Indi.Xml.parseDoc_prefix
#print axioms Indi.Xml.parseDoc_opener
#print axioms Indi.Decisions.bufLoopGuard_agrees
#print axioms Indi.Decisions.bufCleanupDue_agrees
#print axioms Indi.Xml.admissible_spelling
#print axioms Indi.Xml.parseDoc_spell_prefix
#print axioms Indi.Xml.spellElem_ending
#print axioms Indi.Xml.C02_spelled_stream
#print axioms Indi.Conn.recv_fragmentation_independent_ops
#print axioms Indi.Conn.recv_fragmentation_independent_router
#print axioms Indi.Conn.recv_fragmentation_independent
#print axioms Indi.Conn.recv_fragmentation_independent_wf
#print axioms Indi.Conn.recv_fragmentation_independent_ne
#print axioms Indi.Conn.recv_fragmentation_independent_state_counterexample
#print axioms Indi.Decisions.bufSkip_agrees
