import Indi.Properties.C09
import Indi.Properties.Dec.Switch
#print axioms Indi.Switch.assignAt_le_one
#print axioms Indi.Switch.assignAt_eq_one
#print axioms Indi.Switch.assignAt_oneOfMany_establishes
#print axioms Indi.Switch.assignAt_anyOfMany_frame
#print axioms Indi.Switch.assignAt_on_stays_on
#print axioms Indi.Switch.C09_at_most_one
#print axioms Indi.Switch.C09_exactly_one
#print axioms Indi.Switch.C09_any_of_many
#print axioms Indi.Switch.C09_on_stays_on
#print axioms Indi.Decisions.switchTurnsOn_agrees
#print axioms Indi.Decisions.switchClearsOthers_agrees
#print axioms Indi.Decisions.switchKeepsLast_agrees
#print axioms Indi.Decisions.switchIsOtherOn_agrees
#print axioms Indi.Decisions.switchNoOtherOn_agrees
#print axioms Indi.Decisions.switch_assign_from_source
#print axioms Indi.Decisions.switchIsOtherOn_all_agree
