import Indi.Properties.C16
import Indi.Properties.Dec.Callback
#print axioms Indi.Cli.C16_events
#print axioms Indi.Cli.C16_deliveries
#print axioms Indi.Cli.C16_removed
#print axioms Indi.Cli.C16_only_registered
#print axioms Indi.Cli.C16_changed_only
#print axioms Indi.Cli.C16_chain
#print axioms Indi.Cli.C16_old_is_previous_new
#print axioms Indi.Cli.C16_chain_always
#print axioms Indi.Decisions.callbackAccepts_agrees
