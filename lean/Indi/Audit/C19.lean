import Indi.Properties.C19
#print axioms Indi.Send.C19
#print axioms Indi.Send.C19_prefix
#print axioms Indi.Send.C19_complete
#print axioms Indi.Send.C19_route_never_blocks
#print axioms Indi.Send.C19_fifo_handover
