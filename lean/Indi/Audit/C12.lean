import Indi.Properties.C12
#print axioms Indi.Dev.step_wf
#print axioms Indi.Dev.C12_no_raise
#print axioms Indi.Dev.C12_frame
#print axioms Indi.Dev.C12_session
