import Indi.Properties.C12
import Indi.Properties.C18b
#print axioms Indi.Dev.step_wf
#print axioms Indi.Dev.C12_no_raise
#print axioms Indi.Dev.C12_frame
#print axioms Indi.Dev.C12_session
#print axioms Indi.Conn.C12_any_bytes_keep_serving
#print axioms Indi.Conn.serving_stays
#print axioms Indi.Conn.retained_bounded
#print axioms Indi.Conn.wf_step
