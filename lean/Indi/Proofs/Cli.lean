/-
  Helper lemmas for C15 / C16 (client mirror): dict helpers, `applySet` vs the
  reference `applyUpdate`/`updateEvents`, `track`, the chain invariant.
-/
import Indi.Spec.Cli

namespace Indi.Cli
open Indi Indi.Spec.Cli

/-! ### dict lemmas -/
section dict
variable {α : Type}

theorem olook_oput (k k' : Option Str) (v : α) (l : List (Option Str × α)) :
    olook k (oput k' v l) = if k' = k then some v else olook k l := by
  induction l with
  | nil => simp [oput, olook]
  | cons a l ih =>
    obtain ⟨a1, a2⟩ := a
    simp only [oput]
    split <;> simp only [olook] <;> grind

theorem olook_odel_ne (k k' : Option Str) (l : List (Option Str × α)) (h : k' ≠ k) :
    olook k (odel k' l) = olook k l := by
  induction l with
  | nil => simp [odel]
  | cons a l ih =>
    obtain ⟨a1, a2⟩ := a
    simp only [odel]
    split <;> simp only [olook] <;> grind

theorem oput_self (k : Option Str) (v : α) (l : List (Option Str × α)) (h : olook k l = some v) :
    oput k v l = l := by
  induction l with
  | nil => simp [olook] at h
  | cons a l ih =>
    obtain ⟨a1, a2⟩ := a
    simp only [olook] at h
    simp only [oput]
    split <;> grind

theorem olook_mem (k : Option Str) (v : α) (l : List (Option Str × α)) (h : olook k l = some v) :
    (k, v) ∈ l := by
  induction l with
  | nil => simp [olook] at h
  | cons a l ih =>
    obtain ⟨a1, a2⟩ := a
    simp only [olook] at h
    grind

theorem olook_none_iff (k : Option Str) (l : List (Option Str × α)) :
    olook k l = none ↔ k ∉ l.map Prod.fst := by
  induction l with
  | nil => simp [olook]
  | cons a l ih =>
    obtain ⟨a1, a2⟩ := a
    simp only [olook]
    grind

theorem mem_olook (k : Option Str) (v : α) (l : List (Option Str × α)) (hnd : (l.map Prod.fst).Nodup)
    (h : (k, v) ∈ l) : olook k l = some v := by
  induction l with
  | nil => simp at h
  | cons a l ih =>
    obtain ⟨a1, a2⟩ := a
    simp only [olook]
    simp only [List.map_cons, List.nodup_cons, List.mem_map] at hnd
    grind

theorem keys_oput_of_look (k : Option Str) (v w : α) (l : List (Option Str × α)) (h : olook k l = some w) :
    (oput k v l).map Prod.fst = l.map Prod.fst := by
  induction l with
  | nil => simp [olook] at h
  | cons a l ih =>
    obtain ⟨a1, a2⟩ := a
    simp only [olook] at h
    simp only [oput]
    split <;> grind

theorem mem_oput (x : Option Str × α) (k : Option Str) (v : α) (l : List (Option Str × α))
    (h : x ∈ oput k v l) : x ∈ l ∨ x = (k, v) := by
  induction l with
  | nil => simp_all [oput]
  | cons a l ih =>
    obtain ⟨a1, a2⟩ := a
    simp only [oput] at h
    split at h <;> grind

theorem mem_keys_oput (x : Option Str) (k : Option Str) (v : α) (l : List (Option Str × α))
    (h : x ∈ (oput k v l).map Prod.fst) : x ∈ l.map Prod.fst ∨ x = k := by
  induction l with
  | nil => simp_all [oput]
  | cons a l ih =>
    obtain ⟨a1, a2⟩ := a
    simp only [oput] at h
    split at h <;> grind

theorem nodup_keys_oput (k : Option Str) (v : α) (l : List (Option Str × α)) (hnd : (l.map Prod.fst).Nodup) :
    ((oput k v l).map Prod.fst).Nodup := by
  induction l with
  | nil => simp [oput]
  | cons a l ih =>
    obtain ⟨a1, a2⟩ := a
    simp only [oput]
    split
    · simpa using hnd
    · simp only [List.map_cons, List.nodup_cons] at hnd ⊢
      refine ⟨fun hm => ?_, ih hnd.2⟩
      have := mem_keys_oput _ _ _ _ hm
      grind

theorem mem_odel (x : Option Str × α) (k : Option Str) (l : List (Option Str × α))
    (h : x ∈ odel k l) : x ∈ l := by
  induction l with
  | nil => simp_all [odel]
  | cons a l ih =>
    obtain ⟨a1, a2⟩ := a
    simp only [odel] at h
    split at h <;> grind

theorem mem_keys_odel (x : Option Str) (k : Option Str) (l : List (Option Str × α))
    (h : x ∈ (odel k l).map Prod.fst) : x ∈ l.map Prod.fst := by
  induction l with
  | nil => simp_all [odel]
  | cons a l ih =>
    obtain ⟨a1, a2⟩ := a
    simp only [odel] at h
    split at h <;> grind

theorem nodup_keys_odel (k : Option Str) (l : List (Option Str × α)) (hnd : (l.map Prod.fst).Nodup) :
    ((odel k l).map Prod.fst).Nodup := by
  induction l with
  | nil => simp [odel]
  | cons a l ih =>
    obtain ⟨a1, a2⟩ := a
    simp only [odel]
    simp only [List.map_cons, List.nodup_cons] at hnd
    split
    · exact hnd.2
    · simp only [List.map_cons, List.nodup_cons]
      exact ⟨fun hm => hnd.1 (mem_keys_odel _ _ _ hm), ih hnd.2⟩

theorem not_mem_keys_odel (k : Option Str) (l : List (Option Str × α)) (hnd : (l.map Prod.fst).Nodup) :
    k ∉ (odel k l).map Prod.fst := by
  induction l with
  | nil => simp [odel]
  | cons a l ih =>
    obtain ⟨a1, a2⟩ := a
    simp only [odel]
    simp only [List.map_cons, List.nodup_cons] at hnd
    split
    · grind
    · simp only [List.map_cons, List.mem_cons]
      grind

theorem olook_odel_self (k : Option Str) (l : List (Option Str × α)) (hnd : (l.map Prod.fst).Nodup) :
    olook k (odel k l) = none :=
  (olook_none_iff _ _).2 (not_mem_keys_odel k l hnd)

theorem odel_of_look_none (k : Option Str) (l : List (Option Str × α)) (h : olook k l = none) :
    odel k l = l := by
  induction l with
  | nil => rfl
  | cons a l ih =>
    obtain ⟨a1, a2⟩ := a
    simp only [olook] at h
    simp only [odel]
    split <;> grind

end dict

/-! ### definitions -/

theorem defElems_eq (dev vec : Option Str) (ps : List Part) :
    defElems dev vec ps = (elemsOfDef ps,
      ps.map (fun p => Event.value dev vec (attr p.fields "name") .none (textVal p.fields))) := by
  induction ps with
  | nil => rfl
  | cons p ps ih =>
    simp only [defElems, ih, elemsOfDef, List.map_cons]
    cases h : olook (attr p.fields "name") (elemsOfDef ps) with
    | none => simp [odel_of_look_none _ _ h]
    | some x => simp

/-! ### updates -/

/-- the value `applySet` computes for a child -/
def newValOf (k : VKind) (p : Part) : Except Exc CVal :=
  match k with
  | .blob => blobFromPart p
  | _ => .ok (textVal p.fields)

theorem childValue_eq (k : VKind) (p : Part) :
    childValue k p = match newValOf k p with | .ok v => some v | .error _ => none := by
  cases k <;> rfl

theorem applySet_cons (k : VKind) (dev vec : Option Str) (es : List (Option Str × CElem)) (p : Part) (ps : List Part) :
    applySet k dev vec es (p :: ps) =
      match olook (attr p.fields "name") es with
      | none => applySet k dev vec es ps
      | some e =>
        match newValOf k p with
        | .error x => (es, [], some x)
        | .ok nv =>
          ((applySet k dev vec (oput (attr p.fields "name") { e with value := nv } es) ps).1,
           (if cvNe nv e.value then
              Event.value dev vec (attr p.fields "name") e.value nv ::
                (applySet k dev vec (oput (attr p.fields "name") { e with value := nv } es) ps).2.1
            else (applySet k dev vec (oput (attr p.fields "name") { e with value := nv } es) ps).2.1),
           (applySet k dev vec (oput (attr p.fields "name") { e with value := nv } es) ps).2.2) := by
  cases k <;> rfl

theorem applyUpdate_cons (k : VKind) (es : List (Option Str × CElem)) (p : Part) (ps : List Part) :
    applyUpdate k es (p :: ps) =
      applyUpdate k (match olook (attr p.fields "name") es, childValue k p with
        | some e, some v => oput (attr p.fields "name") { e with value := v } es
        | _, _ => es) ps := rfl

theorem applySet_ok (k : VKind) (dev vec : Option Str) (ps : List Part) :
    ∀ es, (∀ p ∈ ps, (olook (attr p.fields "name") es).isSome → (childValue k p).isSome) →
      applySet k dev vec es ps = (applyUpdate k es ps, updateEvents k dev vec es ps, none) := by
  induction ps with
  | nil => intro es _; rfl
  | cons p ps ih =>
    intro es h
    rw [applySet_cons, applyUpdate_cons]
    simp only [updateEvents]
    cases hl : olook (attr p.fields "name") es with
    | none =>
      simp only []
      exact ih es (fun q hq => h q (List.mem_cons_of_mem _ hq))
    | some e =>
      have hc := h p (List.mem_cons_self ..) (by simp [hl])
      rw [childValue_eq] at hc ⊢
      cases hv : newValOf k p with
      | error x => simp [hv] at hc
      | ok nv =>
        simp only []
        rw [ih]
        · simp only [cvNe]
          split <;> simp_all
        · intro q hq hq'
          apply h q (List.mem_cons_of_mem _ hq)
          rw [olook_oput] at hq'
          split at hq' <;> simp_all

theorem streamOk_children (σ : Mirror) (m : Msg) (kind : VKind) (d : CDev) (v : CVec)
    (h : streamOk σ m = true) (hd : defKind m.tag = none) (hs : setKind m.tag = some kind)
    (hdev : olook (attr m.fields "device") σ = some d) (hv : olook (attr m.fields "name") d.vecs = some v)
    (hk : v.kind = kind) :
    ∀ p ∈ m.children.getD [], (olook (attr p.fields "name") v.elems).isSome → (childValue kind p).isSome := by
  intro p hp hl
  cases kind with
  | blob =>
    simp only [streamOk, classify, hd, hs, hdev, hv, hk] at h
    simp only [bne_self_eq_false, Bool.false_or, List.all_eq_true] at h
    have := h p hp
    cases hh : olook (attr p.fields "name") v.elems <;> simp_all
  | _ => simp [childValue]

theorem processMessage_spec (σ : Mirror) (m : Msg) (h : streamOk σ m = true) :
    (processMessage σ m).exc = none ∧ (processMessage σ m).mirror = refStep σ m ∧
    (processMessage σ m).events = eventsOf σ m := by
  cases hd : defKind m.tag with
  | some kind =>
    simp only [processMessage, refStep, eventsOf, classify, hd, defElems_eq, viewOfDef]
    cases olook (attr m.fields "device") σ <;> simp
  | none =>
    cases hs : setKind m.tag with
    | some kind =>
      simp only [processMessage, refStep, eventsOf, classify, hd, hs, onDev]
      cases hdev : olook (attr m.fields "device") σ with
      | none => simp
      | some d =>
        simp only []
        cases hv : olook (attr m.fields "name") d.vecs with
        | none => simp [oput_self _ _ _ hdev]
        | some v =>
          simp only []
          by_cases hk : v.kind = kind
          · have := applySet_ok kind (attr m.fields "device") (attr m.fields "name") (m.children.getD []) v.elems
              (streamOk_children σ m kind d v h hd hs hdev hv hk)
            simp [hk, this]
          · simp [hk, oput_self _ _ _ hdev]
    | none =>
      simp only [processMessage, refStep, eventsOf, classify, hd, hs, onDev]
      by_cases ht : m.tag = s "delProperty"
      · simp only [ht, if_true]
        cases hdev : olook (attr m.fields "device") σ with
        | none =>
          cases hn : attr m.fields "name" with
          | none => simp [odel_of_look_none _ _ hdev]
          | some n => simp
        | some d =>
          cases hn : attr m.fields "name" with
          | none => simp
          | some n => simp
      · simp [ht]

/-! ### well-formedness (unique keys) -/

def VecsWf (vs : List (Option Str × CVec)) : Prop :=
  (vs.map Prod.fst).Nodup ∧ ∀ v ∈ vs, (v.2.elems.map Prod.fst).Nodup

def Wf (σ : Mirror) : Prop :=
  (σ.map Prod.fst).Nodup ∧ ∀ d ∈ σ, VecsWf d.2.vecs

theorem VecsWf_nil : VecsWf [] := by simp [VecsWf]

theorem Wf_look {σ : Mirror} {dev : Option Str} {d : CDev} (h : Wf σ) (hl : olook dev σ = some d) : VecsWf d.vecs :=
  h.2 _ (olook_mem _ _ _ hl)

theorem VecsWf_look {vs : List (Option Str × CVec)} {name : Option Str} {v : CVec} (h : VecsWf vs)
    (hl : olook name vs = some v) : (v.elems.map Prod.fst).Nodup :=
  h.2 _ (olook_mem _ _ _ hl)

theorem Wf_oput {σ : Mirror} (dev : Option Str) (d : CDev) (h : Wf σ) (hd : VecsWf d.vecs) : Wf (oput dev d σ) := by
  refine ⟨nodup_keys_oput _ _ _ h.1, fun x hx => ?_⟩
  rcases mem_oput _ _ _ _ hx with hx | hx
  · exact h.2 x hx
  · subst hx; exact hd

theorem VecsWf_oput {vs : List (Option Str × CVec)} (name : Option Str) (v : CVec) (h : VecsWf vs)
    (hv : (v.elems.map Prod.fst).Nodup) : VecsWf (oput name v vs) := by
  refine ⟨nodup_keys_oput _ _ _ h.1, fun x hx => ?_⟩
  rcases mem_oput _ _ _ _ hx with hx | hx
  · exact h.2 x hx
  · subst hx; exact hv

theorem Wf_odel {σ : Mirror} (dev : Option Str) (h : Wf σ) : Wf (odel dev σ) :=
  ⟨nodup_keys_odel _ _ h.1, fun x hx => h.2 x (mem_odel _ _ _ hx)⟩

theorem VecsWf_odel {vs : List (Option Str × CVec)} (name : Option Str) (h : VecsWf vs) : VecsWf (odel name vs) :=
  ⟨nodup_keys_odel _ _ h.1, fun x hx => h.2 x (mem_odel _ _ _ hx)⟩

theorem nodup_elemsOfDef (ps : List Part) : ((elemsOfDef ps).map Prod.fst).Nodup := by
  induction ps with
  | nil => simp [elemsOfDef]
  | cons p ps ih =>
    simp only [elemsOfDef, List.map_cons, List.nodup_cons]
    exact ⟨not_mem_keys_odel _ _ ih, nodup_keys_odel _ _ ih⟩

theorem applySet_keys (k : VKind) (dev vec : Option Str) (ps : List Part) :
    ∀ es, (applySet k dev vec es ps).1.map Prod.fst = es.map Prod.fst := by
  induction ps with
  | nil => intro es; rfl
  | cons p ps ih =>
    intro es
    rw [applySet_cons]
    split
    · exact ih _
    · rename_i e he
      split
      · rfl
      · simp only []
        rw [ih, keys_oput_of_look _ _ _ _ he]

theorem Wf_processMessage (σ : Mirror) (m : Msg) (h : Wf σ) : Wf (processMessage σ m).mirror := by
  unfold processMessage
  simp only [defElems_eq]
  split
  · -- definition
    apply Wf_oput _ _ h
    apply VecsWf_oput
    · split
      · rename_i d hd; simp only []; exact Wf_look h hd
      · exact VecsWf_nil
    · exact nodup_elemsOfDef _
  · split
    · split
      · exact h
      · rename_i d hd
        split
        · exact h
        · rename_i v hv
          have hdw := Wf_look h hd
          have hvw := VecsWf_look hdw hv
          split
          · exact h
          · refine Wf_oput _ _ h (VecsWf_oput _ _ hdw ?_)
            simp only [applySet_keys]
            exact hvw
    · split
      · split
        · exact h
        · rename_i d hd
          split
          · exact Wf_odel _ h
          · exact Wf_oput _ _ h (VecsWf_odel _ (Wf_look h hd))
      · exact h

/-! ### a value event of an update is a change -/

theorem applySet_changed (k : VKind) (dev vec : Option Str) (ps : List Part) :
    ∀ es, ∀ d v e o n, Event.value d v e o n ∈ (applySet k dev vec es ps).2.1 → o ≠ n := by
  induction ps with
  | nil => intro es d v e o n h; simp [applySet] at h
  | cons p ps ih =>
    intro es d v e' o n hmem
    rw [applySet_cons] at hmem
    split at hmem
    · exact ih _ _ _ _ _ _ hmem
    · rename_i e he
      split at hmem
      · simp at hmem
      · simp only [] at hmem
        split at hmem
        · rename_i hne
          simp only [List.mem_cons, Event.value.injEq] at hmem
          rcases hmem with hmem | hmem
          · obtain ⟨_, _, _, rfl, rfl⟩ := hmem
            simp only [cvNe, bne_iff_ne, ne_eq] at hne
            exact fun hc => hne hc.symm
          · exact ih _ _ _ _ _ _ hmem
        · exact ih _ _ _ _ _ _ hmem

/-! ### `track` -/

def trackF (dev vec elem : Option Str) (acc : Option CVal) (ev : Event) : Option CVal :=
  match ev with
  | .value d v e _ new => if d = dev && v = vec && e = elem then some new else acc
  | _ => acc

theorem track_eq (log : List Event) (dev vec elem : Option Str) :
    track log dev vec elem = log.foldl (trackF dev vec elem) none := rfl

theorem track_append (l l' : List Event) (d v e : Option Str) :
    track (l ++ l') d v e = l'.foldl (trackF d v e) (track l d v e) := by
  simp [track_eq, List.foldl_append]

theorem foldl_trackF_other (dev name dn vn en : Option Str) (evs : List Event)
    (hk : ∀ ev ∈ evs, evDev ev = dev ∧ evVec ev = name) (hne : ¬(dev = dn ∧ name = vn)) :
    ∀ acc, evs.foldl (trackF dn vn en) acc = acc := by
  induction evs with
  | nil => intro acc; rfl
  | cons ev evs ih =>
    intro acc
    simp only [List.foldl_cons]
    rw [ih (fun x hx => hk x (List.mem_cons_of_mem _ hx))]
    have := hk ev (List.mem_cons_self ..)
    cases ev <;> simp [trackF, evDev, evVec] at this ⊢
    grind

theorem track_append_other (dev name dn vn en : Option Str) (L evs : List Event)
    (hk : ∀ ev ∈ evs, evDev ev = dev ∧ evVec ev = name) (hne : ¬(dev = dn ∧ name = vn)) :
    track (L ++ evs) dn vn en = track L dn vn en := by
  rw [track_append, foldl_trackF_other dev name dn vn en evs hk hne]

/-! ### the chain invariant -/

/-- lookup form of `chainInv` -/
def ChainL (σ : Mirror) (log : List Event) : Prop :=
  ∀ dn d, olook dn σ = some d → ∀ vn v, olook vn d.vecs = some v → ∀ en e, olook en v.elems = some e →
    track log dn vn en = some e.value

theorem ChainL_of_chainInv (σ : Mirror) (log : List Event) (h : chainInv σ log = true) : ChainL σ log := by
  intro dn d hd vn v hv en e he
  simp only [chainInv, List.all_eq_true, beq_iff_eq] at h
  exact h _ (olook_mem _ _ _ hd) _ (olook_mem _ _ _ hv) _ (olook_mem _ _ _ he)

theorem chainInv_of_ChainL (σ : Mirror) (log : List Event) (hwf : Wf σ) (h : ChainL σ log) :
    chainInv σ log = true := by
  simp only [chainInv, List.all_eq_true, beq_iff_eq]
  intro ⟨dn, d⟩ hd ⟨vn, v⟩ hv ⟨en, e⟩ he
  have hdw := hwf.2 _ hd
  have hvw := hdw.2 _ hv
  exact h dn d (mem_olook _ _ _ hwf.1 hd) vn v (mem_olook _ _ _ hdw.1 hv) en e (mem_olook _ _ _ hvw he)

/-- the invariant for the elements of one vector -/
def ElemInv (dev name : Option Str) (es : List (Option Str × CElem)) (L : List Event) : Prop :=
  ∀ en e, olook en es = some e → track L dev name en = some e.value

theorem ElemInv_step {dev name : Option Str} {es : List (Option Str × CElem)} {L : List Event}
    (h : ElemInv dev name es L) (pn : Option Str) (e0 : CElem) (nv : CVal) (h0 : olook pn es = some e0) :
    ElemInv dev name (oput pn { e0 with value := nv } es)
      (L ++ if nv != e0.value then [Event.value dev name pn e0.value nv] else []) := by
  intro en e he
  rw [olook_oput] at he
  rw [track_append]
  by_cases hpe : pn = en
  · subst hpe
    simp only [if_true, Option.some.injEq] at he
    subst he
    by_cases hc : nv = e0.value
    · simp [hc, h _ _ h0]
    · simp [hc, trackF]
  · simp only [hpe, if_false] at he
    split
    · simp [trackF, hpe, h _ _ he]
    · simp [h _ _ he]

theorem updateEvents_cons (k : VKind) (dev name : Option Str) (es : List (Option Str × CElem)) (p : Part)
    (ps : List Part) :
    updateEvents k dev name es (p :: ps) =
      match olook (attr p.fields "name") es, childValue k p with
      | some e, some v =>
        (if v != e.value then [Event.value dev name (attr p.fields "name") e.value v] else []) ++
          updateEvents k dev name (oput (attr p.fields "name") { e with value := v } es) ps
      | _, _ => updateEvents k dev name es ps := rfl

theorem ElemInv_update (k : VKind) (dev name : Option Str) (ps : List Part) :
    ∀ es L, ElemInv dev name es L →
      ElemInv dev name (applyUpdate k es ps) (L ++ updateEvents k dev name es ps) := by
  induction ps with
  | nil => intro es L h; simpa [applyUpdate, updateEvents] using h
  | cons p ps ih =>
    intro es L h
    rw [applyUpdate_cons, updateEvents_cons]
    split
    · rename_i e v he hv
      rw [← List.append_assoc]
      exact ih _ _ (ElemInv_step h _ _ _ he)
    · exact ih _ _ h

theorem updateEvents_keys (k : VKind) (dev name : Option Str) (ps : List Part) :
    ∀ es, ∀ ev ∈ updateEvents k dev name es ps, evDev ev = dev ∧ evVec ev = name := by
  induction ps with
  | nil => intro es ev h; simp [updateEvents] at h
  | cons p ps ih =>
    intro es ev h
    rw [updateEvents_cons] at h
    split at h
    · simp only [List.mem_append] at h
      rcases h with h | h
      · split at h
        · simp only [List.mem_singleton] at h; subst h; simp [evDev, evVec]
        · simp at h
      · exact ih _ _ h
    · exact ih _ _ h

theorem updateEvents_old (k : VKind) (dev name : Option Str) (ps : List Part) :
    ∀ es L pre, ElemInv dev name es L → ∀ post d v e o n,
      updateEvents k dev name es ps = pre ++ Event.value d v e o n :: post →
      track (L ++ pre) d v e = some o := by
  induction ps with
  | nil => intro es L pre _ post d v e o n h; simp [updateEvents] at h
  | cons p ps ih =>
    intro es L pre hinv post d v e o n h
    rw [updateEvents_cons] at h
    split at h
    · rename_i e0 nv he hv
      have hstep := ElemInv_step hinv _ _ nv he
      split at h
      · cases pre with
        | nil =>
          simp only [List.nil_append, List.cons_append, List.cons.injEq, Event.value.injEq] at h
          obtain ⟨⟨rfl, rfl, rfl, rfl, rfl⟩, _⟩ := h
          simpa using hinv _ _ he
        | cons a pre' =>
          simp only [List.nil_append, List.cons_append, List.cons.injEq] at h
          obtain ⟨rfl, h⟩ := h
          rename_i hne
          simp only [hne, if_true] at hstep
          have := ih _ _ pre' hstep post d v e o n h
          simpa [List.append_assoc] using this
      · rename_i hne
        simp only [List.nil_append] at h
        have := ih _ _ pre hstep post d v e o n h
        simpa [hne] using this
    · exact ih _ _ pre hinv post d v e o n h

/-! definitions: the dict keeps the last child of a name, which is also the last event of that key -/

theorem olook_elemsOfDef_cons (en : Option Str) (p : Part) (ps : List Part) :
    olook en (elemsOfDef (p :: ps)) =
      if attr p.fields "name" = en then
        some ((olook en (elemsOfDef ps)).getD
          { name := attr p.fields "name", label := attr p.fields "label", value := textVal p.fields })
      else olook en (elemsOfDef ps) := by
  simp only [elemsOfDef, olook]
  split
  · rename_i h; subst h; rfl
  · rename_i h; exact olook_odel_ne _ _ _ h

theorem foldl_trackF_def (dev name en : Option Str) (ps : List Part) :
    ∀ acc, (ps.map (fun p => Event.value dev name (attr p.fields "name") .none (textVal p.fields))).foldl
        (trackF dev name en) acc =
      match olook en (elemsOfDef ps) with
      | some e => some e.value
      | none => acc := by
  induction ps with
  | nil => intro acc; simp [elemsOfDef, olook]
  | cons p ps ih =>
    intro acc
    simp only [List.map_cons, List.foldl_cons, ih, olook_elemsOfDef_cons]
    by_cases hpe : attr p.fields "name" = en
    · simp only [hpe, if_true, trackF]
      cases olook en (elemsOfDef ps) <;> simp
    · simp only [hpe, if_false, trackF]
      cases olook en (elemsOfDef ps) <;> simp

theorem ElemInv_def (dev name : Option Str) (ps : List Part) (L : List Event) :
    ElemInv dev name (elemsOfDef ps)
      (L ++ ps.map (fun p => Event.value dev name (attr p.fields "name") .none (textVal p.fields))) := by
  intro en e he
  rw [track_append, foldl_trackF_def, he]

theorem ElemInv_append_nonvalue {dev name : Option Str} {es : List (Option Str × CElem)} {L : List Event}
    (h : ElemInv dev name es L) (evs : List Event) (hev : ∀ ev ∈ evs, ∀ d v e o n, ev ≠ Event.value d v e o n) :
    ElemInv dev name es (L ++ evs) := by
  intro en e he
  rw [track_append, ← h en e he]
  generalize track L dev name en = acc
  induction evs with
  | nil => rfl
  | cons ev evs ih =>
    simp only [List.foldl_cons]
    have h1 := hev ev (List.mem_cons_self ..)
    cases ev with
    | value d v e o n => exact absurd rfl (h1 d v e o n)
    | _ => simp only [trackF]; exact ih (fun x hx => hev x (List.mem_cons_of_mem _ hx))

/-- replacing one vector of one device, with events that all carry that device/vector -/
theorem ChainL_replace (σ : Mirror) (log evs : List Event) (dev name : Option Str) (d : CDev) (V : CVec)
    (hinv : ChainL σ log)
    (hd : olook dev σ = some d ∨ d.vecs = [])
    (hk : ∀ ev ∈ evs, evDev ev = dev ∧ evVec ev = name)
    (hV : ElemInv dev name V.elems (log ++ evs)) :
    ChainL (oput dev { vecs := oput name V d.vecs } σ) (log ++ evs) := by
  intro dn d' hd' vn v' hv' en e he
  rw [olook_oput] at hd'
  by_cases hdn : dev = dn
  · subst hdn
    simp only [if_true, Option.some.injEq] at hd'
    subst hd'
    simp only [olook_oput] at hv'
    by_cases hvn : name = vn
    · subst hvn
      simp only [if_true, Option.some.injEq] at hv'
      subst hv'
      exact hV en e he
    · simp only [hvn, if_false] at hv'
      rw [track_append_other dev name dev vn en log evs hk (by simp [hvn])]
      rcases hd with hd | hd
      · exact hinv _ _ hd _ _ hv' _ _ he
      · simp [hd, olook] at hv'
  · simp only [hdn, if_false] at hd'
    rw [track_append_other dev name dn vn en log evs hk (by simp [hdn])]
    exact hinv _ _ hd' _ _ hv' _ _ he

theorem ChainL_step (σ : Mirror) (log : List Event) (hwf : Wf σ) (hinv : ChainL σ log) (m : Msg) :
    ChainL (refStep σ m) (log ++ eventsOf σ m) := by
  cases hd : defKind m.tag with
  | some kind =>
    simp only [refStep, eventsOf, classify, hd, viewOfDef]
    apply ChainL_replace σ log _ _ _ _ _ hinv
    · cases olook (attr m.fields "device") σ <;> simp
    · intro ev hev
      simp only [List.mem_append, List.mem_map, List.mem_cons, List.not_mem_nil, or_false] at hev
      rcases hev with ⟨p, _, rfl⟩ | rfl | rfl <;> simp [evDev, evVec]
    · rw [← List.append_assoc]
      apply ElemInv_append_nonvalue (ElemInv_def _ _ _ _)
      intro ev hev
      simp only [List.mem_cons, List.not_mem_nil, or_false] at hev
      rcases hev with rfl | rfl <;> simp
  | none =>
    cases hs : setKind m.tag with
    | some kind =>
      simp only [refStep, eventsOf, classify, hd, hs, onDev]
      cases hdev : olook (attr m.fields "device") σ with
      | none => simpa using hinv
      | some d =>
        simp only []
        cases hv : olook (attr m.fields "name") d.vecs with
        | none => simpa [oput_self _ _ _ hdev] using hinv
        | some v =>
          simp only []
          by_cases hk : v.kind = kind
          · simp only [hk, if_true]
            apply ChainL_replace σ log _ _ _ _ _ hinv (Or.inl hdev)
            · intro ev hev
              simp only [List.mem_append] at hev
              rcases hev with hev | hev
              · split at hev
                · simp only [List.mem_singleton] at hev; subst hev; simp [evDev, evVec]
                · simp at hev
              · exact updateEvents_keys _ _ _ _ _ _ hev
            · rw [← List.append_assoc]
              apply ElemInv_update
              apply ElemInv_append_nonvalue
              · exact fun en e he => hinv _ _ hdev _ _ hv _ _ he
              · intro ev hev
                split at hev
                · simp only [List.mem_singleton] at hev; subst hev; simp
                · simp at hev
          · simpa [hk, oput_self _ _ _ hdev] using hinv
    | none =>
      simp only [refStep, eventsOf, classify, hd, hs, onDev]
      by_cases ht : m.tag = s "delProperty"
      · simp only [ht, if_true, List.append_nil]
        cases hn : attr m.fields "name" with
        | none =>
          simp only []
          intro dn d' hd' vn v' hv' en e he
          by_cases hdn : attr m.fields "device" = dn
          · subst hdn
            rw [olook_odel_self _ _ hwf.1] at hd'
            simp at hd'
          · rw [olook_odel_ne _ _ _ hdn] at hd'
            exact hinv _ _ hd' _ _ hv' _ _ he
        | some n =>
          simp only []
          cases hdev : olook (attr m.fields "device") σ with
          | none => exact hinv
          | some d =>
            simp only []
            intro dn d' hd' vn v' hv' en e he
            rw [olook_oput] at hd'
            by_cases hdn : attr m.fields "device" = dn
            · subst hdn
              simp only [if_true, Option.some.injEq] at hd'
              subst hd'
              simp only [] at hv'
              by_cases hvn : some n = vn
              · subst hvn
                rw [olook_odel_self _ _ (Wf_look hwf hdev).1] at hv'
                simp at hv'
              · rw [olook_odel_ne _ _ _ hvn] at hv'
                exact hinv _ _ hdev _ _ hv' _ _ he
            · simp only [hdn, if_false] at hd'
              exact hinv _ _ hd' _ _ hv' _ _ he
      · simpa [ht] using hinv

/-! ### the chain for every message (no `streamOk`): `applySet` may stop at an ill-formed BLOB child -/

theorem applySet_evkeys (k : VKind) (dev name : Option Str) (ps : List Part) :
    ∀ es, ∀ ev ∈ (applySet k dev name es ps).2.1, evDev ev = dev ∧ evVec ev = name := by
  induction ps with
  | nil => intro es ev h; simp [applySet] at h
  | cons p ps ih =>
    intro es ev h
    rw [applySet_cons] at h
    split at h
    · exact ih _ _ h
    · split at h
      · simp at h
      · simp only [] at h
        split at h
        · simp only [List.mem_cons] at h
          rcases h with h | h
          · subst h; simp [evDev, evVec]
          · exact ih _ _ h
        · exact ih _ _ h

/-- the element invariant holds at whatever point `applySet` stops -/
theorem ElemInv_applySet (k : VKind) (dev name : Option Str) (ps : List Part) :
    ∀ es L, ElemInv dev name es L →
      ElemInv dev name (applySet k dev name es ps).1 (L ++ (applySet k dev name es ps).2.1) := by
  induction ps with
  | nil => intro es L h; simpa [applySet] using h
  | cons p ps ih =>
    intro es L h
    rw [applySet_cons]
    split
    · exact ih _ _ h
    · rename_i e he
      split
      · -- the failing child: nothing stored, nothing announced
        simpa using h
      · rename_i nv hnv
        simp only []
        have hstep := ElemInv_step h _ _ nv he
        have := ih _ _ hstep
        simp only [cvNe]
        by_cases hne : (nv != e.value) = true
        · simp only [hne, if_true, List.append_assoc, List.singleton_append] at this ⊢
          exact this
        · simp only [Bool.not_eq_true] at hne
          simp only [hne, Bool.false_eq_true, if_false, List.append_nil] at this ⊢
          exact this

theorem ChainL_processMessage (σ : Mirror) (log : List Event) (hwf : Wf σ) (hinv : ChainL σ log) (m : Msg) :
    ChainL (processMessage σ m).mirror (log ++ (processMessage σ m).events) := by
  cases hd : defKind m.tag with
  | some kind =>
    have hok : streamOk σ m = true := by simp [streamOk, classify, hd]
    have hspec := processMessage_spec σ m hok
    rw [hspec.2.1, hspec.2.2]
    exact ChainL_step σ log hwf hinv m
  | none =>
    cases hs : setKind m.tag with
    | none =>
      have hok : streamOk σ m = true := by
        simp only [streamOk, classify, hd, hs]
        by_cases ht : m.tag = s "delProperty" <;> simp [ht]
      have hspec := processMessage_spec σ m hok
      rw [hspec.2.1, hspec.2.2]
      exact ChainL_step σ log hwf hinv m
    | some kind =>
      simp only [processMessage, hd, hs]
      cases hdev : olook (attr m.fields "device") σ with
      | none => simpa using hinv
      | some d =>
        simp only []
        cases hv : olook (attr m.fields "name") d.vecs with
        | none => simpa using hinv
        | some v =>
          simp only []
          by_cases hk : v.kind = kind
          · simp only [hk, bne_self_eq_false, Bool.false_eq_true, if_false]
            apply ChainL_replace σ log _ _ _ _ _ hinv (Or.inl hdev)
            · intro ev hev
              simp only [List.mem_append] at hev
              rcases hev with hev | hev
              · split at hev
                · simp only [List.mem_singleton] at hev; subst hev; simp [evDev, evVec]
                · simp at hev
              · exact applySet_evkeys _ _ _ _ _ _ hev
            · rw [← List.append_assoc]
              apply ElemInv_applySet
              apply ElemInv_append_nonvalue
              · exact fun en e he => hinv _ _ hdev _ _ hv _ _ he
              · intro ev hev
                split at hev
                · simp only [List.mem_singleton] at hev; subst hev; simp
                · simp at hev
          · simpa [hk] using hinv

end Indi.Cli
