/-
  C01, part 1: generic facts — interleavings (`merges`), the mirror seen as a map from
  (device, property) to property views (`look`), and what one message does to it (`upd`).
-/
import Indi.Spec.Sys
import Indi.Proofs.Cli
import Mathlib.Data.List.Forall2

namespace Indi.SysP
open Indi Indi.Dev Indi.Cli Indi.Sys

/-! ### interleavings -/

theorem merges_nil_left {α : Type} (bs : List α) : merges [] bs = [bs] := by
  unfold merges; rfl

theorem merges_nil_right {α : Type} (as : List α) : merges as [] = [as] := by
  cases as with
  | nil => exact merges_nil_left []
  | cons a as => unfold merges; rfl

theorem merges_cons_cons {α : Type} (a : α) (as : List α) (b : α) (bs : List α) :
    merges (a :: as) (b :: bs) =
      (merges as (b :: bs)).map (a :: ·) ++ (merges (a :: as) bs).map (b :: ·) := by
  rw [merges]

/-- induction principle for membership in `merges` -/
theorem merges_induction {α : Type} (P : List α → List α → List α → Prop)
    (hl : ∀ bs, P [] bs bs) (hr : ∀ as, P as [] as)
    (hA : ∀ a as b bs l, l ∈ merges as (b :: bs) → P as (b :: bs) l → P (a :: as) (b :: bs) (a :: l))
    (hB : ∀ a as b bs l, l ∈ merges (a :: as) bs → P (a :: as) bs l → P (a :: as) (b :: bs) (b :: l)) :
    ∀ as bs l, l ∈ merges as bs → P as bs l := by
  intro as bs
  induction as, bs using merges.induct with
  | case1 bs =>
    intro l hl'
    rw [merges_nil_left, List.mem_singleton] at hl'
    subst hl'; exact hl _
  | case2 a as =>
    intro l hl'
    rw [merges_nil_right, List.mem_singleton] at hl'
    subst hl'; exact hr _
  | case3 a as b bs ih1 ih2 =>
    intro l hl'
    rw [merges_cons_cons, List.mem_append, List.mem_map, List.mem_map] at hl'
    rcases hl' with ⟨l', hl', rfl⟩ | ⟨l', hl', rfl⟩
    · exact hA a as b bs l' hl' (ih1 l' hl')
    · exact hB a as b bs l' hl' (ih2 l' hl')

theorem mem_of_mem_merges {α : Type} (as bs l : List α) (h : l ∈ merges as bs) :
    ∀ x, x ∈ l ↔ x ∈ as ∨ x ∈ bs := by
  revert h
  refine merges_induction (fun as bs l => ∀ x, x ∈ l ↔ x ∈ as ∨ x ∈ bs) ?_ ?_ ?_ ?_ as bs l
  · intro bs x; simp
  · intro as x; simp
  · intro a as b bs l _ ih x
    simp only [List.mem_cons, ih]
    constructor
    · rintro (h | h | h | h) <;> simp [h]
    · rintro ((h | h) | h | h) <;> simp [h]
  · intro a as b bs l _ ih x
    simp only [List.mem_cons, ih]
    constructor
    · rintro (h | (h | h) | h) <;> simp [h]
    · rintro ((h | h) | h | h) <;> simp [h]

theorem filter_mem_merges {α : Type} (q : α → Bool) (as bs l : List α) (h : l ∈ merges as bs) :
    l.filter q ∈ merges (as.filter q) (bs.filter q) := by
  revert h
  refine merges_induction (fun as bs l => l.filter q ∈ merges (as.filter q) (bs.filter q)) ?_ ?_ ?_ ?_ as bs l
  · intro bs; simp [merges_nil_left]
  · intro as; simp [merges_nil_right]
  · intro a as b bs l _ ih
    by_cases ha : q a = true
    · by_cases hb : q b = true
      · simp only [List.filter_cons, ha, hb, if_true] at ih ⊢
        rw [merges_cons_cons, List.mem_append]
        left; exact List.mem_map.2 ⟨_, ih, rfl⟩
      · simp only [List.filter_cons, ha, hb, if_true] at ih ⊢
        simp only [Bool.false_eq_true, if_false] at ih ⊢
        -- the filtered right list no longer starts with b: generalise
        generalize hbs : bs.filter q = bs' at ih ⊢
        cases bs' with
        | nil =>
          rw [merges_nil_right, List.mem_singleton] at ih ⊢
          rw [ih]
        | cons b' bs'' =>
          rw [merges_cons_cons, List.mem_append]
          left; exact List.mem_map.2 ⟨_, ih, rfl⟩
    · simp only [List.filter_cons, ha] at ih ⊢
      simpa using ih
  · intro a as b bs l _ ih
    by_cases hb : q b = true
    · by_cases ha : q a = true
      · simp only [List.filter_cons, ha, hb, if_true] at ih ⊢
        rw [merges_cons_cons, List.mem_append]
        right; exact List.mem_map.2 ⟨_, ih, rfl⟩
      · simp only [List.filter_cons, ha, hb, if_true] at ih ⊢
        simp only [Bool.false_eq_true, if_false] at ih ⊢
        generalize has : as.filter q = as' at ih ⊢
        cases as' with
        | nil =>
          rw [merges_nil_left, List.mem_singleton] at ih ⊢
          rw [ih]
        | cons a' as'' =>
          rw [merges_cons_cons, List.mem_append]
          right; exact List.mem_map.2 ⟨_, ih, rfl⟩
    · simp only [List.filter_cons, hb] at ih ⊢
      simpa using ih

theorem getLast?_cons_ne_nil {α : Type} (a : α) (l : List α) (h : l ≠ []) : (a :: l).getLast? = l.getLast? := by
  cases l with
  | nil => exact absurd rfl h
  | cons b l => simp [List.getLast?_cons_cons]

/-- the last message to arrive is the last one of one of the two connections -/
theorem getLast?_merges {α : Type} (as bs l : List α) (h : l ∈ merges as bs) :
    l.getLast? = as.getLast? ∨ l.getLast? = bs.getLast? := by
  revert h
  refine merges_induction (fun as bs l => l.getLast? = as.getLast? ∨ l.getLast? = bs.getLast?) ?_ ?_ ?_ ?_ as bs l
  · intro bs; exact Or.inr rfl
  · intro as; exact Or.inl rfl
  · intro a as b bs l hl ih
    have hne : l ≠ [] := by
      intro e; subst e
      have := (mem_of_mem_merges _ _ _ hl b).2 (Or.inr (by simp))
      simp at this
    rw [getLast?_cons_ne_nil a l hne]
    rcases ih with ih | ih
    · by_cases has : as = []
      · subst has
        rw [merges_nil_left, List.mem_singleton] at hl
        subst hl
        exact Or.inr rfl
      · left; rw [ih, getLast?_cons_ne_nil a as has]
    · exact Or.inr ih
  · intro a as b bs l hl ih
    have hne : l ≠ [] := by
      intro e; subst e
      have := (mem_of_mem_merges _ _ _ hl a).2 (Or.inl (by simp))
      simp at this
    rw [getLast?_cons_ne_nil b l hne]
    rcases ih with ih | ih
    · exact Or.inl ih
    · by_cases hbs : bs = []
      · subst hbs
        rw [merges_nil_right, List.mem_singleton] at hl
        subst hl
        exact Or.inl rfl
      · right; rw [ih, getLast?_cons_ne_nil b bs hbs]

theorem self_mem_merges_filter {α : Type} (q : α → Bool) : ∀ l : List α,
    l ∈ merges (l.filter fun x => !q x) (l.filter q)
  | [] => by simp [merges_nil_left]
  | x :: l => by
    have ih := self_mem_merges_filter q l
    by_cases hx : q x = true
    · simp only [List.filter_cons, hx, Bool.not_true, Bool.false_eq_true, if_false, if_true]
      generalize has : (l.filter fun x => !q x) = as' at ih ⊢
      cases as' with
      | nil =>
        rw [merges_nil_left, List.mem_singleton] at ih ⊢
        rw [← ih]
      | cons a as'' =>
        rw [merges_cons_cons, List.mem_append]
        right; exact List.mem_map.2 ⟨_, ih, rfl⟩
    · simp only [Bool.not_eq_true] at hx
      simp only [List.filter_cons, hx, Bool.not_false, if_true, Bool.false_eq_true, if_false]
      generalize hbs : l.filter q = bs' at ih ⊢
      cases bs' with
      | nil =>
        rw [merges_nil_right, List.mem_singleton] at ih ⊢
        rw [← ih]
      | cons b bs'' =>
        rw [merges_cons_cons, List.mem_append]
        left; exact List.mem_map.2 ⟨_, ih, rfl⟩

/-! ### the mirror as a map -/

/-- the view a mirror holds of property `vn` of device `dn` -/
def look (σ : Mirror) (dn vn : Option Str) : Option CVec :=
  match olook dn σ with
  | some cd => olook vn cd.vecs
  | none => none

/-- the (device, property) a message addresses -/
def key (m : Msg) : Option Str × Option Str := (attr m.fields "device", attr m.fields "name")

/-- the view a definition carries -/
def defVec (kind : VKind) (m : Msg) : CVec :=
  { kind := kind, name := attr m.fields "name", group := attr m.fields "group", label := attr m.fields "label",
    timestamp := attr m.fields "timestamp", message := attr m.fields "message",
    state := attr m.fields "state",
    elems := (defElems (attr m.fields "device") (attr m.fields "name") (m.children.getD [])).1 }

/-- the view after an update -/
def setVecC (kind : VKind) (m : Msg) (v : CVec) : CVec :=
  { v with state := attr m.fields "state",
           elems := (applySet kind (attr m.fields "device") (attr m.fields "name") v.elems (m.children.getD [])).1 }

/-- what a message does to the view it addresses -/
def upd (oc : Option CVec) (m : Msg) : Option CVec :=
  match defKind m.tag with
  | some kind => some (defVec kind m)
  | none =>
    match setKind m.tag with
    | some kind =>
      (match oc with
       | none => none
       | some v => if v.kind != kind then some v else some (setVecC kind m v))
    | none => if m.tag = s "delProperty" then none else oc

/-- the mirror is a dict of dicts: no device entry holds a property name twice -/
def VWf (σ : Mirror) : Prop := ∀ nd ∈ σ, (nd.2.vecs.map Prod.fst).Nodup

theorem VWf_look {σ : Mirror} {dn : Option Str} {cd : CDev} (h : VWf σ) (hl : olook dn σ = some cd) :
    (cd.vecs.map Prod.fst).Nodup := h _ (olook_mem _ _ _ hl)

theorem VWf_oput {σ : Mirror} (dn : Option Str) (cd : CDev) (h : VWf σ) (hd : (cd.vecs.map Prod.fst).Nodup) :
    VWf (oput dn cd σ) := by
  intro x hx
  rcases mem_oput _ _ _ _ hx with hx | hx
  · exact h x hx
  · subst hx; exact hd

theorem VWf_processMessage (σ : Mirror) (m : Msg) (h : VWf σ) : VWf (processMessage σ m).mirror := by
  unfold processMessage
  simp only [defElems_eq]
  split
  · apply VWf_oput _ _ h
    apply nodup_keys_oput
    split
    · rename_i d hd; exact VWf_look h hd
    · exact List.nodup_nil
  · split
    · split
      · exact h
      · rename_i d hd
        split
        · exact h
        · split
          · exact h
          · exact VWf_oput _ _ h (nodup_keys_oput _ _ _ (VWf_look h hd))
    · split
      · split
        · exact h
        · rename_i d hd
          split
          · intro x hx; exact h x (mem_odel _ _ _ hx)
          · exact VWf_oput _ _ h (nodup_keys_odel _ _ (VWf_look h hd))
      · exact h

theorem look_oput_dev (σ : Mirror) (dn : Option Str) (cd : CDev) (dn' vn' : Option Str) :
    look (oput dn cd σ) dn' vn' = if dn = dn' then olook vn' cd.vecs else look σ dn' vn' := by
  unfold look
  rw [olook_oput]
  by_cases h : dn = dn'
  · simp [h]
  · simp [h]

/-- a message (that is not a device-wide `delProperty`) changes only the view it addresses -/
theorem look_process (σ : Mirror) (m : Msg) (hwf : VWf σ)
    (hname : m.tag = s "delProperty" → (attr m.fields "name").isSome = true) (dn vn : Option Str) :
    look (processMessage σ m).mirror dn vn =
      if key m = (dn, vn) then upd (look σ dn vn) m else look σ dn vn := by
  unfold processMessage upd key
  cases hd : defKind m.tag with
  | some kind =>
    simp only
    rw [look_oput_dev]
    by_cases h1 : attr m.fields "device" = dn
    · subst h1
      simp only [if_true, olook_oput]
      by_cases h2 : attr m.fields "name" = vn
      · subst h2
        simp [defVec]
      · have : ¬ ((attr m.fields "device", attr m.fields "name") = (attr m.fields "device", vn)) := by
          simp [h2]
        simp only [h2, this, if_false]
        unfold look
        cases olook (attr m.fields "device") σ <;> simp [olook]
    · have : ¬ ((attr m.fields "device", attr m.fields "name") = (dn, vn)) := by simp [h1]
      simp [h1, this]
  | none =>
    simp only
    cases hs : setKind m.tag with
    | some kind =>
      simp only
      cases hdev : olook (attr m.fields "device") σ with
      | none =>
        simp only
        split
        · rename_i hk
          simp only [Prod.mk.injEq] at hk
          obtain ⟨rfl, rfl⟩ := hk
          simp [look, hdev]
        · rfl
      | some d =>
        simp only
        cases hv : olook (attr m.fields "name") d.vecs with
        | none =>
          simp only
          split
          · rename_i hk
            simp only [Prod.mk.injEq] at hk
            obtain ⟨rfl, rfl⟩ := hk
            simp [look, hdev, hv]
          · rfl
        | some v =>
          simp only
          by_cases hkk : (v.kind != kind) = true
          · simp only [hkk, if_true]
            have hne : v.kind ≠ kind := by simpa using hkk
            split
            · rename_i hk
              simp only [Prod.mk.injEq] at hk
              obtain ⟨rfl, rfl⟩ := hk
              simp [look, hdev, hv, hne]
            · rfl
          · simp only [hkk, Bool.false_eq_true, if_false]
            have heq : v.kind = kind := by simpa using hkk
            rw [look_oput_dev]
            by_cases h1 : attr m.fields "device" = dn
            · subst h1
              simp only [if_true, olook_oput]
              by_cases h2 : attr m.fields "name" = vn
              · subst h2
                simp [look, hdev, hv, setVecC, heq]
              · have : ¬ ((attr m.fields "device", attr m.fields "name") = (attr m.fields "device", vn)) := by
                  simp [h2]
                simp [h2, this, look, hdev]
            · have : ¬ ((attr m.fields "device", attr m.fields "name") = (dn, vn)) := by simp [h1]
              simp [h1, this]
    | none =>
      simp only
      by_cases ht : m.tag = s "delProperty"
      · simp only [ht, if_true]
        have hn := hname ht
        cases hdev : olook (attr m.fields "device") σ with
        | none =>
          simp only
          split
          · rename_i hk
            simp only [Prod.mk.injEq] at hk
            obtain ⟨rfl, rfl⟩ := hk
            simp [look, hdev]
          · rfl
        | some d =>
          simp only
          cases hnm : attr m.fields "name" with
          | none => rw [hnm] at hn; cases hn
          | some n =>
            simp only
            rw [look_oput_dev]
            by_cases h1 : attr m.fields "device" = dn
            · subst h1
              simp only [if_true]
              by_cases h2 : some n = vn
              · subst h2
                simp only [if_true]
                exact olook_odel_self _ _ (VWf_look hwf hdev)
              · have : ¬ ((attr m.fields "device", some n) = (attr m.fields "device", vn)) := by simp [h2]
                simp only [this, if_false]
                rw [olook_odel_ne _ _ _ h2]
                simp [look, hdev]
            · have : ¬ ((attr m.fields "device", some n) = (dn, vn)) := by simp [h1]
              simp [h1, this]
      · simp [ht]

/-- the devices a mirror knows after a message: those before, and the one a definition names -/
theorem devkeys_process (σ : Mirror) (m : Msg)
    (hname : m.tag = s "delProperty" → (attr m.fields "name").isSome = true) :
    ∀ k ∈ (processMessage σ m).mirror.map Prod.fst,
      k ∈ σ.map Prod.fst ∨ ((defKind m.tag).isSome = true ∧ k = attr m.fields "device") := by
  intro k hk
  unfold processMessage at hk
  cases hd : defKind m.tag with
  | some kind =>
    simp only [hd] at hk
    rcases mem_keys_oput _ _ _ _ hk with h | h
    · exact Or.inl h
    · exact Or.inr ⟨rfl, h⟩
  | none =>
    simp only [hd] at hk
    left
    cases hs : setKind m.tag with
    | some kind =>
      simp only [hs] at hk
      split at hk
      · exact hk
      · split at hk
        · exact hk
        · split at hk
          · exact hk
          · rcases mem_keys_oput _ _ _ _ hk with h | h
            · exact h
            · rename_i d hdev _ _ _ _
              rw [h]
              exact List.mem_map.2 ⟨_, olook_mem _ _ _ hdev, rfl⟩
    | none =>
      simp only [hs] at hk
      split at hk
      · rename_i ht
        have hn := hname ht
        split at hk
        · exact hk
        · rename_i d hdev
          split at hk
          · rename_i hnm; rw [hnm] at hn; cases hn
          · rcases mem_keys_oput _ _ _ _ hk with h | h
            · exact h
            · rw [h]
              exact List.mem_map.2 ⟨_, olook_mem _ _ _ hdev, rfl⟩
      · exact hk

end Indi.SysP
