/-
  Document-level facts about the parser automaton: reachable-state invariants, the epilog, and the two facts
  framing (C02) needs about the writer's output — whatever parses contains the root's opener, and no proper
  prefix of a serialised element is a complete document.

  The case analysis over the automaton's modes is done once, in `Indi.Proofs.XmlDocStep` (`step_trans`).
-/
import Indi.Proofs.XmlDocStep
import Indi.Generated.Consts

namespace Indi.Xml
open Indi

namespace Doc

/-! ### the root's opener -/

def Contains (x T : Str) : Prop := ∃ a b, x = a ++ '<' :: T ++ b

theorem Contains.append {x T : Str} (h : Contains x T) (y : Str) : Contains (x ++ y) T := by
  obtain ⟨a, b, rfl⟩ := h
  exact ⟨a, b ++ y, by simp⟩

def RootIs (st : St) (T : Str) : Prop := (∃ e, st.done = some e ∧ e.tag = T) ∨ (tags st).getLast? = some T

theorem rootIs_close (st : St) (T : Str) (h : RootIs st.close T) : RootIs st T := by
  obtain ⟨mode, stack, done, cr⟩ := st
  revert h
  unfold St.close
  split <;> simp_all [RootIs, tags, St.fail]


structure Opener (x : Str) (st : St) : Prop where
  root : ∀ T, RootIs st T → Contains x T
  lt : ∀ b, st.mode = .lt b → ∃ pre, x = pre ++ ['<']
  tn : ∀ acc, st.mode = .tagName acc → ∃ pre, x = pre ++ '<' :: acc.reverse

theorem opener_init : Opener [] init := by
  constructor <;> simp [init, RootIs, tags]

theorem opener_step (x : Str) (st : St) (c : Char) (h : Opener x st) : Opener (x ++ [c]) (step st c) := by
  obtain ⟨hlt, htn, heff⟩ := step_trans st c
  refine ⟨?_, ?_, ?_⟩
  · intro T hT
    rcases heff with ⟨hd, ht⟩ | ⟨acc, hm, hd, ht⟩ | hc
    · exact (h.root T (by simpa [RootIs, hd, ht] using hT)).append _
    · rcases hT with ⟨e, he, rfl⟩ | hT
      · exact (h.root _ (Or.inl ⟨e, by rw [← hd]; exact he, rfl⟩)).append _
      · rw [ht] at hT
        cases hs : tags st with
        | nil =>
          rw [hs] at hT
          obtain ⟨pre, rfl⟩ := h.tn acc hm
          simp at hT
          subst hT
          exact ⟨pre, [c], by simp⟩
        | cons a l =>
          rw [hs, List.getLast?_cons_cons] at hT
          exact (h.root T (Or.inr (by rw [hs]; exact hT))).append _
    · rw [hc] at hT
      exact (h.root T (rootIs_close st T hT)).append _
  · intro b hb
    exact ⟨x, by rw [hlt b hb]⟩
  · intro acc hacc
    rcases htn acc hacc with ⟨b, hm, rfl, -⟩ | ⟨acc', hm, rfl⟩
    · obtain ⟨pre, rfl⟩ := h.lt b hm
      exact ⟨pre, by simp⟩
    · obtain ⟨pre, rfl⟩ := h.tn acc' hm
      exact ⟨pre, by simp⟩

theorem opener_run (y : Str) : ∀ (x : Str) (st : St), Opener x st → Opener (x ++ y) (run st y) := by
  induction y with
  | nil => intro x st h; simpa [run_nil] using h
  | cons c cs ih =>
    intro x st h
    have := ih (x ++ [c]) (step st c) (opener_step x st c h)
    simpa [run_cons] using this

theorem finish_ok {st : St} {e : Elem} (h : finish st = .ok e) : st.mode = .misc ∧ st.done = some e := by
  unfold finish at h
  split at h
  · cases h
  · split at h
    · simp_all
    · cases h
  · cases h


/-! ### reachable states -/

structure Inv (st : St) : Prop where
  done_stack : st.done.isSome → st.stack = []
  tn : ∀ acc, st.mode = .tagName acc → st.done = none

theorem inv_init : Inv init := by
  constructor <;> simp [init]

theorem inv_close (st : St) (h : Inv st) : st.close.done.isSome → st.close.stack = [] := by
  have := h.done_stack
  obtain ⟨mode, stack, done, cr⟩ := st
  unfold St.close
  split <;> simp_all [St.fail]

theorem inv_step (st : St) (c : Char) (h : Inv st) : Inv (step st c) := by
  obtain ⟨hlt, htn, heff⟩ := step_trans st c
  have hdone : ∀ acc, (step st c).mode = .tagName acc → (step st c).done = none := by
    intro acc hacc
    have hold : st.done = none := by
      rcases htn acc hacc with ⟨b, hm, -, hd⟩ | ⟨acc', hm, -⟩
      · exact hd
      · exact h.tn acc' hm
    rcases heff with ⟨hd, -⟩ | ⟨_, _, hd, -⟩ | hc
    · rw [hd, hold]
    · rw [hd, hold]
    · rw [hc] at hacc; simp at hacc
  refine ⟨?_, hdone⟩
  rcases heff with ⟨hd, ht⟩ | ⟨acc, hm, hd, ht⟩ | hc
  · intro hs
    rw [hd] at hs
    have := h.done_stack hs
    simp [tags, this] at ht
    exact ht
  · intro hs
    rw [hd, h.tn acc hm] at hs
    simp at hs
  · rw [hc]; exact inv_close st h

theorem inv_run (y : Str) : ∀ st, Inv st → Inv (run st y) := by
  induction y with
  | nil => intro st h; exact h
  | cons c cs ih => intro st h; exact ih _ (inv_step st c h)

/-! ### the epilog -/

theorem isS_xmlChar {c : Char} (h : isS c = true) : xmlChar c = true := by
  simp [isS] at h
  rcases h with ((rfl | rfl) | rfl) | rfl <;> decide

theorem step_misc_isS (st : St) (c : Char) (hm : st.mode = .misc) (hc : isS c = true) : step st c = st := by
  simp [step, stepMode, hm, hc, isS_xmlChar hc]

theorem run_misc_isS (st : St) (x : Str) (hm : st.mode = .misc) (hx : x.all isS = true) : run st x = st := by
  induction x with
  | nil => rfl
  | cons c cs ih =>
    simp at hx
    rw [run_cons, step_misc_isS st c hm hx.1]
    exact ih (by simpa using hx.2)

theorem noBangQ_tail (c : Char) (x : Str) (h : noBangQ (c :: x) = true) : noBangQ x = true := by
  cases x with
  | nil => rfl
  | cons d ds =>
    unfold noBangQ at h
    split at h
    · simp_all
    · simp_all
    · simp_all


theorem run_dead (st : St) (x : Str) (h : st.mode = .err ∨ st.mode = .uns) : (run st x).mode ≠ .misc := by
  rcases h with h | h
  · rw [run_err st x h, h]; simp
  · rw [run_uns st x h, h]; simp

theorem step_misc_dead (st : St) (c : Char) (hm : st.mode = .misc) (hc : isS c = false) (hlt : c ≠ '<') :
    (step st c).mode = .err := by
  by_cases hx : xmlChar c = true
  · simp [step, stepMode, hm, hx, hc, hlt, St.fail]
  · simp [step, hm, hx, St.fail]

theorem step_misc_lt (st : St) (hm : st.mode = .misc) : step st '<' = { st with mode := .lt false } := by
  have : xmlChar '<' = true := by decide
  have h2 : isS '<' = false := by decide
  simp [step, stepMode, hm, this, h2]

theorem step_lt_dead (st : St) (b : Bool) (d : Char) (hm : st.mode = .lt b) (hs : st.stack = []) (hd : st.done.isSome = true)
    (h1 : d ≠ '!') (h2 : d ≠ '?') : (step st d).mode = .err ∨ (step st d).mode = .uns := by
  simp only [step, stepMode, hm]
  (repeat' split) <;> simp_all [St.fail, St.unsup]

theorem epilog (r : Str) : ∀ (st : St), st.mode = .misc → st.done.isSome = true → st.stack = [] → noBangQ r = true →
    (run st r).mode = .misc → r.all isS = true := by
  induction r with
  | nil => intros; rfl
  | cons c cs ih =>
    intro st hm hd hs hn hr
    cases hc : isS c with
    | true =>
      rw [run_cons, step_misc_isS st c hm hc] at hr
      simp [hc, ih st hm hd hs (noBangQ_tail c cs hn) hr]
    | false =>
      exfalso
      rw [run_cons] at hr
      by_cases hlt : c = '<'
      · subst hlt
        rw [step_misc_lt st hm] at hr
        cases cs with
        | nil => rw [run_nil] at hr; cases hr
        | cons d ds =>
          rw [run_cons] at hr
          simp [noBangQ] at hn
          exact run_dead _ ds (step_lt_dead { st with mode := .lt false } false d rfl hs hd hn.1.1 hn.1.2) hr
      · exact run_dead _ cs (Or.inl (step_misc_dead st c hm hc hlt)) hr


/-! ### the writer's output: every `<` is followed by a name or `/` -/

def noLt (x : Str) : Bool := x.all (· != '<')

theorem noBangQ_cons_ne (c : Char) (x : Str) (h : c ≠ '<') : noBangQ (c :: x) = noBangQ x := by
  conv => lhs; unfold noBangQ
  split
  · simp_all
  · simp_all
  · simp_all

theorem noBangQ_lt_cons (c : Char) (x : Str) :
    noBangQ ('<' :: c :: x) = (c != '!' && c != '?' && noBangQ (c :: x)) := by
  rw [noBangQ]

theorem noBangQ_noLt_append (a b : Str) (h : noLt a = true) : noBangQ (a ++ b) = noBangQ b := by
  induction a with
  | nil => rfl
  | cons c cs ih =>
    simp [noLt] at h
    rw [List.cons_append, noBangQ_cons_ne _ _ h.1]
    exact ih (by simpa [noLt] using h.2)

theorem nameChar_ne_lt {c : Char} (h : nameChar c = true) : c ≠ '<' := by
  rintro rfl; revert h; decide
theorem nameStart_ne {c : Char} (h : nameStart c = true) : c ≠ '<' ∧ c ≠ '!' ∧ c ≠ '?' := by
  refine ⟨?_, ?_, ?_⟩ <;> (rintro rfl; revert h; decide)
theorem nameStart_nameChar {c : Char} (h : nameStart c = true) : nameChar c = true := by
  simp [nameChar, h]

theorem isName_noLt {t : Str} (h : isName t = true) : noLt t = true := by
  cases t with
  | nil => simp [isName] at h
  | cons c cs =>
    simp [isName] at h
    simp only [noLt, List.all_cons, Bool.and_eq_true, List.all_eq_true]
    exact ⟨by simpa using (nameStart_ne h.1).1, fun d hd => by simpa using nameChar_ne_lt (h.2 d hd)⟩

theorem noBangQ_open (t rest : Str) (h : isName t = true) : noBangQ ('<' :: (t ++ rest)) = noBangQ rest := by
  have hl := isName_noLt h
  cases t with
  | nil => simp [isName] at h
  | cons c cs =>
    simp [isName] at h
    have := nameStart_ne h.1
    rw [List.cons_append, noBangQ_lt_cons, ← List.cons_append, noBangQ_noLt_append _ _ hl]
    simp [this]

theorem noBangQ_closeTag (t rest : Str) (h : isName t = true) : noBangQ ('<' :: '/' :: (t ++ rest)) = noBangQ rest := by
  rw [noBangQ_lt_cons, noBangQ_cons_ne _ _ (by decide), noBangQ_noLt_append _ _ (isName_noLt h)]
  simp


theorem noLt_append (a b : Str) : noLt (a ++ b) = (noLt a && noLt b) := by simp [noLt]

theorem noLt_flatMap (f : Char → Str) (x : Str) (h : ∀ c, noLt (f c) = true) : noLt (x.flatMap f) = true := by
  simp only [noLt, List.all_flatMap, List.all_eq_true]
  intro c _
  exact List.all_eq_true.mp (h c)

theorem digit_ne_lt (k : Nat) (h : k < 10) : (Char.ofNat (48 + k) != '<') = true := by
  revert k; decide

theorem noLt_decDigits (n : Nat) : noLt (decDigits n) = true := by
  fun_induction decDigits n with
  | case1 n h => simp [noLt, digit_ne_lt n h]
  | case2 n h ih => 
    rw [noLt_append, ih]
    simp [noLt, digit_ne_lt (n % 10) (by omega)]

theorem noLt_charRef (c : Char) : noLt (charRef c) = true := by
  simp only [charRef, List.cons_append]
  simp only [noLt, List.all_cons, List.all_append] 
  have := noLt_decDigits c.toNat
  simp only [noLt] at this
  simp [this]

theorem noLt_escTextChar (c : Char) : noLt (escTextChar c) = true := by
  unfold escTextChar
  repeat' split
  · decide
  · decide
  · decide
  · exact noLt_charRef c
  · simp_all [noLt]

theorem noLt_escAttrChar (c : Char) : noLt (escAttrChar c) = true := by
  unfold escAttrChar
  repeat' split
  any_goals decide
  · exact noLt_charRef c
  · simp_all [noLt]

theorem noLt_escText (x : Str) : noLt (escText x) = true := noLt_flatMap _ _ noLt_escTextChar
theorem noLt_escAttr (x : Str) : noLt (escAttr x) = true := noLt_flatMap _ _ noLt_escAttrChar

theorem noLt_cons (c : Char) (x : Str) : noLt (c :: x) = (c != '<' && noLt x) := by simp [noLt]

theorem noLt_serAttr (kv : Str × Str) (h : isName kv.1 = true) : noLt (serAttr kv) = true := by
  simp [serAttr, noLt_append, noLt_cons, isName_noLt h, noLt_escAttr]
  simp [noLt]

theorem noLt_serAttrs (l : List (Str × Str)) (h : attrsOk l = true) : noLt (serAttrs l) = true := by
  simp only [attrsOk, Bool.and_eq_true, List.all_eq_true] at h
  simp only [serAttrs, noLt, List.all_flatMap, List.all_eq_true]
  intro kv hkv
  exact List.all_eq_true.mp (noLt_serAttr kv (h.1 kv hkv).1.1)


theorem s_emptyTag : s " />" = [' ', '/', '>'] := by decide

/-- what follows the attributes: ` />`, or `>`, escaped text, `mid` (no `<`-problem of its own), end tag -/
theorem noBangQ_body (t text mid rest : Str) (ht : isName t = true) (hmid : ∀ r, noBangQ (mid ++ r) = noBangQ r) :
    noBangQ ('>' :: (escText text ++ (mid ++ ('<' :: '/' :: (t ++ '>' :: rest))))) = noBangQ rest := by
  rw [noBangQ_cons_ne _ _ (by decide), noBangQ_noLt_append _ _ (noLt_escText text), hmid,
    noBangQ_closeTag _ _ ht, noBangQ_cons_ne _ _ (by decide)]

theorem noBangQ_serElem1 (k : Elem1) (rest : Str) (h : elem1Ok k = true) :
    noBangQ (serElem1 k ++ rest) = noBangQ rest := by
  simp only [elem1Ok, Bool.and_eq_true] at h
  obtain ⟨⟨ht, ha⟩, -⟩ := h
  unfold serElem1
  split
  · simp only [List.append_assoc, List.cons_append, s_emptyTag]
    rw [noBangQ_open _ _ ht, noBangQ_noLt_append _ _ (noLt_serAttrs _ ha)]
    rw [noBangQ_cons_ne _ _ (by decide), noBangQ_cons_ne _ _ (by decide), noBangQ_cons_ne _ _ (by decide)]
    rfl
  · simp only [List.append_assoc, List.cons_append, List.nil_append]
    rw [noBangQ_open _ _ ht, noBangQ_noLt_append _ _ (noLt_serAttrs _ ha)]
    exact noBangQ_body k.tag k.text [] rest ht (fun r => rfl)

theorem noBangQ_kids (l : List Elem1) (rest : Str) (h : l.all elem1Ok = true) :
    noBangQ (l.flatMap serElem1 ++ rest) = noBangQ rest := by
  induction l with
  | nil => rfl
  | cons k ks ih =>
    simp only [List.all_cons, Bool.and_eq_true] at h
    rw [List.flatMap_cons, List.append_assoc, noBangQ_serElem1 k _ h.1, ih h.2]

theorem serElem_ends (e : Elem) : ∃ body, serElem e = body ++ ['>'] := by
  unfold serElem
  split
  · exact ⟨'<' :: e.tag ++ serAttrs e.attrs ++ [' ', '/'], by simp [s_emptyTag]⟩
  · exact ⟨'<' :: e.tag ++ serAttrs e.attrs ++ ('>' :: escText e.text ++ e.children.flatMap serElem1 ++ '<' :: '/' :: e.tag), by simp⟩


theorem noBangQ_append_right (a b : Str) (h : noBangQ (a ++ b) = true) : noBangQ b = true := by
  induction a with
  | nil => exact h
  | cons c cs ih => exact ih (noBangQ_tail c _ h)

end Doc
open Doc

/-- (A1) whatever parses as a document contains, somewhere, `<` followed by the root's tag -/
theorem parseDoc_opener (x : Str) (e : Elem) (h : parseDoc x = .ok e) :
    ∃ i, ('<' :: e.tag).isPrefixOf (x.drop i) = true := by
  obtain ⟨-, hd⟩ := finish_ok h
  have := opener_run x [] init opener_init
  obtain ⟨a, b, hx⟩ := this.root e.tag (Or.inl ⟨e, hd, rfl⟩)
  refine ⟨a.length, ?_⟩
  simp at hx
  rw [hx]
  simp


/-- everything the writer produces has every `<` followed by a name character or `/` -/
theorem noBangQ_serElem (e : Elem) (h : elemOk e = true) : noBangQ (serElem e) = true := by
  simp only [elemOk, Bool.and_eq_true] at h
  obtain ⟨⟨⟨ht, ha⟩, -⟩, hk⟩ := h
  unfold serElem
  split
  · simp only [List.append_assoc, List.cons_append, s_emptyTag]
    rw [noBangQ_open _ _ ht, noBangQ_noLt_append _ _ (noLt_serAttrs _ ha)]
    decide
  · simp only [List.append_assoc, List.cons_append]
    rw [noBangQ_open _ _ ht, noBangQ_noLt_append _ _ (noLt_serAttrs _ ha)]
    exact noBangQ_body e.tag e.text _ [] ht (fun r => noBangQ_kids _ r hk)

/-- no proper prefix of a serialised element is a complete document -/
theorem parseDoc_prefix (e : Elem) (h : elemOk e = true) (k : Nat) (hk : k < (serElem e).length) (e' : Elem) :
    parseDoc ((serElem e).take k) ≠ .ok e' := by
  intro hp
  obtain ⟨hm, hd⟩ := finish_ok hp
  have hinv := inv_run ((serElem e).take k) init inv_init
  have hfull := run_serElem e h init (Or.inr rfl) rfl rfl
  rw [← List.take_append_drop k (serElem e), run_append] at hfull
  have hn : noBangQ ((serElem e).drop k) = true :=
    noBangQ_append_right ((serElem e).take k) _ (by rw [List.take_append_drop]; exact noBangQ_serElem e h)
  have hall := epilog ((serElem e).drop k) _ hm (by rw [hd]; rfl) (hinv.done_stack (by rw [hd]; rfl)) hn
    (by rw [hfull])
  obtain ⟨body, hb⟩ := serElem_ends e
  rw [hb] at hall hk
  simp only [List.length_append, List.length_cons, List.length_nil] at hk
  rw [List.drop_append_of_le_length (by omega)] at hall
  simp [isS] at hall

/-- a serialised element between a prolog that leaves the automaton between tokens (e.g. the XML declaration
`to_string` writes) and trailing white space parses to that element -/
theorem parseDoc_wrapped (e : Elem) (h : elemOk e = true) (pre post : Str)
    (hpre : run init pre = { mode := .misc, stack := [], done := none, cr := false }) (hpost : post.all isS = true) :
    parseDoc (pre ++ serElem e ++ post) = .ok e := by
  unfold parseDoc
  rw [run_append, run_append, hpre, run_serElem e h _ (Or.inl rfl) rfl rfl, run_misc_isS _ post rfl hpost]
  rfl

/-- the declaration and the trailing newline `IndiMessage.to_string` writes (regenerated from the source) -/
theorem generated_prefix_ok : run init Generated.xmlPrefix = { mode := .misc, stack := [], done := none, cr := false } := by
  decide +kernel

theorem generated_suffix_ok : Generated.xmlSuffix.all isS = true := by
  decide +kernel

end Indi.Xml
