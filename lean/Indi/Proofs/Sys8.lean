/-
  C01, part 8: operations that announce vectors (enable/disable, getProperties): every message
  describes the final view of the vector it names (`ASum`).
-/
import Indi.Proofs.Sys7

namespace Indi.SysP
open Indi Indi.Dev Indi.Cli Indi.Sys Indi.Spec.Sys Indi.Spec.Dev
open Indi.DevBResp (getVec_setVec)

/-- `m` announces the vector `(g', v')`: a definition or an update showing it, or its deletion -/
def AMsg (dn : Str) (g' : Group) (v' : Vec) (m : Msg) : Prop :=
  (vecEnabled g' v' = true ∧ (IsDef dn g' v' m ∨ IsSetV dn g' v' m)) ∨
  (vecEnabled g' v' = false ∧ m = delMsg dn v'.name)

/-- … the definition or the deletion -/
def AHead (dn : Str) (g' : Group) (v' : Vec) (m : Msg) : Prop :=
  (vecEnabled g' v' = true ∧ IsDef dn g' v' m) ∨ (vecEnabled g' v' = false ∧ m = delMsg dn v'.name)

theorem AHead.msg {dn g' v' m} (h : AHead dn g' v' m) : AMsg dn g' v' m := by
  rcases h with ⟨h1, h2⟩ | h
  · exact Or.inl ⟨h1, Or.inl h2⟩
  · exact Or.inr h

theorem IsDef.transport {dn g1 v1 g' v' m} (h : IsDef dn g1 v1 m) (hv : ViewEq g1 v1 g' v') : IsDef dn g' v' m := by
  obtain ⟨g, v, h1, h2, h3, h4⟩ := h
  exact ⟨g, v, h1, h2, h3, h4.trans hv⟩

theorem IsSetV.transport {dn g1 v1 g' v' m} (h : IsSetV dn g1 v1 m) (hv : ViewEq g1 v1 g' v') : IsSetV dn g' v' m := by
  obtain ⟨g, v, h1, h2, h3⟩ := h
  exact ⟨g, v, h1, h2, h3.trans hv⟩

theorem AMsg.transport {dn g1 v1 g' v' m} (h : AMsg dn g1 v1 m) (hg : GEq g1 g') (hs : Same v1 v') : AMsg dn g' v' m := by
  have hen : vecEnabled g' v' = vecEnabled g1 v1 := vecEnabled_of hg hs.2.2.2.2.1
  have hv : ViewEq g1 v1 g' v' := hs.view hg.1
  rcases h with ⟨h1, h2⟩ | ⟨h1, h2⟩
  · left
    refine ⟨hen.trans h1, ?_⟩
    rcases h2 with h2 | h2
    · exact Or.inl (h2.transport hv)
    · exact Or.inr (h2.transport hv)
  · right
    exact ⟨hen.trans h1, by rw [hs.1]; exact h2⟩

theorem AHead.transport {dn g1 v1 g' v' m} (h : AHead dn g1 v1 m) (hg : GEq g1 g') (hs : Same v1 v') : AHead dn g' v' m := by
  have hen : vecEnabled g' v' = vecEnabled g1 v1 := vecEnabled_of hg hs.2.2.2.2.1
  have hv : ViewEq g1 v1 g' v' := hs.view hg.1
  rcases h with ⟨h1, h2⟩ | ⟨h1, h2⟩
  · exact Or.inl ⟨hen.trans h1, h2.transport hv⟩
  · exact Or.inr ⟨hen.trans h1, by rw [hs.1]; exact h2⟩

theorem IsDef.key {dn g' v' m} (h : IsDef dn g' v' m) : key m = (some dn, some v'.name) := by
  obtain ⟨g, v, h1, _, _, h4⟩ := h
  rw [key_def h1, h4.2.1]

theorem IsSetS.key {dn g' v' m} (h : IsSetS dn g' v' m) : key m = (some dn, some v'.name) := by
  obtain ⟨g, v, h1, _, h4⟩ := h
  rw [key_set h1, h4.2.1]

theorem AMsg.key {dn g' v' m} (h : AMsg dn g' v' m) : key m = (some dn, some v'.name) := by
  rcases h with ⟨_, h | h⟩ | ⟨_, rfl⟩
  · exact h.key
  · exact h.toS.key
  · exact key_delMsg _ _

theorem IsDef.emitted {dn g' v' m} (h : IsDef dn g' v' m) : Emitted m := by
  obtain ⟨g, v, h1, _, h3, _⟩ := h
  exact emitted_def h3.ok h1

theorem IsSetS.emitted {dn g' v' m} (h : IsSetS dn g' v' m) : Emitted m := by
  obtain ⟨g, v, h1, h3, _⟩ := h
  exact emitted_set h3 h1

theorem emitted_delMsg (dn vn : Str) : Emitted (delMsg dn vn) := by
  have h : defMsg dn { name := [], enabled := false, vecs := [] }
      { name := vn, label := [], kind := .light, perm := none, timeout := none, rule := none, state := s "Idle",
        enabled := false, elems := [] } = .ok (delMsg dn vn) := rfl
  exact emitted_def rfl h

theorem AMsg.emitted {dn g' v' m} (h : AMsg dn g' v' m) : Emitted m := by
  rcases h with ⟨_, h | h⟩ | ⟨_, rfl⟩
  · exact h.emitted
  · exact h.toS.emitted
  · exact emitted_delMsg _ _

/-- summary of a run of announcements of the vectors at the positions `L` -/
structure ASum (d : Device) (L : List (Nat × Nat)) (ms : List Msg) (d' : Device) : Prop where
  rel : Rel (fun _ _ g v g' v' => GEq g g' ∧ Same v v' ∧ (VG v → VG v')) d d'
  msgs : ∀ m ∈ ms, ∃ gi vi g' v', (gi, vi) ∈ L ∧ getVec d' gi vi = some (g', v') ∧ AMsg d.name g' v' m
  cover : ∀ gi vi g' v', (gi, vi) ∈ L → getVec d' gi vi = some (g', v') → ∃ m ∈ ms, AHead d.name g' v' m

theorem ASum.nil (d : Device) : ASum d [] [] d where
  rel := Rel.refl (fun _ _ g v => ⟨GEq.refl g, Same.refl v, id⟩) d
  msgs := fun m hm => by cases hm
  cover := fun _ _ _ _ h => by cases h

theorem ASum.allVG {d d' : Device} {L : List (Nat × Nat)} {ms : List Msg} (h : ASum d L ms d') (hd : AllVG d) :
    AllVG d' := by
  intro gj vj g' v' hg'
  cases h0 : getVec d gj vj with
  | none => rw [h.rel.2.1 gj vj h0] at hg'; cases hg'
  | some gv =>
    obtain ⟨g, v⟩ := gv
    obtain ⟨g'', v'', hg'', _, _, hvg⟩ := h.rel.2.2 gj vj g v h0
    rw [hg''] at hg'
    simp only [Option.some.injEq, Prod.mk.injEq] at hg'
    rw [← hg'.2]
    exact hvg (hd _ _ _ _ h0)

/-- the vector a later state holds at a position comes from the one the earlier state holds there -/
theorem Rel.back {R} {d d' : Device} (h : Rel R d d') {gi vi : Nat} {g' : Group} {v' : Vec}
    (hg' : getVec d' gi vi = some (g', v')) : ∃ g v, getVec d gi vi = some (g, v) ∧ R gi vi g v g' v' := by
  cases h0 : getVec d gi vi with
  | none => rw [h.2.1 gi vi h0] at hg'; cases hg'
  | some gv =>
    obtain ⟨g, v⟩ := gv
    obtain ⟨g'', v'', hg'', hr⟩ := h.2.2 gi vi g v h0
    rw [hg''] at hg'
    simp only [Option.some.injEq, Prod.mk.injEq] at hg'
    obtain ⟨rfl, rfl⟩ := hg'
    exact ⟨g, v, rfl, hr⟩

theorem ASum.comp {d d1 d' : Device} {L1 L2 : List (Nat × Nat)} {ms1 ms2 : List Msg} (h1 : ASum d L1 ms1 d1)
    (h2 : ASum d1 L2 ms2 d') : ASum d (L1 ++ L2) (ms1 ++ ms2) d' where
  rel := Rel.trans (fun _ _ _ _ _ _ _ _ a b => ⟨a.1.trans b.1, a.2.1.trans b.2.1, fun h => b.2.2 (a.2.2 h)⟩) h1.rel h2.rel
  msgs := by
    intro m hm
    rcases List.mem_append.1 hm with hm | hm
    · obtain ⟨gi, vi, g1, v1, hL, hg1, ham⟩ := h1.msgs m hm
      obtain ⟨g', v', hg', hge, hs, _⟩ := h2.rel.2.2 gi vi g1 v1 hg1
      exact ⟨gi, vi, g', v', List.mem_append_left _ hL, hg', ham.transport hge hs⟩
    · obtain ⟨gi, vi, g', v', hL, hg', ham⟩ := h2.msgs m hm
      exact ⟨gi, vi, g', v', List.mem_append_right _ hL, hg', by rw [← h1.rel.1]; exact ham⟩
  cover := by
    intro gi vi g' v' hL hg'
    rcases List.mem_append.1 hL with hL | hL
    · obtain ⟨g1, v1, hg1, hge, hs, _⟩ := h2.rel.back hg'
      obtain ⟨m, hm, hh⟩ := h1.cover gi vi g1 v1 hL hg1
      exact ⟨m, List.mem_append_left _ hm, hh.transport hge hs⟩
    · obtain ⟨m, hm, hh⟩ := h2.cover gi vi g' v' hL hg'
      exact ⟨m, List.mem_append_right _ hm, by rw [← h1.rel.1]; exact hh⟩

/-- nothing is announced for a position that does not exist -/
theorem ASum.skip {d d' : Device} {L : List (Nat × Nat)} {ms : List Msg} (h : ASum d L ms d') {gi vi : Nat}
    (hn : getVec d gi vi = none) : ASum d ((gi, vi) :: L) ms d' where
  rel := h.rel
  msgs := by
    intro m hm
    obtain ⟨gj, vj, g', v', hL, hg', ham⟩ := h.msgs m hm
    exact ⟨gj, vj, g', v', List.mem_cons_of_mem _ hL, hg', ham⟩
  cover := by
    intro gj vj g' v' hL hg'
    rcases List.mem_cons.1 hL with heq | hL
    · simp only [Prod.mk.injEq] at heq
      obtain ⟨rfl, rfl⟩ := heq
      rw [h.rel.2.1 _ _ hn] at hg'; cases hg'
    · exact h.cover gj vj g' v' hL hg'

/-- publishing the definition (or deletion) of one vector, which is then left as `v'`: the same vector for every reader
(the reads made while the definition — and a following update — were built have stuck) -/
theorem asum_def {d : Device} {gi vi : Nat} {g : Group} {v : Vec} {dm : Msg} (v' : Vec) (hsame : Same v v') (hvg' : VG v')
    (hg : getVec d gi vi = some (g, v)) (hvg : VG v) (hdm : defMsg d.name g v = .ok dm) :
    ASum d [(gi, vi)] [dm] (setVec d gi vi v') := by
  obtain ⟨g', hg', hge'⟩ := getVec_setVec_self v' hg
  have hhead : AHead d.name g' v' dm := by
    refine AHead.transport (g1 := g) (v1 := v) ?_ hge' hsame
    by_cases hen : vecEnabled g v = true
    · exact Or.inl ⟨hen, g, v, hdm, hen, hvg, ViewEq.refl g v⟩
    · simp only [Bool.not_eq_true] at hen
      exact Or.inr ⟨hen, defMsg_disabled hdm hen⟩
  refine ⟨?_, ?_, ?_⟩
  · refine Rel.mono ?_ (rel_setVec _ hg)
    intro gj vj g0 v0 g1 v1 ⟨hge, hif⟩
    refine ⟨hge, ?_⟩
    split at hif
    · obtain ⟨rfl, rfl⟩ := hif
      exact ⟨hsame, fun _ => hvg'⟩
    · subst hif
      exact ⟨Same.refl _, id⟩
  · intro m hm
    simp only [List.mem_singleton] at hm
    subst hm
    exact ⟨gi, vi, g', _, List.mem_singleton.2 rfl, hg', hhead.msg⟩
  · intro gj vj g'' v'' hL hg''
    simp only [List.mem_singleton, Prod.mk.injEq] at hL
    obtain ⟨rfl, rfl⟩ := hL
    rw [hg'] at hg''
    simp only [Option.some.injEq, Prod.mk.injEq] at hg''
    obtain ⟨rfl, rfl⟩ := hg''
    exact ⟨dm, List.mem_singleton.2 rfl, hhead⟩

theorem announce_asum {d : Device} (hd : AllVG d) (gi vi : Nat) :
    ASum d [(gi, vi)] (announce d gi vi).msgs (announce d gi vi).dev ∧ (announce d gi vi).exc = none := by
  unfold announce
  cases hg : getVec d gi vi with
  | none => exact ⟨(ASum.nil d).skip hg, rfl⟩
  | some gv =>
    obtain ⟨g, v⟩ := gv
    have hvg := hd _ _ _ _ hg
    simp only
    cases hdm : defMsg d.name g v with
    | error x =>
      obtain ⟨m, hm⟩ := DevBResp.defMsg_ok d.name g hvg.ok
      rw [hm] at hdm; cases hdm
    | ok dm =>
      simp only
      -- the vector after the definition was built, and after the update was built
      generalize hv1def : (if vecEnabled g v = true then refreshDef v else v) = v1
      have hv1 : VG v1 := by rw [← hv1def]; exact hvg.refreshDef_if _
      have hsame1 : Same v v1 := by rw [← hv1def]; exact same_refreshDef_if (vecEnabled g v) v
      cases hsm : setMsg d.name g v1 with
      | error x =>
        obtain ⟨mo, hmo⟩ := setMsg_ok d.name g hv1.ok
        rw [hmo] at hsm; cases hsm
      | ok sm =>
        simp only
        refine ⟨?_, trivial⟩
        have hv2 : VG (if vecEnabled g v1 then refreshVec v1 else v1) := hv1.refresh_if _
        have hsame12 := same_refresh_if (vecEnabled g v1) v1
        have hA := asum_def _ (hsame1.trans hsame12) hv2 hg hvg hdm
        obtain ⟨g', hg', hge'⟩ := getVec_setVec_self (if vecEnabled g v1 then refreshVec v1 else v1) hg
        cases sm with
        | none => exact hA
        | some m =>
          -- the update follows the definition and shows the same (refreshed) vector
          simp only [Option.toList_some]
          refine ⟨hA.rel, ?_, ?_⟩
          · intro x hx
            rcases List.mem_cons.1 hx with rfl | hx
            · exact hA.msgs _ List.mem_cons_self
            · simp only [List.mem_singleton] at hx
              subst hx
              refine ⟨gi, vi, g', _, List.mem_singleton.2 rfl, hg', Or.inl ⟨?_, Or.inr ?_⟩⟩
              · exact (vecEnabled_of hge' hsame12.2.2.2.2.1).trans (setMsg_some hsm).1
              · exact ⟨g, v1, hsm, hv1, hsame12.view hge'.1⟩
          · intro gj vj g'' v'' hL hg''
            obtain ⟨x, hx, hh⟩ := hA.cover gj vj g'' v'' hL hg''
            simp only [List.mem_singleton] at hx
            subst hx
            exact ⟨_, List.mem_cons_self, hh⟩

theorem announceAll_asum (gi : Nat) : ∀ (l : List Nat) (d : Device), AllVG d →
    ASum d (l.map fun vi => (gi, vi)) (announceAll gi d l).msgs (announceAll gi d l).dev
  | [], d, _ => ASum.nil d
  | vi :: rest, d, hd => by
    obtain ⟨h1, hexc⟩ := announce_asum hd gi vi
    simp only [announceAll, hexc]
    have h2 := announceAll_asum gi rest _ (h1.allVG hd)
    exact ASum.comp h1 h2

theorem sendDefs_asum : ∀ (L : List (Nat × Nat)) (d : Device), AllVG d →
    ASum d L (sendDefs d L).msgs (sendDefs d L).dev
  | [], d, _ => ASum.nil d
  | (gi, vi) :: rest, d, hd => by
    simp only [sendDefs]
    cases hg : getVec d gi vi with
    | none => exact (sendDefs_asum rest d hd).skip hg
    | some gv =>
      obtain ⟨g, v⟩ := gv
      have hvg := hd _ _ _ _ hg
      simp only
      cases hdm : defMsg d.name g v with
      | error x =>
        obtain ⟨m, hm⟩ := DevBResp.defMsg_ok d.name g hvg.ok
        rw [hm] at hdm; cases hdm
      | ok dm =>
        simp only
        have h1 := asum_def _ (same_refreshDef_if (vecEnabled g v) v) (hvg.refreshDef_if _) hg hvg hdm
        have h2 := sendDefs_asum rest _ (h1.allVG hd)
        exact ASum.comp h1 h2

end Indi.SysP
