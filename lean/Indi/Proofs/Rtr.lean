/-
  Refinement of the router model to the history specification.
-/
import Indi.Spec.Rtr

namespace Indi.Rtr
open Indi.Spec.Rtr

/-! ### dict lemmas -/

theorem nlookup_nset {α : Type} (k k' : Nat) (v : α) (l : List (Nat × α)) :
    nlookup k' (nset k v l) = if k' = k then some v else nlookup k' l := by
  induction l with
  | nil =>
    simp only [nset, nlookup]
    by_cases h : k = k'
    · subst h; simp
    · have : ¬ k' = k := fun e => h e.symm
      simp [h, this]
  | cons x xs ih =>
    obtain ⟨a, b⟩ := x
    simp only [nset]
    split
    · rename_i hak
      subst hak
      simp only [nlookup]
      by_cases h : a = k'
      · subst h; simp
      · have : ¬ k' = a := fun e => h e.symm
        simp [h, this]
    · rename_i hak
      simp only [nlookup, ih]
      by_cases h : a = k'
      · subst h; simp [hak]
      · simp [h]

theorem olookup_oset {α : Type} (k k' : Option Str) (v : α) (l : List (Option Str × α)) :
    olookup k' (oset k v l) = if k' = k then some v else olookup k' l := by
  induction l with
  | nil =>
    simp only [oset, olookup]
    by_cases h : k = k'
    · subst h; simp
    · have : ¬ k' = k := fun e => h e.symm
      simp [h, this]
  | cons x xs ih =>
    obtain ⟨a, b⟩ := x
    simp only [oset]
    split
    · rename_i hak
      subst hak
      simp only [olookup]
      by_cases h : a = k'
      · subst h; simp
      · have : ¬ k' = a := fun e => h e.symm
        simp [h, this]
    · rename_i hak
      simp only [olookup, ih]
      by_cases h : a = k'
      · subst h; simp [hak]
      · simp [h]

theorem mem_nset {α : Type} {k : Nat} {v : α} {a' : Nat} {b' : α} :
    ∀ (xs : List (Nat × α)), (a', b') ∈ nset k v xs → a' = k ∨ a' ∈ xs.map Prod.fst := by
  intro xs
  induction xs with
  | nil =>
    intro hmem
    simp only [nset, List.mem_singleton, Prod.mk.injEq] at hmem; exact Or.inl hmem.1
  | cons y ys ihy =>
    intro hmem
    obtain ⟨c, d⟩ := y
    simp only [nset] at hmem
    split at hmem
    · rcases List.mem_cons.mp hmem with e | e
      · simp only [Prod.mk.injEq] at e; exact Or.inr (by simp [e.1])
      · exact Or.inr (List.mem_cons_of_mem _ (List.mem_map.mpr ⟨(a', b'), e, rfl⟩))
    · rcases List.mem_cons.mp hmem with e | e
      · simp only [Prod.mk.injEq] at e; exact Or.inr (by simp [e.1])
      · rcases ihy e with h1 | h1
        · exact Or.inl h1
        · exact Or.inr (List.mem_cons_of_mem _ h1)

theorem keys_nset {α : Type} (k : Nat) (v : α) (l : List (Nat × α)) (h : (l.map Prod.fst).Nodup) :
    ((nset k v l).map Prod.fst).Nodup := by
  induction l with
  | nil => simp [nset]
  | cons x xs ih =>
    obtain ⟨a, b⟩ := x
    simp only [List.map_cons, List.nodup_cons] at h
    simp only [nset]
    split
    · simpa using h
    · rename_i hak
      simp only [List.map_cons, List.nodup_cons]
      refine ⟨?_, ih h.2⟩
      intro hm
      obtain ⟨⟨a', b'⟩, hmem, ha'⟩ := List.mem_map.mp hm
      simp only at ha'
      subst ha'
      rcases mem_nset xs hmem with h1 | h1
      · exact hak h1
      · exact h.1 h1

theorem nlookup_none_of_not_mem {α : Type} {k : Nat} {l : List (Nat × α)} (h : k ∉ l.map Prod.fst) :
    nlookup k l = none := by
  induction l with
  | nil => rfl
  | cons x xs ih =>
    obtain ⟨a, b⟩ := x
    simp only [List.map_cons, List.mem_cons, not_or] at h
    have : ¬ a = k := fun e => h.1 e.symm
    simp [nlookup, this, ih h.2]

theorem nlookup_ndel {α : Type} (k k' : Nat) (l : List (Nat × α)) (h : (l.map Prod.fst).Nodup) :
    nlookup k' (ndel k l) = if k' = k then none else nlookup k' l := by
  induction l with
  | nil => simp [ndel, nlookup]
  | cons x xs ih =>
    obtain ⟨a, b⟩ := x
    simp only [List.map_cons, List.nodup_cons] at h
    simp only [ndel]
    split
    · rename_i hak
      subst hak
      by_cases hk : k' = a
      · subst hk
        simp [nlookup_none_of_not_mem h.1]
      · have : ¬ a = k' := fun e => hk e.symm
        simp [nlookup, hk, this]
    · rename_i hak
      simp only [nlookup, ih h.2]
      by_cases h2 : a = k'
      · subst h2; simp [hak]
      · simp [h2]

theorem keys_ndel {α : Type} (k : Nat) (l : List (Nat × α)) (h : (l.map Prod.fst).Nodup) :
    ((ndel k l).map Prod.fst).Nodup := by
  have hs : ∀ (l : List (Nat × α)), ((ndel k l).map Prod.fst).Sublist (l.map Prod.fst) := by
    intro l
    induction l with
    | nil => simp [ndel]
    | cons x xs ih =>
      obtain ⟨a, b⟩ := x
      simp only [ndel]
      split
      · simp
      · simpa using ih
  exact h.sublist (hs l)

/-! ### histories, newest operation first -/

def runRev : List Op → State
  | [] => init
  | op :: rest => (step (runRev rest) op).1

theorem run_eq_runRev (h : List Op) : run h = runRev h.reverse := by
  unfold run
  have : ∀ (l : List Op) (σ : State), l.foldl (fun σ op => (step σ op).1) σ =
      l.reverse.foldr (fun op σ => (step σ op).1) σ := by
    intro l σ; rw [List.foldr_reverse]
  rw [this]
  generalize h.reverse = r
  induction r with
  | nil => rfl
  | cons op rest ih => simp only [List.foldr_cons, runRev, ih]

structure Inv (r : List Op) (σ : State) : Prop where
  keys : (σ.blob.map Prod.fst).Nodup
  reg : ∀ c, (nlookup c σ.blob).isSome = registered r c
  pol : ∀ c d, policyLookup σ c d = policyOfRev r c d

theorem inv_runRev : ∀ (r : List Op), Inv r (runRev r) := by
  intro r
  induction r with
  | nil => exact ⟨by simp [runRev, init], by intro c; simp [runRev, init, nlookup, registered],
      by intro c d; simp [runRev, init, policyLookup, nlookup, policyOfRev, defaultPolicy]⟩
  | cons op rest ih =>
    obtain ⟨hk, hr, hp⟩ := ih
    cases op with
    | regDev d =>
      exact ⟨by simpa [runRev, step] using hk, by intro c; simpa [runRev, step, registered] using hr c,
        by intro c d'; simpa [runRev, step, policyOfRev, policyLookup] using hp c d'⟩
    | regCli c0 =>
      refine ⟨by simpa [runRev, step] using keys_nset c0 [] _ hk, ?_, ?_⟩
      · intro c
        simp only [runRev, step, registered, nlookup_nset]
        by_cases h : c = c0
        · subst h; simp
        · have : ¬ c0 = c := fun e => h e.symm
          simp [h, this, hr c]
      · intro c d
        simp only [runRev, step, policyOfRev, policyLookup, nlookup_nset]
        by_cases h : c = c0
        · subst h; simp [olookup, defaultPolicy]
        · have : ¬ c0 = c := fun e => h e.symm
          have := hp c d
          simp only [policyLookup] at this
          simp [h, *]
    | unreg c0 =>
      refine ⟨by simpa [runRev, step] using keys_ndel c0 _ hk, ?_, ?_⟩
      · intro c
        simp only [runRev, step, registered, nlookup_ndel _ _ _ hk]
        by_cases h : c = c0
        · subst h; simp
        · have : ¬ c0 = c := fun e => h e.symm
          simp [h, this, hr c]
      · intro c d
        simp only [runRev, step, policyOfRev, policyLookup, nlookup_ndel _ _ _ hk]
        by_cases h : c = c0
        · subst h; simp [defaultPolicy]
        · have : ¬ c0 = c := fun e => h e.symm
          have := hp c d
          simp only [policyLookup] at this
          simp [h, *]
    | send m sd =>
      simp only [runRev, step, process]
      by_cases hcond : (m.fromClient && m.isEnableBlob) = true
      · simp only [hcond, if_true]
        cases sd with
        | nobody =>
          exact ⟨by simpa [processEnableBlob] using hk, by intro c; simpa [processEnableBlob, registered] using hr c,
            by intro c d; simpa [processEnableBlob, policyOfRev, policyLookup] using hp c d⟩
        | dev i =>
          exact ⟨by simpa [processEnableBlob] using hk, by intro c; simpa [processEnableBlob, registered] using hr c,
            by intro c d; simpa [processEnableBlob, policyOfRev, policyLookup] using hp c d⟩
        | cli c0 =>
          cases hl : nlookup c0 (runRev rest).blob with
          | none =>
            have hreg : registered rest c0 = false := by rw [← hr c0, hl]; rfl
            refine ⟨by simpa [processEnableBlob, hl] using hk,
              by intro c; simpa [processEnableBlob, hl, registered] using hr c, ?_⟩
            intro c d
            simp only [processEnableBlob, hl, policyOfRev]
            by_cases hc : c0 = c
            · subst hc; simp [hreg, hp]
            · simp [hc, hp]
          | some dct =>
            have hreg : registered rest c0 = true := by rw [← hr c0, hl]; rfl
            refine ⟨by simpa [processEnableBlob, hl] using keys_nset c0 _ _ hk, ?_, ?_⟩
            · intro c
              simp only [processEnableBlob, hl, registered, nlookup_nset]
              by_cases h : c = c0
              · subst h; simp [← hr c, hl]
              · simp [h, hr c]
            · intro c d
              simp only [processEnableBlob, hl, policyOfRev, policyLookup, nlookup_nset]
              by_cases h : c = c0
              · subst h
                simp only [if_true, olookup_oset, hcond, hreg, Bool.true_and, Bool.and_true, decide_true]
                by_cases hd : d = m.device
                · subst hd; simp
                · have : ¬ m.device = d := fun e => hd e.symm
                  have hpc := hp c d
                  simp only [policyLookup, hl] at hpc
                  simp [hd, this, hpc]
              · have : ¬ c0 = c := fun e => h e.symm
                have hpc := hp c d
                simp only [policyLookup] at hpc
                simp [h, this, hpc]
      · have hcf : (m.fromClient && m.isEnableBlob) = false := by simpa using hcond
        simp only [hcf]
        refine ⟨by simpa using hk, by intro c; cases sd <;> simpa [registered] using hr c, ?_⟩
        intro c d
        cases sd with
        | nobody => simpa [policyOfRev] using hp c d
        | dev i => simpa [policyOfRev] using hp c d
        | cli c0 =>
          simp only [policyOfRev]
          have : (m.fromClient && m.isEnableBlob && decide (c0 = c) && decide (m.device = d) && registered rest c) = false := by
            simp [hcf]
          simpa [this] using hp c d

theorem deliverCond_eq_allows (b : Bool) (p : Policy) : deliverCond b p = allows p b := by
  cases b <;> cases p <;> rfl

end Indi.Rtr
