/-
  C01, part 11: the deployment — what `react` publishes, all peers after delivery, `nextOk`.
-/
import Indi.Proofs.Sys10

namespace Indi.SysP
open Indi Indi.Dev Indi.Cli Indi.Sys Indi.Spec.Sys Indi.Spec.Dev

/-- well-formed drivers with distinct names -/
def DevsOK (devs : List Device) : Prop := (∀ d ∈ devs, DevOK d) ∧ (devs.map (·.name)).Nodup

/-- mirrors are dicts: no key twice -/
def PeersWf (peers : List Peer) : Prop := ∀ p ∈ peers, VWf p.mirror

/-- a BLOB value a client submits carries a format -/
def cvalFmt : CVal → Bool
  | .blob _ none => false
  | _ => true

/-- operations in scope whose BLOB arguments are proper BLOB values -/
def OpOK : Sys.Op → Prop
  | .driver _ op => devOpOk op = true
  | .write _ _ _ writes => ∀ w ∈ writes, cvalFmt w.2 = true
  | .handshake _ _ _ => True

/-! ### batches of a deployment -/

theorem flatten_map_nil {α β : Type} (l : List α) : (l.map fun _ => ([] : List β)).flatten = [] := by
  induction l with
  | nil => rfl
  | cons a l ih => simp only [List.map_cons, List.flatten_cons, List.nil_append]; exact ih

theorem WB.refl {devs : List Device} (hok : ∀ d ∈ devs, DevOK d) : WB devs [] devs := by
  refine ⟨devs.map fun d => ([], d), ?_, ?_, ?_⟩
  · rw [List.forall₂_map_right_iff]
    exact List.forall₂_same.2 fun d hd => DevBatch.refl (hok d hd)
  · rw [List.map_map]
    exact (flatten_map_nil devs).symm
  · rw [List.map_map]; simp

theorem wb_set : ∀ (devs : List Device) (di : Nat) (d : Device) (ms : List Msg) (d' : Device),
    devs[di]? = some d → (∀ x ∈ devs, DevOK x) → DevBatch d ms d' → WB devs ms (devs.set di d')
  | [], _, _, _, _, h, _, _ => by cases h
  | d0 :: ds, 0, d, ms, d', h, hok, hb => by
    simp only [List.getElem?_cons_zero, Option.some.injEq] at h
    subst h
    obtain ⟨bds, hF, hms, hds⟩ := WB.refl (devs := ds) fun x hx => hok x (List.mem_cons_of_mem _ hx)
    refine ⟨(ms, d') :: bds, List.Forall₂.cons hb hF, ?_, ?_⟩
    · simp only [List.map_cons, List.flatten_cons, ← hms, List.append_nil]
    · simp only [List.set_cons_zero, List.map_cons, ← hds]
  | d0 :: ds, di + 1, d, ms, d', h, hok, hb => by
    simp only [List.getElem?_cons_succ] at h
    obtain ⟨bds, hF, hms, hds⟩ := wb_set ds di d ms d' h (fun x hx => hok x (List.mem_cons_of_mem _ hx)) hb
    refine ⟨([], d0) :: bds, List.Forall₂.cons (DevBatch.refl (hok d0 List.mem_cons_self)) hF, ?_, ?_⟩
    · simp only [List.map_cons, List.flatten_cons, ← hms, List.nil_append]
    · simp only [List.set_cons_succ, List.map_cons, ← hds]

theorem toDevices_wb (m : Msg) (hfmt : DevB.opFormats (.client m) = true) : ∀ devs : List Device,
    (∀ d ∈ devs, DevOK d) → WB devs (toDevices devs m).2 (toDevices devs m).1
  | [], _ => ⟨[], List.Forall₂.nil, rfl, rfl⟩
  | d :: ds, hok => by
    obtain ⟨bds, hF, hms, hds⟩ := toDevices_wb m hfmt ds fun x hx => hok x (List.mem_cons_of_mem _ hx)
    have hd := hok d List.mem_cons_self
    simp only [toDevices]
    by_cases ha : accepts d m = true
    · simp only [ha, if_true]
      refine ⟨((fromClient d m).msgs, (fromClient d m).dev) :: bds,
        List.Forall₂.cons (fromClient_batch hd m hfmt) hF, ?_, ?_⟩
      · simp only [List.map_cons, List.flatten_cons, ← hms]
      · simp only [List.map_cons, ← hds]
    · simp only [ha, Bool.false_eq_true, if_false]
      refine ⟨([], d) :: bds, List.Forall₂.cons (DevBatch.refl hd) hF, ?_, ?_⟩
      · simp only [List.map_cons, List.flatten_cons, ← hms, List.nil_append]
      · simp only [List.map_cons, ← hds]

/-- whatever comes out of the parser has a format on the children of a newBLOBVector -/
theorem opFormats_of_wire {m m' : Msg} (h : wire reg m = some m') : DevB.opFormats (.client m') = true := by
  unfold wire at h
  cases hx : fromXml reg (toXml m) with
  | error e => rw [hx] at h; cases h
  | ok m'' =>
    rw [hx] at h
    simp only [Option.some.injEq] at h
    subst h
    simp only [DevB.opFormats, Bool.or_eq_true, bne_iff_ne, ne_eq, List.all_eq_true]
    by_cases ht : m''.tag = s "newBLOBVector"
    · right
      exact SysB64.parsed_newBLOB_format _ _ hx ht
    · exact Or.inl ht

theorem fromPeer_wb {devs : List Device} (hok : ∀ d ∈ devs, DevOK d) (p : Peer) (m : Msg)
    (hfmt : p.inproc = true → DevB.opFormats (.client m) = true) :
    WB devs (fromPeer reg devs p m).2 (fromPeer reg devs p m).1 := by
  unfold fromPeer
  cases hip : p.inproc
  · simp only [Bool.false_eq_true, if_false]
    cases hw : wire reg m with
    | none => exact WB.refl hok
    | some m' => exact toDevices_wb m' (opFormats_of_wire hw) devs hok
  · simp only [if_true]
    exact toDevices_wb m (hfmt hip) devs hok

/-- the children of a submitted newBLOBVector carry the formats of the written values -/
theorem submitMsg_formats {σ : Mirror} {dev prop : Str} {writes : List (Str × CVal)} {m : Msg}
    (h : submitMsg reg σ dev prop writes = some m) (hw : ∀ w ∈ writes, cvalFmt w.2 = true) :
    DevB.opFormats (.client m) = true := by
  unfold submitMsg at h
  split at h
  · cases h
  · split at h
    · cases h
    · rename_i v _
      split at h
      · cases h
      · split at h
        · cases h
        · rename_i tag htag
          simp only at h
          split at h
          · cases h
          · simp only [Option.some.injEq] at h
            subst h
            simp only [DevB.opFormats, Bool.or_eq_true, bne_iff_ne, ne_eq, List.all_eq_true]
            by_cases ht : tag = s "newBLOBVector"
            · right
              intro p hp
              simp only [Option.getD_some, List.mem_filterMap] at hp
              obtain ⟨ne, _, hne⟩ := hp
              cases hpend : pendingOf writes ne.1 with
              | none => rw [hpend] at hne; cases hne
              | some val =>
                rw [hpend] at hne
                simp only at hne
                -- the pending value is one of the written values
                have hval : cvalFmt val = true := by
                  unfold pendingOf at hpend
                  cases hn : ne.1 with
                  | none => rw [hn] at hpend; cases hpend
                  | some n =>
                    rw [hn] at hpend
                    simp only [Option.map_eq_some_iff] at hpend
                    obtain ⟨w, hwf, rfl⟩ := hpend
                    exact hw w (List.mem_reverse.1 (List.mem_of_find?_eq_some hwf))
                have hk : v.kind = .blob := by
                  subst ht
                  cases hk : v.kind <;> rw [hk] at htag <;> simp only [newTagOf, Option.some.injEq, reduceCtorEq] at htag
                  · exact absurd htag (by decide)
                  · exact absurd htag (by decide)
                  · exact absurd htag (by decide)
                rw [hk] at hne
                cases val with
                | none => simp [newPart] at hne
                | text t => simp [newPart] at hne
                | blob bs f =>
                  simp only [newPart, Option.some.injEq] at hne
                  subst hne
                  cases f with
                  | none => simp [cvalFmt] at hval
                  | some f => simp [alookup, s]
            · exact Or.inl ht

theorem react_wb {w : World} {op : Sys.Op} (hok : ∀ d ∈ w.devs, DevOK d) (hop : OpOK op) :
    WB w.devs (react reg w op).2 (react reg w op).1 := by
  cases op with
  | driver di o =>
    simp only [react]
    cases hd : w.devs[di]? with
    | none => exact WB.refl hok
    | some d =>
      simp only
      exact wb_set w.devs di d _ _ hd hok (step_batch (hok d (List.mem_of_getElem? hd)) o hop)
  | write ci dev prop writes =>
    simp only [react]
    cases hp : w.peers[ci]? with
    | none => exact WB.refl hok
    | some p =>
      simp only
      cases hm : submitMsg reg p.mirror dev prop writes with
      | none => exact WB.refl hok
      | some m => exact fromPeer_wb hok p m fun _ => submitMsg_formats hm hop
  | handshake ci dev name =>
    simp only [react]
    cases hp : w.peers[ci]? with
    | none => exact WB.refl hok
    | some p =>
      simp only
      refine fromPeer_wb hok p _ fun _ => ?_
      simp only [DevB.opFormats, Bool.or_eq_true, bne_iff_ne, ne_eq]
      left
      show s "getProperties" ≠ s "newBLOBVector"
      decide

theorem WB.devsOK {devs devs' : List Device} {ms : List Msg} (h : WB devs ms devs') (hok : DevsOK devs) : DevsOK devs' :=
  ⟨h.ok, by rw [h.names]; exact hok.2⟩

/-! ### all peers after delivery -/

theorem peer_deliver {devs devs' : List Device} {ms : List Msg} (hwb : WB devs ms devs')
    (hnd : (devs.map (·.name)).Nodup) (p : Peer) (hwf : VWf p.mirror) (hs : peerSynced devs p = true) (L : List Msg) (hL : Arrival p ms L) :
    peerSynced devs' (deliver reg p L) = true := by
  simp only [peerSynced, Bool.and_eq_true, List.all_eq_true, List.any_eq_true, beq_iff_eq] at hs ⊢
  obtain ⟨hs1, hs2⟩ := hs
  have hE : ∀ m ∈ ms, Emitted m := fun m hm => (hwb.msgs m hm).1
  have hname : ∀ d ∈ devs, ∃ d' ∈ devs', d'.name = d.name := by
    intro d hd
    have : d.name ∈ devs'.map (·.name) := by rw [hwb.names]; exact List.mem_map.2 ⟨d, hd, rfl⟩
    obtain ⟨d', hd', hn⟩ := List.mem_map.1 this
    exact ⟨d', hd', hn⟩
  refine ⟨?_, ?_⟩
  · intro d' hd'
    obtain ⟨d, hd, b, hb, hkey, hsub⟩ := hwb.device hnd d' hd'
    rw [(deliver_flags L p).1]
    exact synced_deliver hb hkey hsub hE p hwf (hs1 d hd) L hL
  · intro nd hnd
    have hk : nd.1 ∈ (deliver reg p L).mirror.map Prod.fst := List.mem_map.2 ⟨nd, hnd, rfl⟩
    rcases devkeys_deliver L p (fun m hm => hE m (arrival_sub hL m hm)) nd.1 hk with h | ⟨m, hm, h⟩
    · obtain ⟨nd0, hnd0, h0⟩ := List.mem_map.1 h
      obtain ⟨d, hd, hdn⟩ := hs2 nd0 hnd0
      obtain ⟨d', hd', hn'⟩ := hname d hd
      exact ⟨d', hd', by rw [hn', hdn, h0]⟩
    · obtain ⟨_, d, hd, hdk⟩ := hwb.msgs m (arrival_sub hL m hm)
      obtain ⟨d', hd', hn'⟩ := hname d hd
      refine ⟨d', hd', ?_⟩
      rw [hn', h]
      exact hdk.symm

theorem samePeer_eq {a b : Peer} (h : samePeer a b = true) : a = b := by
  simp only [samePeer, Bool.and_eq_true, beq_iff_eq] at h
  obtain ⟨⟨⟨h1, h2⟩, h3⟩, h4⟩ := h
  cases a; cases b
  simp only at h1 h2 h3 h4
  subst h1 h2 h3 h4
  rfl

/-- one step of the deployment, for any choice of arrival orders -/
theorem world_deliver {w : World} {op : Sys.Op} {devs' : List Device} {peers' : List Peer}
    (hok : DevsOK w.devs) (hwf : PeersWf w.peers) (hs : allSynced w = true) (hop : OpOK op)
    (hdevs : devs' = (react reg w op).1)
    (hpeers : List.Forall₂ (fun p p' => ∃ L, Arrival p (react reg w op).2 L ∧ p' = deliver reg p L) w.peers peers') :
    allSynced { devs := devs', peers := peers' } = true ∧ DevsOK devs' ∧ PeersWf peers' := by
  have hwb := react_wb hok.1 hop
  rw [← hdevs] at hwb
  refine ⟨?_, hwb.devsOK hok, ?_⟩
  · simp only [allSynced, List.all_eq_true] at hs ⊢
    intro p' hp'
    obtain ⟨p, hz⟩ := forall₂_mem_right hpeers p' hp'
    obtain ⟨L, hL, rfl⟩ := (List.forall₂_iff_zip.1 hpeers).2 hz
    have hp := (List.of_mem_zip hz).1
    exact peer_deliver hwb hok.2 p (hwf p hp) (hs p hp) L hL
  · intro p' hp'
    obtain ⟨p, hz⟩ := forall₂_mem_right hpeers p' hp'
    obtain ⟨L, _, rfl⟩ := (List.forall₂_iff_zip.1 hpeers).2 hz
    exact deliver_wf L p (hwf p (List.of_mem_zip hz).1)

theorem nextOk_unpack {w w' : World} {op : Sys.Op} (h : nextOk reg w op w' = true) :
    w'.devs = (react reg w op).1 ∧
    List.Forall₂ (fun p p' => ∃ L, Arrival p (react reg w op).2 L ∧ p' = deliver reg p L) w.peers w'.peers := by
  unfold nextOk at h
  simp only [Bool.and_eq_true, sameDevs, beq_iff_eq, List.all_eq_true] at h
  obtain ⟨⟨h1, h2⟩, h3⟩ := h
  refine ⟨h1.symm, ?_⟩
  rw [List.forall₂_iff_zip]
  refine ⟨h2, ?_⟩
  intro p p' hz
  have := h3 (p, p') hz
  simp only [outcomes, List.any_eq_true, List.mem_map] at this
  obtain ⟨q, ⟨L, hL, rfl⟩, hq⟩ := this
  exact ⟨L, Or.inl hL, samePeer_eq hq⟩

/-- `step` is the schedule in which every peer receives the batch in order of publication -/
theorem step_unpack (w : World) (op : Sys.Op) :
    (Sys.step reg w op).devs = (react reg w op).1 ∧
    List.Forall₂ (fun p p' => ∃ L, Arrival p (react reg w op).2 L ∧ p' = deliver reg p L) w.peers (Sys.step reg w op).peers := by
  unfold Sys.step
  refine ⟨rfl, ?_⟩
  simp only
  rw [List.forall₂_map_right_iff]
  exact List.forall₂_same.2 fun p _ => ⟨_, Or.inr rfl, rfl⟩

theorem world_next {w w' : World} {op : Sys.Op} (hok : DevsOK w.devs) (hwf : PeersWf w.peers)
    (hs : allSynced w = true) (hop : OpOK op) (hn : nextOk reg w op w' = true) :
    allSynced w' = true ∧ DevsOK w'.devs ∧ PeersWf w'.peers := by
  obtain ⟨h1, h2⟩ := nextOk_unpack hn
  exact world_deliver hok hwf hs hop h1 h2

theorem world_step {w : World} {op : Sys.Op} (hok : DevsOK w.devs) (hwf : PeersWf w.peers)
    (hs : allSynced w = true) (hop : OpOK op) :
    allSynced (Sys.step reg w op) = true ∧ DevsOK (Sys.step reg w op).devs ∧ PeersWf (Sys.step reg w op).peers := by
  obtain ⟨h1, h2⟩ := step_unpack w op
  exact world_deliver hok hwf hs hop h1 h2

end Indi.SysP
