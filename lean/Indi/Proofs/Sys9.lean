/-
  C01, part 9: what a driver operation publishes, per property (`KeyCase`, `DevBatch`), for
  every operation in scope.
-/
import Indi.Proofs.Sys8
import Indi.Properties.DevA

namespace Indi.SysP
open Indi Indi.Dev Indi.Cli Indi.Sys Indi.Spec.Sys Indi.Spec.Dev
open Indi.DevBResp (getVec_setVec)

/-- the batch's messages addressing property `vn` of device `dn` -/
def atKey (dn vn : Str) (ms : List Msg) : List Msg := ms.filter fun m => decide (key m = (some dn, some vn))

/-- what a batch does about one property, which went from `(g0, v0)` to `(g', v')`:
nothing (and it looks the same); it is deleted; it is announced (every message shows the final view and a
definition is among them); it is updated (only updates, the last one shows the final view) -/
def KeyCase (dn : Str) (g0 : Group) (v0 : Vec) (g' : Group) (v' : Vec) (ms : List Msg) : Prop :=
  (atKey dn v'.name ms = [] ∧ vecEnabled g' v' = vecEnabled g0 v0 ∧ (vecEnabled g0 v0 = true → ViewEq g0 v0 g' v')) ∨
  (vecEnabled g' v' = false ∧ atKey dn v'.name ms ≠ [] ∧ ∀ m ∈ atKey dn v'.name ms, m = delMsg dn v'.name) ∨
  (vecEnabled g' v' = true ∧ (∀ m ∈ atKey dn v'.name ms, IsDef dn g' v' m ∨ IsSetV dn g' v' m) ∧
     ∃ m ∈ atKey dn v'.name ms, IsDef dn g' v' m) ∨
  (vecEnabled g' v' = true ∧ vecEnabled g0 v0 = true ∧ ShapeEq g0 v0 g' v' ∧
     (∀ m ∈ atKey dn v'.name ms, IsSetS dn g' v' m) ∧
     ∃ last, (atKey dn v'.name ms).getLast? = some last ∧ IsSetV dn g' v' last)

/-- what one driver publishes in an operation, and where it ends up -/
structure DevBatch (d : Device) (ms : List Msg) (d' : Device) : Prop where
  name : d'.name = d.name
  ok : DevOK d'
  emitted : ∀ m ∈ ms, Emitted m ∧ ∃ gi vi g' v', getVec d' gi vi = some (g', v') ∧ key m = (some d.name, some v'.name)
  none : ∀ gi vi, getVec d gi vi = none → getVec d' gi vi = none
  cases : ∀ gi vi g0 v0, getVec d gi vi = some (g0, v0) →
    ∃ g' v', getVec d' gi vi = some (g', v') ∧ v'.name = v0.name ∧ KeyCase d.name g0 v0 g' v' ms

theorem DevBatch.of_wsum {d d' : Device} {gi vi : Nat} {ms : List Msg} (hok : DevOK d) (hwf' : WF d' = true)
    (h : WSum d gi vi ms d') : DevBatch d ms d' := by
  -- every message addresses the written vector
  have hkey : ∀ m ∈ ms, ∃ g0 v0, getVec d gi vi = some (g0, v0) ∧ key m = (some d.name, some v0.name) := by
    intro m hm
    obtain ⟨g0, v0, g, v, hg0, _, hset, _, _, hst⟩ := h.msgs m hm
    exact ⟨g0, v0, hg0, by rw [key_set hset, hst.1]⟩
  refine ⟨h.rel.1, ⟨hwf', h.allVG hok.2⟩, ?_, h.rel.2.1, ?_⟩
  · intro m hm
    obtain ⟨g0, v0, g, v, hg0, _, hset, hvg, _, hst⟩ := h.msgs m hm
    obtain ⟨g', v', hg', _, hst', _⟩ := h.rel.2.2 gi vi g0 v0 hg0
    exact ⟨emitted_set hvg hset, gi, vi, g', v', hg', by rw [key_set hset, hst.1, hst'.1]⟩
  · intro gj vj g0 v0 hg0
    obtain ⟨g', v', hg', hge, hst, hen, _, hne⟩ := h.rel.2.2 gj vj g0 v0 hg0
    refine ⟨g', v', hg', hst.1, ?_⟩
    by_cases hidx : gj = gi ∧ vj = vi
    · obtain ⟨rfl, rfl⟩ := hidx
      by_cases hms : ms = []
      · left
        subst hms
        exact ⟨rfl, vecEnabled_of hge hen, fun he => (h.quiet rfl g0 v0 g' v' hg0 hg' he).view hge.1⟩
      · right; right; right
        have hE : atKey d.name v'.name ms = ms := by
          unfold atKey
          rw [List.filter_eq_self]
          intro m hm
          obtain ⟨g1, v1, hg1, hk⟩ := hkey m hm
          rw [hg0] at hg1
          simp only [Option.some.injEq, Prod.mk.injEq] at hg1
          rw [hk, ← hg1.2, hst.1]
          simp
        rw [hE]
        obtain ⟨m0, hm0⟩ := List.exists_mem_of_ne_nil _ hms
        have hen0 : vecEnabled g0 v0 = true := by
          obtain ⟨g1, v1, _, _, hg1, he1, _⟩ := h.msgs m0 hm0
          rw [hg0] at hg1
          simp only [Option.some.injEq, Prod.mk.injEq] at hg1
          rw [hg1.1, hg1.2]; exact he1
        refine ⟨by rw [vecEnabled_of hge hen]; exact hen0, hen0, hst.shape hge.1, ?_, ?_⟩
        · intro m hm
          obtain ⟨g1, v1, g, v, hg1, _, hset, hvg, hge1, hst1⟩ := h.msgs m hm
          rw [hg0] at hg1
          simp only [Option.some.injEq, Prod.mk.injEq] at hg1
          obtain ⟨rfl, rfl⟩ := hg1
          exact ⟨g, v, hset, hvg, (hst1.symm.trans hst).shape (hge.1.trans hge1.1.symm)⟩
        · obtain ⟨m, g, v, g'', v'', hl, hset, hvg, hg'', hge2, hsame⟩ := h.last hms
          rw [hg'] at hg''
          simp only [Option.some.injEq, Prod.mk.injEq] at hg''
          obtain ⟨rfl, rfl⟩ := hg''
          exact ⟨m, hl, g, v, hset, hvg, hsame.view hge2.1⟩
    · left
      have hv' := hne hidx
      subst hv'
      refine ⟨?_, vecEnabled_of hge rfl, fun _ => (Same.refl _).view hge.1⟩
      unfold atKey
      rw [List.filter_eq_nil_iff]
      intro m hm hk
      simp only [decide_eq_true_eq] at hk
      obtain ⟨g1, v1, hg1, hk1⟩ := hkey m hm
      rw [hk1] at hk
      simp only [Prod.mk.injEq, Option.some.injEq, true_and] at hk
      obtain ⟨e1, e2⟩ := names_inj hok.1 hg1 hg0 hk
      exact hidx ⟨e1.symm, e2.symm⟩

theorem DevBatch.refl {d : Device} (hok : DevOK d) : DevBatch d [] d :=
  DevBatch.of_wsum hok hok.1 (WSum.refl d 0 0)

theorem DevBatch.of_asum {d0 d d' : Device} {L : List (Nat × Nat)} {ms : List Msg} (hok : AllVG d0)
    (hwf' : WF d' = true)
    (hpre : Rel (fun gj vj g0 v0 g v => v.name = v0.name ∧ (VG v0 → VG v) ∧ ((gj, vj) ∉ L → GEq g0 g ∧ v = v0)) d0 d)
    (h : ASum d L ms d') : DevBatch d0 ms d' := by
  have hname : d.name = d0.name := hpre.1
  have hvg' : AllVG d' := by
    intro gj vj g' v' hg'
    obtain ⟨g, v, hg, _, _, hv⟩ := h.rel.back hg'
    obtain ⟨g0, v0, hg0, _, hv0, _⟩ := hpre.back hg
    exact hv (hv0 (hok _ _ _ _ hg0))
  -- a message addressing a vector of the final state announces that vector
  have hA : ∀ gj vj g' v', getVec d' gj vj = some (g', v') → ∀ m ∈ ms, key m = (some d0.name, some v'.name) →
      AMsg d0.name g' v' m ∧ (gj, vj) ∈ L := by
    intro gj vj g' v' hg' m hm hk
    obtain ⟨gi, vi, g2, v2, hL, hg2, ham⟩ := h.msgs m hm
    rw [ham.key, hname] at hk
    simp only [Prod.mk.injEq, Option.some.injEq, true_and] at hk
    obtain ⟨rfl, rfl⟩ := names_inj hwf' hg2 hg' hk
    rw [hg'] at hg2
    simp only [Option.some.injEq, Prod.mk.injEq] at hg2
    obtain ⟨rfl, rfl⟩ := hg2
    exact ⟨by rw [← hname]; exact ham, hL⟩
  refine ⟨h.rel.1.trans hname, ⟨hwf', hvg'⟩, ?_, fun gi vi hn => h.rel.2.1 gi vi (hpre.2.1 gi vi hn), ?_⟩
  · intro m hm
    obtain ⟨gi, vi, g', v', _, hg', ham⟩ := h.msgs m hm
    exact ⟨ham.emitted, gi, vi, g', v', hg', by rw [ham.key, hname]⟩
  · intro gj vj g0 v0 hg0
    obtain ⟨g, v, hg, hn1, _, hout⟩ := hpre.2.2 gj vj g0 v0 hg0
    obtain ⟨g', v', hg', hge, hsame, _⟩ := h.rel.2.2 gj vj g v hg
    refine ⟨g', v', hg', hsame.1.trans hn1, ?_⟩
    by_cases hL : (gj, vj) ∈ L
    · obtain ⟨m0, hm0, hh0⟩ := h.cover gj vj g' v' hL hg'
      rw [hname] at hh0
      have hm0E : m0 ∈ atKey d0.name v'.name ms := by
        unfold atKey
        rw [List.mem_filter]
        exact ⟨hm0, by simp [hh0.msg.key]⟩
      by_cases hen : vecEnabled g' v' = true
      · right; right; left
        refine ⟨hen, ?_, ?_⟩
        · intro m hm
          unfold atKey at hm
          rw [List.mem_filter] at hm
          rcases (hA gj vj g' v' hg' m hm.1 (by simpa using hm.2)).1 with ⟨_, h1⟩ | ⟨h1, _⟩
          · exact h1
          · rw [hen] at h1; cases h1
        · rcases hh0 with ⟨_, h1⟩ | ⟨h1, _⟩
          · exact ⟨m0, hm0E, h1⟩
          · rw [hen] at h1; cases h1
      · simp only [Bool.not_eq_true] at hen
        right; left
        refine ⟨hen, List.ne_nil_of_mem hm0E, ?_⟩
        intro m hm
        unfold atKey at hm
        rw [List.mem_filter] at hm
        rcases (hA gj vj g' v' hg' m hm.1 (by simpa using hm.2)).1 with ⟨h1, _⟩ | ⟨_, h1⟩
        · rw [hen] at h1; cases h1
        · exact h1
    · left
      obtain ⟨hge0, hv0⟩ := hout hL
      subst hv0
      refine ⟨?_, vecEnabled_of (hge0.trans hge) hsame.2.2.2.2.1, fun _ => hsame.view (hge0.trans hge).1⟩
      unfold atKey
      rw [List.filter_eq_nil_iff]
      intro m hm hk
      exact hL (hA gj vj g' v' hg' m hm (by simpa using hk)).2

/-! ### the operations -/

/-- driver-side operations in scope, with values that are proper BLOBs -/
def devOpOk : Dev.Op → Bool
  | .assign _ v => DevB.hasFormat v && bytesOk v
  | .setValue _ v => DevB.hasFormat v && bytesOk v
  | .enableElem _ _ => false
  | .client _ => false
  | _ => true

theorem allVG_setVec {d : Device} (hd : AllVG d) {gi vi : Nat} {g : Group} {v : Vec} (v' : Vec)
    (hg : getVec d gi vi = some (g, v)) (hv' : VG v') : AllVG (setVec d gi vi v') := by
  intro gj vj g1 v1 h1
  obtain ⟨g0, v0, h0, _, hif⟩ := (rel_setVec v' hg).back h1
  split at hif
  · rw [hif.2]; exact hv'
  · rw [hif]; exact hd _ _ _ _ h0

theorem enableVec_batch {d : Device} (hok : DevOK d) (gi vi : Nat) (b : Bool) :
    DevBatch d (enableVec d gi vi b).msgs (enableVec d gi vi b).dev := by
  have hwf' := step_wf d hok.1 (.enableVec gi vi b)
  simp only [Dev.step] at hwf'
  revert hwf'
  unfold enableVec
  cases hg : getVec d gi vi with
  | none => intro _; exact DevBatch.refl hok
  | some gv =>
    obtain ⟨g, v⟩ := gv
    simp only
    intro hwf'
    have hvg := hok.2 _ _ _ _ hg
    have hd1 : AllVG (setVec d gi vi { v with enabled := b }) := allVG_setVec hok.2 _ hg (hvg.enabled b)
    refine DevBatch.of_asum (L := [(gi, vi)]) hok.2 hwf' ?_ (announce_asum hd1 gi vi).1
    refine Rel.mono ?_ (rel_setVec { v with enabled := b } hg)
    intro gj vj g0 v0 g1 v1 ⟨hge, hif⟩
    split at hif
    · rename_i hc
      obtain ⟨rfl, rfl⟩ := hif
      refine ⟨rfl, fun _ => hvg.enabled b, fun hnot => ?_⟩
      exact absurd (by rw [hc.1, hc.2]; exact List.mem_singleton.2 rfl) hnot
    · subst hif
      exact ⟨rfl, id, fun _ => ⟨hge, rfl⟩⟩

theorem getVec_setGroup (d : Device) (gi : Nat) (g : Group) (b : Bool) (hg : d.groups[gi]? = some g) (gj vj : Nat) :
    getVec { d with groups := d.groups.set gi { g with enabled := b } } gj vj =
      (getVec d gj vj).map fun gv => (if gi = gj then { gv.1 with enabled := b } else gv.1, gv.2) := by
  unfold getVec
  simp only [List.getElem?_set]
  by_cases hij : gi = gj
  · subst hij
    have hlt : gi < d.groups.length := by
      apply Classical.byContradiction; intro h
      rw [List.getElem?_eq_none (by omega)] at hg; cases hg
    simp only [hlt, if_true, hg]
    cases g.vecs[vj]? <;> rfl
  · simp only [hij, if_false]
    cases d.groups[gj]? with
    | none => rfl
    | some g' => simp only; cases g'.vecs[vj]? <;> rfl

theorem enableGroup_batch {d : Device} (hok : DevOK d) (gi : Nat) (b : Bool) :
    DevBatch d (enableGroup d gi b).msgs (enableGroup d gi b).dev := by
  have hwf' := step_wf d hok.1 (.enableGroup gi b)
  simp only [Dev.step] at hwf'
  revert hwf'
  unfold enableGroup
  cases hg : d.groups[gi]? with
  | none => intro _; exact DevBatch.refl hok
  | some g =>
    simp only
    intro hwf'
    have hget := getVec_setGroup d gi g b hg
    have hd1 : AllVG { d with groups := d.groups.set gi { g with enabled := b } } := by
      intro gj vj g1 v1 h1
      rw [hget] at h1
      cases h0 : getVec d gj vj with
      | none => rw [h0] at h1; cases h1
      | some gv =>
        rw [h0] at h1
        simp only [Option.map_some, Option.some.injEq, Prod.mk.injEq] at h1
        rw [← h1.2]
        exact hok.2 _ _ _ _ h0
    refine DevBatch.of_asum hok.2 hwf' ?_ (announceAll_asum gi (List.range g.vecs.length) _ hd1)
    refine ⟨rfl, ?_, ?_⟩
    · intro gj vj hn
      rw [hget, hn]; rfl
    · intro gj vj g0 v0 h0
      rw [hget, h0]
      refine ⟨_, _, rfl, rfl, id, fun hnot => ?_⟩
      by_cases hij : gi = gj
      · subst hij
        exfalso
        apply hnot
        rw [getVec_eq_some] at h0
        rw [hg] at h0
        simp only [Option.some.injEq] at h0
        obtain ⟨rfl, h2⟩ := h0
        have : vj < g.vecs.length := by
          rcases List.getElem?_eq_some_iff.1 h2 with ⟨h1, _⟩; exact h1
        exact List.mem_map.2 ⟨vj, List.mem_range.2 this, rfl⟩
      · simp only [hij, if_false]
        exact ⟨GEq.refl _, trivial⟩

theorem sendDefs_batch {d : Device} (hok : DevOK d) (L : List (Nat × Nat)) (hwf' : WF (sendDefs d L).dev = true) :
    DevBatch d (sendDefs d L).msgs (sendDefs d L).dev :=
  DevBatch.of_asum hok.2 hwf' (Rel.refl (fun _ _ g _ => ⟨rfl, id, fun _ => ⟨GEq.refl g, rfl⟩⟩) d)
    (sendDefs_asum L d hok.2)

theorem fromClient_batch {d : Device} (hok : DevOK d) (m : Msg) (hfmt : DevB.opFormats (.client m) = true) :
    DevBatch d (fromClient d m).msgs (fromClient d m).dev := by
  have hwf' := step_wf d hok.1 (.client m)
  simp only [Dev.step] at hwf'
  revert hwf'
  unfold fromClient
  split
  · split
    · exact sendDefs_batch hok _
    · split
      · exact sendDefs_batch hok _
      · split
        · exact sendDefs_batch hok _
        · intro _; exact DevBatch.refl hok
  · split
    · split
      · intro _; exact DevBatch.refl hok
      · split
        · intro _; exact DevBatch.refl hok
        · rename_i gi vi _
          split
          · intro _; exact DevBatch.refl hok
          · rename_i g v hg
            split
            · rename_i htag
              intro hwf'
              refine DevBatch.of_wsum hok hwf' (applyChildren_wsum gi vi _ d hok.2 ?_)
              rintro ⟨g1, v1, hg1, hk1⟩ p hp
              rw [hg] at hg1
              simp only [Option.some.injEq, Prod.mk.injEq] at hg1
              rw [hg1.2, hk1] at htag
              simp only [newTag, Option.some.injEq] at htag
              simp only [DevB.opFormats, Bool.or_eq_true, bne_iff_ne, ne_eq, List.all_eq_true] at hfmt
              rcases hfmt with hne | hall
              · exact absurd htag.symm hne
              · exact hall p hp
            · intro _; exact DevBatch.refl hok
    · intro _; exact DevBatch.refl hok

theorem step_batch {d : Device} (hok : DevOK d) (op : Dev.Op) (h : devOpOk op = true) :
    DevBatch d (Dev.step d op).msgs (Dev.step d op).dev := by
  have hwf' := step_wf d hok.1 op
  cases op with
  | assign a v =>
    simp only [devOpOk, Bool.and_eq_true] at h
    exact DevBatch.of_wsum hok hwf' (assign_wsum hok.2 a h.1 h.2)
  | setValue a v =>
    simp only [devOpOk, Bool.and_eq_true] at h
    exact DevBatch.of_wsum hok hwf' (setValue_wsum hok.2 a h.1 h.2)
  | state g v st => exact DevBatch.of_wsum hok hwf' (setState_wsum hok.2 g v st)
  | enableVec g v b => exact enableVec_batch hok g v b
  | enableGroup g b => exact enableGroup_batch hok g b
  | enableElem a b => cases h
  | client m => cases h

end Indi.SysP
