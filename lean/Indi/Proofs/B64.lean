/-
  base64 round trip: `decode (encode bs) = bs` for every byte string, and the
  encoding stays inside the base64 alphabet plus `=`.
-/
import Indi.Model.B64

namespace Indi.B64

theorem a2b_b2a : ∀ n, n < 64 → a2b (b2a n) = some n := by decide +kernel

theorem b2a_ne_pad : ∀ n, n < 64 → b2a n ≠ '=' := by decide +kernel

theorem b2a_mem_alphabet : ∀ n, n < 64 → b2a n ∈ alphabet := by decide +kernel

/-- one data character advances the state machine -/
def advance (st : DecState) (v : Nat) : DecState :=
  match st.quadPos with
  | 0 => { quadPos := 1, leftchar := v, pads := 0, outRev := st.outRev }
  | 1 => { quadPos := 2, leftchar := v % 16, pads := 0, outRev := (st.leftchar * 4 + v / 16) :: st.outRev }
  | 2 => { quadPos := 3, leftchar := v % 4, pads := 0, outRev := (st.leftchar * 16 + v / 4) :: st.outRev }
  | _ => { quadPos := 0, leftchar := 0, pads := 0, outRev := (st.leftchar * 64 + v) :: st.outRev }

theorem step_data (st : DecState) (n : Nat) (hn : n < 64) (cs : Str) :
    decodeLoop st (b2a n :: cs) = decodeLoop (advance st n) cs := by
  obtain ⟨q, l, p, o⟩ := st
  rw [decodeLoop]
  simp only [b2a_ne_pad n hn, if_false, a2b_b2a n hn]
  unfold advance
  rcases q with _ | _ | _ | q <;> rfl

theorem group (out : List Nat) (b0 b1 b2 : Nat) (h0 : b0 < 256) (h1 : b1 < 256) (h2 : b2 < 256) (cs : Str) :
    decodeLoop { quadPos := 0, leftchar := 0, pads := 0, outRev := out }
      (b2a (b0 / 4) :: b2a ((b0 % 4) * 16 + b1 / 16) :: b2a ((b1 % 16) * 4 + b2 / 64) :: b2a (b2 % 64) :: cs)
    = decodeLoop { quadPos := 0, leftchar := 0, pads := 0, outRev := b2 :: b1 :: b0 :: out } cs := by
  rw [step_data _ _ (by omega), step_data _ _ (by omega), step_data _ _ (by omega), step_data _ _ (by omega)]
  simp only [advance]
  have e0 : b0 / 4 * 4 + (b0 % 4 * 16 + b1 / 16) / 16 = b0 := by omega
  have e1 : (b0 % 4 * 16 + b1 / 16) % 16 * 16 + (b1 % 16 * 4 + b2 / 64) / 4 = b1 := by omega
  have e2 : (b1 % 16 * 4 + b2 / 64) % 4 * 64 + b2 % 64 = b2 := by omega
  rw [e0, e1, e2]

theorem decodeLoop_encode : ∀ (bs : List Nat) (out : List Nat), (∀ b ∈ bs, b < 256) →
    decodeLoop { quadPos := 0, leftchar := 0, pads := 0, outRev := out } (encode bs) = .ok (out.reverse ++ bs) := by
  intro bs
  induction bs using encode.induct with
  | case1 => intro out _; simp [encode, decodeLoop]
  | case2 b0 =>
    intro out h
    have h0 : b0 < 256 := h b0 (by simp)
    simp only [encode]
    rw [step_data _ _ (by omega), step_data _ _ (by omega)]
    simp only [advance]
    have e0 : b0 / 4 * 4 + b0 % 4 * 16 / 16 = b0 := by omega
    rw [e0]
    simp [decodeLoop]
  | case3 b0 b1 =>
    intro out h
    have h0 : b0 < 256 := h b0 (by simp)
    have h1 : b1 < 256 := h b1 (by simp)
    simp only [encode]
    rw [step_data _ _ (by omega), step_data _ _ (by omega), step_data _ _ (by omega)]
    simp only [advance]
    have e0 : b0 / 4 * 4 + (b0 % 4 * 16 + b1 / 16) / 16 = b0 := by omega
    have e1 : (b0 % 4 * 16 + b1 / 16) % 16 * 16 + b1 % 16 * 4 / 4 = b1 := by omega
    rw [e0, e1]
    simp [decodeLoop]
  | case4 b0 b1 b2 rest ih =>
    intro out h
    have h0 : b0 < 256 := h b0 (by simp)
    have h1 : b1 < 256 := h b1 (by simp)
    have h2 : b2 < 256 := h b2 (by simp)
    simp only [encode]
    rw [group out b0 b1 b2 h0 h1 h2, ih _ (fun b hb => h b (by simp [hb]))]
    simp

/-- **C08 (i)**: decoding the encoding of any byte string gives the byte string back -/
theorem decode_encode (bs : List Nat) (h : ∀ b ∈ bs, b < 256) : decode (encode bs) = .ok bs := by
  unfold decode initState
  rw [decodeLoop_encode bs [] h]
  simp

/-- the encoding consists of base64 alphabet characters and `=` only — in particular no `<`, `>`, `&`,
so it travels through XML text unescaped -/
theorem encode_chars : ∀ (bs : List Nat), (∀ b ∈ bs, b < 256) → ∀ c ∈ encode bs, c ∈ alphabet ∨ c = '=' := by
  intro bs
  induction bs using encode.induct with
  | case1 => intro _ c hc; simp [encode] at hc
  | case2 b0 =>
    intro h c hc
    have h0 : b0 < 256 := h b0 (by simp)
    simp only [encode, List.mem_cons, List.mem_nil_iff, or_false] at hc
    rcases hc with rfl | rfl | rfl | rfl
    · exact Or.inl (b2a_mem_alphabet _ (by omega))
    · exact Or.inl (b2a_mem_alphabet _ (by omega))
    · exact Or.inr rfl
    · exact Or.inr rfl
  | case3 b0 b1 =>
    intro h c hc
    have h0 : b0 < 256 := h b0 (by simp)
    have h1 : b1 < 256 := h b1 (by simp)
    simp only [encode, List.mem_cons, List.mem_nil_iff, or_false] at hc
    rcases hc with rfl | rfl | rfl | rfl
    · exact Or.inl (b2a_mem_alphabet _ (by omega))
    · exact Or.inl (b2a_mem_alphabet _ (by omega))
    · exact Or.inl (b2a_mem_alphabet _ (by omega))
    · exact Or.inr rfl
  | case4 b0 b1 b2 rest ih =>
    intro h c hc
    have h0 : b0 < 256 := h b0 (by simp)
    have h1 : b1 < 256 := h b1 (by simp)
    have h2 : b2 < 256 := h b2 (by simp)
    simp only [encode, List.mem_cons] at hc
    rcases hc with rfl | rfl | rfl | rfl | hc
    · exact Or.inl (b2a_mem_alphabet _ (by omega))
    · exact Or.inl (b2a_mem_alphabet _ (by omega))
    · exact Or.inl (b2a_mem_alphabet _ (by omega))
    · exact Or.inl (b2a_mem_alphabet _ (by omega))
    · exact ih (fun b hb => h b (by simp [hb])) c hc

theorem no_markup_in_alphabet : '<' ∉ alphabet ∧ '>' ∉ alphabet ∧ '&' ∉ alphabet ∧ '=' ≠ '<' ∧ '=' ≠ '>' ∧ '=' ≠ '&' := by
  decide

/-- the declared size: four characters per started group of three bytes -/
theorem encode_length (bs : List Nat) : (encode bs).length = 4 * ((bs.length + 2) / 3) := by
  induction bs using encode.induct with
  | case1 => rfl
  | case2 b0 => simp [encode]
  | case3 b0 b1 => simp [encode]
  | case4 b0 b1 b2 rest ih => simp only [encode, List.length_cons, ih]; omega

end Indi.B64
