/-
  C01, part 3: the messages a driver emits for a vector (structure), and what a definition /
  deletion does to the addressed view of a mirror.
-/
import Indi.Proofs.Sys2
import Mathlib.Data.List.Nodup

namespace Indi.SysP
open Indi Indi.Dev Indi.Cli Indi.Sys Indi.Spec.Sys Indi.Spec.Dev

/-! ### structure of the emitted messages -/

theorem defKind_def (k : Kind) : defKind (s ("def" ++ kindName k ++ "Vector")) = some (vkind k) := by
  cases k <;> decide

theorem defKind_set (k : Kind) : defKind (s ("set" ++ kindName k ++ "Vector")) = none := by
  cases k <;> decide

theorem setKind_set (k : Kind) : setKind (s ("set" ++ kindName k ++ "Vector")) = some (vkind k) := by
  cases k <;> decide

theorem isSetBlob_set (k : Kind) (m : Msg) (h : m.tag = s ("set" ++ kindName k ++ "Vector")) :
    isSetBlob m = decide (k = .blob) := by
  unfold isSetBlob; rw [h]
  cases k <;> decide

theorem isSetBlob_def (k : Kind) (m : Msg) (h : m.tag = s ("def" ++ kindName k ++ "Vector")) :
    isSetBlob m = false := by
  unfold isSetBlob; rw [h]
  cases k <;> decide

/-- the `delProperty` notice for a property -/
def delMsg (dn vn : Str) : Msg :=
  { tag := s "delProperty",
    fields := [(s "device", some dn), (s "name", some vn), (s "timestamp", some stamp), (s "message", none)],
    children := none }

theorem defMsg_disabled {dn : Str} {g : Group} {v : Vec} {m : Msg} (h : defMsg dn g v = .ok m)
    (hen : vecEnabled g v = false) : m = delMsg dn v.name := by
  unfold defMsg at h
  simp only [hen, Bool.not_false, if_true, Except.ok.injEq] at h
  exact h.symm

theorem defMsg_enabled {dn : Str} {g : Group} {v : Vec} {m : Msg} (h : defMsg dn g v = .ok m)
    (hen : vecEnabled g v = true) :
    ∃ ps, mapParts (defPart v.kind) v.elems = .ok ps ∧ m.tag = s ("def" ++ kindName v.kind ++ "Vector") ∧
      m.children = some ps ∧ attr m.fields "device" = some dn ∧ attr m.fields "name" = some v.name ∧
      attr m.fields "state" = some v.state ∧ attr m.fields "label" = some v.label ∧
      attr m.fields "group" = some g.name := by
  unfold defMsg at h
  simp only [hen, Bool.not_true, Bool.false_eq_true, if_false] at h
  cases hps : mapParts (defPart v.kind) v.elems with
  | error x => rw [hps] at h; cases h
  | ok ps =>
    rw [hps] at h
    simp only [Except.ok.injEq] at h
    subst h
    refine ⟨ps, rfl, rfl, rfl, ?_⟩
    cases v.kind <;> simp [attr, alookup, s]

theorem setMsg_some {dn : Str} {g : Group} {v : Vec} {m : Msg} (h : setMsg dn g v = .ok (some m)) :
    vecEnabled g v = true ∧
    ∃ ps, mapParts (onePart v.kind) v.elems = .ok ps ∧ m.tag = s ("set" ++ kindName v.kind ++ "Vector") ∧
      m.children = some ps ∧ attr m.fields "device" = some dn ∧ attr m.fields "name" = some v.name ∧
      attr m.fields "state" = some v.state := by
  unfold setMsg at h
  by_cases hen : vecEnabled g v = true
  · simp only [hen, Bool.not_true, Bool.false_eq_true, if_false] at h
    refine ⟨hen, ?_⟩
    cases hps : mapParts (onePart v.kind) v.elems with
    | error x => rw [hps] at h; cases h
    | ok ps =>
      rw [hps] at h
      simp only [Except.ok.injEq, Option.some.injEq] at h
      subst h
      refine ⟨ps, rfl, rfl, rfl, ?_⟩
      simp [attr, alookup, s]
  · simp only [Bool.not_eq_true] at hen
    simp [hen] at h

theorem setMsg_none_iff {dn : Str} {g : Group} {v : Vec} (h : setMsg dn g v = .ok none) : vecEnabled g v = false := by
  unfold setMsg at h
  by_cases hen : vecEnabled g v = true
  · simp only [hen, Bool.not_true, Bool.false_eq_true, if_false] at h
    cases hps : mapParts (onePart v.kind) v.elems with
    | error x => rw [hps] at h; cases h
    | ok ps => rw [hps] at h; cases h
  · simpa using hen

theorem key_delMsg (dn vn : Str) : key (delMsg dn vn) = (some dn, some vn) := by
  simp [key, delMsg, attr, alookup, s]

/-! ### parts of a definition -/

theorem wireText_text {k : Kind} (hk : k ≠ .blob) (hn : k ≠ .number) (fmt : Str) (t : Str) :
    wireText k fmt (.text t) = some (normVal (some t)) := by
  cases k <;> simp_all [wireText]

theorem wireText_none {k : Kind} (hk : k ≠ .blob) (fmt : Str) : wireText k fmt .none = some none := by
  cases k <;> simp_all [wireText]

theorem renderNum_wireText {fmt : Str} {v : Value} {t : Option Str} (h : renderNum fmt v = .ok t) :
    wireText .number fmt v = some (normVal t) := by
  unfold renderNum at h
  cases v with
  | none => simp only [Rendered.ok.injEq] at h; subst h; rfl
  | num x i =>
    simp only at h
    cases hq : Num.numToStr Num.exactIEEE fmt (preRound fmt i x) with
    | ok t' =>
      rw [hq] at h
      simp only [Rendered.ok.injEq] at h
      subst h
      simp [wireText, hq]
    | valueError => rw [hq] at h; cases h
    | assertionError => rw [hq] at h; cases h
    | unsupported => rw [hq] at h; cases h
  | text _ => cases h
  | blob _ _ => cases h
  | other => cases h

theorem defPart_spec {k : Kind} {e : Dev.Elem} {p : Part} (h : defPart k e = .ok p) :
    attr p.fields "name" = some e.d.name ∧ attr p.fields "label" = some e.d.label ∧
    (k ≠ .blob → wireText k e.d.format (readValue e) = some (normVal (attr p.fields "value"))) ∧
    (k = .blob → attr p.fields "value" = none) := by
  unfold defPart at h
  cases k with
  | text =>
    cases hr : readValue e <;> rw [hr] at h <;> simp only [Except.ok.injEq, reduceCtorEq] at h
    · subst h; simp [attr, alookup, s, wireText, normVal]
    · subst h; simp [attr, alookup, s, wireText]
  | switch =>
    cases hr : readValue e <;> rw [hr] at h <;> simp only [Except.ok.injEq, reduceCtorEq] at h
    subst h; simp [attr, alookup, s, wireText]
  | light =>
    cases hr : readValue e <;> rw [hr] at h <;> simp only [Except.ok.injEq, reduceCtorEq] at h
    subst h; simp [attr, alookup, s, wireText]
  | number =>
    simp only at h
    cases hr : renderNum e.d.format (readValue e) with
    | ok t =>
      rw [hr] at h
      simp only [Except.ok.injEq] at h
      subst h
      have := renderNum_wireText hr
      simp [attr, alookup, s, this]
    | fail x => rw [hr] at h; cases h
  | blob =>
    simp only [Except.ok.injEq] at h
    subst h; simp [attr, alookup, s]

/-- the client value for a text attribute -/
def textOf : Option Str → CVal
  | some t => .text t
  | none => .none

theorem textVal_eq (fs : List (Str × Option Str)) : textVal fs = textOf (attr fs "value") := by
  unfold textVal textOf
  cases attr fs "value" <;> rfl

/-- a text value as the mirror stores it, shown against the device's value -/
theorem shown_text {k : Kind} (hk : k ≠ .blob) {fmt : Str} {val : Value} {a : Option Str} (ip : Bool)
    (hw : wireText k fmt val = some (normVal a)) (n l : Str) :
    elemShownV k (n, l, fmt, val) { name := some n, label := some l, value := textOf (rdVal ip a) } = true := by
  have hnv : normVal (rdVal ip a) = normVal a := normVal_rdVal ip a
  cases k
  case blob => exact absurd rfl hk
  all_goals
    simp only [elemShownV, beq_self_eq_true, Bool.true_and]
    cases hx : rdVal ip a with
    | none =>
      rw [hx] at hnv
      simp only [textOf, hw, beq_iff_eq, Option.some.injEq]
      rw [← hnv]; rfl
    | some t =>
      rw [hx] at hnv
      simp only [textOf, hw, beq_iff_eq, Option.some.injEq]
      rw [← hnv]

theorem textVal_rdPart (ip : Bool) (p : Part) :
    textVal (rdPart ip p).fields = textOf (rdVal ip (attr p.fields "value")) := by
  rw [textVal_eq, rdPart_value]

/-- the element a mirror stores for a `def*` child shows the device's element -/
theorem elemFull_def {k : Kind} {e : Dev.Elem} {p : Part} (h : defPart k e = .ok p) (ip : Bool) :
    ElemFull k (elemView e)
      (attr (rdPart ip p).fields "name",
       { name := attr (rdPart ip p).fields "name", label := attr (rdPart ip p).fields "label",
         value := textVal (rdPart ip p).fields }) := by
  obtain ⟨h1, h2, h3, h4⟩ := defPart_spec h
  rw [rdPart_attr ip p "name" (by decide), rdPart_attr ip p "label" (by decide), h1, h2, textVal_rdPart]
  refine ⟨rfl, ?_⟩
  by_cases hk : k = .blob
  · subst hk
    rw [h4 rfl, rdVal_none]
    simp [elemShownV, elemView, textOf]
  · exact shown_text hk ip (h3 hk) _ _

theorem forall₂_map_eq {α β γ : Type} {R : α → β → Prop} {f : α → γ} {g : β → γ} {l : List α} {l' : List β}
    (h : List.Forall₂ R l l') (hfg : ∀ a b, R a b → f a = g b) : l.map f = l'.map g := by
  induction h with
  | nil => rfl
  | cons hab _ ih => simp only [List.map_cons, hfg _ _ hab, ih]

/-- a definition replaces the addressed view by one that shows the vector, whatever was there -/
theorem upd_def {dn : Str} {g : Group} {v : Vec} {m : Msg} (h : defMsg dn g v = .ok m) (hen : vecEnabled g v = true)
    (hnd : ((enabledElems v).map (·.d.name)).Nodup) (ip b : Bool) (oc : Option CVec) :
    ∃ c, upd oc (rdm ip m) = some c ∧ vecShown b g v c = true := by
  obtain ⟨ps, hps, htag, hch, hdev, hname, hstate, hlabel, hgroup⟩ := defMsg_enabled h hen
  have hk : defKind (rdm ip m).tag = some (vkind v.kind) := by rw [rdm_tag, htag]; exact defKind_def _
  refine ⟨defVec (vkind v.kind) (rdm ip m), by simp [upd, hk], ?_⟩
  have hF := mapParts_forall₂ hps
  have hnames : ((ps.map (rdPart ip)).map fun p => attr p.fields "name") =
      (enabledElems v).map fun e => some e.d.name := by
    rw [List.map_map]
    symm
    refine forall₂_map_eq hF ?_
    intro e p hep
    simp only [Function.comp, rdPart_attr ip p "name" (by decide), (defPart_spec hep).1]
  have hnd' : ((ps.map (rdPart ip)).map fun p => attr p.fields "name").Nodup := by
    rw [hnames]
    have : ((enabledElems v).map fun e => some e.d.name) = ((enabledElems v).map (·.d.name)).map some := by
      rw [List.map_map]; rfl
    rw [this]
    exact List.Nodup.map (fun a b hab => Option.some.inj hab) hnd
  have hel : (defVec (vkind v.kind) (rdm ip m)).elems = (ps.map (rdPart ip)).map fun p =>
      (attr p.fields "name", { name := attr p.fields "name", label := attr p.fields "label", value := textVal p.fields }) := by
    simp only [defVec, rdm_children, hch, Option.getD_some, defElems_eq]
    exact elemsOfDef_nodup _ hnd'
  have hfull : List.Forall₂ (ElemFull v.kind) ((enabledElems v).map elemView) (defVec (vkind v.kind) (rdm ip m)).elems := by
    rw [hel, List.forall₂_map_left_iff, List.forall₂_map_right_iff, List.forall₂_map_right_iff]
    exact forall₂_imp' (fun e p hep => elemFull_def hep ip) hF
  rw [vecShown_iff]
  refine ⟨rfl, ?_, ?_, ?_, ?_⟩
  · simp only [defVec, rdm_attr ip m "name" (by decide), hname]
  · simp only [defVec, rdm_attr ip m "group" (by decide), hgroup]
  · simp only [defVec, rdm_attr ip m "label" (by decide), hlabel]
  · split
    · exact forall₂_imp' (fun _ _ h => h.named) hfull
    · refine ⟨?_, hfull⟩
      simp only [defVec, rdm_attr ip m "state" (by decide), hstate]

/-- a deletion removes the addressed view -/
theorem upd_del (dn vn : Str) (ip : Bool) (oc : Option CVec) : upd oc (rdm ip (delMsg dn vn)) = none := by
  have hd : defKind (s "delProperty") = none := by decide
  have hs : setKind (s "delProperty") = none := by decide
  have h3 : (rdm ip (delMsg dn vn)).tag = s "delProperty" := by rw [rdm_tag]; rfl
  simp [upd, h3, hd, hs]

end Indi.SysP
