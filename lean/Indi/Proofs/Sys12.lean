/-
  C01, part 12: the start — every peer connects and performs the wildcard handshake.
-/
import Indi.Proofs.Sys11

namespace Indi.SysP
open Indi Indi.Dev Indi.Cli Indi.Sys Indi.Spec.Sys Indi.Spec.Dev

/-- the driver with every group switched off: what a peer that knows nothing is in sync with -/
def off (d : Device) : Device := { d with groups := d.groups.map fun g => { g with enabled := false } }

theorem getVec_off (d : Device) (gi vi : Nat) :
    getVec (off d) gi vi = (getVec d gi vi).map fun gv => ({ gv.1 with enabled := false }, gv.2) := by
  unfold getVec off
  simp only [List.getElem?_map]
  cases d.groups[gi]? with
  | none => rfl
  | some g => simp only [Option.map_some]; cases g.vecs[vi]? <;> rfl

theorem synced_off_nil (b : Bool) (d : Device) : synced b (off d) [] = true := by
  unfold synced
  simp only [olook, List.all_eq_true, Bool.not_eq_true']
  intro gv hgv
  obtain ⟨gi, vi, hg⟩ := mem_allVecs.1 hgv
  rw [getVec_off] at hg
  cases h0 : getVec d gi vi with
  | none => rw [h0] at hg; cases hg
  | some gv0 =>
    rw [h0] at hg
    simp only [Option.map_some, Option.some.injEq] at hg
    rw [← hg]
    simp [vecEnabled]

/-- a request for all properties of all devices -/
def IsFullGet (m : Msg) : Prop :=
  m.tag = s "getProperties" ∧ (alookup (s "name") m.fields).getD none = none ∧ attr m.fields "device" = none

theorem fullGet_batch_off {d : Device} (hok : DevOK d) {m : Msg} (hm : IsFullGet m) :
    DevBatch (off d) (fromClient d m).msgs (fromClient d m).dev := by
  have hwf' := step_wf d hok.1 (.client m)
  simp only [Dev.step] at hwf'
  have hfc : fromClient d m = sendDefs d (dictVecs d) := by
    unfold fromClient
    simp only [hm.1, if_true, hm.2.1]
  rw [hfc] at hwf' ⊢
  have hnd : DevBResp.NamesNodup d := by
    have := hok.1
    simp only [WF, Bool.and_eq_true] at this
    exact DevBResp.names_nodup this.2
  refine DevBatch.of_asum (d0 := off d) (d := d) (L := dictVecs d) ?_ hwf' ?_ (sendDefs_asum _ d hok.2)
  · intro gi vi g v hg
    rw [getVec_off] at hg
    cases h0 : getVec d gi vi with
    | none => rw [h0] at hg; cases hg
    | some gv0 =>
      rw [h0] at hg
      simp only [Option.map_some, Option.some.injEq, Prod.mk.injEq] at hg
      rw [← hg.2]
      exact hok.2 _ _ _ _ h0
  · refine ⟨rfl, ?_, ?_⟩
    · intro gi vi hn
      rw [getVec_off] at hn
      cases h0 : getVec d gi vi with
      | none => rfl
      | some gv0 => rw [h0] at hn; cases hn
    · intro gi vi g0 v0 hg0
      rw [getVec_off] at hg0
      cases h0 : getVec d gi vi with
      | none => rw [h0] at hg0; cases hg0
      | some gv =>
        rw [h0] at hg0
        simp only [Option.map_some, Option.some.injEq, Prod.mk.injEq] at hg0
        obtain ⟨_, rfl⟩ := hg0
        refine ⟨gv.1, gv.2, rfl, rfl, id, fun hnot => ?_⟩
        exfalso
        apply hnot
        rw [DevBResp.dictVecs_eq hnd]
        exact List.mem_map.2 ⟨(gv, (gi, vi)), DevBResp.mem_full.2 h0, rfl⟩

theorem toDevices_wb_off {m : Msg} (hm : IsFullGet m) : ∀ devs : List Device,
    (∀ d ∈ devs, DevOK d) → WB (devs.map off) (toDevices devs m).2 (toDevices devs m).1
  | [], _ => ⟨[], List.Forall₂.nil, rfl, rfl⟩
  | d :: ds, hok => by
    obtain ⟨bds, hF, hms, hds⟩ := toDevices_wb_off hm ds fun x hx => hok x (List.mem_cons_of_mem _ hx)
    have hd := hok d List.mem_cons_self
    have ha : Sys.accepts d m = true := by
      unfold Sys.accepts; rw [hm.2.2]
    simp only [toDevices, ha, if_true, List.map_cons]
    refine ⟨((fromClient d m).msgs, (fromClient d m).dev) :: bds,
      List.Forall₂.cons (fullGet_batch_off hd hm) hF, ?_, ?_⟩
    · simp only [List.map_cons, List.flatten_cons, ← hms]
    · simp only [List.map_cons, ← hds]

theorem fullGet_inproc : IsFullGet (getProperties none none) := by
  refine ⟨rfl, ?_, ?_⟩ <;> decide

theorem fullGet_wire : ∃ m', wire reg (getProperties none none) = some m' ∧ IsFullGet m' := by
  refine ⟨_, rfl, ?_, ?_, ?_⟩ <;> decide +kernel

/-- the wildcard handshake of an existing peer, as the drivers see it -/
theorem react_handshake {w : World} {ci : Nat} {p : Peer} (hp : w.peers[ci]? = some p) :
    ∃ m, IsFullGet m ∧ react reg w (.handshake ci none none) = toDevices w.devs m := by
  simp only [react, hp, fromPeer]
  cases hip : p.inproc
  · obtain ⟨m', hw, hm'⟩ := fullGet_wire
    exact ⟨m', hm', by simp [hw]⟩
  · exact ⟨_, fullGet_inproc, by simp⟩

theorem names_off (devs : List Device) : (devs.map off).map (·.name) = devs.map (·.name) := by
  rw [List.map_map]; rfl

/-- the first handshake brings every peer that knows nothing in sync -/
theorem first_handshake {w : World} (hok : DevsOK w.devs) (hempty : ∀ p ∈ w.peers, p.mirror = []) {ci : Nat} {p0 : Peer}
    (hp : w.peers[ci]? = some p0) :
    allSynced (Sys.step reg w (.handshake ci none none)) = true ∧
    DevsOK (Sys.step reg w (.handshake ci none none)).devs ∧
    PeersWf (Sys.step reg w (.handshake ci none none)).peers := by
  obtain ⟨m, hm, hre⟩ := react_handshake hp
  obtain ⟨h1, h2⟩ := step_unpack w (.handshake ci none none)
  have hwb := react_wb (w := w) (op := .handshake ci none none) hok.1 trivial
  have hwboff := toDevices_wb_off hm w.devs hok.1
  rw [← hre] at hwboff
  have hwf0 : ∀ p ∈ w.peers, VWf p.mirror := by
    intro p hp
    rw [hempty p hp]
    exact fun _ h => by cases h
  refine ⟨?_, by rw [h1]; exact hwb.devsOK hok, ?_⟩
  · simp only [allSynced, List.all_eq_true]
    intro p' hp'
    obtain ⟨p, hz⟩ := forall₂_mem_right h2 p' hp'
    obtain ⟨L, hL, rfl⟩ := (List.forall₂_iff_zip.1 h2).2 hz
    have hpm := (List.of_mem_zip hz).1
    rw [h1]
    refine peer_deliver hwboff (by rw [names_off]; exact hok.2) p (hwf0 p hpm) ?_ L hL
    simp only [peerSynced, Bool.and_eq_true, List.all_eq_true, hempty p hpm]
    refine ⟨?_, fun _ h => by cases h⟩
    intro d hd
    obtain ⟨d0, _, rfl⟩ := List.mem_map.1 hd
    exact synced_off_nil _ _
  · intro p' hp'
    obtain ⟨p, hz⟩ := forall₂_mem_right h2 p' hp'
    obtain ⟨L, _, rfl⟩ := (List.forall₂_iff_zip.1 h2).2 hz
    exact deliver_wf L p (hwf0 p (List.of_mem_zip hz).1)

/-- the deployment before any handshake -/
def world0 (devs : List Device) (kinds : List (Bool × Bool × Bool)) : World :=
  { devs := devs, peers := kinds.map fun k => { blobs := k.1, inproc := k.2.1, also := k.2.2, mirror := [] } }

theorem start_eq (devs : List Device) (kinds : List (Bool × Bool × Bool)) :
    start reg devs kinds =
      (List.range kinds.length).foldl (fun w ci => Sys.step reg w (.handshake ci none none)) (world0 devs kinds) := rfl

theorem step_peers_length (w : World) (op : Sys.Op) : (Sys.step reg w op).peers.length = w.peers.length := by
  unfold Sys.step
  simp

theorem start_inv (devs : List Device) (kinds : List (Bool × Bool × Bool)) (hok : DevsOK devs) :
    ∀ k, k ≤ kinds.length →
      let w := (List.range k).foldl (fun w ci => Sys.step reg w (.handshake ci none none)) (world0 devs kinds)
      DevsOK w.devs ∧ PeersWf w.peers ∧ w.peers.length = kinds.length ∧ (k = 0 → w = world0 devs kinds) ∧
        (0 < k → allSynced w = true) := by
  intro k
  induction k with
  | zero =>
    intro _
    refine ⟨hok, ?_, by simp [world0], fun _ => rfl, fun h => absurd h (by omega)⟩
    intro p hp
    simp only [List.range_zero, List.foldl_nil, world0, List.mem_map] at hp
    obtain ⟨k, _, rfl⟩ := hp
    exact fun _ h => by cases h
  | succ k ih =>
    intro hk
    obtain ⟨h1, h2, h3, h4, h5⟩ := ih (by omega)
    simp only [List.range_succ, List.foldl_append, List.foldl_cons, List.foldl_nil]
    generalize hw : (List.range k).foldl (fun w ci => Sys.step reg w (.handshake ci none none)) (world0 devs kinds) = w
      at h1 h2 h3 h4 h5
    have hlen := step_peers_length w (.handshake k none none)
    by_cases hk0 : k = 0
    · subst hk0
      have hw0 := h4 rfl
      have hpk : ∃ p0, w.peers[0]? = some p0 := by
        have : 0 < w.peers.length := by omega
        exact ⟨w.peers[0], List.getElem?_eq_getElem this⟩
      obtain ⟨p0, hp0⟩ := hpk
      have hempty : ∀ p ∈ w.peers, p.mirror = [] := by
        intro p hp
        rw [hw0] at hp
        simp only [world0, List.mem_map] at hp
        obtain ⟨k, _, rfl⟩ := hp
        rfl
      obtain ⟨a, b, c⟩ := first_handshake h1 hempty hp0
      exact ⟨b, c, by rw [hlen]; exact h3, fun h => absurd h (by omega), fun _ => a⟩
    · obtain ⟨a, b, c⟩ := world_step (op := .handshake k none none) h1 h2 (h5 (by omega)) trivial
      exact ⟨b, c, by rw [hlen]; exact h3, fun h => absurd h (by omega), fun _ => a⟩

theorem start_synced (devs : List Device) (kinds : List (Bool × Bool × Bool)) (hok : DevsOK devs) :
    allSynced (start reg devs kinds) = true ∧ DevsOK (start reg devs kinds).devs ∧
      PeersWf (start reg devs kinds).peers := by
  rw [start_eq]
  obtain ⟨h1, h2, h3, h4, h5⟩ := start_inv devs kinds hok kinds.length (Nat.le_refl _)
  refine ⟨?_, h1, h2⟩
  by_cases hk : kinds.length = 0
  · have := h4 hk
    rw [this]
    have : kinds = [] := List.eq_nil_of_length_eq_zero hk
    subst this
    rfl
  · exact h5 (by omega)

end Indi.SysP
