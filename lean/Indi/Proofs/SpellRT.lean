/-
  Foreign spellings, character level: the parser automaton reads every spelling `spellElem sp e` of an acceptable
  element (quote style, white space inside tags, indentation, explicit empty elements, raw `>` in text, reversed
  attributes) back as `spelled sp e`; no proper prefix of a spelling is a complete document.

  Same shape as `Indi.Proofs.XmlRT` / `Indi.Proofs.XmlDoc`, whose lemmas are reused.
-/
import Indi.Spec.XmlSpell
import Indi.Proofs.XmlDoc

namespace Indi.Xml
open Indi

namespace SpellRT

/-! ### white space -/

theorem isS_facts (c : Char) (h : isS c = true) :
    xmlChar c = true ∧ nameUns c = false ∧ nameChar c = false ∧ nameStart c = false ∧
    c ≠ '>' ∧ c ≠ '/' ∧ c ≠ '=' ∧ c ≠ '<' ∧ c ≠ '&' ∧ c ≠ ']' ∧ c ≠ '"' ∧ c ≠ '\'' := by
  simp [isS] at h
  rcases h with ((rfl | rfl) | rfl) | rfl <;> decide

theorem all_cons {p : Char → Bool} {c : Char} {cs : Str} (h : (c :: cs).all p = true) :
    p c = true ∧ cs.all p = true := by
  simpa using h

theorem step_tagSpace_ws (b stk d cr c) (h : isS c = true) :
    step ⟨.tagSpace b, stk, d, cr⟩ c = ⟨.tagSpace true, stk, d, cr⟩ := by
  simp [step, stepMode, h, Doc.isS_xmlChar h]

theorem run_tagSpace_ws (ws : Str) (h : ws.all isS = true) (b stk d cr) :
    run ⟨.tagSpace b, stk, d, cr⟩ ws = ⟨.tagSpace (b || !ws.isEmpty), stk, d, cr⟩ := by
  induction ws generalizing b with
  | nil => simp
  | cons c cs ih =>
    obtain ⟨h1, h2⟩ := all_cons h
    rw [run_cons, step_tagSpace_ws _ _ _ _ _ h1, ih h2]
    simp

theorem step_attrEq_ws (name stk d cr c) (h : isS c = true) :
    step ⟨.attrEq name, stk, d, cr⟩ c = ⟨.attrEq name, stk, d, cr⟩ := by
  simp [step, stepMode, h, Doc.isS_xmlChar h]

theorem run_attrEq_ws (ws : Str) (h : ws.all isS = true) (name stk d cr) :
    run ⟨.attrEq name, stk, d, cr⟩ ws = ⟨.attrEq name, stk, d, cr⟩ := by
  induction ws with
  | nil => rfl
  | cons c cs ih =>
    obtain ⟨h1, h2⟩ := all_cons h
    rw [run_cons, step_attrEq_ws _ _ _ _ _ h1, ih h2]

theorem step_attrQuote_ws (name stk d cr c) (h : isS c = true) :
    step ⟨.attrQuote name, stk, d, cr⟩ c = ⟨.attrQuote name, stk, d, cr⟩ := by
  simp [step, stepMode, h, Doc.isS_xmlChar h]

theorem run_attrQuote_ws (ws : Str) (h : ws.all isS = true) (name stk d cr) :
    run ⟨.attrQuote name, stk, d, cr⟩ ws = ⟨.attrQuote name, stk, d, cr⟩ := by
  induction ws with
  | nil => rfl
  | cons c cs ih =>
    obtain ⟨h1, h2⟩ := all_cons h
    rw [run_cons, step_attrQuote_ws _ _ _ _ _ h1, ih h2]

theorem step_endSpace_ws (name stk d cr c) (h : isS c = true) :
    step ⟨.endSpace name, stk, d, cr⟩ c = ⟨.endSpace name, stk, d, cr⟩ := by
  simp [step, stepMode, h, Doc.isS_xmlChar h]

theorem run_endSpace_ws (ws : Str) (h : ws.all isS = true) (name stk d cr) :
    run ⟨.endSpace name, stk, d, cr⟩ ws = ⟨.endSpace name, stk, d, cr⟩ := by
  induction ws with
  | nil => rfl
  | cons c cs ih =>
    obtain ⟨h1, h2⟩ := all_cons h
    rw [run_cons, step_endSpace_ws _ _ _ _ _ h1, ih h2]

/-! ### attribute values in either quote style -/

theorem run_escAttrCharQ (single : Bool) (c : Char) (h : xmlChar c = true) (name acc stk d) :
    run ⟨.attrVal name (if single then '\'' else '"') acc, stk, d, false⟩ (escAttrCharQ single c) =
      ⟨.attrVal name (if single then '\'' else '"') (c :: acc), stk, d, false⟩ := by
  unfold escAttrCharQ
  cases single
  · simp only [Bool.false_eq_true, if_false, Bool.not_false, Bool.and_true, Bool.and_false]
    split; · subst c; rfl
    split; · subst c; rfl
    split; · rename_i hq; simp at hq; subst c; rfl
    split; · subst c; rfl
    split; · subst c; rfl
    split; · subst c; rfl
    simp_all [step, stepMode]
  · simp only [if_true, Bool.not_true, Bool.and_true, Bool.and_false, Bool.false_eq_true, if_false]
    split; · subst c; rfl
    split; · subst c; rfl
    split; · rename_i hq; simp at hq; subst c; rfl
    split; · subst c; rfl
    split; · subst c; rfl
    split; · subst c; rfl
    simp_all [step, stepMode]

theorem run_escAttrQ (single : Bool) (v : Str) (h : safeChars v = true) (name acc stk d) :
    run ⟨.attrVal name (if single then '\'' else '"') acc, stk, d, false⟩ (escAttrQ single v) =
      ⟨.attrVal name (if single then '\'' else '"') (v.reverse ++ acc), stk, d, false⟩ := by
  induction v generalizing acc with
  | nil => rfl
  | cons c cs ih =>
    simp [safeChars] at h
    simp [escAttrQ, run_append, run_escAttrCharQ single c h.1]
    have := ih (by simpa [safeChars] using h.2) (c :: acc)
    simpa [escAttrQ] using this

/-! ### attributes -/

theorem quote_cases (sp : Style) : quoteOf sp = (if sp.single then '\'' else '"') := rfl

theorem run_attrName_eq (ws : Str) (hws : ws.all isS = true) (acc f stk d cr) (rest : Str)
    (hx : acc.reverse ≠ s "xmlns") (hd : (f.attrs.any fun kv => kv.1 = acc.reverse) = false) :
    run ⟨.attrName acc, f :: stk, d, cr⟩ (ws ++ '=' :: rest) = run ⟨.attrQuote acc.reverse, f :: stk, d, cr⟩ rest := by
  cases ws with
  | nil => rw [List.nil_append, run_cons, step_attrName_eq acc f stk d cr hx hd]
  | cons w ws =>
    obtain ⟨h1, h2⟩ := all_cons hws
    obtain ⟨g1, g2, g3, g4, g5, g6, g7, g8, g9, g10, g11, g12⟩ := isS_facts w h1
    have s1 : step ⟨.attrName acc, f :: stk, d, cr⟩ w = ⟨.attrEq acc.reverse, f :: stk, d, cr⟩ := by
      simp [step, stepMode, St.dupAttr, g1, g2, g3, h1, hx, hd]
    have s2 : step ⟨.attrEq acc.reverse, f :: stk, d, cr⟩ '=' = ⟨.attrQuote acc.reverse, f :: stk, d, cr⟩ := rfl
    rw [List.cons_append, run_cons, s1, run_append, run_attrEq_ws ws h2, run_cons, s2]

theorem run_attrQuote (ws : Str) (hws : ws.all isS = true) (q : Char) (hq : q = '"' ∨ q = '\'') (name stk d cr) (rest : Str) :
    run ⟨.attrQuote name, stk, d, cr⟩ (ws ++ q :: rest) = run ⟨.attrVal name q [], stk, d, false⟩ rest := by
  have s1 : step ⟨.attrQuote name, stk, d, cr⟩ q = ⟨.attrVal name q [], stk, d, false⟩ := by
    rcases hq with rfl | rfl <;> rfl
  rw [run_append, run_attrQuote_ws ws hws, run_cons, s1]

theorem step_attrVal_close (q : Char) (hq : q = '"' ∨ q = '\'') (name acc f stk d cr) :
    step ⟨.attrVal name q acc, f :: stk, d, cr⟩ q =
      ⟨.tagSpace false, { f with attrs := f.attrs ++ [(name, acc.reverse)] } :: stk, d, false⟩ := by
  rcases hq with rfl | rfl <;> rfl

/-- one attribute, including the white space that leads it -/
theorem run_spellAttr (sp : Style) (hsp : sp.ok = true) (k v : Str) (hk : isName k = true) (hx : k ≠ s "xmlns")
    (hv : safeChars v = true) (b f stk d) (hd : (f.attrs.any fun kv => kv.1 = k) = false) :
    run ⟨.tagSpace b, f :: stk, d, false⟩ (spellAttr sp (k, v)) =
      ⟨.tagSpace false, { f with attrs := f.attrs ++ [(k, v)] } :: stk, d, false⟩ := by
  simp only [Style.ok, Bool.and_eq_true, Bool.not_eq_true'] at hsp
  obtain ⟨⟨⟨⟨⟨⟨⟨⟨p1, p2⟩, p3⟩, p4⟩, p5⟩, p6⟩, p7⟩, p8⟩, p9⟩ := hsp
  obtain ⟨c, cs, rfl, h1, h2⟩ := isName_facts k hk
  have hq : quoteOf sp = '"' ∨ quoteOf sp = '\'' := by
    unfold quoteOf; cases sp.single <;> simp
  have s0 : run ⟨.tagSpace b, f :: stk, d, false⟩ sp.attrLead = ⟨.tagSpace true, f :: stk, d, false⟩ := by
    rw [run_tagSpace_ws _ p2, p1]; simp
  have s1 : step ⟨.tagSpace true, f :: stk, d, false⟩ c = ⟨.attrName [c], f :: stk, d, false⟩ := by
    obtain ⟨g1, g2, g3, g4, g5, g6, g7, g8⟩ := nameChar_facts c (nameStart_nameChar c h1)
    simp [step, stepMode, *]
  have s2 := run_attrName_eq sp.eqL p3 (cs.reverse ++ [c]) f stk d false
    (sp.eqR ++ quoteOf sp :: (escAttrQ sp.single v ++ [quoteOf sp])) (by simpa using hx) (by simpa using hd)
  have s3 := run_attrQuote sp.eqR p4 (quoteOf sp) hq (cs.reverse ++ [c]).reverse (f :: stk) d false
    (escAttrQ sp.single v ++ [quoteOf sp])
  have s4 := run_escAttrQ sp.single v hv (cs.reverse ++ [c]).reverse [] (f :: stk) d
  rw [← quote_cases] at s4
  have s5 := step_attrVal_close (quoteOf sp) hq (cs.reverse ++ [c]).reverse (v.reverse ++ []) f stk d false
  unfold spellAttr
  simp only [List.append_assoc, List.cons_append, List.nil_append]
  rw [run_append, s0, run_cons, s1, run_append, run_attrName cs h2, s2, s3, run_append, s4, run_cons, s5]
  simp

theorem nodupKeys_iff (l : List (Str × Str)) :
    nodupKeys l = true ↔ l.Pairwise (fun a b => a.1 ≠ b.1) := by
  induction l with
  | nil => simp [nodupKeys]
  | cons kv l ih =>
    simp only [nodupKeys, Bool.and_eq_true, ih, List.pairwise_cons]
    constructor
    · rintro ⟨h1, h2⟩
      refine ⟨fun b hb e => ?_, h2⟩
      simp at h1
      exact h1 b.1 b.2 hb e.symm
    · rintro ⟨h1, h2⟩
      refine ⟨?_, h2⟩
      simp
      exact fun a b hab e => h1 (a, b) hab e.symm

theorem nodupKeys_reverse (l : List (Str × Str)) (h : nodupKeys l = true) : nodupKeys l.reverse = true := by
  rw [nodupKeys_iff] at *
  rw [List.pairwise_reverse]
  exact h.imp fun hab e => hab e.symm

theorem attrsOk_ordered (sp : Style) (l : List (Str × Str)) (h : attrsOk l = true) : attrsOk (ordered sp l) = true := by
  unfold ordered
  split
  · simp only [attrsOk, Bool.and_eq_true] at *
    exact ⟨by simpa using h.1, nodupKeys_reverse l h.2⟩
  · exact h

/-- the attribute list, from the state after an attribute or after the tag name -/
theorem run_spellAttrs (sp : Style) (hsp : sp.ok = true) (l : List (Str × Str))
    (hok : ∀ kv ∈ l, isName kv.1 = true ∧ kv.1 ≠ s "xmlns" ∧ safeChars kv.2 = true)
    (hnd : nodupKeys l = true) (b f stk d)
    (hnew : ∀ kv ∈ l, ∀ kv' ∈ f.attrs, kv'.1 ≠ kv.1) :
    ∃ b', run ⟨.tagSpace b, f :: stk, d, false⟩ (l.flatMap (spellAttr sp)) =
      ⟨.tagSpace b', { f with attrs := f.attrs ++ l } :: stk, d, false⟩ := by
  induction l generalizing b f with
  | nil => exact ⟨b, by simp⟩
  | cons kv l ih =>
    obtain ⟨g1, g2, g3⟩ := hok kv (by simp)
    obtain ⟨n1, n2⟩ := nodupKeys_cons kv l hnd
    have hd : (f.attrs.any fun kv' => kv'.1 = kv.1) = false := by
      simp only [List.any_eq_false]
      intro kv' hkv'
      simpa using hnew kv (by simp) kv' hkv'
    have s2 := run_spellAttr sp hsp kv.1 kv.2 g1 g2 g3 b f stk d hd
    obtain ⟨b', ih'⟩ := ih (fun kv' h' => hok kv' (by simp [h'])) n2 false
      { f with attrs := f.attrs ++ [kv] } (by
        intro x hx y hy
        simp at hy
        rcases hy with hy | hy
        · exact hnew x (by simp [hx]) y hy
        · subst hy; exact fun e => n1 x hx e.symm)
    refine ⟨b', ?_⟩
    rw [List.flatMap_cons, run_append, s2, ih']
    simp

/-- a start tag name ends at white space, `>` or `/`: the element is opened and the character is handled as
after white space -/
theorem step_tagName_open (acc stk d cr c) (h : isS c = true ∨ c = '>' ∨ c = '/') :
    step ⟨.tagName acc, stk, d, cr⟩ c = step ⟨.tagSpace true, ⟨acc.reverse, [], [], [], false⟩ :: stk, d, false⟩ c := by
  rcases h with h | rfl | rfl
  · obtain ⟨g1, g2, g3, g4, g5, g6, g7, g8, g9, g10, g11, g12⟩ := isS_facts c h
    simp [step, stepMode, St.openTag, g1, g2, g3, h]
  · rfl
  · rfl

/-- `<tag attrs ws` followed by `>` or `/`, from just after the `<` -/
theorem run_open (sp : Style) (hsp : sp.ok = true) (tag : Str) (l : List (Str × Str)) (ht : isName tag = true)
    (ha : attrsOk l = true) (b stk cr) (c : Char) (hc : c = '>' ∨ c = '/') (rest : Str) :
    run ⟨.lt b, stk, none, cr⟩ (tag ++ (l.flatMap (spellAttr sp) ++ (sp.tagEnd ++ c :: rest))) =
      run (step ⟨.tagSpace true, ⟨tag, l, [], [], false⟩ :: stk, none, false⟩ c) rest := by
  obtain ⟨a1, a2⟩ := attrsOk_facts l ha
  have hsp' := hsp
  simp only [Style.ok, Bool.and_eq_true, Bool.not_eq_true'] at hsp'
  obtain ⟨⟨⟨⟨⟨⟨⟨⟨p1, p2⟩, p3⟩, p4⟩, p5⟩, p6⟩, p7⟩, p8⟩, p9⟩ := hsp'
  rw [run_append, run_lt_name tag ht]
  -- the first character after the name opens the element
  have hopen : ∀ X : Str, (∃ y ys, X = y :: ys ∧ (isS y = true ∨ y = '>' ∨ y = '/')) →
      run ⟨.tagName tag.reverse, stk, none, cr⟩ X =
        run ⟨.tagSpace true, ⟨tag, [], [], [], false⟩ :: stk, none, false⟩ X := by
    rintro X ⟨y, ys, rfl, hy⟩
    rw [run_cons, run_cons, step_tagName_open _ _ _ _ _ hy, List.reverse_reverse]
  have hhead : ∃ y ys, (l.flatMap (spellAttr sp) ++ (sp.tagEnd ++ c :: rest)) = y :: ys ∧
      (isS y = true ∨ y = '>' ∨ y = '/') := by
    cases l with
    | nil =>
      cases hte : sp.tagEnd with
      | nil => exact ⟨c, rest, by simp, Or.inr hc⟩
      | cons w ws =>
        rw [hte] at p5
        exact ⟨w, ws ++ c :: rest, by simp, Or.inl (all_cons p5).1⟩
    | cons kv l =>
      cases hal : sp.attrLead with
      | nil => rw [hal] at p1; simp at p1
      | cons w ws =>
        rw [hal] at p2
        exact ⟨w, _, by simp [spellAttr, hal]; rfl, Or.inl (all_cons p2).1⟩
  rw [hopen _ hhead]
  obtain ⟨b', s3⟩ := run_spellAttrs sp hsp l a1 a2 true ⟨tag, [], [], [], false⟩ stk none (by simp)
  rw [run_append, s3, run_append, run_tagSpace_ws _ p5, run_cons]
  congr 1
  rcases hc with rfl | rfl <;> rfl

/-! ### character data -/

theorem step_text_plain (c : Char) (hx : xmlChar c = true) (h1 : c ≠ '<') (h2 : c ≠ '&') (h3 : c ≠ ']') (h4 : c ≠ '\r')
    (br : Nat) (hgt : c = '>' → br < 2) (tg ats tx kd stk d) :
    step ⟨.text br, ⟨tg, ats, tx, kd, false⟩ :: stk, d, false⟩ c =
      ⟨.text 0, ⟨tg, ats, tx ++ [c], kd, false⟩ :: stk, d, false⟩ := by
  by_cases hg : c = '>'
  · subst hg
    have : ¬ (2 ≤ br) := by have := hgt rfl; omega
    simp [step, stepMode, St.emit, this, hx]
  · simp [step, stepMode, St.emit, *]

theorem step_text_rbr (br tg ats tx kd stk d) :
    step ⟨.text br, ⟨tg, ats, tx, kd, false⟩ :: stk, d, false⟩ ']' =
      ⟨.text (if br ≥ 2 then 2 else br + 1), ⟨tg, ats, tx ++ [']'], kd, false⟩ :: stk, d, false⟩ := rfl

theorem run_text_amp (br tg ats tx kd stk d) :
    run ⟨.text br, ⟨tg, ats, tx, kd, false⟩ :: stk, d, false⟩ (s "&amp;") =
      ⟨.text 0, ⟨tg, ats, tx ++ ['&'], kd, false⟩ :: stk, d, false⟩ := rfl
theorem run_text_lt (br tg ats tx kd stk d) :
    run ⟨.text br, ⟨tg, ats, tx, kd, false⟩ :: stk, d, false⟩ (s "&lt;") =
      ⟨.text 0, ⟨tg, ats, tx ++ ['<'], kd, false⟩ :: stk, d, false⟩ := rfl
theorem run_text_gt (br tg ats tx kd stk d) :
    run ⟨.text br, ⟨tg, ats, tx, kd, false⟩ :: stk, d, false⟩ (s "&gt;") =
      ⟨.text 0, ⟨tg, ats, tx ++ ['>'], kd, false⟩ :: stk, d, false⟩ := rfl

/-- text with raw `>`: the automaton's bracket counter is the writer's, capped at 2 -/
theorem run_escTextRaw (t : Str) (h : textOk t = true) (k br : Nat) (hbr : br = min k 2) (tg ats tx kd stk d) :
    ∃ br', run ⟨.text br, ⟨tg, ats, tx, kd, false⟩ :: stk, d, false⟩ (escTextRaw t k) =
      ⟨.text br', ⟨tg, ats, tx ++ t, kd, false⟩ :: stk, d, false⟩ := by
  induction t generalizing k br tx with
  | nil => exact ⟨br, by simp [escTextRaw]⟩
  | cons c cs ih =>
    obtain ⟨h1, h2, h3⟩ := textOk_cons c cs h
    rw [escTextRaw]
    split
    · subst c
      obtain ⟨b2, e2⟩ := ih h3 0 0 rfl (tx ++ ['&'])
      exact ⟨b2, by rw [run_append, run_text_amp, e2]; simp⟩
    split
    · subst c
      obtain ⟨b2, e2⟩ := ih h3 0 0 rfl (tx ++ ['<'])
      exact ⟨b2, by rw [run_append, run_text_lt, e2]; simp⟩
    split
    · subst c
      obtain ⟨b2, e2⟩ := ih h3 (k + 1) (if br ≥ 2 then 2 else br + 1) (by subst hbr; split <;> omega) (tx ++ [']'])
      exact ⟨b2, by rw [run_cons, step_text_rbr, e2]; simp⟩
    split
    · subst c
      obtain ⟨b2, e2⟩ := ih h3 0 0 rfl (tx ++ ['>'])
      refine ⟨b2, ?_⟩
      split
      · rw [run_append, run_text_gt, e2]; simp
      · rename_i hk
        have hs := step_text_plain '>' h1 (by decide) (by decide) (by decide) (by decide) br
          (fun _ => by subst hbr; omega) tg ats tx kd stk d
        rw [run_append, run_cons, hs, run_nil, e2]; simp
    · rename_i n1 n2 n3 n4
      obtain ⟨b2, e2⟩ := ih h3 0 0 rfl (tx ++ [c])
      have hs := step_text_plain c h1 n2 n1 n3 h2 br (fun e => absurd e n4) tg ats tx kd stk d
      exact ⟨b2, by rw [run_cons, hs, e2]; simp⟩

theorem run_spellText (sp : Style) (t : Str) (h : textOk t = true) (tg ats tx kd stk d) :
    ∃ br', run ⟨.text 0, ⟨tg, ats, tx, kd, false⟩ :: stk, d, false⟩ (spellText sp t) =
      ⟨.text br', ⟨tg, ats, tx ++ t, kd, false⟩ :: stk, d, false⟩ := by
  unfold spellText
  split
  · exact run_escTextRaw t h 0 0 rfl tg ats tx kd stk d
  · exact run_escText t h 0 tg ats tx kd stk d

/-- white space without carriage returns before the first child: data of the open element -/
theorem run_text_ws_first (ws : Str) (h : ws.all isS = true) (hr : ws.contains '\r' = false) (br tg ats tx kd stk d) :
    ∃ br', run ⟨.text br, ⟨tg, ats, tx, kd, false⟩ :: stk, d, false⟩ ws =
      ⟨.text br', ⟨tg, ats, tx ++ ws, kd, false⟩ :: stk, d, false⟩ := by
  induction ws generalizing br tx with
  | nil => exact ⟨br, by simp⟩
  | cons c cs ih =>
    obtain ⟨h1, h2⟩ := all_cons h
    obtain ⟨g1, g2, g3, g4, g5, g6, g7, g8, g9, g10, g11, g12⟩ := isS_facts c h1
    simp only [List.contains_cons, Bool.or_eq_false_iff, beq_eq_false_iff_ne, ne_eq] at hr
    obtain ⟨b2, e2⟩ := ih h2 hr.2 0 (tx ++ [c])
    have hs := step_text_plain c g1 g8 g9 g10 (fun e => hr.1 e.symm) br (fun e => absurd e g5) tg ats tx kd stk d
    exact ⟨b2, by rw [run_cons, hs, e2]; simp⟩

theorem step_text_ws_kid (c : Char) (h : isS c = true) (br tg ats tx kd stk d cr) :
    ∃ br' cr', step ⟨.text br, ⟨tg, ats, tx, kd, true⟩ :: stk, d, cr⟩ c =
      ⟨.text br', ⟨tg, ats, tx, kd, true⟩ :: stk, d, cr'⟩ := by
  simp [isS] at h
  rcases h with ((rfl | rfl) | rfl) | rfl <;> cases cr <;> exact ⟨_, _, rfl⟩

/-- white space (carriage returns included) after a child, up to the next `<`: ignored -/
theorem run_text_ws_lt (ws : Str) (h : ws.all isS = true) (br tg ats tx kd stk d cr) (rest : Str) :
    run ⟨.text br, ⟨tg, ats, tx, kd, true⟩ :: stk, d, cr⟩ (ws ++ '<' :: rest) =
      run ⟨.lt false, ⟨tg, ats, tx, kd, true⟩ :: stk, d, false⟩ rest := by
  induction ws generalizing br cr with
  | nil => rfl
  | cons c cs ih =>
    obtain ⟨h1, h2⟩ := all_cons h
    obtain ⟨b', c', e⟩ := step_text_ws_kid c h1 br tg ats tx kd stk d cr
    rw [List.cons_append, run_cons, e, ih h2]

/-! ### end tags -/

theorem close_mode_irrel (m : Mode) (f stk d cr) : St.close ⟨m, f :: stk, d, cr⟩ = St.close ⟨.misc, f :: stk, d, cr⟩ := by
  cases stk <;> rfl

/-- `/tag ws >` from just after the `<` -/
theorem run_spellEnd (ws : Str) (hws : ws.all isS = true) (tag : Str) (ht : isName tag = true) (ats tx kd hk stk d) :
    run ⟨.lt false, ⟨tag, ats, tx, kd, hk⟩ :: stk, d, false⟩ ('/' :: (tag ++ (ws ++ ['>']))) =
      St.close ⟨.misc, ⟨tag, ats, tx, kd, hk⟩ :: stk, d, false⟩ := by
  have s2 : step ⟨.lt false, ⟨tag, ats, tx, kd, hk⟩ :: stk, d, false⟩ '/' =
      ⟨.endName [], ⟨tag, ats, tx, kd, hk⟩ :: stk, d, false⟩ := rfl
  have hx : xmlChar '>' = true := by decide
  have hu : nameUns '>' = false := by decide
  have hn : nameChar '>' = false := by decide
  have hs : isS '>' = false := by decide
  rw [run_cons, s2, run_append, run_endName tag (isName_all tag ht), List.append_nil]
  cases ws with
  | nil =>
    have s3 : step ⟨.endName tag.reverse, ⟨tag, ats, tx, kd, hk⟩ :: stk, d, false⟩ '>' =
        St.close ⟨.endName tag.reverse, ⟨tag, ats, tx, kd, hk⟩ :: stk, d, false⟩ := by
      simp [step, stepMode, hx, hu, hn, hs]
    rw [List.nil_append, run_cons, s3, run_nil, close_mode_irrel]
  | cons w ws =>
    obtain ⟨h1, h2⟩ := all_cons hws
    obtain ⟨g1, g2, g3, g4, g5, g6, g7, g8, g9, g10, g11, g12⟩ := isS_facts w h1
    have s3 : step ⟨.endName tag.reverse, ⟨tag, ats, tx, kd, hk⟩ :: stk, d, false⟩ w =
        ⟨.endSpace tag, ⟨tag, ats, tx, kd, hk⟩ :: stk, d, false⟩ := by
      simp [step, stepMode, g1, g2, g3, h1]
    have s4 : step ⟨.endSpace tag, ⟨tag, ats, tx, kd, hk⟩ :: stk, d, false⟩ '>' =
        St.close ⟨.endSpace tag, ⟨tag, ats, tx, kd, hk⟩ :: stk, d, false⟩ := by
      simp [step, stepMode, hx, hs]
    rw [List.cons_append, run_cons, s3, run_append, run_endSpace_ws ws h2, run_cons, s4, run_nil, close_mode_irrel]

theorem spellEnd_eq (sp : Style) (tag : Str) : spellEnd sp tag = '<' :: '/' :: (tag ++ (sp.closeWs ++ ['>'])) := by
  simp [spellEnd]

theorem ok_facts (sp : Style) (hsp : sp.ok = true) :
    sp.tagEnd.all isS = true ∧ sp.closeWs.all isS = true ∧ sp.indent.all isS = true ∧ sp.closeIndent.all isS = true ∧
    sp.indent.contains '\r' = false ∧ sp.attrLead.all isS = true ∧ sp.eqL.all isS = true ∧ sp.eqR.all isS = true ∧
    sp.attrLead ≠ [] := by
  simp only [Style.ok, Bool.and_eq_true, Bool.not_eq_true'] at hsp
  obtain ⟨⟨⟨⟨⟨⟨⟨⟨p1, p2⟩, p3⟩, p4⟩, p5⟩, p6⟩, p7⟩, p8⟩, p9⟩ := hsp
  exact ⟨p5, p6, p7, p8, p9, p2, p3, p4, by intro e; rw [e] at p1; simp at p1⟩

/-! ### children -/

/-- what follows the `<` of a child -/
def body1 (sp : Style) (e : Elem1) : Str :=
  e.tag ++ ((ordered sp e.attrs).flatMap (spellAttr sp) ++ (sp.tagEnd ++
    (if e.text.isEmpty then (if sp.explicitEmpty then '>' :: spellEnd sp e.tag else ['/', '>'])
     else '>' :: (spellText sp e.text ++ spellEnd sp e.tag))))

theorem spellElem1_eq (sp : Style) (e : Elem1) : spellElem1 sp e = '<' :: body1 sp e := by
  simp [spellElem1, spellStart, body1]

def ord1 (sp : Style) (c : Elem1) : Elem1 := { c with attrs := ordered sp c.attrs }

theorem run_body1 (sp : Style) (hsp : sp.ok = true) (c : Elem1) (h : elem1Ok c = true) (tg ats tx kd hk stk) :
    run ⟨.lt false, ⟨tg, ats, tx, kd, hk⟩ :: stk, none, false⟩ (body1 sp c) =
      ⟨.text 0, ⟨tg, ats, tx, kd ++ [ord1 sp c], true⟩ :: stk, none, false⟩ := by
  obtain ⟨ctag, cattrs, ctext⟩ := c
  simp [elem1Ok] at h
  obtain ⟨⟨ht, ha⟩, hx⟩ := h
  have ha' := attrsOk_ordered sp cattrs ha
  obtain ⟨q1, q2, -⟩ := ok_facts sp hsp
  unfold body1
  simp only []
  split
  · rename_i he
    simp at he
    subst he
    split
    · rw [run_open sp hsp ctag _ ht ha' false _ false '>' (Or.inl rfl), spellEnd_eq]
      have s1 : step ⟨.tagSpace true, ⟨ctag, ordered sp cattrs, [], [], false⟩ :: ⟨tg, ats, tx, kd, hk⟩ :: stk, none, false⟩ '>' =
          ⟨.text 0, ⟨ctag, ordered sp cattrs, [], [], false⟩ :: ⟨tg, ats, tx, kd, hk⟩ :: stk, none, false⟩ := rfl
      have s2 : step ⟨.text 0, ⟨ctag, ordered sp cattrs, [], [], false⟩ :: ⟨tg, ats, tx, kd, hk⟩ :: stk, none, false⟩ '<' =
          ⟨.lt false, ⟨ctag, ordered sp cattrs, [], [], false⟩ :: ⟨tg, ats, tx, kd, hk⟩ :: stk, none, false⟩ := rfl
      rw [s1, run_cons, s2, run_spellEnd _ q2 ctag ht]
      rfl
    · rw [run_open sp hsp ctag _ ht ha' false _ false '/' (Or.inr rfl)]
      rfl
  · obtain ⟨b1, e1⟩ := run_spellText sp ctext hx ctag (ordered sp cattrs) [] [] (⟨tg, ats, tx, kd, hk⟩ :: stk) none
    have s1 : step ⟨.tagSpace true, ⟨ctag, ordered sp cattrs, [], [], false⟩ :: ⟨tg, ats, tx, kd, hk⟩ :: stk, none, false⟩ '>' =
        ⟨.text 0, ⟨ctag, ordered sp cattrs, [], [], false⟩ :: ⟨tg, ats, tx, kd, hk⟩ :: stk, none, false⟩ := rfl
    have s2 : step ⟨.text b1, ⟨ctag, ordered sp cattrs, [] ++ ctext, [], false⟩ :: ⟨tg, ats, tx, kd, hk⟩ :: stk, none, false⟩ '<' =
        ⟨.lt false, ⟨ctag, ordered sp cattrs, [] ++ ctext, [], false⟩ :: ⟨tg, ats, tx, kd, hk⟩ :: stk, none, false⟩ := rfl
    rw [run_open sp hsp ctag _ ht ha' false _ false '>' (Or.inl rfl), s1, run_append, e1, spellEnd_eq, run_cons, s2,
      run_spellEnd _ q2 ctag ht]
    simp [St.close, ord1]

/-- the children after the first: indentation is ignored -/
theorem run_kids (sp : Style) (hsp : sp.ok = true) (l : List Elem1) (h : l.all elem1Ok = true) (br tg ats tx kd stk cr) :
    ∃ br' cr', run ⟨.text br, ⟨tg, ats, tx, kd, true⟩ :: stk, none, cr⟩ (l.flatMap fun c => sp.indent ++ spellElem1 sp c) =
      ⟨.text br', ⟨tg, ats, tx, kd ++ l.map (ord1 sp), true⟩ :: stk, none, cr'⟩ := by
  obtain ⟨-, -, q3, -⟩ := ok_facts sp hsp
  induction l generalizing br kd cr with
  | nil => exact ⟨br, cr, by simp⟩
  | cons c cs ih =>
    obtain ⟨h1, h2⟩ : elem1Ok c = true ∧ cs.all elem1Ok = true := by simpa using h
    obtain ⟨b, k, e⟩ := ih h2 0 (kd ++ [ord1 sp c]) false
    refine ⟨b, k, ?_⟩
    rw [List.flatMap_cons, run_append, spellElem1_eq, run_text_ws_lt _ q3, run_body1 sp hsp c h1, e]
    simp

/-! ### every `<` of a spelling is followed by a name or `/` -/

open Doc in
theorem noLt_ws (ws : Str) (h : ws.all isS = true) : noLt ws = true := by
  simp only [noLt, List.all_eq_true] at *
  intro c hc
  obtain ⟨g1, g2, g3, g4, g5, g6, g7, g8, g9, g10, g11, g12⟩ := isS_facts c (h c hc)
  simpa using g8

open Doc in
theorem noLt_escAttrCharQ (single : Bool) (c : Char) : noLt (escAttrCharQ single c) = true := by
  unfold escAttrCharQ
  repeat' split
  any_goals decide
  simp_all [noLt]

open Doc in
theorem noLt_escTextRaw (t : Str) (k : Nat) : noLt (escTextRaw t k) = true := by
  induction t generalizing k with
  | nil => rfl
  | cons c cs ih =>
    rw [escTextRaw]
    repeat' split
    all_goals simp_all [noLt_append, noLt_cons]
    all_goals decide

open Doc in
theorem noLt_spellText (sp : Style) (t : Str) : noLt (spellText sp t) = true := by
  unfold spellText
  split
  · exact noLt_escTextRaw t 0
  · exact noLt_escText t

open Doc in
theorem noLt_spellAttr (sp : Style) (hsp : sp.ok = true) (kv : Str × Str) (h : isName kv.1 = true) :
    noLt (spellAttr sp kv) = true := by
  obtain ⟨q1, q2, q3, q4, q5, q6, q7, q8, q9⟩ := ok_facts sp hsp
  have hq : (quoteOf sp != '<') = true := by unfold quoteOf; cases sp.single <;> decide
  simp [spellAttr, noLt_append, noLt_cons, isName_noLt h, noLt_ws _ q6, noLt_ws _ q7, noLt_ws _ q8, hq]
  refine ⟨?_, ?_⟩
  · exact noLt_flatMap _ _ (noLt_escAttrCharQ sp.single)
  · simp [noLt]

open Doc in
theorem noLt_spellAttrs (sp : Style) (hsp : sp.ok = true) (l : List (Str × Str)) (h : attrsOk l = true) :
    noLt (l.flatMap (spellAttr sp)) = true := by
  obtain ⟨a1, -⟩ := attrsOk_facts l h
  simp only [noLt, List.all_flatMap, List.all_eq_true]
  intro kv hkv
  exact List.all_eq_true.mp (noLt_spellAttr sp hsp kv (a1 kv hkv).1)

open Doc in
theorem noBangQ_spellEnd (sp : Style) (hsp : sp.ok = true) (t rest : Str) (ht : isName t = true) :
    noBangQ (spellEnd sp t ++ rest) = noBangQ rest := by
  obtain ⟨q1, q2, -⟩ := ok_facts sp hsp
  rw [spellEnd_eq]
  simp only [List.cons_append, List.append_assoc, List.nil_append]
  rw [noBangQ_closeTag _ _ ht, noBangQ_noLt_append _ _ (noLt_ws _ q2), noBangQ_cons_ne _ _ (by decide)]

open Doc in
theorem noBangQ_spellStart (sp : Style) (hsp : sp.ok = true) (t : Str) (l : List (Str × Str)) (rest : Str)
    (ht : isName t = true) (ha : attrsOk l = true) :
    noBangQ (spellStart sp t l ++ rest) = noBangQ rest := by
  obtain ⟨q1, -⟩ := ok_facts sp hsp
  simp only [spellStart, List.cons_append, List.append_assoc]
  rw [noBangQ_open _ _ ht, noBangQ_noLt_append _ _ (noLt_spellAttrs sp hsp _ (attrsOk_ordered sp l ha)),
    noBangQ_noLt_append _ _ (noLt_ws _ q1)]

open Doc in
theorem noBangQ_spellElem1 (sp : Style) (hsp : sp.ok = true) (k : Elem1) (rest : Str) (h : elem1Ok k = true) :
    noBangQ (spellElem1 sp k ++ rest) = noBangQ rest := by
  simp only [elem1Ok, Bool.and_eq_true] at h
  obtain ⟨⟨ht, ha⟩, -⟩ := h
  unfold spellElem1
  rw [List.append_assoc, noBangQ_spellStart sp hsp _ _ _ ht ha]
  split
  · split
    · rw [List.cons_append, noBangQ_cons_ne _ _ (by decide), noBangQ_spellEnd sp hsp _ _ ht]
    · simp only [List.cons_append, List.nil_append]
      rw [noBangQ_cons_ne _ _ (by decide), noBangQ_cons_ne _ _ (by decide)]
  · simp only [List.cons_append, List.append_assoc]
    rw [noBangQ_cons_ne _ _ (by decide),
      noBangQ_noLt_append _ _ (noLt_spellText sp _), noBangQ_spellEnd sp hsp _ _ ht]

open Doc in
theorem noBangQ_spellKids (sp : Style) (hsp : sp.ok = true) (l : List Elem1) (rest : Str) (h : l.all elem1Ok = true) :
    noBangQ ((l.flatMap fun c => sp.indent ++ spellElem1 sp c) ++ rest) = noBangQ rest := by
  obtain ⟨-, -, q3, -⟩ := ok_facts sp hsp
  induction l with
  | nil => rfl
  | cons k ks ih =>
    simp only [List.all_cons, Bool.and_eq_true] at h
    rw [List.flatMap_cons, List.append_assoc, List.append_assoc, noBangQ_noLt_append _ _ (noLt_ws _ q3),
      noBangQ_spellElem1 sp hsp k _ h.1, ih h.2]

open Doc in
theorem noBangQ_spellElem (sp : Style) (hsp : sp.ok = true) (e : Elem) (h : elemOk e = true) :
    noBangQ (spellElem sp e) = true := by
  simp only [elemOk, Bool.and_eq_true] at h
  obtain ⟨⟨⟨ht, ha⟩, -⟩, hk⟩ := h
  obtain ⟨-, -, -, q4, -⟩ := ok_facts sp hsp
  unfold spellElem
  rw [noBangQ_spellStart sp hsp _ _ _ ht ha]
  split
  · split
    · rw [noBangQ_cons_ne _ _ (by decide), ← List.append_nil (spellEnd sp e.tag), noBangQ_spellEnd sp hsp _ _ ht]
      rfl
    · decide
  · have hci : noLt (if e.children.isEmpty then [] else sp.closeIndent) = true := by
      split
      · rfl
      · exact noLt_ws _ q4
    simp only [List.cons_append, List.append_assoc]
    rw [noBangQ_cons_ne _ _ (by decide),
      noBangQ_noLt_append _ _ (noLt_spellText sp _), noBangQ_spellKids sp hsp _ _ hk, noBangQ_noLt_append _ _ hci,
      ← List.append_nil (spellEnd sp e.tag), noBangQ_spellEnd sp hsp _ _ ht]
    rfl

/-! ### how a spelling ends -/

theorem ends_not_gt (X : Str) (hne : X ≠ []) (h : ∀ c ∈ X, c ≠ '>') :
    ∃ pre c, X ++ ['>'] = pre ++ [c, '>'] ∧ c ≠ '>' := by
  refine ⟨X.dropLast, X.getLast hne, ?_, h _ (List.getLast_mem hne)⟩
  conv => lhs; rw [← List.dropLast_concat_getLast hne]
  simp

theorem spellEnd_ending (sp : Style) (hsp : sp.ok = true) (t : Str) (ht : isName t = true) :
    ∃ pre c, spellEnd sp t = pre ++ [c, '>'] ∧ c ≠ '>' := by
  obtain ⟨-, q2, -⟩ := ok_facts sp hsp
  obtain ⟨a, cs, rfl, h1, h2⟩ := isName_facts t ht
  have hall := isName_all _ ht
  obtain ⟨pre, c, e, hc⟩ := ends_not_gt ((a :: cs) ++ sp.closeWs) (by simp) (by
    intro c hc
    rcases List.mem_append.mp hc with hc | hc
    · exact (nameChar_facts c (List.all_eq_true.mp hall c hc)).2.2.2.1
    · exact (isS_facts c (List.all_eq_true.mp q2 c hc)).2.2.2.2.1)
  refine ⟨'<' :: '/' :: pre, c, ?_, hc⟩
  rw [spellEnd_eq, ← List.append_assoc, e]
  simp

end SpellRT
open SpellRT

/-! ### the document element -/

/-- the parser automaton reads ANY spelling of an acceptable element back as `spelled sp e` -/
theorem run_spellElem (sp : Style) (hsp : sp.ok = true) (e : Elem) (h : elemOk e = true) (st : St)
    (hmode : st.mode = .misc ∨ st.mode = .start) (hstack : st.stack = []) (hdone : st.done = none) :
    run st (spellElem sp e) = { mode := .misc, stack := [], done := some (spelled sp e), cr := false } := by
  obtain ⟨tag, attrs, text, children⟩ := e
  obtain ⟨mode, stack, done, cr⟩ := st
  simp only at hmode hstack hdone
  subst hstack hdone
  simp [elemOk] at h
  obtain ⟨⟨⟨ht, ha⟩, hx⟩, hc⟩ := h
  have ha' := attrsOk_ordered sp attrs ha
  obtain ⟨q1, q2, q3, q4, q5, -⟩ := ok_facts sp hsp
  have s1 : ∃ b, step ⟨mode, [], none, cr⟩ '<' = ⟨.lt b, [], none, cr⟩ := by
    rcases hmode with rfl | rfl
    · exact ⟨false, rfl⟩
    · exact ⟨true, rfl⟩
  obtain ⟨b, s1⟩ := s1
  have sgt : step ⟨.tagSpace true, [⟨tag, ordered sp attrs, [], [], false⟩], none, false⟩ '>' =
      ⟨.text 0, [⟨tag, ordered sp attrs, [], [], false⟩], none, false⟩ := rfl
  have slt : ∀ br tx, step ⟨.text br, [⟨tag, ordered sp attrs, tx, [], false⟩], none, false⟩ '<' =
      ⟨.lt false, [⟨tag, ordered sp attrs, tx, [], false⟩], none, false⟩ := fun _ _ => rfl
  unfold spellElem spelled
  simp only []
  split
  · rename_i he
    simp at he
    obtain ⟨rfl, rfl⟩ := he
    split
    · simp only [spellStart, List.cons_append, List.append_assoc]
      rw [run_cons, s1, run_open sp hsp tag _ ht ha' b [] cr '>' (Or.inl rfl), sgt, spellEnd_eq, run_cons, slt,
        run_spellEnd _ q2 tag ht]
      rfl
    · simp only [spellStart, List.cons_append, List.append_assoc]
      rw [run_cons, s1, run_open sp hsp tag _ ht ha' b [] cr '/' (Or.inr rfl)]
      rfl
  · obtain ⟨b1, e1⟩ := run_spellText sp text hx tag (ordered sp attrs) [] [] [] none
    cases children with
    | nil =>
      simp only [spellStart, List.cons_append, List.append_assoc, List.flatMap_nil, List.nil_append, List.isEmpty_nil,
        if_true]
      rw [run_cons, s1, run_open sp hsp tag _ ht ha' b [] cr '>' (Or.inl rfl), sgt, run_append, e1, spellEnd_eq, run_cons,
        slt, run_spellEnd _ q2 tag ht]
      simp [St.close]
    | cons c cs =>
      obtain ⟨hc1, hc2⟩ : elem1Ok c = true ∧ cs.all elem1Ok = true := by
        constructor
        · exact hc c (by simp)
        · simp only [List.all_eq_true]; exact fun x hx' => hc x (by simp [hx'])
      obtain ⟨b2, e2⟩ := run_text_ws_first sp.indent q3 q5 b1 tag (ordered sp attrs) ([] ++ text) [] [] none
      obtain ⟨b3, c3, e3⟩ := run_kids sp hsp cs hc2 0 tag (ordered sp attrs) ([] ++ text ++ sp.indent) ([] ++ [ord1 sp c]) [] false
      simp only [spellStart, List.cons_append, List.append_assoc, List.flatMap_cons, List.isEmpty_cons,
        Bool.false_eq_true, if_false]
      rw [run_cons, s1, run_open sp hsp tag _ ht ha' b [] cr '>' (Or.inl rfl), sgt, run_append, e1, run_append, e2,
        spellElem1_eq, List.cons_append, run_cons, slt, run_append, run_body1 sp hsp c hc1, run_append, e3, spellEnd_eq,
        run_text_ws_lt _ q4, run_spellEnd _ q2 tag ht]
      simp [St.close, ord1]

theorem parseDoc_spell (sp : Style) (hsp : sp.ok = true) (e : Elem) (h : elemOk e = true) (pre post : Str)
    (hpre : run init pre = { mode := .misc, stack := [], done := none, cr := false }) (hpost : post.all isS = true) :
    parseDoc (pre ++ spellElem sp e ++ post) = .ok (spelled sp e) := by
  unfold parseDoc
  rw [run_append, run_append, hpre, run_spellElem sp hsp e h _ (Or.inl rfl) rfl rfl, Doc.run_misc_isS _ post rfl hpost]
  rfl

/-- a spelled element starts with `<tag` and ends with `c>` where `c ≠ '>'` -/
theorem spellElem_starts (sp : Style) (e : Elem) : ('<' :: e.tag) <+: spellElem sp e := by
  unfold spellElem spellStart
  simp only [List.append_assoc]
  exact List.prefix_append _ _

theorem spellElem_ending (sp : Style) (hsp : sp.ok = true) (e : Elem) (h : elemOk e = true) :
    ∃ pre c, spellElem sp e = pre ++ [c, '>'] ∧ c ≠ '>' := by
  have ht : isName e.tag = true := by
    simp only [elemOk, Bool.and_eq_true] at h
    exact h.1.1.1
  obtain ⟨pre, c, he, hc⟩ := spellEnd_ending sp hsp e.tag ht
  unfold spellElem
  split
  · split
    · exact ⟨spellStart sp e.tag e.attrs ++ '>' :: pre, c, by rw [he]; simp, hc⟩
    · exact ⟨spellStart sp e.tag e.attrs, '/', rfl, by decide⟩
  · exact ⟨spellStart sp e.tag e.attrs ++ ('>' :: spellText sp e.text ++
        (e.children.flatMap fun c => sp.indent ++ spellElem1 sp c) ++ (if e.children.isEmpty then [] else sp.closeIndent) ++ pre),
      c, by rw [he]; simp, hc⟩

/-- no proper prefix of a spelled element is a complete document -/
theorem parseDoc_spell_prefix (sp : Style) (hsp : sp.ok = true) (e : Elem) (h : elemOk e = true) (k : Nat)
    (hk : k < (spellElem sp e).length) (e' : Elem) : parseDoc ((spellElem sp e).take k) ≠ .ok e' := by
  intro hp
  obtain ⟨hm, hd⟩ := Doc.finish_ok hp
  have hinv := Doc.inv_run ((spellElem sp e).take k) init Doc.inv_init
  have hfull := run_spellElem sp hsp e h init (Or.inr rfl) rfl rfl
  rw [← List.take_append_drop k (spellElem sp e), run_append] at hfull
  have hn : noBangQ ((spellElem sp e).drop k) = true :=
    Doc.noBangQ_append_right ((spellElem sp e).take k) _ (by rw [List.take_append_drop]; exact noBangQ_spellElem sp hsp e h)
  have hall := Doc.epilog ((spellElem sp e).drop k) _ hm (by rw [hd]; rfl) (hinv.done_stack (by rw [hd]; rfl)) hn
    (by rw [hfull])
  obtain ⟨pre, c, hb, -⟩ := spellElem_ending sp hsp e h
  have hb' : spellElem sp e = (pre ++ [c]) ++ ['>'] := by rw [hb]; simp
  rw [hb'] at hall hk
  simp only [List.length_append, List.length_cons, List.length_nil] at hk
  rw [List.drop_append_of_le_length (by simp; omega)] at hall
  simp [isS] at hall

/-! ### non-vacuity: the five concrete styles the correspondence uses, on an element that exercises every rule -/

namespace SpellRT

def exElem : Elem :=
  { tag := s "defTextVector",
    attrs := [(s "device", s "it's a \"<scope>\" & more"), (s "name", s "PORT\tA")],
    text := s "a>b]]>c é",
    children := [{ tag := s "defText", attrs := [(s "name", s "x"), (s "label", s "'q' \"r\"")], text := s "]]>>" },
                 { tag := s "defText", attrs := [(s "name", s "y")], text := [] }] }

def exEmpty : Elem := { tag := s "getProperties", attrs := [(s "version", s "1.7")], text := [], children := [] }

def styCompact : Style := {}
def styIndented : Style := { indent := s "\n  ", closeIndent := s "\n" }
def stySingleRev : Style := { single := true, revAttrs := true }
def styExplicit : Style := { explicitEmpty := true, rawGt := true, closeWs := s " " }
def styLead : Style := { attrLead := s "\n   ", rawGt := true }
def styAll : Style :=
  { attrLead := s " \t", eqL := s " ", eqR := s "\n", single := true, tagEnd := s " ", explicitEmpty := true,
    closeWs := s "\r\n", indent := s "\n\t", closeIndent := s "\r\n", rawGt := true, revAttrs := true }

example : elemOk exElem = true ∧ elemOk exEmpty = true := by decide +kernel
example : [styCompact, styIndented, stySingleRev, styExplicit, styLead, styAll].all Style.ok = true := by decide +kernel

example : parseDoc (spellElem styCompact exElem) = .ok (spelled styCompact exElem) := by decide +kernel
example : parseDoc (spellElem styIndented exElem) = .ok (spelled styIndented exElem) := by decide +kernel
example : parseDoc (spellElem stySingleRev exElem) = .ok (spelled stySingleRev exElem) := by decide +kernel
example : parseDoc (spellElem styExplicit exElem) = .ok (spelled styExplicit exElem) := by decide +kernel
example : parseDoc (spellElem styLead exElem) = .ok (spelled styLead exElem) := by decide +kernel
example : parseDoc (spellElem styAll exElem) = .ok (spelled styAll exElem) := by decide +kernel

example : parseDoc (spellElem styCompact exEmpty) = .ok (spelled styCompact exEmpty) := by decide +kernel
example : parseDoc (spellElem styExplicit exEmpty) = .ok (spelled styExplicit exEmpty) := by decide +kernel
example : parseDoc (spellElem styAll exEmpty) = .ok (spelled styAll exEmpty) := by decide +kernel

/-- the spellings really differ from the library's own output, and from each other -/
example : spellElem styExplicit exEmpty = s "<getProperties version=\"1.7\"></getProperties >" := by decide +kernel
example : spellElem stySingleRev exElem =
    s "<defTextVector name='PORT&#9;A' device='it&apos;s a \"&lt;scope>\" &amp; more'>a&gt;b]]&gt;c &#233;<defText label='&apos;q&apos; \"r\"' name='x'>]]&gt;&gt;</defText><defText name='y'/></defTextVector>" := by
  decide +kernel
example : spellText styLead (s "a>b]]>c é") = s "a>b]]&gt;c é" := by decide +kernel
/-- the indentation before the first child is what the root's text gains -/
example : (spelled styIndented exElem).text = s "a>b]]>c é\n  " := by decide +kernel

end SpellRT

end Indi.Xml
