/-
  C01, part 4: what an update (`set*Vector`) does to a view that has the vector's shape.
-/
import Indi.Proofs.Sys3
import Indi.Proofs.SysB64

namespace Indi.SysP
open Indi Indi.Dev Indi.Cli Indi.Sys Indi.Spec.Sys Indi.Spec.Dev

/-! ### good vectors -/

/-- a BLOB value consists of bytes -/
def bytesOk : Value → Bool
  | .blob bs _ => bs.all fun b => decide (b < 256)
  | _ => true

def vecBytes (v : Vec) : Bool := v.elems.all fun e => bytesOk e.value

/-- the enabled elements of a vector have distinct names -/
def vecNames (v : Vec) : Bool := decide ((enabledElems v).map (·.d.name)).Nodup

/-- what the proofs need of a vector: well-formed, BLOB values with a format and made of bytes, distinct element names -/
structure VG (v : Vec) : Prop where
  ok : vecOk v = true
  fmt : DevB.vecFmt v = true
  bytes : vecBytes v = true
  names : vecNames v = true

theorem VG.good {v : Vec} (h : VG v) : DevB.VecGood v := ⟨h.ok, h.fmt⟩

theorem VG.nodup {v : Vec} (h : VG v) : ((enabledElems v).map (·.d.name)).Nodup := by
  simpa [vecNames] using h.names

/-! ### `applySet` on a list of children that name the elements in order -/

theorem olook_append_of_not_mem {α : Type} (k : Option Str) :
    ∀ (l : List (Option Str × α)) (r : List (Option Str × α)), k ∉ l.map Prod.fst → olook k (l ++ r) = olook k r
  | [], _, _ => rfl
  | (k', v) :: l, r, h => by
    simp only [List.map_cons, List.mem_cons, not_or] at h
    simp only [List.cons_append, olook]
    rw [if_neg (Ne.symm h.1)]
    exact olook_append_of_not_mem k l r h.2

theorem oput_append_of_not_mem {α : Type} (k : Option Str) (x : α) :
    ∀ (l : List (Option Str × α)) (r : List (Option Str × α)), k ∉ l.map Prod.fst →
      oput k x (l ++ r) = l ++ oput k x r
  | [], _, _ => rfl
  | (k', v) :: l, r, h => by
    simp only [List.map_cons, List.mem_cons, not_or] at h
    simp only [List.cons_append, oput]
    rw [if_neg (Ne.symm h.1), oput_append_of_not_mem k x l r h.2]

theorem applySet_zip (kind : VKind) (dev vec : Option Str) (nv : Part → CVal) :
    ∀ (todo : List (Option Str × CElem)) (ps : List Part),
      List.Forall₂ (fun (ke : Option Str × CElem) p => attr p.fields "name" = ke.1 ∧ newValOf kind p = .ok (nv p)) todo ps →
      ∀ done : List (Option Str × CElem), ((done ++ todo).map Prod.fst).Nodup →
      (applySet kind dev vec (done ++ todo) ps).1 =
        done ++ List.zipWith (fun ke p => (ke.1, { ke.2 with value := nv p })) todo ps := by
  intro todo ps h
  induction h with
  | nil => intro done _; simp [applySet]
  | @cons ke p todo ps hkp _ ih =>
    intro done hnd
    obtain ⟨k, e⟩ := ke
    obtain ⟨hname, hval⟩ := hkp
    simp only at hname
    have hnot : k ∉ done.map Prod.fst := by
      rw [List.map_append, List.nodup_append] at hnd
      intro hk
      exact hnd.2.2 k hk k (by simp) rfl
    rw [applySet_cons, hname, olook_append_of_not_mem _ _ _ hnot]
    simp only [olook, if_true, hval]
    rw [oput_append_of_not_mem _ _ _ _ hnot]
    simp only [oput, if_true]
    have := ih (done ++ [(k, { e with value := nv p })]) (by
      simpa [List.map_append] using hnd)
    simp only [List.append_assoc, List.cons_append, List.nil_append] at this
    rw [this]
    simp [List.zipWith]

theorem forall₂_pair {α β γ : Type} {R : α → β → Prop} {S : α → γ → Prop} :
    ∀ {a : List α} {b : List β} {c : List γ}, List.Forall₂ R a b → List.Forall₂ S a c →
      List.Forall₂ (fun y z => ∃ x, R x y ∧ S x z) b c
  | _, _, _, .nil, .nil => .nil
  | _, _, _, .cons h1 t1, .cons h2 t2 => .cons ⟨_, h1, h2⟩ (forall₂_pair t1 t2)

theorem forall₂_zipWith {α β γ δ : Type} {R : α → β → Prop} {S : α → γ → Prop} {T : α → δ → Prop} (F : β → γ → δ)
    (hF : ∀ x y z, R x y → S x z → T x (F y z)) :
    ∀ {a : List α} {b : List β} {c : List γ}, List.Forall₂ R a b → List.Forall₂ S a c →
      List.Forall₂ T a (List.zipWith F b c)
  | _, _, _, .nil, .nil => .nil
  | _, _, _, .cons h1 t1, .cons h2 t2 => .cons (hF _ _ _ h1 h2) (forall₂_zipWith F hF t1 t2)

/-! ### parts of an update -/

/-- the value the client takes from a child of an update (total version) -/
def nvOf (kind : VKind) (p : Part) : CVal :=
  match newValOf kind p with
  | .ok v => v
  | .error _ => .none

theorem elemOk_blob_refresh {e : Dev.Elem} (h : elemOk .blob e = true) : readValue e = e.value := by
  simp only [elemOk, Bool.and_eq_true] at h
  unfold readValue
  cases hr : e.d.refresh with
  | none => rfl
  | some v =>
    have := h.1.2
    rw [hr] at this
    simp at this

theorem pyInt_zero : Dev.pyInt (s "0") = some 0 := by
  have h : Dev.natStr 0 = s "0" := by decide
  rw [← h]
  exact SysB64.pyInt_natStr 0

theorem rdVal_b64 (ip : Bool) (x : Str) (hx : pyStrip x = x) : (rdVal ip (some x)).getD [] = x := by
  unfold rdVal
  cases ip
  · simp only [Bool.false_eq_true, if_false, C03.canonVal]
    cases x with
    | nil => rfl
    | cons c cs => simp [hx]
  · rfl

/-- the child of an update, as the client reads it, gives the element a value that shows the device's -/
theorem one_elem {k : Kind} {e : Dev.Elem} {p : Part} (h : onePart k e = .ok p) (hok : elemOk k e = true)
    (hb : bytesOk e.value = true) (ip : Bool) :
    attr (rdPart ip p).fields "name" = some e.d.name ∧
    newValOf (vkind k) (rdPart ip p) = .ok (nvOf (vkind k) (rdPart ip p)) ∧
    ∀ ce : CElem, ce.name = some e.d.name → ce.label = some e.d.label →
      elemShownV k (elemView e) { ce with value := nvOf (vkind k) (rdPart ip p) } = true := by
  rw [rdPart_attr ip p "name" (by decide)]
  have text_case : ∀ (hk : k ≠ .blob), attr p.fields "name" = some e.d.name →
      wireText k e.d.format (readValue e) = some (normVal (attr p.fields "value")) →
      attr p.fields "name" = some e.d.name ∧
      newValOf (vkind k) (rdPart ip p) = .ok (nvOf (vkind k) (rdPart ip p)) ∧
      ∀ ce : CElem, ce.name = some e.d.name → ce.label = some e.d.label →
        elemShownV k (elemView e) { ce with value := nvOf (vkind k) (rdPart ip p) } = true := by
    intro hk hn hw
    have hnv : newValOf (vkind k) (rdPart ip p) = .ok (textVal (rdPart ip p).fields) := by
      cases k <;> first | exact absurd rfl hk | rfl
    refine ⟨hn, by simp [nvOf, hnv], ?_⟩
    intro ce h1 h2
    simp only [nvOf, hnv, textVal_rdPart]
    have := shown_text hk ip hw e.d.name e.d.label
    obtain ⟨cn, cl, cv⟩ := ce
    simp only at h1 h2
    subst h1 h2
    exact this
  unfold onePart at h
  cases k with
  | text =>
    cases hr : readValue e <;> rw [hr] at h <;> simp only [Except.ok.injEq, reduceCtorEq] at h
    · subst h
      exact text_case (by simp) (by simp [attr, alookup, s])
        (by rw [hr]; simp [wireText, normVal, attr, alookup, s])
    · subst h
      exact text_case (by simp) (by simp [attr, alookup, s])
        (by rw [hr]; simp [wireText, attr, alookup, s])
  | switch =>
    cases hr : readValue e <;> rw [hr] at h <;> simp only [Except.ok.injEq, reduceCtorEq] at h
    subst h
    exact text_case (by simp) (by simp [attr, alookup, s])
      (by rw [hr]; simp [wireText, attr, alookup, s])
  | light =>
    cases hr : readValue e <;> rw [hr] at h <;> simp only [Except.ok.injEq, reduceCtorEq] at h
    subst h
    exact text_case (by simp) (by simp [attr, alookup, s])
      (by rw [hr]; simp [wireText, attr, alookup, s])
  | number =>
    simp only at h
    cases hr : renderNum e.d.format (readValue e) with
    | ok t =>
      rw [hr] at h
      simp only [Except.ok.injEq] at h
      subst h
      exact text_case (by simp) (by simp [attr, alookup, s])
        (by rw [renderNum_wireText hr]; simp [attr, alookup, s])
    | fail x => rw [hr] at h; cases h
  | blob =>
    have hrv := elemOk_blob_refresh hok
    rw [hrv] at h
    cases hv : e.value with
    | none =>
      rw [hv] at h
      simp only [Except.ok.injEq] at h
      subst h
      refine ⟨by simp [attr, alookup, s], ?_⟩
      have hval : attr (rdPart ip { tag := s "oneBLOB", fields := [(s "name", some e.d.name), (s "value", none),
          (s "size", some (s "0")), (s "format", some [])] }).fields "value" = none := by
        rw [rdPart_value]; simp [attr, alookup, s, rdVal_none]
      have hsize : attr (rdPart ip { tag := s "oneBLOB", fields := [(s "name", some e.d.name), (s "value", none),
          (s "size", some (s "0")), (s "format", some [])] }).fields "size" = some (s "0") := by
        rw [rdPart_attr _ _ "size" (by decide)]; simp [attr, alookup, s]
      have hfmt : attr (rdPart ip { tag := s "oneBLOB", fields := [(s "name", some e.d.name), (s "value", none),
          (s "size", some (s "0")), (s "format", some [])] }).fields "format" = some [] := by
        rw [rdPart_attr _ _ "format" (by decide)]; simp [attr, alookup, s]
      have hnv : newValOf .blob (rdPart ip { tag := s "oneBLOB", fields := [(s "name", some e.d.name), (s "value", none),
          (s "size", some (s "0")), (s "format", some [])] }) = .ok (.blob [] (some [])) := by
        show blobFromPart _ = _
        unfold blobFromPart
        simp only [hval, hsize, hfmt, Option.getD_none]
        have h1 : Dev.isAscii [] = true := rfl
        have h2 : B64.decode [] = .ok [] := rfl
        simp [h1, h2, pyInt_zero]
      refine ⟨by simp [vkind, nvOf, hnv], ?_⟩
      intro ce h1 h2
      simp only [vkind, nvOf, hnv, elemShownV, elemView, hrv, hv, h1, h2]
      simp
    | blob bs f =>
      rw [hv] at h hb
      simp only [Except.ok.injEq] at h
      subst h
      have hbs : ∀ b ∈ bs, b < 256 := by
        simpa [bytesOk] using hb
      refine ⟨by simp [attr, alookup, s], ?_⟩
      generalize hp : ({ tag := s "oneBLOB", fields := [(s "name", some e.d.name), (s "value", some (B64.encode bs)),
          (s "size", some (natStr bs.length)), (s "format", f)] } : Part) = p
      have hval : (attr (rdPart ip p).fields "value").getD [] = B64.encode bs := by
        rw [rdPart_value, ← hp]
        have : attr [(s "name", some e.d.name), (s "value", some (B64.encode bs)),
            (s "size", some (natStr bs.length)), (s "format", f)] "value" = some (B64.encode bs) := by
          simp [attr, alookup, s]
        simp only [this]
        exact rdVal_b64 ip _ (SysB64.pyStrip_encode bs hbs)
      have hsize : attr (rdPart ip p).fields "size" = some (natStr bs.length) := by
        rw [rdPart_attr _ _ "size" (by decide), ← hp]; simp [attr, alookup, s]
      have hfmt : attr (rdPart ip p).fields "format" = f := by
        rw [rdPart_attr _ _ "format" (by decide), ← hp]; simp [attr, alookup, s]
      have hnv : newValOf .blob (rdPart ip p) = .ok (.blob bs f) := by
        show blobFromPart _ = _
        unfold blobFromPart
        simp only [hval, hsize, hfmt, SysB64.isAscii_encode bs hbs, B64.decode_encode bs hbs,
          SysB64.pyInt_natStr]
        simp
      refine ⟨by simp [vkind, nvOf, hnv], ?_⟩
      intro ce h1 h2
      simp only [vkind, nvOf, hnv, elemShownV, elemView, hrv, hv, h1, h2]
      simp
    | text t =>
      rw [hv] at h; cases h
    | num x i =>
      rw [hv] at h; cases h
    | other =>
      rw [hv] at h; cases h

/-! ### an update -/

/-- an update turns a view with the vector's shape into one that shows the vector -/
theorem upd_set {dn : Str} {g : Group} {v : Vec} {m : Msg} (h : setMsg dn g v = .ok (some m)) (hg : VG v)
    (ip : Bool) {c : CVec} (hs : vecShape g v c) :
    ∃ c', upd (some c) (rdm ip m) = some c' ∧ vecShown true g v c' = true := by
  obtain ⟨_, ps, hps, htag, hch, hdev, hname, hstate⟩ := setMsg_some h
  obtain ⟨hs1, hs2, hs3, hs4, hs5⟩ := hs
  have hk1 : defKind (rdm ip m).tag = none := by rw [rdm_tag, htag]; exact defKind_set _
  have hk2 : setKind (rdm ip m).tag = some (vkind v.kind) := by rw [rdm_tag, htag]; exact setKind_set _
  refine ⟨setVecC (vkind v.kind) (rdm ip m) c, by simp [upd, hk1, hk2, hs1], ?_⟩
  have hF := mapParts_forall₂ hps
  -- every enabled element is good
  have helem : ∀ e ∈ enabledElems v, elemOk v.kind e = true ∧ bytesOk e.value = true := by
    intro e he
    have hmem : e ∈ v.elems := (List.mem_filter.1 he).1
    refine ⟨DevB.vecOk_elems hg.ok e hmem, ?_⟩
    have := hg.bytes
    simp only [vecBytes, List.all_eq_true] at this
    exact this e hmem
  have hF' : List.Forall₂ (fun e p => onePart v.kind e = .ok p ∧ elemOk v.kind e = true ∧ bytesOk e.value = true)
      (enabledElems v) ps := by
    rw [List.forall₂_iff_zip] at hF ⊢
    refine ⟨hF.1, fun {a b} hab => ⟨hF.2 hab, helem a (List.of_mem_zip hab).1⟩⟩
  -- the keys of the view are the element names
  have hkeys : c.elems.map Prod.fst = (enabledElems v).map fun e => some e.d.name := by
    symm
    rw [List.forall₂_map_left_iff] at hs5
    exact forall₂_map_eq hs5 (fun e ce h => h.1.symm)
  have hnd : (c.elems.map Prod.fst).Nodup := by
    rw [hkeys]
    have : ((enabledElems v).map fun e => some e.d.name) = ((enabledElems v).map (·.d.name)).map some := by
      rw [List.map_map]; rfl
    rw [this]
    exact List.Nodup.map (fun a b hab => Option.some.inj hab) hg.nodup
  rw [List.forall₂_map_left_iff] at hs5
  -- the children name the view's elements, in order, and carry acceptable values
  have hzipH : List.Forall₂ (fun (ke : Option Str × CElem) p' =>
      attr p'.fields "name" = ke.1 ∧ newValOf (vkind v.kind) p' = .ok (nvOf (vkind v.kind) p')) c.elems (ps.map (rdPart ip)) := by
    rw [List.forall₂_map_right_iff]
    refine forall₂_imp' ?_ (forall₂_pair hs5 hF')
    rintro ke p ⟨e, hn, hp, hok, hb⟩
    obtain ⟨h1, h2, _⟩ := one_elem hp hok hb ip
    exact ⟨h1.trans hn.1.symm, h2⟩
  have hel := applySet_zip (vkind v.kind) (attr (rdm ip m).fields "device") (attr (rdm ip m).fields "name")
    (nvOf (vkind v.kind)) c.elems (ps.map (rdPart ip)) hzipH [] (by simpa using hnd)
  simp only [List.nil_append] at hel
  have hfull : List.Forall₂ (ElemFull v.kind) ((enabledElems v).map elemView)
      (setVecC (vkind v.kind) (rdm ip m) c).elems := by
    simp only [setVecC, rdm_children, hch, Option.getD_some]
    rw [hel, List.forall₂_map_left_iff]
    have hF'' : List.Forall₂ (fun e p' => ∃ p, p' = rdPart ip p ∧ onePart v.kind e = .ok p ∧ elemOk v.kind e = true ∧
        bytesOk e.value = true) (enabledElems v) (ps.map (rdPart ip)) := by
      rw [List.forall₂_map_right_iff]
      exact forall₂_imp' (fun e p h => ⟨p, rfl, h⟩) hF'
    refine forall₂_zipWith _ ?_ hs5 hF''
    rintro e ke p' hn ⟨p, rfl, hp, hok, hb⟩
    obtain ⟨_, _, h3⟩ := one_elem hp hok hb ip
    exact ⟨hn.1, h3 ke.2 hn.2.1 hn.2.2⟩
  rw [vecShown_iff]
  refine ⟨hs1, hs2, hs3, hs4, ?_⟩
  rw [if_neg (by simp)]
  refine ⟨?_, hfull⟩
  simp only [setVecC, rdm_attr ip m "state" (by decide), hstate]

/-- an update of a property the mirror does not hold is ignored -/
theorem upd_set_none {dn : Str} {g : Group} {v : Vec} {m : Msg} (h : setMsg dn g v = .ok (some m)) (ip : Bool) :
    upd none (rdm ip m) = none := by
  obtain ⟨_, ps, hps, htag, _⟩ := setMsg_some h
  have hk1 : defKind (rdm ip m).tag = none := by rw [rdm_tag, htag]; exact defKind_set _
  have hk2 : setKind (rdm ip m).tag = some (vkind v.kind) := by rw [rdm_tag, htag]; exact setKind_set _
  simp [upd, hk1, hk2]

end Indi.SysP
