/-
  Leaf lemmas for the system-level statements: `int(str(n)) == n`, base64 text is ASCII and
  has no surrounding whitespace, `a2b_base64` returns bytes, a parsed `newBLOBVector` has a
  `format` on every child, and the handshake request as a network client's peer reads it.
-/
import Indi.Proofs.B64
import Indi.Proofs.Num
import Indi.Proofs.DevB
import Indi.Proofs.C03

namespace Indi.SysB64
open Indi Indi.Dev

/-! ### `int(str(n)) == n` -/

theorem go_digits : ∀ (ds : Str) (b : Bool), (∀ c ∈ ds, pyIsDigit c = true) →
    (ds ≠ [] ∨ b = true) → Dev.pyInt.go ds b = some ds := by
  intro ds
  induction ds with
  | nil =>
    intro b _ h
    rcases h with h | h
    · exact absurd rfl h
    · subst h; rfl
  | cons c cs ih =>
    intro b hd _
    have hc : pyIsDigit c = true := hd c (by simp)
    have hcs : ∀ c ∈ cs, pyIsDigit c = true := fun x hx => hd x (by simp [hx])
    rw [Dev.pyInt.go.eq_def]
    simp only [hc, if_true]
    rw [ih true hcs (Or.inr rfl)]
    rfl

/-- the sign split of `pyInt`, restated so that it can be named -/
def sgn (t : Str) : Bool × Str :=
  match t with
  | '-' :: r => (true, r)
  | '+' :: r => (false, r)
  | r => (false, r)

/-- what `pyInt` does with the sign and the rest -/
def body (neg : Bool) (b : Str) : Option Int :=
  match b with
  | [] => none
  | c :: _ =>
    if !pyIsDigit c then none else
    match Dev.pyInt.go b false with
    | some ds => some (if neg then -(Num.digitsVal ds : Int) else Num.digitsVal ds)
    | none => none

theorem pyInt_eq (x : Str) : Dev.pyInt x = body (sgn (pyStrip x)).1 (sgn (pyStrip x)).2 := by
  unfold Dev.pyInt sgn body
  rfl

theorem sgn_other (c : Char) (r : Str) (h1 : c ≠ '-') (h2 : c ≠ '+') : sgn (c :: r) = (false, c :: r) := by
  unfold sgn
  split
  · rename_i heq; cases heq; exact absurd rfl h1
  · rename_i heq; cases heq; exact absurd rfl h2
  · rfl

theorem pyInt_digits (c : Char) (r : Str) (hc : DevBNum.Dig c) (hr : DevBNum.AllDig r) :
    Dev.pyInt (c :: r) = some ((Num.digitsVal (c :: r) : Nat) : Int) := by
  have hall : DevBNum.AllDig (c :: r) := by
    intro x hx
    cases hx with
    | head => exact hc
    | tail _ hx => exact hr x hx
  have hstrip : pyStrip (c :: r) = c :: r := DevBNum.strip_allNS (DevBNum.allNS_of_allDig hall)
  have hgo : Dev.pyInt.go (c :: r) false = some (c :: r) :=
    go_digits (c :: r) false (fun x hx => (hall x hx).1) (Or.inl (by simp))
  rw [pyInt_eq, hstrip, sgn_other c r hc.2.2.1 hc.2.2.2]
  simp only [body, hc.1, hgo]
  rfl

/-- Python `int(str(n)) == n` -/
theorem pyInt_natStr (n : Nat) : Dev.pyInt (Dev.natStr n) = some (n : Int) := by
  unfold Dev.natStr
  have hd := DevBNum.natDigits_dig n
  have hne := DevBNum.natDigits_ne n
  have hv := Num.natDigits_val n
  match hp : Num.natDigits n, hd, hne, hv with
  | [], _, hne, _ => exact absurd rfl hne
  | c :: r, hd, _, hv =>
    rw [pyInt_digits c r (hd c (by simp)) (fun x hx => hd x (by simp [hx])), hv]

/-! ### base64 text -/

theorem alphabet_facts : ∀ c ∈ B64.alphabet, pyIsSpace c = false ∧ c.toNat < 128 := by
  decide +kernel

theorem pad_facts : pyIsSpace '=' = false ∧ '='.toNat < 128 := by decide +kernel

theorem encode_facts (bs : List Nat) (h : ∀ b ∈ bs, b < 256) :
    ∀ c ∈ B64.encode bs, pyIsSpace c = false ∧ c.toNat < 128 := by
  intro c hc
  rcases B64.encode_chars bs h c hc with hc | rfl
  · exact alphabet_facts c hc
  · exact pad_facts

/-- base64 text is ASCII -/
theorem isAscii_encode (bs : List Nat) (h : ∀ b ∈ bs, b < 256) :
    Dev.isAscii (B64.encode bs) = true := by
  unfold Dev.isAscii
  rw [List.all_eq_true]
  intro c hc
  simpa using (encode_facts bs h c hc).2

/-- base64 text has no surrounding whitespace -/
theorem pyStrip_encode (bs : List Nat) (h : ∀ b ∈ bs, b < 256) :
    pyStrip (B64.encode bs) = B64.encode bs :=
  DevBNum.strip_allNS fun c hc => (encode_facts bs h c hc).1

/-! ### `a2b_base64` returns bytes -/

theorem a2b_lt {c : Char} {v : Nat} (h : B64.a2b c = some v) : v < 64 := by
  unfold B64.a2b at h
  simp only [Bool.and_eq_true, decide_eq_true_eq] at h
  split at h
  · cases h; omega
  · split at h
    · cases h; omega
    · split at h
      · cases h; omega
      · split at h
        · cases h; omega
        · split at h
          · cases h; omega
          · cases h

/-- what the decoding loop maintains -/
abbrev Inv (st : B64.DecState) : Prop :=
  (∀ b ∈ st.outRev, b < 256) ∧ st.quadPos ≤ 3 ∧ (st.quadPos = 1 → st.leftchar < 64) ∧
  (st.quadPos = 2 → st.leftchar < 16) ∧ (st.quadPos = 3 → st.leftchar < 4)

theorem inv_cons {o : List Nat} {b : Nat} (ho : ∀ x ∈ o, x < 256) (hb : b < 256) :
    ∀ x ∈ b :: o, x < 256 := by
  intro x hx
  cases hx with
  | head => exact hb
  | tail _ hx => exact ho x hx

theorem decodeLoop_bytes : ∀ (cs : Str) (st : B64.DecState) (bs : List Nat), Inv st →
    B64.decodeLoop st cs = .ok bs → ∀ b ∈ bs, b < 256 := by
  intro cs
  induction cs with
  | nil =>
    intro st bs hinv h
    rw [B64.decodeLoop] at h
    split at h
    · cases h
      intro b hb
      exact hinv.1 b (List.mem_reverse.1 hb)
    · split at h <;> cases h
  | cons c cs ih =>
    intro st bs hinv h
    obtain ⟨q, l, p, o⟩ := st
    obtain ⟨ho, hq, h1, h2, h3⟩ := hinv
    simp only at ho hq h1 h2 h3
    rw [B64.decodeLoop] at h
    split at h
    · split at h
      · split at h
        · cases h
          intro b hb
          exact ho b (List.mem_reverse.1 hb)
        · exact ih _ bs ⟨ho, hq, h1, h2, h3⟩ h
      · exact ih _ bs ⟨ho, hq, h1, h2, h3⟩ h
    · split at h
      · exact ih _ bs ⟨ho, hq, h1, h2, h3⟩ h
      · rename_i v hv
        have hv64 := a2b_lt hv
        rcases q with _ | _ | _ | _ | q
        · exact ih _ bs ⟨ho, by simp, fun _ => hv64, by simp, by simp⟩ h
        · have : l < 64 := h1 rfl
          exact ih _ bs ⟨inv_cons ho (by dsimp only; omega), by simp, by simp,
            fun _ => Nat.mod_lt _ (by omega), by simp⟩ h
        · have : l < 16 := h2 rfl
          exact ih _ bs ⟨inv_cons ho (by dsimp only; omega), by simp, by simp, by simp,
            fun _ => Nat.mod_lt _ (by omega)⟩ h
        · have : l < 4 := h3 rfl
          exact ih _ bs ⟨inv_cons ho (by dsimp only; omega), by simp, by simp, by simp, by simp⟩ h
        · omega

/-- whatever `a2b_base64` returns is a list of bytes -/
theorem decode_bytes (x : Str) (bs : List Nat) (h : B64.decode x = .ok bs) : ∀ b ∈ bs, b < 256 := by
  unfold B64.decode at h
  have hnil : ∀ b ∈ B64.initState.outRev, b < 256 := by
    intro b hb
    cases hb
  exact decodeLoop_bytes x B64.initState bs ⟨hnil, by decide, by decide, by decide, by decide⟩ h

/-! ### a parsed `newBLOBVector` -/

open Indi.Spec.MsgValid

/-- the attribute specifications of `oneBLOB`, in `__dict__` order -/
def oneBLOBSpecs : List FieldSpec :=
  [{ name := s "name", source := some (s "name"), guard := .any },
   { name := s "value", source := some (s "value"), guard := .any },
   { name := s "size", source := some (s "size"), guard := .any },
   { name := s "format", source := some (s "format"), guard := .any }]

theorem newBLOB_cls (c : ClassSpec)
    (hc : findClass (s "newBLOBVector") Generated.registry.messages = some c) :
    childTagsOf c = some [s "oneBLOB"] := by
  have key : (findClass (s "newBLOBVector") Generated.registry.messages).all
      (fun c => decide (childTagsOf c = some [s "oneBLOB"])) = true := by decide +kernel
  rw [hc] at key
  simpa using key

theorem oneBLOB_cls (c : ClassSpec)
    (hc : findClass (s "oneBLOB") Generated.registry.parts = some c) :
    scalarSpecs c = oneBLOBSpecs ∧ c.required.contains (s "format") = true := by
  have key : (findClass (s "oneBLOB") Generated.registry.parts).all
      (fun c => decide (scalarSpecs c = oneBLOBSpecs) && c.required.contains (s "format")) = true := by
    decide +kernel
  rw [hc] at key
  simpa using key

theorem format_ne_value : (s "format" = s "value") = False := by decide

theorem oneBLOB_format (c : ClassSpec) (hs : scalarSpecs c = oneBLOBSpecs)
    (hr : c.required.contains (s "format") = true) (fields : List (Str × Option Str))
    (h : fieldsOk true c fields = true) :
    ((alookup (s "format") fields).getD none).isSome = true := by
  unfold fieldsOk at h
  rw [hs] at h
  simp only [Bool.and_eq_true, beq_iff_eq] at h
  obtain ⟨hk, hz⟩ := h
  match fields, hk, hz with
  | [(k1, v1), (k2, v2), (k3, v3), (k4, v4)], hk, hz =>
    simp only [oneBLOBSpecs, List.map_cons, List.map_nil, List.cons.injEq, and_true] at hk
    obtain ⟨rfl, rfl, rfl, rfl⟩ := hk
    simp only [oneBLOBSpecs, List.zip_cons_cons, List.zip_nil_right, List.all_cons, List.all_nil,
      Bool.and_true, Bool.and_eq_true] at hz
    have h4 := hz.2.2.2
    simp only [fieldOk, hr, Bool.not_true, Bool.false_or, Bool.and_eq_true, Bool.or_eq_true,
      Bool.true_and, decide_eq_true_eq, format_ne_value, or_false] at h4
    have e : alookup (s "format") [(s "name", v1), (s "value", v2), (s "size", v3), (s "format", v4)]
        = some v4 := by
      have n1 : (s "name" = s "format") = False := by decide
      have n2 : (s "value" = s "format") = False := by decide
      have n3 : (s "size" = s "format") = False := by decide
      simp only [alookup, n1, n2, n3, if_false, if_true]
    rw [e]
    exact h4.2

/-- a `newBLOBVector` that came through the parser has a `format` on every child (it is a required
attribute of oneBLOB) -/
theorem parsed_newBLOB_format (x : Elem) (m : Msg) (hp : fromXml Generated.registry x = .ok m)
    (ht : m.tag = s "newBLOBVector") :
    ∀ p ∈ m.children.getD [], ((alookup (s "format") p.fields).getD none).isSome = true := by
  have hv := C03.msg_parsed_valid C03.regW_generated hp
  unfold valid at hv
  rw [ht] at hv
  split at hv
  · cases hv
  · rename_i c hc
    rw [newBLOB_cls c hc] at hv
    simp only [Bool.and_eq_true] at hv
    obtain ⟨_, hch⟩ := hv
    intro p hpm
    cases hm : m.children with
    | none => rw [hm] at hpm; cases hpm
    | some ps =>
      rw [hm] at hpm hch
      simp only [Option.getD_some] at hpm
      simp only [List.all_eq_true, Bool.and_eq_true] at hch
      obtain ⟨htag, hvp⟩ := hch p hpm
      have htag' : p.tag = s "oneBLOB" := by simpa using htag
      unfold validPart at hvp
      rw [htag'] at hvp
      split at hvp
      · cases hvp
      · rename_i c' hc'
        obtain ⟨hs, hr⟩ := oneBLOB_cls c' hc'
        simp only [Bool.and_eq_true] at hvp
        exact oneBLOB_format c' hs hr p.fields hvp.2

end Indi.SysB64
