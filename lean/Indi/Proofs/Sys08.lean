/-
  Helper lemmas for C08 (Properties/C08.lean): base64 text on the wire, the declared size,
  one BLOB part in either direction, and the deployment-level publication of a BLOB value.
-/
import Indi.Spec.Sys
import Indi.Spec.MsgValid
import Indi.Generated.Registry
import Indi.Proofs.B64
import Indi.Proofs.Num
import Indi.Proofs.DevA
import Indi.Proofs.DevB
import Indi.Proofs.C03
import Indi.Proofs.Cli

namespace Indi.B64

/-! ### the codec on arbitrary lists of naturals (no `< 256` needed): decoding never fails and keeps the length -/

theorem b2a_big (n : Nat) (h : ¬ n < 64) : b2a n = '/' := by
  unfold b2a
  rw [if_neg (by omega), if_neg (by omega), if_neg (by omega), if_neg (by omega)]

theorem slash_facts : '/' ∈ alphabet ∧ '/' ≠ '=' ∧ a2b '/' = some 63 := by decide +kernel

theorem b2a_any (n : Nat) : b2a n ∈ alphabet ∧ b2a n ≠ '=' ∧ ∃ k, a2b (b2a n) = some k := by
  by_cases h : n < 64
  · exact ⟨b2a_mem_alphabet n h, b2a_ne_pad n h, n, a2b_b2a n h⟩
  · rw [b2a_big n h]; exact ⟨slash_facts.1, slash_facts.2.1, 63, slash_facts.2.2⟩

theorem step_any (st : DecState) (n : Nat) (cs : Str) :
    ∃ k, decodeLoop st (b2a n :: cs) = decodeLoop (advance st k) cs := by
  obtain ⟨_, h2, k, hk⟩ := b2a_any n
  refine ⟨k, ?_⟩
  obtain ⟨q, l, p, o⟩ := st
  rw [decodeLoop]
  simp only [h2, if_false, hk]
  unfold advance
  rcases q with _ | _ | _ | q <;> rfl

theorem decodeLoop_encode_len : ∀ (bs : List Nat) (out : List Nat),
    ∃ bs', decodeLoop { quadPos := 0, leftchar := 0, pads := 0, outRev := out } (encode bs) = .ok (out.reverse ++ bs') ∧
      bs'.length = bs.length := by
  intro bs
  induction bs using encode.induct with
  | case1 => intro out; exact ⟨[], by simp [encode, decodeLoop], rfl⟩
  | case2 b0 =>
    intro out
    simp only [encode]
    obtain ⟨k1, h1⟩ := step_any { quadPos := 0, leftchar := 0, pads := 0, outRev := out } (b0 / 4) [b2a (b0 % 4 * 16), '=', '=']
    rw [h1]
    obtain ⟨k2, h2⟩ := step_any (advance { quadPos := 0, leftchar := 0, pads := 0, outRev := out } k1) (b0 % 4 * 16) ['=', '=']
    rw [h2]
    exact ⟨[k1 * 4 + k2 / 16], by simp [advance, decodeLoop], rfl⟩
  | case3 b0 b1 =>
    intro out
    simp only [encode]
    obtain ⟨k1, h1⟩ := step_any { quadPos := 0, leftchar := 0, pads := 0, outRev := out } (b0 / 4)
      [b2a (b0 % 4 * 16 + b1 / 16), b2a (b1 % 16 * 4), '=']
    rw [h1]
    obtain ⟨k2, h2⟩ := step_any (advance { quadPos := 0, leftchar := 0, pads := 0, outRev := out } k1)
      (b0 % 4 * 16 + b1 / 16) [b2a (b1 % 16 * 4), '=']
    rw [h2]
    obtain ⟨k3, h3⟩ := step_any (advance (advance { quadPos := 0, leftchar := 0, pads := 0, outRev := out } k1) k2)
      (b1 % 16 * 4) ['=']
    rw [h3]
    exact ⟨[k1 * 4 + k2 / 16, k2 % 16 * 16 + k3 / 4], by simp [advance, decodeLoop], rfl⟩
  | case4 b0 b1 b2 rest ih =>
    intro out
    simp only [encode]
    obtain ⟨k1, h1⟩ := step_any { quadPos := 0, leftchar := 0, pads := 0, outRev := out } (b0 / 4)
      (b2a (b0 % 4 * 16 + b1 / 16) :: b2a (b1 % 16 * 4 + b2 / 64) :: b2a (b2 % 64) :: encode rest)
    rw [h1]
    obtain ⟨k2, h2⟩ := step_any (advance { quadPos := 0, leftchar := 0, pads := 0, outRev := out } k1)
      (b0 % 4 * 16 + b1 / 16) (b2a (b1 % 16 * 4 + b2 / 64) :: b2a (b2 % 64) :: encode rest)
    rw [h2]
    obtain ⟨k3, h3⟩ := step_any (advance (advance { quadPos := 0, leftchar := 0, pads := 0, outRev := out } k1) k2)
      (b1 % 16 * 4 + b2 / 64) (b2a (b2 % 64) :: encode rest)
    rw [h3]
    obtain ⟨k4, h4⟩ := step_any (advance (advance (advance { quadPos := 0, leftchar := 0, pads := 0, outRev := out } k1) k2) k3)
      (b2 % 64) (encode rest)
    rw [h4]
    simp only [advance]
    obtain ⟨bs', hb1, hb2⟩ := ih ((k3 % 4 * 64 + k4) :: (k2 % 16 * 16 + k3 / 4) :: (k1 * 4 + k2 / 16) :: out)
    refine ⟨(k1 * 4 + k2 / 16) :: (k2 % 16 * 16 + k3 / 4) :: (k3 % 4 * 64 + k4) :: bs', ?_, by simp [hb2]⟩
    rw [hb1]; simp

theorem decode_encode_len (bs : List Nat) : ∃ bs', decode (encode bs) = .ok bs' ∧ bs'.length = bs.length := by
  obtain ⟨bs', h1, h2⟩ := decodeLoop_encode_len bs []
  exact ⟨bs', by simpa [decode, initState] using h1, h2⟩

theorem encode_chars_any : ∀ (bs : List Nat), ∀ c ∈ encode bs, c ∈ alphabet ∨ c = '=' := by
  intro bs
  induction bs using encode.induct with
  | case1 => intro c hc; simp [encode] at hc
  | case2 b0 =>
    intro c hc
    simp only [encode, List.mem_cons, List.mem_nil_iff, or_false] at hc
    rcases hc with rfl | rfl | rfl | rfl
    · exact Or.inl (b2a_any _).1
    · exact Or.inl (b2a_any _).1
    · exact Or.inr rfl
    · exact Or.inr rfl
  | case3 b0 b1 =>
    intro c hc
    simp only [encode, List.mem_cons, List.mem_nil_iff, or_false] at hc
    rcases hc with rfl | rfl | rfl | rfl
    · exact Or.inl (b2a_any _).1
    · exact Or.inl (b2a_any _).1
    · exact Or.inl (b2a_any _).1
    · exact Or.inr rfl
  | case4 b0 b1 b2 rest ih =>
    intro c hc
    simp only [encode, List.mem_cons] at hc
    rcases hc with rfl | rfl | rfl | rfl | hc
    · exact Or.inl (b2a_any _).1
    · exact Or.inl (b2a_any _).1
    · exact Or.inl (b2a_any _).1
    · exact Or.inl (b2a_any _).1
    · exact ih c hc

end Indi.B64

namespace Indi.Sys
open Indi Indi.Dev Indi.Cli Indi.Spec.Sys Indi.Spec.Dev Indi.Spec.MsgValid

/-! ### base64 text -/

theorem alphabet_facts : ∀ c ∈ B64.alphabet, pyIsSpace c = false ∧ c.toNat < 128 := by decide +kernel

theorem pad_facts : pyIsSpace '=' = false ∧ '='.toNat < 128 := by decide +kernel

theorem encode_noSpace (bs : List Nat) : Num.NoSpace (B64.encode bs) := by
  intro c hc
  rcases B64.encode_chars_any bs c hc with h1 | h1
  · exact (alphabet_facts c h1).1
  · subst h1; exact pad_facts.1

theorem encode_strip (bs : List Nat) : pyStrip (B64.encode bs) = B64.encode bs :=
  Num.pyStrip_noSpace (encode_noSpace bs)

theorem encode_ascii (bs : List Nat) : isAscii (B64.encode bs) = true := by
  unfold isAscii
  rw [List.all_eq_true]
  intro c hc
  rcases B64.encode_chars_any bs c hc with h1 | h1
  · simp [(alphabet_facts c h1).2]
  · subst h1; simp

/-- what `normVal`/`canonVal` make of base64 text, read with `getD []`: the text itself -/
theorem normVal_encode (bs : List Nat) :
    (normVal (some (B64.encode bs))).getD [] = B64.encode bs := by
  simp only [normVal, encode_strip bs]
  split
  · rename_i he
    cases hx : B64.encode bs with
    | nil => rfl
    | cons a l => rw [hx] at he; cases he
  · rfl

theorem canonVal_encode (bs : List Nat) :
    (C03.canonVal (some (B64.encode bs))).getD [] = B64.encode bs := by
  simp only [C03.canonVal, encode_strip bs]
  split
  · rename_i he
    cases hx : B64.encode bs with
    | nil => rfl
    | cons a l => rw [hx] at he; cases he
  · rfl

/-! ### the declared size -/

theorem pyInt_go_ads : ∀ (ds : Str) (b : Bool), Num.ADs ds → (b = true ∨ ds ≠ []) → pyInt.go ds b = some ds := by
  intro ds
  induction ds with
  | nil =>
    intro b _ hb
    rcases hb with rfl | hb
    · rfl
    · exact absurd rfl hb
  | cons c cs ih =>
    intro b h _
    have hc : pyIsDigit c = true := (h c (by simp)).isDigit
    unfold pyInt.go
    simp only [hc, if_true]
    rw [ih true (fun x hx => h x (by simp [hx])) (Or.inl rfl)]
    rfl

theorem ad_not_sign : ∀ d, d < 10 → Char.ofNat (48 + d) ≠ '-' ∧ Char.ofNat (48 + d) ≠ '+' := by decide +kernel

theorem pyInt_unsigned (c : Char) (cs ds : Str) (h1 : c ≠ '-') (h2 : c ≠ '+') (hns : Num.NoSpace (c :: cs))
    (hd : pyIsDigit c = true) (hgo : pyInt.go (c :: cs) false = some ds) :
    pyInt (c :: cs) = some (Num.digitsVal ds : Int) := by
  unfold pyInt
  rw [Num.pyStrip_noSpace hns]
  show (match
      (match c :: cs with
      | '-' :: r => (true, r)
      | '+' :: r => (false, r)
      | r => (false, r) : Bool × Str) with
    | (neg, body) =>
      match body with
      | [] => none
      | c :: tail =>
        if (!pyIsDigit c) = true then none
        else
          match pyInt.go body false with
          | some ds => some (if neg = true then -(Num.digitsVal ds : Int) else ↑(Num.digitsVal ds))
          | none => none) = _
  split
  rename_i neg body heq
  split at heq
  · rename_i r h; cases h; exact absurd rfl h1
  · rename_i r h; cases h; exact absurd rfl h2
  · cases heq
    simp [hd, hgo]

/-- `int(str(n)) == n`: the size a BLOB part declares is read back as the number of bytes -/
theorem pyInt_natStr (n : Nat) : pyInt (natStr n) = some (n : Int) := by
  have hne := Num.natDigits_ne n
  have hads := Num.natDigits_ads n
  have hval := Num.natDigits_val n
  unfold natStr
  cases hx : Num.natDigits n with
  | nil => exact absurd hx hne
  | cons c cs =>
    rw [hx] at hads hval
    obtain ⟨d, hd, hc⟩ := hads _ (List.mem_cons_self ..)
    have hns := ad_not_sign d hd
    have hdig : pyIsDigit c = true := hc ▸ (Num.ad_facts d hd).1
    have hgo := pyInt_go_ads (c :: cs) false hads (Or.inr (by simp))
    rw [pyInt_unsigned c cs _ (hc ▸ hns.1) (hc ▸ hns.2) hads.noSpace hdig hgo, hval]

/-! ### one BLOB part -/

/-- the `oneBLOB` part both sides build for a byte string -/
def blobPart (name : Option Str) (bs : List Nat) (f : Option Str) : Part :=
  { tag := s "oneBLOB", fields := [(s "name", name), (s "value", some (B64.encode bs)),
      (s "size", some (natStr bs.length)), (s "format", f)] }

/-- a BLOB part whose text reads (with `or ""`) as the encoding of `bs` -/
def blobPart' (name : Option Str) (v : Option Str) (n : Nat) (f : Option Str) : Part :=
  { tag := s "oneBLOB", fields := [(s "name", name), (s "value", v), (s "size", some (natStr n)), (s "format", f)] }

theorem blobFromPart_read (name v : Option Str) (bs : List Nat) (f : Option Str) (h : ∀ b ∈ bs, b < 256)
    (hv : v.getD [] = B64.encode bs) :
    blobFromPart (blobPart' name v bs.length f) = .ok (.blob bs f) := by
  simp [blobFromPart, blobPart', attr, alookup, s, hv, encode_ascii bs, B64.decode_encode bs h, pyInt_natStr]

/-- whatever naturals the list holds, the part decodes and the declared size matches -/
theorem blobFromPart_read_any (name v : Option Str) (bs : List Nat) (f : Option Str)
    (hv : v.getD [] = B64.encode bs) :
    ∃ bs', blobFromPart (blobPart' name v bs.length f) = .ok (.blob bs' f) := by
  obtain ⟨bs', h1, h2⟩ := B64.decode_encode_len bs
  exact ⟨bs', by simp [blobFromPart, blobPart', attr, alookup, s, hv, encode_ascii bs, h1, h2, pyInt_natStr]⟩

theorem valueFromPart_read (name v : Option Str) (bs : List Nat) (f : Option Str) (h : ∀ b ∈ bs, b < 256)
    (hv : v.getD [] = B64.encode bs) :
    valueFromPart .blob (blobPart' name v bs.length f) = .ok (.blob bs f) := by
  have e1 := encode_ascii bs
  have e2 := B64.decode_encode bs h
  rw [← hv] at e1 e2
  cases v with
  | none =>
    simp only [Option.getD_none] at e1 e2
    simp [valueFromPart, blobPart', valueOf, alookup, s, e1, e2, pyInt_natStr]
  | some t =>
    simp only [Option.getD_some] at e1 e2
    simp [valueFromPart, blobPart', valueOf, alookup, s, e1, e2, pyInt_natStr]

theorem normPart_blobPart (name : Option Str) (bs : List Nat) (f : Option Str) :
    normPart (blobPart name bs f) = blobPart' name (normVal (some (B64.encode bs))) bs.length f := by
  simp [normPart, normFields, blobPart, blobPart', s]

theorem canonPart_blobPart (name : Option Str) (bs : List Nat) (f : Option Str) :
    C03.canonPart (blobPart name bs f) = blobPart' name (C03.canonVal (some (B64.encode bs))) bs.length f := by
  simp [C03.canonPart, C03.canonFields, C03.cv, blobPart, blobPart', s]

/-- what a driver publishes for a BLOB value -/
theorem onePart_blob (e : Dev.Elem) (bs : List Nat) (f : Option Str) (hv : readValue e = .blob bs f) :
    onePart .blob e = .ok (blobPart (some e.d.name) bs f) := by
  simp [onePart, hv, blobPart]

theorem newPart_blob (name : Option Str) (bs : List Nat) (f : Option Str) :
    newPart .blob name (.blob bs f) = some (blobPart name bs f) := rfl

/-! ### the update is a valid protocol message (so it is read back exactly as `C03.canon` says) -/

def clsOneBLOB : ClassSpec :=
  ⟨s "oneBLOB", true, false, false, [s "name", s "size", s "format", s "value"],
   [⟨s "name", some (s "name"), .any⟩, ⟨s "value", some (s "value"), .any⟩, ⟨s "size", some (s "size"), .any⟩,
    ⟨s "format", some (s "format"), .any⟩]⟩

theorem findClass_oneBLOB : findClass (s "oneBLOB") Generated.registry.parts = some clsOneBLOB := by
  decide +kernel

theorem validPart_blob (n : Str) (v : Option Str) (sz f : Str) :
    validPart Generated.registry
      { tag := s "oneBLOB", fields := [(s "name", some n), (s "value", v), (s "size", some sz), (s "format", some f)] } = true := by
  unfold validPart
  rw [findClass_oneBLOB]
  simp [fieldsOk, scalarSpecs, fieldOk, guardOk, s, clsOneBLOB]

def clsSetBLOB : ClassSpec :=
  ⟨s "setBLOBVector", true, false, true, [s "device", s "name", s "state"],
   [⟨s "device", some (s "device"), .any⟩, ⟨s "name", some (s "name"), .any⟩,
    ⟨s "state", some (s "state"), .oneOf [some (s "Idle"), some (s "Ok"), some (s "Busy"), some (s "Alert")]⟩,
    ⟨s "timeout", some (s "timeout"), .any⟩, ⟨s "timestamp", some (s "timestamp"), .any⟩,
    ⟨s "message", some (s "message"), .any⟩, ⟨s "children", some (s "children"), .children [s "oneBLOB"]⟩]⟩

theorem findClass_setBLOB : findClass (s "setBLOBVector") Generated.registry.messages = some clsSetBLOB := by
  decide +kernel

theorem valid_setBlob (dev name state : Str) (tmo : Option Str) (ps : List Part)
    (hst : states.contains state = true)
    (hps : ∀ p ∈ ps, p.tag = s "oneBLOB" ∧ validPart Generated.registry p = true) :
    valid Generated.registry
      { tag := s "setBLOBVector",
        fields := [(s "device", some dev), (s "name", some name), (s "state", some state), (s "timeout", tmo),
                   (s "timestamp", some stamp), (s "message", none)],
        children := some ps } = true := by
  unfold valid
  simp only [findClass_setBLOB]
  have hct : childTagsOf clsSetBLOB = some [s "oneBLOB"] := by decide +kernel
  simp only [hct]
  simp [states, s] at hst
  simp only [Bool.and_eq_true, List.all_eq_true]
  refine ⟨⟨rfl, ?_⟩, ?_⟩
  · rcases hst with rfl | rfl | rfl | rfl <;> simp [fieldsOk, scalarSpecs, fieldOk, guardOk, s, clsSetBLOB]
  · intro p hp
    obtain ⟨h1, h2⟩ := hps p hp
    simp [h1, h2]

/-! ### a driver assigns a BLOB value -/

def noneBlobPart (name : Option Str) : Part :=
  { tag := s "oneBLOB", fields := [(s "name", name), (s "value", none), (s "size", some (s "0")), (s "format", some [])] }

/-- the part a driver publishes for a BLOB element -/
def blobPartOf (e : Dev.Elem) : Part :=
  match readValue e with
  | .blob bs f => blobPart (some e.d.name) bs f
  | _ => noneBlobPart (some e.d.name)

theorem onePart_blob_ok (e : Dev.Elem) (h : valueOk .blob (readValue e) = true) :
    onePart .blob e = .ok (blobPartOf e) := by
  unfold onePart blobPartOf
  cases hr : readValue e <;> simp_all [valueOk, blobPart, noneBlobPart]

theorem mapParts_eq (f : Dev.Elem → Except Dev.Exc Part) (g : Dev.Elem → Part) :
    ∀ l : List Dev.Elem, (∀ e ∈ l, e.enabled = true → f e = .ok (g e)) →
      mapParts f l = .ok ((l.filter (·.enabled)).map g)
  | [], _ => rfl
  | e :: l, h => by
    have ih := mapParts_eq f g l (fun e' he' => h e' (List.mem_cons_of_mem _ he'))
    unfold mapParts
    cases hen : e.enabled with
    | true => simp [h e (List.mem_cons_self ..) hen, ih, hen]
    | false => simp [ih, hen]

/-- the update a driver publishes for a BLOB property -/
def setBlobMsg (dev : Str) (v : Vec) : Msg :=
  { tag := s "setBLOBVector",
    fields := [(s "device", some dev), (s "name", some v.name), (s "state", some v.state), (s "timeout", v.timeout),
               (s "timestamp", some stamp), (s "message", none)],
    children := some ((v.elems.filter (·.enabled)).map blobPartOf) }

theorem setMsg_blob (dev : Str) (g : Group) (v : Vec) (hk : v.kind = .blob)
    (hok : ∀ e ∈ v.elems, valueOk .blob (readValue e) = true) :
    setMsg dev g v = .ok (if vecEnabled g v then some (setBlobMsg dev v) else none) := by
  unfold setMsg
  cases hen : vecEnabled g v with
  | false => simp
  | true =>
    simp only [Bool.not_true, Bool.false_eq_true, if_false, if_true, hk]
    rw [mapParts_eq _ blobPartOf v.elems (fun e he _ => onePart_blob_ok e (hok e he))]
    rfl


theorem blob_noRefresh (e : Dev.Elem) (h : elemOk .blob e = true) : e.d.refresh = none := by
  unfold elemOk at h
  cases hr : e.d.refresh with
  | none => rfl
  | some x => simp [hr] at h

theorem vecOk_blob_noRefresh (v : Vec) (hk : v.kind = .blob) (hok : vecOk v = true) :
    v.elems.any hasRefresh = false := by
  rw [List.any_eq_false]
  intro e he
  have := DevB.vecOk_elems hok e he
  rw [hk] at this
  simp [hasRefresh, blob_noRefresh e this]

/-- a driver assigns a byte string to a BLOB element: the element takes it, and - when the property is
enabled - exactly one update listing every enabled element is published -/
theorem assign_blob (d : Device) (a : Addr) (bs : List Nat) (f : Option Str) (g : Group) (v : Vec) (e : Dev.Elem)
    (hv : getVec d a.g a.v = some (g, v)) (he : v.elems[a.e]? = some e) (hk : v.kind = .blob)
    (hok : vecOk v = true) :
    (assign d a (.blob bs f)).dev = setVec d a.g a.v (asgV2 v a.e e (.blob bs f)) ∧
    (assign d a (.blob bs f)).msgs =
      if vecEnabled g v then [setBlobMsg d.name (asgV2 v a.e e (.blob bs f))] else [] := by
  have hc : checkValue v a.e (.blob bs f) = .ok (v, .blob bs f) := by
    unfold checkValue; rw [hk]
  have ht : typeOk v.kind (.blob bs f) = true := by rw [hk]; rfl
  have hvr : VR (fun _ _ _ _ => True) a.g a.v v (asgV2 v a.e e (.blob bs f)) :=
    VR_asgV2 hc ht he (fun _ _ => trivial) trivial
  have hok2 := hvr.ok hok
  have hk2 : (asgV2 v a.e e (.blob bs f)).kind = .blob := hvr.kind.trans hk
  have hnr2 := vecOk_blob_noRefresh _ hk2 hok2
  have hvals : ∀ e' ∈ (asgV2 v a.e e (.blob bs f)).elems, valueOk .blob (readValue e') = true := by
    intro e' he'
    have := DevB.vecOk_elems hok2 e' he'
    rw [hk2] at this
    exact valueOk_readValue _ _ this
  have hen : vecEnabled g (asgV2 v a.e e (.blob bs f)) = vecEnabled g v := by
    simp [vecEnabled, hvr.enabled]
  rcases assign_cases d a (.blob bs f) g v e hv he with ⟨h1, _⟩ | ⟨_, x, h1, _⟩ | ⟨_, v1, stored, h1, h2⟩
  · rw [ht] at h1; cases h1
  · rw [hc] at h1; cases h1
  · rw [hc] at h1
    simp only [Except.ok.injEq, Prod.mk.injEq] at h1
    obtain ⟨rfl, rfl⟩ := h1
    rw [setMsg_blob d.name g _ hk2 hvals] at h2
    rcases h2 with ⟨x, h2, _⟩ | ⟨m, h2, h3⟩
    · cases h2
    · simp only [Except.ok.injEq] at h2
      have h4 : asgV3 g (asgV2 v a.e e (.blob bs f)) = asgV2 v a.e e (.blob bs f) := by
        unfold asgV3; split
        · exact refreshVec_noRefresh _ hnr2
        · rfl
      rw [h3, h4, ← h2, hen]
      refine ⟨rfl, ?_⟩
      dsimp only
      split <;> rfl

/-! ### the client applies an update -/

/-- the value of a BLOB child as the client takes it (`.none` is never used: the parts we feed decode) -/
def blobValOf (p : Part) : CVal :=
  match blobFromPart p with
  | .ok v => v
  | .error _ => .none

/-- what the element keyed `k` holds after the children `ps` were applied, given what it held before -/
def foldVal (k : Option Str) (ps : List Part) (acc : Option CVal) : Option CVal :=
  ps.foldl (fun acc p => if attr p.fields "name" = k ∧ acc.isSome then some (blobValOf p) else acc) acc

theorem applySet_blob_look (dev vec : Option Str) (ps : List Part) :
    ∀ es, (∀ p ∈ ps, ∃ nv, blobFromPart p = .ok nv) →
      (applySet .blob dev vec es ps).2.2 = none ∧
      ∀ k, (olook k (applySet .blob dev vec es ps).1).map (·.value) = foldVal k ps ((olook k es).map (·.value)) := by
  induction ps with
  | nil => intro es _; exact ⟨rfl, fun k => rfl⟩
  | cons p ps ih =>
    intro es h
    have ih' := fun es => ih es (fun q hq => h q (List.mem_cons_of_mem _ hq))
    obtain ⟨nv, hnv⟩ := h p (List.mem_cons_self ..)
    rw [applySet_cons]
    cases hl : olook (attr p.fields "name") es with
    | none =>
      refine ⟨(ih' es).1, fun k => ?_⟩
      rw [(ih' es).2 k]
      simp only [foldVal, List.foldl_cons]
      by_cases hk : attr p.fields "name" = k
      · subst hk; simp [hl]
      · simp [hk]
    | some ce =>
      simp only [newValOf, hnv]
      refine ⟨(ih' _).1, fun k => ?_⟩
      rw [(ih' _).2 k, olook_oput]
      simp only [foldVal, List.foldl_cons, blobValOf, hnv]
      by_cases hk : attr p.fields "name" = k
      · subst hk; simp [hl]
      · simp [hk]

theorem foldVal_none (k : Option Str) (ps : List Part) : foldVal k ps none = none := by
  induction ps with
  | nil => rfl
  | cons p ps ih => simpa [foldVal] using ih

theorem foldVal_isSome (k : Option Str) (ps : List Part) : ∀ acc, (foldVal k ps acc).isSome = acc.isSome := by
  induction ps with
  | nil => intro acc; rfl
  | cons p ps ih =>
    intro acc
    simp only [foldVal, List.foldl_cons]
    rw [show List.foldl _ _ ps = foldVal k ps _ from rfl, ih]
    split
    · rename_i h; simp [h.2]
    · rfl

/-- if every child named `k` carries `x` and there is one, the element ends up holding `x` -/
theorem foldVal_const (k : Option Str) (x : CVal) (ps : List Part)
    (hall : ∀ p ∈ ps, attr p.fields "name" = k → blobValOf p = x) :
    ∀ acc, acc.isSome = true → (∃ p ∈ ps, attr p.fields "name" = k) ∨ acc = some x → foldVal k ps acc = some x := by
  induction ps with
  | nil =>
    intro acc _ h
    rcases h with ⟨p, hp, _⟩ | h
    · cases hp
    · exact h
  | cons p ps ih =>
    intro acc hacc h
    have ih' := ih (fun q hq => hall q (List.mem_cons_of_mem _ hq))
    simp only [foldVal, List.foldl_cons]
    show foldVal k ps _ = _
    by_cases hk : attr p.fields "name" = k
    · simp only [hk, hacc, and_self, if_true]
      exact ih' _ rfl (Or.inr (by rw [hall p (List.mem_cons_self ..) hk]))
    · simp only [hk, false_and, if_false]
      apply ih' _ hacc
      rcases h with ⟨q, hq, hqk⟩ | h
      · rcases List.mem_cons.1 hq with rfl | hq
        · exact absurd hqk hk
        · exact Or.inl ⟨q, hq, hqk⟩
      · exact Or.inr h


/-- the peer knows the element: its mirror has the device, the BLOB property and the element's key -/
def Knows (σ : Mirror) (dev vec n : Str) : Prop :=
  ∃ cd c, olook (some dev) σ = some cd ∧ olook (some vec) cd.vecs = some c ∧ c.kind = .blob ∧
    (olook (some n) c.elems).isSome = true

def updVec (c : CVec) (st : Option Str) (els : List (Option Str × CElem)) : CVec := { c with state := st, elems := els }

/-- the general shape of a `setBLOBVector` -/
def setBlobOf (dev vname state : Str) (tmo : Option Str) (ps : List Part) : Msg :=
  { tag := s "setBLOBVector",
    fields := [(s "device", some dev), (s "name", some vname), (s "state", some state), (s "timeout", tmo),
               (s "timestamp", some stamp), (s "message", none)],
    children := some ps }

theorem process_setBlob (σ : Mirror) (dev vname state : Str) (tmo : Option Str) (ps : List Part) (n : Str) (x : CVal)
    (hK : Knows σ dev vname n)
    (hdec : ∀ p ∈ ps, ∃ nv, blobFromPart p = .ok nv)
    (hall : ∀ p ∈ ps, attr p.fields "name" = some n → blobValOf p = x)
    (hex : ∃ p ∈ ps, attr p.fields "name" = some n) :
    Knows (processMessage σ (setBlobOf dev vname state tmo ps)).mirror dev vname n ∧
    mirrorElem (processMessage σ (setBlobOf dev vname state tmo ps)).mirror dev vname n = some x := by
  obtain ⟨cd, c, h1, h2, h3, h4⟩ := hK
  have hd : defKind (s "setBLOBVector") = none := by decide
  have hs : setKind (s "setBLOBVector") = some .blob := by decide
  have a1 : attr (setBlobOf dev vname state tmo ps).fields "device" = some dev := by
    simp [setBlobOf, attr, alookup, s]
  have a2 : attr (setBlobOf dev vname state tmo ps).fields "name" = some vname := by
    simp [setBlobOf, attr, alookup, s]
  obtain ⟨_, hlook⟩ := applySet_blob_look (some dev) (some vname) ps c.elems hdec
  have hval := hlook (some n)
  rw [foldVal_const (some n) x ps hall _ (by simpa using h4) (Or.inl hex)] at hval
  have hmir : (processMessage σ (setBlobOf dev vname state tmo ps)).mirror =
      oput (some dev) (CDev.mk (oput (some vname)
        (updVec c (attr (setBlobOf dev vname state tmo ps).fields "state")
          (applySet .blob (some dev) (some vname) c.elems ps).1) cd.vecs)) σ := by
    unfold processMessage
    simp only [a1, a2]
    simp only [setBlobOf, hd, hs, h1, h2, h3, bne_self_eq_false, Bool.false_eq_true, if_false, Option.getD_some, updVec]
  rw [hmir]
  constructor
  · refine ⟨_, updVec c (attr (setBlobOf dev vname state tmo ps).fields "state")
        (applySet .blob (some dev) (some vname) c.elems ps).1, by rw [olook_oput, if_pos rfl], ?_, h3, ?_⟩
    · show olook (some vname) (oput _ _ _) = _
      rw [olook_oput, if_pos rfl]
    show (olook (some n) (applySet .blob (some dev) (some vname) c.elems ps).1).isSome = true
    cases hh : olook (some n) (applySet .blob (some dev) (some vname) c.elems ps).1 with
    | none => rw [hh] at hval; cases hval
    | some y => rfl
  · unfold mirrorElem
    simp only [olook_oput, if_true]
    exact hval

/-! ### well-formed BLOB parts -/

/-- a BLOB part that decodes; if it is the part of element `n` it carries the value `x` -/
def GoodFor (n : Str) (x : CVal) (q : Part) : Prop :=
  ∃ nm v bs f, q = blobPart' (some nm) v bs.length (some f) ∧ v.getD [] = B64.encode bs ∧
    (nm = n → (∀ b ∈ bs, b < 256) ∧ x = .blob bs (some f))

theorem canonPart_blobPart' (name v : Option Str) (k : Nat) (f : Option Str) :
    C03.canonPart (blobPart' name v k f) = blobPart' name (C03.canonVal v) k f := by
  simp [C03.canonPart, C03.canonFields, C03.cv, blobPart', s]

theorem canonVal_getD (v : Option Str) (bs : List Nat) (hv : v.getD [] = B64.encode bs) :
    (C03.canonVal v).getD [] = B64.encode bs := by
  cases v with
  | none => exact hv
  | some t =>
    simp only [Option.getD_some] at hv
    rw [hv]; exact canonVal_encode bs

theorem GoodFor.canon {n : Str} {x : CVal} {q : Part} (h : GoodFor n x q) : GoodFor n x (C03.canonPart q) := by
  obtain ⟨name, v, bs, f, rfl, hv, hx⟩ := h
  exact ⟨name, C03.canonVal v, bs, f, canonPart_blobPart' _ _ _ _, canonVal_getD v bs hv, hx⟩

theorem attr_name_blobPart' (name v : Option Str) (k : Nat) (f : Option Str) :
    attr (blobPart' name v k f).fields "name" = name := by
  simp [attr, alookup, blobPart', s]

theorem GoodFor.decodes {n : Str} {x : CVal} {q : Part} (h : GoodFor n x q) : ∃ nv, blobFromPart q = .ok nv := by
  obtain ⟨name, v, bs, f, rfl, hv, _⟩ := h
  obtain ⟨bs', h'⟩ := blobFromPart_read_any (some name) v bs (some f) hv
  exact ⟨_, h'⟩

theorem GoodFor.val {n : Str} {x : CVal} {q : Part} (h : GoodFor n x q) (hn : attr q.fields "name" = some n) :
    blobValOf q = x := by
  obtain ⟨name, v, bs, f, rfl, hv, hx⟩ := h
  rw [attr_name_blobPart'] at hn
  obtain ⟨hb, rfl⟩ := hx (Option.some.inj hn)
  rw [blobValOf, blobFromPart_read _ v bs _ hb hv]

theorem GoodFor.valid {n : Str} {x : CVal} {q : Part} (h : GoodFor n x q) :
    q.tag = s "oneBLOB" ∧ validPart Generated.registry q = true := by
  obtain ⟨name, v, bs, f, rfl, _, _⟩ := h
  exact ⟨rfl, validPart_blob name v _ f⟩

/-- a BLOB value carries a format (`values.BLOB.format` is a `str`, as annotated, not `None`) -/
def blobValOk : Value → Bool
  | .blob _ f => f.isSome
  | _ => true

theorem natStr_zero : natStr 0 = s "0" := by decide

/-- the part a driver publishes for a well-formed BLOB element decodes; the part of element `n` to `x` -/
theorem good_blobPartOf (e : Dev.Elem) (hv : valueOk .blob (readValue e) = true) (hb : blobValOk (readValue e) = true)
    (n : Str) (x : CVal)
    (hx : e.d.name = n → ∃ bs f, readValue e = .blob bs (some f) ∧ (∀ b ∈ bs, b < 256) ∧ x = .blob bs (some f)) :
    GoodFor n x (blobPartOf e) := by
  unfold blobPartOf
  cases hr : readValue e with
  | blob bs f =>
    rw [hr] at hb
    simp only [blobValOk, Option.isSome_iff_exists] at hb
    obtain ⟨f', rfl⟩ := hb
    refine ⟨e.d.name, some (B64.encode bs), bs, f', rfl, rfl, fun h => ?_⟩
    obtain ⟨bs', f'', h1, h2, h3⟩ := hx h
    rw [hr] at h1
    cases h1
    exact ⟨h2, h3⟩
  | none =>
    refine ⟨e.d.name, none, [], [], ?_, rfl, fun h => ?_⟩
    · simp [noneBlobPart, blobPart', natStr_zero]
    · obtain ⟨bs', f'', h1, _, _⟩ := hx h
      rw [hr] at h1; cases h1
  | text t => rw [hr] at hv; cases hv
  | num q b => rw [hr] at hv; cases hv
  | other => rw [hr] at hv; cases hv

/-! ### delivery of the update to one peer -/

theorem canon_setBlobOf (dev vname state : Str) (tmo : Option Str) (ps : List Part) :
    C03.canon (setBlobOf dev vname state tmo ps) = setBlobOf dev vname state tmo (ps.map C03.canonPart) := by
  simp [C03.canon, C03.canonFields, C03.cv, setBlobOf, s]

theorem wire_setBlobOf (dev vname state : Str) (tmo : Option Str) (ps : List Part) (n : Str) (x : CVal)
    (hst : states.contains state = true) (hps : ∀ q ∈ ps, GoodFor n x q) :
    wire Generated.registry (setBlobOf dev vname state tmo ps) = some (setBlobOf dev vname state tmo (ps.map C03.canonPart)) := by
  have h := C03.msg_canon C03.regW_generated (m := setBlobOf dev vname state tmo ps)
    (valid_setBlob dev vname state tmo ps hst (fun q hq => (hps q hq).valid))
  unfold wire
  rw [h, canon_setBlobOf]

theorem isSetBlob_setBlobOf (dev vname state : Str) (tmo : Option Str) (ps : List Part) :
    isSetBlob (setBlobOf dev vname state tmo ps) = true := by
  simp [isSetBlob, setBlobOf]

/-- one arrival of the update at a peer that receives BLOBs and knows the element -/
theorem recv_setBlob (p : Peer) (dev vname state : Str) (tmo : Option Str) (ps : List Part) (n : Str) (x : CVal)
    (hst : states.contains state = true) (hps : ∀ q ∈ ps, GoodFor n x q)
    (hex : ∃ q ∈ ps, attr q.fields "name" = some n)
    (hb : p.blobs = true) (hK : Knows p.mirror dev vname n) :
    let p' := recv Generated.registry p (setBlobOf dev vname state tmo ps)
    p'.blobs = true ∧ p'.inproc = p.inproc ∧ Knows p'.mirror dev vname n ∧ mirrorElem p'.mirror dev vname n = some x := by
  intro p'
  have hp' : p' = recv Generated.registry p (setBlobOf dev vname state tmo ps) := rfl
  unfold recv at hp'
  simp only [isSetBlob_setBlobOf, hb, Bool.not_true, Bool.and_false, Bool.false_eq_true, if_false] at hp'
  cases hin : p.inproc with
  | true =>
    simp only [hin, if_true] at hp'
    obtain ⟨h1, h2⟩ := process_setBlob p.mirror dev vname state tmo ps n x hK (fun q hq => (hps q hq).decodes)
      (fun q hq hn => (hps q hq).val hn) hex
    rw [hp']
    exact ⟨rfl, rfl, h1, h2⟩
  | false =>
    simp only [hin, Bool.false_eq_true, if_false, wire_setBlobOf dev vname state tmo ps n x hst hps] at hp'
    have hps' : ∀ q ∈ ps.map C03.canonPart, GoodFor n x q := by
      intro q hq
      obtain ⟨q0, hq0, rfl⟩ := List.mem_map.1 hq
      exact (hps q0 hq0).canon
    have hex' : ∃ q ∈ ps.map C03.canonPart, attr q.fields "name" = some n := by
      obtain ⟨q, hq, hn⟩ := hex
      refine ⟨C03.canonPart q, List.mem_map.2 ⟨q, hq, rfl⟩, ?_⟩
      obtain ⟨nm, v, bs, f, rfl, _, _⟩ := hps q hq
      rw [canonPart_blobPart', attr_name_blobPart']
      rw [attr_name_blobPart'] at hn
      exact hn
    obtain ⟨h1, h2⟩ := process_setBlob p.mirror dev vname state tmo _ n x hK (fun q hq => (hps' q hq).decodes)
      (fun q hq hn => (hps' q hq).val hn) hex'
    rw [hp']
    exact ⟨rfl, rfl, h1, h2⟩

/-! ### schedules -/

theorem merges_nil_left {α : Type} (bs : List α) : merges [] bs = [bs] := by
  rw [merges]

theorem merges_one_one {α : Type} (a b : α) : merges [a] [b] = [[a, b], [b, a]] := by
  rw [merges, merges_nil_left, merges]
  rfl

/-- the schedules in which a single BLOB update reaches a peer: once, or twice -/
theorem arrivals_single (p : Peer) (m : Msg) (hm : isSetBlob m = true) :
    ∀ l ∈ arrivals p [m], l = [m] ∨ l = [m, m] := by
  intro l hl
  unfold arrivals at hl
  split at hl
  · simp at hl; exact Or.inl hl
  · split at hl
    · simp only [List.filter, hm, merges_one_one] at hl
      simp at hl; exact Or.inr hl
    · simp only [List.filter, hm, Bool.not_true, merges_nil_left] at hl
      simp at hl; exact Or.inl hl

theorem arrivals_nil (p : Peer) : arrivals p [] = [[]] := by
  unfold arrivals
  split
  · rfl
  · split <;> simp [merges_nil_left]


/-! ### what a synchronised mirror knows -/

def enabledElems (v : Vec) : List Dev.Elem := v.elems.filter (·.enabled)

/-- the keys and names of the mirror's elements are those of the enabled elements, in order -/
theorem vecShown_spec {blobs : Bool} {g : Group} {v : Vec} {c : CVec} (h : vecShown blobs g v c = true) :
    c.kind = vkind v.kind ∧ c.name = some v.name ∧ c.elems.length = (enabledElems v).length ∧
    ∀ (i : Nat) e ce, (enabledElems v)[i]? = some e → c.elems[i]? = some ce →
      ce.1 = some e.d.name ∧ ce.2.name = some e.d.name := by
  unfold vecShown at h
  simp only [Bool.and_eq_true, beq_iff_eq] at h
  obtain ⟨⟨⟨⟨h1, h2⟩, _⟩, _⟩, h5⟩ := h
  refine ⟨h1, h2, ?_⟩
  split at h5
  · simp only [Bool.and_eq_true, beq_iff_eq, List.all_eq_true] at h5
    refine ⟨h5.1, ?_⟩
    intro i e ce he hce
    have := h5.2 (e, ce) (List.mem_iff_getElem?.2 ⟨i, by rw [List.getElem?_zip_eq_some]; exact ⟨he, hce⟩⟩)
    exact ⟨this.1.1, this.1.2⟩
  · simp only [Bool.and_eq_true, beq_iff_eq, List.all_eq_true] at h5
    refine ⟨h5.2.1, ?_⟩
    intro i e ce he hce
    have := h5.2.2 (e, ce) (List.mem_iff_getElem?.2 ⟨i, by rw [List.getElem?_zip_eq_some]; exact ⟨he, hce⟩⟩)
    unfold elemShown at this
    simp only [Bool.and_eq_true, beq_iff_eq] at this
    exact ⟨this.1, this.2.1.1⟩

theorem mem_allVecs {d : Device} {gi vi : Nat} {g : Group} {v : Vec} (h : getVec d gi vi = some (g, v)) :
    (g, v) ∈ allVecs d := by
  obtain ⟨h1, h2⟩ := DevB.getVec_mem h
  unfold allVecs
  simp only [List.mem_flatten, List.mem_map]
  exact ⟨_, ⟨g, List.mem_of_getElem? h1, rfl⟩, List.mem_map.2 ⟨v, List.mem_of_getElem? h2, rfl⟩⟩

/-- a synchronised mirror has the entry of every enabled property -/
theorem synced_vec {blobs : Bool} {d : Device} {σ : Mirror} (h : synced blobs d σ = true)
    {g : Group} {v : Vec} (hgv : (g, v) ∈ allVecs d) (hen : vecEnabled g v = true) :
    ∃ cd c, olook (some d.name) σ = some cd ∧ olook (some v.name) cd.vecs = some c ∧ vecShown blobs g v c = true := by
  unfold synced at h
  split at h
  · rw [List.all_eq_true] at h
    have := h (g, v) hgv
    simp [hen] at this
  · rename_i cd hcd
    simp only [Bool.and_eq_true, List.all_eq_true] at h
    have := h.1 (g, v) hgv
    simp only [hen, if_true] at this
    split at this
    · rename_i c hc; exact ⟨cd, c, hcd, hc, this⟩
    · cases this

theorem olook_isSome_of_key {α : Type} (l : List (Option Str × α)) (i : Nat) (x : Option Str × α) (h : l[i]? = some x) :
    (olook x.1 l).isSome = true := by
  cases hl : olook x.1 l with
  | some y => rfl
  | none =>
    rw [olook_none_iff] at hl
    exact absurd (List.mem_map.2 ⟨x, List.mem_of_getElem? h, rfl⟩) hl

theorem synced_knows {blobs : Bool} {d : Device} {σ : Mirror} (h : synced blobs d σ = true)
    {gi vi : Nat} {g : Group} {v : Vec} (hgv : getVec d gi vi = some (g, v)) (hen : vecEnabled g v = true)
    (hk : v.kind = .blob) {e : Dev.Elem} (he : e ∈ v.elems) (hee : e.enabled = true) :
    Knows σ d.name v.name e.d.name := by
  obtain ⟨cd, c, h1, h2, h3⟩ := synced_vec h (mem_allVecs hgv) hen
  obtain ⟨k1, _, k3, k4⟩ := vecShown_spec h3
  refine ⟨cd, c, h1, h2, by rw [k1, hk]; rfl, ?_⟩
  have hmem : e ∈ enabledElems v := List.mem_filter.2 ⟨he, hee⟩
  obtain ⟨i, hi⟩ := List.mem_iff_getElem?.1 hmem
  obtain ⟨ce, hce⟩ := getElem?_some_of_length_eq k3 hi
  have := olook_isSome_of_key c.elems i ce hce
  rw [(k4 i e ce hi hce).1] at this
  exact this

/-- distinct keys among the selected members: positions are determined by key -/
theorem idx_of_nodup_filter {α β : Type} (p : α → Bool) (k : α → β) :
    ∀ (l : List α), ((l.filter p).map k).Nodup → ∀ (i j : Nat) a b, l[i]? = some a → l[j]? = some b →
      p a = true → p b = true → k a = k b → i = j
  | [], _, i, j, a, b, ha, _, _, _, _ => by simp at ha
  | x :: l, hn, i, j, a, b, ha, hb, pa, pb, hk => by
    have hn' : ((l.filter p).map k).Nodup := by
      rw [List.filter_cons] at hn
      split at hn
      · rw [List.map_cons, List.nodup_cons] at hn; exact hn.2
      · exact hn
    cases i with
    | zero =>
      cases j with
      | zero => rfl
      | succ j =>
        simp only [List.getElem?_cons_zero, Option.some.injEq] at ha
        simp only [List.getElem?_cons_succ] at hb
        subst ha
        rw [List.filter_cons, if_pos pa, List.map_cons, List.nodup_cons] at hn
        exact absurd (List.mem_map.2 ⟨b, List.mem_filter.2 ⟨List.mem_of_getElem? hb, pb⟩, hk.symm⟩) hn.1
    | succ i =>
      cases j with
      | zero =>
        simp only [List.getElem?_cons_zero, Option.some.injEq] at hb
        simp only [List.getElem?_cons_succ] at ha
        subst hb
        rw [List.filter_cons, if_pos pb, List.map_cons, List.nodup_cons] at hn
        exact absurd (List.mem_map.2 ⟨a, List.mem_filter.2 ⟨List.mem_of_getElem? ha, pa⟩, hk⟩) hn.1
      | succ j =>
        simp only [List.getElem?_cons_succ] at ha hb
        rw [idx_of_nodup_filter p k l hn' i j a b ha hb pa pb hk]

/-! ### the side conditions of C08 on the drivers -/

/-- what C08 needs of a BLOB property (other kinds: nothing) -/
def vecOk08 (v : Vec) : Bool :=
  v.kind != .blob ||
    -- (1) every enabled element's value carries a format (or is unset).  Why: the update lists ALL enabled
    -- elements; a `oneBLOB` without `format` makes `from_xml` raise TypeError (required keyword), the whole
    -- update is skipped by a network client and it never sees the new bytes
    -- (`C08_publish_needs_format` in Properties/C08.lean; C07's earlier finding).
    ((v.elems.all fun e => !e.enabled || blobValOk e.value) &&
    -- (2) enabled elements have distinct names.  Why: the client keeps the elements of a property in a dict keyed
    -- by name; of two children with the same name the later one overwrites what the earlier one stored
    -- (`C08_publish_needs_distinct_names`).
     decide ((enabledElems v).map (·.d.name)).Nodup)

/-- side conditions of C08 on the drivers: every driver is well-formed (`Spec.Dev.WF`: values are of their
element's kind - so every enabled BLOB element renders -, property names are distinct, states are valid - so
the update is a valid `setBLOBVector`), and `vecOk08` for every property.  Nothing is demanded of the bytes
stored in other elements, nor of device names. -/
def worldOk08 (devs : List Device) : Bool :=
  devs.all fun d => WF d && d.groups.all fun g => g.vecs.all vecOk08

theorem worldOk08_spec {devs : List Device} (h : worldOk08 devs = true) {d : Device} (hd : d ∈ devs)
    {gi vi : Nat} {g : Group} {v : Vec} (hv : getVec d gi vi = some (g, v)) :
    WF d = true ∧ vecOk v = true ∧ vecOk08 v = true := by
  unfold worldOk08 at h
  rw [List.all_eq_true] at h
  have h1 := h d hd
  simp only [Bool.and_eq_true, List.all_eq_true] at h1
  obtain ⟨k1, k2⟩ := DevB.getVec_mem hv
  exact ⟨h1.1, DevBResp.devOk_of_WF h1.1 gi vi g v hv,
    h1.2 g (List.mem_of_getElem? k1) v (List.mem_of_getElem? k2)⟩

theorem attr_name_blobPartOf (e : Dev.Elem) : attr (blobPartOf e).fields "name" = some e.d.name := by
  unfold blobPartOf
  split <;> simp [attr, alookup, blobPart, noneBlobPart, s]

/-- the vector after the assignment: every enabled element's part decodes, the assigned one to the new bytes -/
theorem parts_good (v : Vec) (ei : Nat) (e : Dev.Elem) (bs : List Nat) (f : Str)
    (he : v.elems[ei]? = some e) (hk : v.kind = .blob) (hok : vecOk v = true) (h08 : vecOk08 v = true)
    (hen : e.enabled = true) (hb : ∀ b ∈ bs, b < 256) :
    let v2 := asgV2 v ei e (.blob bs (some f))
    (∀ q ∈ (v2.elems.filter (·.enabled)).map blobPartOf, GoodFor e.d.name (.blob bs (some f)) q) ∧
    (∃ q ∈ (v2.elems.filter (·.enabled)).map blobPartOf, attr q.fields "name" = some e.d.name) := by
  intro v2
  have hc : checkValue v ei (.blob bs (some f)) = .ok (v, .blob bs (some f)) := by
    unfold checkValue; rw [hk]
  have ht : typeOk v.kind (.blob bs (some f)) = true := by rw [hk]; rfl
  have hvr : VR (fun _ _ _ _ => True) 0 0 v v2 := VR_asgV2 hc ht he (fun _ _ => trivial) trivial
  have hok2 := hvr.ok hok
  have hk2 : v2.kind = .blob := hvr.kind.trans hk
  simp only [vecOk08, hk, bne_self_eq_false, Bool.false_or, Bool.and_eq_true, List.all_eq_true, Bool.or_eq_true,
    Bool.not_eq_true', decide_eq_true_eq] at h08
  obtain ⟨hvals, hnd⟩ := h08
  have hlt : ei < v.elems.length := by
    rcases List.getElem?_eq_some_iff.1 he with ⟨h1, _⟩; exact h1
  have hrf : ∀ e' ∈ v.elems, e'.d.refresh = none := by
    intro e' he'
    have := DevB.vecOk_elems hok e' he'
    rw [hk] at this
    exact blob_noRefresh e' this
  -- the elements of v2
  have hel : ∀ (j : Nat) e', v2.elems[j]? = some e' →
      (j = ei ∧ e' = { e with value := .blob bs (some f) }) ∨ (j ≠ ei ∧ v.elems[j]? = some e') := by
    intro j e' hj
    simp only [v2, asgV2, he, Option.getD_some, List.getElem?_set] at hj
    by_cases hji : ei = j
    · subst hji
      simp only [if_true, hlt, Option.some.injEq] at hj
      exact Or.inl ⟨rfl, hj.symm⟩
    · simp only [hji, if_false] at hj
      exact Or.inr ⟨fun h => hji h.symm, hj⟩
  constructor
  · intro q hq
    obtain ⟨e', he', rfl⟩ := List.mem_map.1 hq
    obtain ⟨hm, hen'⟩ := List.mem_filter.1 he'
    obtain ⟨j, hj⟩ := List.mem_iff_getElem?.1 hm
    have hvo : valueOk .blob (readValue e') = true := by
      have := DevB.vecOk_elems hok2 e' hm
      rw [hk2] at this
      exact valueOk_readValue _ _ this
    rcases hel j e' hj with ⟨_, rfl⟩ | ⟨hne, hj'⟩
    · have hr : readValue { e with value := Value.blob bs (some f) } = .blob bs (some f) := by
        simp [readValue, hrf e (List.mem_of_getElem? he)]
      apply good_blobPartOf _ hvo
      · rw [hr]; rfl
      · intro _
        exact ⟨bs, f, hr, hb, rfl⟩
    · have hmem := List.mem_of_getElem? hj'
      have hr : readValue e' = e'.value := by simp [readValue, hrf e' hmem]
      have hne' : e'.d.name ≠ e.d.name := by
        intro hnm
        exact hne (idx_of_nodup_filter (·.enabled) (·.d.name) v.elems hnd j ei e' e hj' he hen' hen hnm)
      apply good_blobPartOf _ hvo
      · rw [hr]
        rcases hvals e' hmem with h | h
        · rw [h] at hen'; cases hen'
        · exact h
      · intro h; exact absurd h hne'
  · refine ⟨blobPartOf { e with value := .blob bs (some f) }, ?_, attr_name_blobPartOf _⟩
    apply List.mem_map.2
    refine ⟨{ e with value := .blob bs (some f) }, List.mem_filter.2 ⟨?_, hen⟩, rfl⟩
    apply List.mem_of_getElem? (i := ei)
    simp only [v2, asgV2, he, Option.getD_some, List.getElem?_set, if_true, hlt]


/-- delivery of a single BLOB update, along any schedule -/
theorem outcomes_setBlob (p : Peer) (dev vname state : Str) (tmo : Option Str) (ps : List Part) (n : Str) (x : CVal)
    (hst : states.contains state = true) (hps : ∀ q ∈ ps, GoodFor n x q)
    (hex : ∃ q ∈ ps, attr q.fields "name" = some n)
    (hK : p.blobs = true → Knows p.mirror dev vname n) :
    ∀ o ∈ outcomes Generated.registry p [setBlobOf dev vname state tmo ps],
      if p.blobs then mirrorElem o.mirror dev vname n = some x else o.mirror = p.mirror := by
  intro o ho
  unfold outcomes at ho
  obtain ⟨l, hl, rfl⟩ := List.mem_map.1 ho
  cases hb : p.blobs with
  | false =>
    have hr : ∀ q : Peer, q.blobs = false → recv Generated.registry q (setBlobOf dev vname state tmo ps) = q := by
      intro q hq
      simp [recv, isSetBlob_setBlobOf, hq]
    simp only [Bool.false_eq_true, if_false]
    rcases arrivals_single p _ (isSetBlob_setBlobOf dev vname state tmo ps) l hl with rfl | rfl
    · simp [deliver, hr p hb]
    · simp [deliver, hr p hb]
  | true =>
    simp only [if_true]
    have h1 := recv_setBlob p dev vname state tmo ps n x hst hps hex hb (hK hb)
    rcases arrivals_single p _ (isSetBlob_setBlobOf dev vname state tmo ps) l hl with rfl | rfl
    · exact h1.2.2.2
    · have h2 := recv_setBlob _ dev vname state tmo ps n x hst hps hex h1.1 h1.2.2.1
      exact h2.2.2.2

theorem samePeer_mirror {a b : Peer} (h : samePeer a b = true) : a.mirror = b.mirror := by
  simp only [samePeer, Bool.and_eq_true, beq_iff_eq] at h
  exact h.2

/-- **C08** (deployment), with the addressed element made explicit -/
theorem publish_core (w w' : World) (di : Nat) (d : Device) (a : Addr) (bs : List Nat) (f : Str)
    (hok : worldOk08 w.devs = true) (hs : allSynced w = true) (hd : w.devs[di]? = some d)
    (hb : ∀ b ∈ bs, b < 256)
    (g : Group) (v : Vec) (e : Dev.Elem) (hv : getVec d a.g a.v = some (g, v)) (he : v.elems[a.e]? = some e)
    (hk : v.kind = .blob)
    (hn : nextOk Generated.registry w (.driver di (.assign a (.blob bs (some f)))) w' = true) :
    ∀ pp ∈ w.peers.zip w'.peers, ∀ d', w'.devs[di]? = some d' →
      c08Holds pp.1.blobs d' a.g a.v a.e pp.1.mirror pp.2.mirror = true := by
  have hdm : d ∈ w.devs := List.mem_of_getElem? hd
  obtain ⟨hwf, hvok, h08⟩ := worldOk08_spec hok hdm hv
  obtain ⟨hdev, hmsgs⟩ := assign_blob d a bs (some f) g v e hv he hk hvok
  have hdi : di < w.devs.length := by
    rcases List.getElem?_eq_some_iff.1 hd with ⟨h1, _⟩; exact h1
  simp only [nextOk, react, hd, Dev.step, Bool.and_eq_true, sameDevs, beq_iff_eq, List.all_eq_true,
    List.any_eq_true] at hn
  obtain ⟨⟨hds, _⟩, hpeers⟩ := hn
  rintro ⟨p, p'⟩ hpp d' hd'
  rw [← hds, List.getElem?_set, if_pos rfl, if_pos hdi, Option.some.injEq] at hd'
  subst hd'
  obtain ⟨o, ho, hsame⟩ := hpeers (p, p') hpp
  have hpm := samePeer_mirror hsame
  -- the element after the assignment
  have hlt : a.e < v.elems.length := by
    rcases List.getElem?_eq_some_iff.1 he with ⟨h1, _⟩; exact h1
  have hrf : e.d.refresh = none := by
    have := DevB.vecOk_elems hvok e (List.mem_of_getElem? he)
    rw [hk] at this
    exact blob_noRefresh e this
  have hgv' := getVec_setVec_same (v' := asgV2 v a.e e (.blob bs (some f))) hv
  have he2 : (asgV2 v a.e e (.blob bs (some f))).elems[a.e]? = some { e with value := .blob bs (some f) } := by
    simp only [asgV2, he, Option.getD_some, List.getElem?_set, if_true, hlt]
  unfold c08Holds
  simp only [hdev, hgv', he2]
  cases hen : (vecEnabled g v && e.enabled) with
  | false =>
    have : (!vecEnabled { g with vecs := g.vecs.set a.v (asgV2 v a.e e (.blob bs (some f))) }
        (asgV2 v a.e e (.blob bs (some f))) || !e.enabled) = true := by
      simp only [Bool.and_eq_false_iff] at hen
      simp only [vecEnabled, asgV2] at hen ⊢
      rcases hen with h | h <;> simp [h]
    simp only [this, if_true]
  | true =>
    simp only [Bool.and_eq_true] at hen
    obtain ⟨hven, heen⟩ := hen
    have : (!vecEnabled { g with vecs := g.vecs.set a.v (asgV2 v a.e e (.blob bs (some f))) }
        (asgV2 v a.e e (.blob bs (some f))) || !e.enabled) = false := by
      simp only [vecEnabled, asgV2] at hven ⊢
      simp [hven, heen]
    simp only [this, Bool.false_eq_true, if_false, readValue, hrf]
    -- delivery
    rw [hmsgs, if_pos hven] at ho
    obtain ⟨hgood, hex⟩ := parts_good v a.e e bs f he hk hvok h08 heen hb
    have hK : p.blobs = true → Knows p.mirror d.name v.name e.d.name := by
      intro _
      simp only [allSynced, List.all_eq_true, peerSynced, Bool.and_eq_true] at hs
      have hp : p ∈ w.peers := (List.of_mem_zip hpp).1
      exact synced_knows ((hs p hp).1 d hdm) hv hven hk (List.mem_of_getElem? he) heen
    have hout := outcomes_setBlob p d.name v.name v.state v.timeout _ e.d.name (.blob bs (some f))
      (DevB.vecOk_state hvok) hgood hex hK o ho
    show (if p.blobs = true then _ else _) = true
    cases hpb : p.blobs with
    | true =>
      rw [hpb] at hout
      simp only [if_true] at hout ⊢
      rw [hpm]
      show (mirrorElem o.mirror d.name v.name e.d.name == _) = true
      rw [hout]; simp
    | false =>
      rw [hpb] at hout
      simp only [Bool.false_eq_true, if_false] at hout ⊢
      rw [hpm, hout]
      simp

end Indi.Sys
