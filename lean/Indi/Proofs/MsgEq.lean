/-
  Helper lemmas for C20: Python's `dict == dict` on association lists with
  unique keys, and the wire-view well-formedness predicate `Built`.
-/
import Indi.Model.Msg
import Batteries.Data.List.Perm

namespace Indi

/-! ### registry well-formedness (decidable; discharged on the generated table) -/

def scalarNames (c : ClassSpec) : List Str :=
  (c.fields.filter fun f => f.name ≠ s "children").map fun f => f.name

def hasChildren (c : ClassSpec) : Bool := c.fields.any fun f => f.name = s "children"

def childTags (c : ClassSpec) : List Str :=
  match c.fields.find? fun f => f.name = s "children" with
  | some { guard := .children tags, .. } => tags
  | _ => []

def classOk (c : ClassSpec) : Bool :=
  decide (scalarNames c).Nodup && !(scalarNames c).contains (s "_value") &&
    !(scalarNames c).contains (s "_children") && decide ((childTags c).length ≤ 1)

def regOk (reg : Registry) : Bool :=
  decide (reg.messages.map (·.tag)).Nodup && decide (reg.parts.map (·.tag)).Nodup &&
    reg.messages.all classOk && reg.parts.all classOk

def Part.Built (reg : Registry) (p : Part) : Prop :=
  ∃ c ∈ reg.parts, c.tag = p.tag ∧ p.fields.map Prod.fst = scalarNames c

def Msg.Built (reg : Registry) (m : Msg) : Prop :=
  ∃ c ∈ reg.messages, c.tag = m.tag ∧ m.fields.map Prod.fst = scalarNames c ∧
    (m.children.isSome = hasChildren c) ∧
    ∀ ps, m.children = some ps → ∀ p ∈ ps, p.tag ∈ childTags c ∧ Part.Built reg p

/-! ### association lists -/

theorem alookup_eq_some_of_mem {α : Type} {l : List (Str × α)} (hnd : (l.map Prod.fst).Nodup)
    {k : Str} {v : α} (h : (k, v) ∈ l) : alookup k l = some v := by
  induction l with
  | nil => cases h
  | cons x xs ih =>
    obtain ⟨k', v'⟩ := x
    simp only [List.map_cons, List.nodup_cons] at hnd
    simp only [alookup]
    rcases List.mem_cons.mp h with h | h
    · cases h; simp
    · have : k' ≠ k := by
        intro e; subst e
        exact hnd.1 (List.mem_map.mpr ⟨(k', v), h, rfl⟩)
      simp [this, ih hnd.2 h]

theorem mem_of_alookup_eq_some {α : Type} {l : List (Str × α)} {k : Str} {v : α}
    (h : alookup k l = some v) : (k, v) ∈ l := by
  induction l with
  | nil => simp [alookup] at h
  | cons x xs ih =>
    obtain ⟨k', v'⟩ := x
    simp only [alookup] at h
    split at h
    · cases h; subst_vars; simp
    · exact List.mem_cons_of_mem _ (ih h)

theorem nodup_of_keys_nodup {α : Type} {l : List (Str × α)} (h : (l.map Prod.fst).Nodup) : l.Nodup :=
  List.Pairwise.of_map Prod.fst (fun a b hab e => hab (by rw [e])) h

/-- `dict == dict`: with unique keys on both sides, the model of Python's
dictionary comparison holds exactly when the two lists have the same entries -/
theorem dictEq_iff {a b : List (Str × Str)} (ha : (a.map Prod.fst).Nodup) (hb : (b.map Prod.fst).Nodup) :
    dictEq a b = true ↔ a.Perm b := by
  constructor
  · intro h
    simp only [dictEq, Bool.and_eq_true, beq_iff_eq, List.all_eq_true] at h
    obtain ⟨hlen, hall⟩ := h
    have hsub : a ⊆ b := by
      intro x hx
      obtain ⟨k, v⟩ := x
      have := hall (k, v) hx
      exact mem_of_alookup_eq_some (by simpa using this)
    have hsp := List.subperm_of_subset (nodup_of_keys_nodup ha) hsub
    exact hsp.perm_of_length_le (by omega)
  · intro h
    simp only [dictEq, Bool.and_eq_true, beq_iff_eq, List.all_eq_true]
    refine ⟨h.length_eq, ?_⟩
    intro x hx
    obtain ⟨k, v⟩ := x
    simpa using alookup_eq_some_of_mem hb (h.subset hx)

end Indi

namespace Indi

/-! ### `to_dict` is injective on attribute lists with the same, duplicate-free key list -/

theorem presentAttrs_keys_sublist (f : List (Str × Option Str)) :
    ((presentAttrs f).map Prod.fst).Sublist (f.map Prod.fst) := by
  induction f with
  | nil => simp [presentAttrs]
  | cons x xs ih =>
    obtain ⟨k, v⟩ := x
    simp only [presentAttrs, List.filterMap_cons, List.map_cons] at ih ⊢
    split
    · exact List.Sublist.cons _ ih
    · rename_i y hy
      split at hy
      · cases hy
      · cases v with
        | none => cases hy
        | some w =>
          simp only [Option.map_some, Option.some.injEq] at hy
          subst hy
          exact List.Sublist.cons_cons _ ih

theorem mem_presentAttrs {f : List (Str × Option Str)} {k v : Str} :
    (k, v) ∈ presentAttrs f ↔ (k ≠ s "value" ∧ k ≠ s "children" ∧ (k, some v) ∈ f) := by
  simp only [presentAttrs, List.mem_filterMap]
  constructor
  · rintro ⟨⟨k', v'⟩, hmem, h⟩
    split at h
    · cases h
    · rename_i hk
      simp only [Bool.or_eq_true, decide_eq_true_eq, not_or] at hk
      cases v' with
      | none => cases h
      | some w =>
        simp only [Option.map_some, Option.some.injEq, Prod.mk.injEq] at h
        obtain ⟨rfl, rfl⟩ := h
        exact ⟨hk.1, hk.2, hmem⟩
  · rintro ⟨h1, h2, hmem⟩
    refine ⟨(k, some v), hmem, ?_⟩
    simp [h1, h2]

theorem valueOf_eq_some {f : List (Str × Option Str)} (hnd : (f.map Prod.fst).Nodup) {v : Str} :
    valueOf f = some v ↔ (s "value", some v) ∈ f := by
  unfold valueOf
  constructor
  · intro h
    split at h
    · rename_i w hw
      cases h
      exact mem_of_alookup_eq_some hw
    · cases h
  · intro h
    rw [alookup_eq_some_of_mem hnd h]

theorem mem_dictOf {f : List (Str × Option Str)} (hnd : (f.map Prod.fst).Nodup) {k v : Str} :
    (k, v) ∈ dictOf f ↔
      ((k ≠ s "value" ∧ k ≠ s "children" ∧ (k, some v) ∈ f) ∨ (k = s "_value" ∧ (s "value", some v) ∈ f)) := by
  unfold dictOf
  rw [List.mem_append, mem_presentAttrs]
  constructor
  · rintro (h | h)
    · exact Or.inl h
    · right
      split at h
      · rename_i w hw
        simp only [List.mem_singleton, Prod.mk.injEq] at h
        obtain ⟨rfl, rfl⟩ := h
        exact ⟨rfl, (valueOf_eq_some hnd).mp hw⟩
      · cases h
  · rintro (h | ⟨rfl, h⟩)
    · exact Or.inl h
    · right
      rw [(valueOf_eq_some hnd).mpr h]
      simp

theorem dictOf_keys_nodup {f : List (Str × Option Str)} (hnd : (f.map Prod.fst).Nodup)
    (hv : s "_value" ∉ f.map Prod.fst) : ((dictOf f).map Prod.fst).Nodup := by
  unfold dictOf
  rw [List.map_append, List.nodup_append]
  refine ⟨hnd.sublist (presentAttrs_keys_sublist f), ?_, ?_⟩
  · split <;> simp
  · intro a ha b hb
    split at hb
    · simp only [List.map_cons, List.map_nil, List.mem_singleton] at hb
      subst hb
      intro e; subst e
      exact hv ((presentAttrs_keys_sublist f).subset ha)
    · simp at hb

theorem fields_eq_of_present_iff :
    ∀ (ks : List Str) (fa fb : List (Str × Option Str)),
      fa.map Prod.fst = ks → fb.map Prod.fst = ks → ks.Nodup →
      (∀ k v, (k, some v) ∈ fa ↔ (k, some v) ∈ fb) → fa = fb := by
  intro ks
  induction ks with
  | nil =>
    intro fa fb ha hb _ _
    simp only [List.map_eq_nil_iff] at ha hb
    rw [ha, hb]
  | cons k ks ih =>
    intro fa fb ha hb hnd h
    cases fa with
    | nil => simp at ha
    | cons xa ra =>
      cases fb with
      | nil => simp at hb
      | cons xb rb =>
        obtain ⟨ka, va⟩ := xa
        obtain ⟨kb, vb⟩ := xb
        simp only [List.map_cons, List.cons.injEq] at ha hb
        obtain ⟨rfl, ha⟩ := ha
        obtain ⟨rfl, hb⟩ := hb
        simp only [List.nodup_cons] at hnd
        have hka : ∀ v, (kb, v) ∉ ra := fun v hm => hnd.1 (ha ▸ List.mem_map.mpr ⟨(kb, v), hm, rfl⟩)
        have hkb : ∀ v, (kb, v) ∉ rb := fun v hm => hnd.1 (hb ▸ List.mem_map.mpr ⟨(kb, v), hm, rfl⟩)
        have hv : va = vb := by
          cases va with
          | none =>
            cases vb with
            | none => rfl
            | some y =>
              have := (h kb y).mpr (List.mem_cons_self)
              rcases List.mem_cons.mp this with e | e
              · cases e
              · exact absurd e (hka _)
          | some x =>
            have := (h kb x).mp (List.mem_cons_self)
            rcases List.mem_cons.mp this with e | e
            · simp only [Prod.mk.injEq, true_and] at e; exact e
            · exact absurd e (hkb _)
        subst hv
        congr 1
        apply ih ra rb ha hb hnd.2
        intro k' v'
        constructor
        · intro hm
          have := (h k' v').mp (List.mem_cons_of_mem _ hm)
          rcases List.mem_cons.mp this with e | e
          · simp only [Prod.mk.injEq] at e
            obtain ⟨rfl, _⟩ := e
            exact absurd hm (hka _)
          · exact e
        · intro hm
          have := (h k' v').mpr (List.mem_cons_of_mem _ hm)
          rcases List.mem_cons.mp this with e | e
          · simp only [Prod.mk.injEq] at e
            obtain ⟨rfl, _⟩ := e
            exact absurd hm (hkb _)
          · exact e

/-- the dictionaries `to_dict` builds from two attribute lists over the same
duplicate-free key list compare equal exactly when the lists are equal -/
theorem dictEq_dictOf_iff {ks : List Str} {fa fb : List (Str × Option Str)}
    (ha : fa.map Prod.fst = ks) (hb : fb.map Prod.fst = ks) (hnd : ks.Nodup)
    (hv : s "_value" ∉ ks) (hc : s "children" ∉ ks) :
    dictEq (dictOf fa) (dictOf fb) = true ↔ fa = fb := by
  have hnda : (fa.map Prod.fst).Nodup := ha ▸ hnd
  have hndb : (fb.map Prod.fst).Nodup := hb ▸ hnd
  have hva : s "_value" ∉ fa.map Prod.fst := ha ▸ hv
  have hvb : s "_value" ∉ fb.map Prod.fst := hb ▸ hv
  constructor
  · intro h
    have hp := (dictEq_iff (dictOf_keys_nodup hnda hva) (dictOf_keys_nodup hndb hvb)).mp h
    apply fields_eq_of_present_iff ks fa fb ha hb hnd
    have key : ∀ (f g : List (Str × Option Str)), f.map Prod.fst = ks → g.map Prod.fst = ks →
        (dictOf f ⊆ dictOf g) → ∀ k v, (k, some v) ∈ f → (k, some v) ∈ g := by
      intro f g hf hg hsub k v hm
      have hfn : (f.map Prod.fst).Nodup := hf ▸ hnd
      have hgn : (g.map Prod.fst).Nodup := hg ▸ hnd
      have hk : k ∈ ks := hf ▸ List.mem_map.mpr ⟨(k, some v), hm, rfl⟩
      have hk1 : k ≠ s "_value" := fun e => hv (e ▸ hk)
      have hk2 : k ≠ s "children" := fun e => hc (e ▸ hk)
      by_cases hkv : k = s "value"
      · subst hkv
        have : (s "_value", v) ∈ dictOf f := (mem_dictOf hfn).mpr (Or.inr ⟨rfl, hm⟩)
        rcases (mem_dictOf hgn).mp (hsub this) with ⟨_, _, h3⟩ | ⟨_, h2⟩
        · exact absurd (hg ▸ List.mem_map.mpr ⟨(s "_value", some v), h3, rfl⟩) hv
        · exact h2
      · have : (k, v) ∈ dictOf f := (mem_dictOf hfn).mpr (Or.inl ⟨hkv, hk2, hm⟩)
        rcases (mem_dictOf hgn).mp (hsub this) with ⟨_, _, h3⟩ | ⟨h1, _⟩
        · exact h3
        · exact absurd h1 hk1
    intro k v
    exact ⟨key fa fb ha hb hp.subset k v, key fb fa hb ha hp.symm.subset k v⟩
  · intro h
    subst h
    exact (dictEq_iff (dictOf_keys_nodup hnda hva) (dictOf_keys_nodup hnda hva)).mpr (List.Perm.refl _)

end Indi
