/-
  Helper lemmas for C10 (number rendering / parsing): digits, `spanDigits`, `pyStrip`,
  `splitFields`, the grammar `Shape` shared by `numberCore`, `strToNumCore` and `denote`,
  the shape of what `render` produces, and the rational arithmetic of the error bounds.
-/
import Indi.Spec.Num
import Mathlib.Tactic.Linarith
import Mathlib.Tactic.Positivity
import Mathlib.Tactic.NormNum
import Mathlib.Tactic.Ring
import Mathlib.Tactic.FieldSimp
import Mathlib.Algebra.Order.Field.Rat

namespace Indi.Num
open Indi Indi.Spec.Num

/-! ## part NumC -/

theorem absR_le {x b : Rat} : absR x ≤ b ↔ (-b ≤ x ∧ x ≤ b) := by
  unfold absR; split
  · exact ⟨fun h => ⟨by linarith, by linarith⟩, fun h => by linarith [h.1, h.2]⟩
  · exact ⟨fun h => ⟨by linarith, by linarith⟩, fun h => by linarith [h.1, h.2]⟩

theorem absR_lt {x b : Rat} : absR x < b ↔ (-b < x ∧ x < b) := by
  unfold absR; split
  · exact ⟨fun h => ⟨by linarith, by linarith⟩, fun h => by linarith [h.1, h.2]⟩
  · exact ⟨fun h => ⟨by linarith, by linarith⟩, fun h => by linarith [h.1, h.2]⟩

theorem absR_nonneg (x : Rat) : 0 ≤ absR x := by
  unfold absR; split <;> linarith

theorem ratAbs_eq (x : Rat) : ratAbs x = absR x := rfl

theorem rhe_bounds (r : Rat) : (rhe r : Rat) - r ≤ 1/2 ∧ r - (rhe r : Rat) ≤ 1/2 := by
  have h1 := Rat.floor_le r
  have h2 := Rat.lt_floor_add_one r
  push_cast at h2
  unfold rhe
  simp only
  split
  · constructor <;> linarith
  · split
    · push_cast; constructor <;> linarith
    · split
      · constructor <;> linarith
      · push_cast; constructor <;> linarith

theorem rhe_nonneg {r : Rat} (h : 0 ≤ r) : 0 ≤ rhe r := by
  have h0 : (0 : Int) ≤ r.floor := Rat.le_floor_iff.mpr (by simpa using h)
  unfold rhe
  simp only
  split
  · exact h0
  · split
    · omega
    · split <;> omega


/-! ## part NumA -/

/-! ### ASCII digits -/

/-- the ten ASCII digit characters -/
def AD (c : Char) : Prop := ∃ d, d < 10 ∧ c = Char.ofNat (48 + d)

def Digs (ds : Str) : Prop := ∀ c ∈ ds, pyIsDigit c = true
def ADs (ds : Str) : Prop := ∀ c ∈ ds, AD c

theorem ad_facts : ∀ d, d < 10 →
    pyIsDigit (Char.ofNat (48 + d)) = true ∧ digitVal (Char.ofNat (48 + d)) = d ∧
    pyIsSpace (Char.ofNat (48 + d)) = false := by
  decide +kernel

theorem AD.isDigit {c} (h : AD c) : pyIsDigit c = true := by
  obtain ⟨d, hd, rfl⟩ := h; exact (ad_facts d hd).1
theorem AD.noSpace {c} (h : AD c) : pyIsSpace c = false := by
  obtain ⟨d, hd, rfl⟩ := h; exact (ad_facts d hd).2.2
theorem digitVal_ofNat {d} (hd : d < 10) : digitVal (Char.ofNat (48 + d)) = d := (ad_facts d hd).2.1
theorem AD_ofNat {d} (hd : d < 10) : AD (Char.ofNat (48 + d)) := ⟨d, hd, rfl⟩
theorem AD_zero : AD '0' := ⟨0, by decide, rfl⟩

theorem ADs.digs {ds} (h : ADs ds) : Digs ds := fun c hc => (h c hc).isDigit

theorem Digs.append {a b} (ha : Digs a) (hb : Digs b) : Digs (a ++ b) := by
  intro c hc; rcases List.mem_append.mp hc with h | h
  · exact ha c h
  · exact hb c h
theorem ADs.append {a b} (ha : ADs a) (hb : ADs b) : ADs (a ++ b) := by
  intro c hc; rcases List.mem_append.mp hc with h | h
  · exact ha c h
  · exact hb c h
theorem ADs_replicate (k : Nat) : ADs (List.replicate k '0') := by
  intro c hc; rw [(List.mem_replicate.mp hc).2]; exact AD_zero
theorem Digs_nil : Digs [] := by intro c hc; cases hc
theorem ADs_nil : ADs [] := by intro c hc; cases hc
theorem Digs_cons {a ds} : Digs (a :: ds) ↔ pyIsDigit a = true ∧ Digs ds := by
  simp [Digs]

/-! ### digitsVal -/

theorem digitsVal_append_single (ds : Str) (c : Char) :
    digitsVal (ds ++ [c]) = digitsVal ds * 10 + digitVal c := by
  simp [digitsVal, List.foldl_append]

theorem foldl_zeros (k : Nat) : (List.replicate k '0').foldl (fun acc c => acc * 10 + digitVal c) 0 = 0 := by
  induction k with
  | zero => rfl
  | succ k ih =>
    rw [List.replicate_succ, List.foldl_cons]
    have : digitVal '0' = 0 := by decide +kernel
    simpa [this] using ih

theorem digitsVal_zeros_append (k : Nat) (ds : Str) : digitsVal (List.replicate k '0' ++ ds) = digitsVal ds := by
  unfold digitsVal; rw [List.foldl_append, foldl_zeros]

theorem natDigitsAux_spec : ∀ fuel n acc, n < fuel →
    ∃ ds, natDigitsAux fuel n acc = ds ++ acc ∧ ds ≠ [] ∧ ADs ds ∧ digitsVal ds = n ∧
      (∀ w, 0 < w → n < 10 ^ w → ds.length ≤ w) ∧ (n < 10 → ds.length = 1) := by
  intro fuel
  induction fuel with
  | zero => intro n acc h; omega
  | succ fuel ih =>
    intro n acc h
    unfold natDigitsAux
    simp only
    split
    · rename_i h10
      refine ⟨[Char.ofNat (48 + n % 10)], rfl, by simp, ?_, ?_, ?_, fun _ => rfl⟩
      · intro c hc; simp at hc; subst hc; exact AD_ofNat (by omega)
      · simp [digitsVal]; rw [digitVal_ofNat (by omega)]; omega
      · intro w hw _; simp; omega
    · rename_i h10
      obtain ⟨ds, h1, h2, h3, h4, h5, _⟩ := ih (n / 10) (Char.ofNat (48 + n % 10) :: acc) (by omega)
      refine ⟨ds ++ [Char.ofNat (48 + n % 10)], by simp [h1], by simp, ?_, ?_, ?_, fun h => absurd h h10⟩
      · exact h3.append (by intro c hc; simp at hc; subst hc; exact AD_ofNat (by omega))
      · rw [digitsVal_append_single, h4, digitVal_ofNat (by omega)]; omega
      · intro w hw hn
        match w, hw with
        | 1, _ => omega
        | w + 2, _ =>
          have := h5 (w + 1) (by omega) (by rw [Nat.pow_succ] at hn; omega)
          simp; omega

theorem natDigits_spec (n : Nat) :
    natDigits n ≠ [] ∧ ADs (natDigits n) ∧ digitsVal (natDigits n) = n ∧
      (∀ w, 0 < w → n < 10 ^ w → (natDigits n).length ≤ w) ∧ (n < 10 → (natDigits n).length = 1) := by
  obtain ⟨ds, h1, h2, h3, h4, h5, h6⟩ := natDigitsAux_spec (n + 1) n [] (by omega)
  unfold natDigits; rw [h1, List.append_nil]; exact ⟨h2, h3, h4, h5, h6⟩

theorem natDigits_ne (n) : natDigits n ≠ [] := (natDigits_spec n).1
theorem natDigits_ads (n) : ADs (natDigits n) := (natDigits_spec n).2.1
theorem natDigits_val (n) : digitsVal (natDigits n) = n := (natDigits_spec n).2.2.1
theorem natDigits_len1 {n} (h : n < 10) : (natDigits n).length = 1 := (natDigits_spec n).2.2.2.2 h

theorem padDigits_ne (w n) : padDigits w n ≠ [] := by
  unfold padDigits; simp [natDigits_ne]
theorem padDigits_ads (w n) : ADs (padDigits w n) := by
  unfold padDigits; exact (ADs_replicate _).append (natDigits_ads n)
theorem padDigits_val (w n) : digitsVal (padDigits w n) = n := by
  unfold padDigits; simp only; rw [digitsVal_zeros_append, natDigits_val]
theorem padDigits_len {w n} (hw : 0 < w) (hn : n < 10 ^ w) : (padDigits w n).length = w := by
  have := (natDigits_spec n).2.2.2.1 w hw hn
  unfold padDigits; simp; omega
/-- `padDigits w n` is some zeros followed by `natDigits n` -/
theorem padDigits_shape (w n) : ∃ k, padDigits w n = List.replicate k '0' ++ natDigits n := ⟨_, rfl⟩

theorem padDigits2 {n} (hn : n < 100) : ∃ a b, padDigits 2 n = [a, b] ∧ AD a ∧ AD b := by
  have hl := padDigits_len (w := 2) (by omega) (by omega : n < 10 ^ 2)
  have ha := padDigits_ads 2 n
  match h : padDigits 2 n, hl with
  | [a, b], _ =>
    rw [h] at ha
    exact ⟨a, b, rfl, ha a (by simp), ha b (by simp)⟩

/-! ## part NumB -/

/-! ### characters that are not digits -/

theorem digit_ne {c : Char} (h : pyIsDigit c = true) :
    c ≠ '.' ∧ c ≠ '-' ∧ c ≠ '+' ∧ isSep c = false ∧ isSexaSep c = false := by
  have h1 : pyIsDigit '.' = false := by decide +kernel
  have h2 : pyIsDigit '-' = false := by decide +kernel
  have h3 : pyIsDigit '+' = false := by decide +kernel
  have h4 : pyIsDigit ':' = false := by decide +kernel
  have h5 : pyIsDigit ';' = false := by decide +kernel
  have h6 : pyIsDigit ' ' = false := by decide +kernel
  refine ⟨?_, ?_, ?_, ?_, ?_⟩
  · rintro rfl; simp [h1] at h
  · rintro rfl; simp [h2] at h
  · rintro rfl; simp [h3] at h
  · simp only [isSep, Bool.or_eq_false_iff, decide_eq_false_iff_not]
    refine ⟨⟨?_, ?_⟩, ?_⟩ <;> rintro rfl <;> simp_all
  · simp only [isSexaSep, Bool.or_eq_false_iff, decide_eq_false_iff_not]
    refine ⟨⟨?_, ?_⟩, ?_⟩ <;> rintro rfl <;> simp_all

theorem isSexaSep_eq (c : Char) : isSexaSep c = isSep c := rfl

theorem sep_facts {c : Char} (h : isSexaSep c = true) : pyIsDigit c = false ∧ c ≠ '.' := by
  simp only [isSexaSep, Bool.or_eq_true, decide_eq_true_eq] at h
  rcases h with (rfl | rfl) | rfl <;> exact ⟨by decide +kernel, by decide⟩

theorem dot_facts : pyIsDigit '.' = false ∧ isSep '.' = false ∧ isSexaSep '.' = false := by
  refine ⟨by decide +kernel, by decide, by decide⟩

/-! ### spanDigits -/

theorem spanDigits_nil : spanDigits [] = ([], []) := rfl

theorem spanDigits_nohead {c : Char} {r : Str} (h : pyIsDigit c = false) :
    spanDigits (c :: r) = ([], c :: r) := by
  simp [spanDigits, h]

theorem spanDigits_append {ds rest : Str} (hd : Digs ds) (hr : spanDigits rest = ([], rest)) :
    spanDigits (ds ++ rest) = (ds, rest) := by
  induction ds with
  | nil => simpa using hr
  | cons a ds ih =>
    have ⟨ha, hds⟩ := Digs_cons.mp hd
    simp [spanDigits, ha, ih hds]

theorem spanDigits_digs {ds : Str} (hd : Digs ds) : spanDigits ds = (ds, []) := by
  simpa using spanDigits_append (rest := []) hd rfl

theorem spanDigits_inv : ∀ (x : Str) {d r : Str}, spanDigits x = (d, r) →
    x = d ++ r ∧ Digs d ∧ (r = [] ∨ ∃ c r', r = c :: r' ∧ pyIsDigit c = false) := by
  intro x
  induction x with
  | nil => intro d r h; simp [spanDigits] at h; obtain ⟨rfl, rfl⟩ := h; exact ⟨rfl, Digs_nil, Or.inl rfl⟩
  | cons a x ih =>
    intro d r h
    unfold spanDigits at h
    split at h
    · rename_i ha
      obtain ⟨h1, h2, h3⟩ := ih (d := (spanDigits x).1) (r := (spanDigits x).2) rfl
      simp only [Prod.mk.injEq] at h
      obtain ⟨rfl, rfl⟩ := h
      refine ⟨by simp [← h1], Digs_cons.mpr ⟨ha, h2⟩, h3⟩
    · rename_i ha
      simp only [Prod.mk.injEq] at h
      obtain ⟨rfl, rfl⟩ := h
      exact ⟨rfl, Digs_nil, Or.inr ⟨a, x, rfl, by simpa using ha⟩⟩

theorem spanDigits_eq (x : Str) : spanDigits x = (x.takeWhile pyIsDigit, x.dropWhile pyIsDigit) := by
  induction x with
  | nil => rfl
  | cons a x ih =>
    unfold spanDigits
    by_cases ha : pyIsDigit a = true
    · simp [ha, ih]
    · simp [ha]

/-! ### pyStrip -/

def NoSpace (x : Str) : Prop := ∀ c ∈ x, pyIsSpace c = false

theorem dropSpaces_noSpace {x : Str} (h : NoSpace x) : dropSpaces x = x := by
  cases x with
  | nil => rfl
  | cons a x => simp [dropSpaces, h a (by simp)]

theorem dropSpaces_replicate (k : Nat) (x : Str) : dropSpaces (List.replicate k ' ' ++ x) = dropSpaces x := by
  induction k with
  | zero => rfl
  | succ k ih =>
    have : pyIsSpace ' ' = true := by decide +kernel
    simp [List.replicate_succ, dropSpaces, this, ih]

theorem pyStrip_pad {x : Str} (h : NoSpace x) (a b : Nat) :
    pyStrip (List.replicate a ' ' ++ x ++ List.replicate b ' ') = x := by
  have hr : NoSpace x.reverse := fun c hc => h c (List.mem_reverse.mp hc)
  unfold pyStrip
  rw [List.append_assoc, dropSpaces_replicate]
  cases x with
  | nil =>
    simp only [List.nil_append]
    have := dropSpaces_replicate b []
    simp only [List.append_nil] at this
    rw [this]; rfl
  | cons c x =>
    rw [show dropSpaces (c :: x ++ List.replicate b ' ') = c :: x ++ List.replicate b ' ' by
      simp [dropSpaces, h c (by simp)]]
    rw [List.reverse_append, List.reverse_replicate, dropSpaces_replicate, dropSpaces_noSpace hr,
      List.reverse_reverse]

theorem pyStrip_noSpace {x : Str} (h : NoSpace x) : pyStrip x = x := by
  simpa using pyStrip_pad h 0 0

/-! ### splitFields -/

def NoSep (x : Str) : Prop := ∀ c ∈ x, isSep c = false

theorem splitFields_noSep {f : Str} (h : NoSep f) : splitFields f = [f] := by
  induction f with
  | nil => rfl
  | cons a f ih =>
    have := ih (fun c hc => h c (by simp [hc]))
    simp [splitFields, this, h a (by simp)]

theorem splitFields_cons {c : Char} {cs f : Str} {fs : List Str} (h : splitFields cs = f :: fs) :
    splitFields (c :: cs) = if isSep c then [] :: f :: fs else (c :: f) :: fs := by
  rw [splitFields, h]

theorem splitFields_ne (x : Str) : ∃ f fs, splitFields x = f :: fs := by
  induction x with
  | nil => exact ⟨_, _, rfl⟩
  | cons a x ih =>
    obtain ⟨f, fs, h⟩ := ih
    rw [splitFields_cons h]; split <;> exact ⟨_, _, rfl⟩

theorem splitFields_sep {f : Str} (h : NoSep f) {c : Char} (hc : isSep c = true) (rest : Str) :
    splitFields (f ++ c :: rest) = f :: splitFields rest := by
  induction f with
  | nil =>
    obtain ⟨f, fs, h'⟩ := splitFields_ne rest
    simp only [List.nil_append]
    rw [splitFields_cons h', h']
    simp [hc]
  | cons a f ih =>
    have := ih (fun c hc => h c (by simp [hc]))
    simp only [List.cons_append]
    rw [splitFields_cons this]
    simp [h a (by simp)]

theorem Digs.noSep {d : Str} (h : Digs d) : NoSep d := fun c hc => (digit_ne (h c hc)).2.2.2.1

/-! ## part NumS -/

/-! ### the three readers after the sign has been split off -/

def stripSign (x : Str) : Bool × Str :=
  match x with
  | '-' :: r => (true, r)
  | '+' :: r => (false, r)
  | r => (false, r)

def numberBody (body : Str) : Bool :=
  let (d, r) := spanDigits body
  if d.isEmpty then
    match r with
    | '.' :: r' => let (d', r'') := spanDigits r'; !d'.isEmpty && r''.isEmpty
    | _ => false
  else
    match r with
    | [] => true
    | '.' :: r' => let (_, r'') := spanDigits r'; r''.isEmpty
    | c :: r' =>
      if isSexaSep c then
        match twoDigits r' with
        | none => false
        | some r2 =>
          match r2 with
          | [] => true
          | '.' :: _ => optFracEnd r2
          | c2 :: r3 =>
            if isSexaSep c2 then
              match twoDigits r3 with
              | none => false
              | some r4 => optFracEnd r4
            else false
      else false

theorem stripSign_other {x : Str} (h1 : ∀ r, x = '-' :: r → False) (h2 : ∀ r, x = '+' :: r → False) :
    stripSign x = (false, x) := by
  unfold stripSign
  split
  · exact absurd rfl (h1 _)
  · exact absurd rfl (h2 _)
  · rfl

theorem numberCore_eq (x : Str) : numberCore x = numberBody (stripSign x).2 := by
  unfold numberCore
  split
  · rfl
  · rfl
  · rename_i h1 h2; rw [stripSign_other h1 h2]; rfl

def strBody (A : Arith) (neg : Bool) (body : Str) : Outcome NumVal :=
  match sexaVal body with
  | some mag => .ok (.float (A.fl (if neg then -mag else mag)))
  | none =>
    let (d, r) := spanDigits body
    if !d.isEmpty && r.isEmpty then .ok (.int (if neg then -(digitsVal d : Int) else digitsVal d))
    else
      match r with
      | '.' :: fr =>
        let (f, r') := spanDigits fr
        if r'.isEmpty && (!d.isEmpty || !f.isEmpty) then
          let mag := decimalVal d f
          .ok (.float (A.fl (if neg then -mag else mag)))
        else .valueError
      | _ => .valueError

theorem strToNumCore_eq (A : Arith) (x : Str) :
    strToNumCore A x = strBody A (stripSign x).1 (stripSign x).2 := by
  unfold strToNumCore
  split
  rename_i neg body heq
  split at heq
  · cases heq; rfl
  · cases heq; rfl
  · rename_i h1 h2; cases heq; rw [stripSign_other h1 h2]; rfl

def denBody (neg : Bool) (body : Str) : Option Rat :=
  let mag : Option Rat :=
    match (splitFields body).map fieldVal with
    | [some a] => some a
    | [some a, some b] => some (a + b / 60)
    | [some a, some b, some c] => some (a + b / 60 + c / 3600)
    | _ => none
  mag.map fun m => if neg then -m else m

theorem denote_eq (x : Str) : denote x = denBody (stripSign x).1 (stripSign x).2 := by
  unfold denote
  split
  rename_i neg body heq
  split at heq
  · cases heq; rfl
  · cases heq; rfl
  · rename_i h1 h2; cases heq; rw [stripSign_other h1 h2]; rfl

theorem stripSign_neg (body : Str) : stripSign ('-' :: body) = (true, body) := rfl
theorem stripSign_pos (body : Str) : stripSign ('+' :: body) = (false, body) := rfl
theorem stripSign_body {body : Str} (h : ∀ c r, body = c :: r → c ≠ '-' ∧ c ≠ '+') :
    stripSign body = (false, body) := by
  apply stripSign_other
  · intro r hr; exact (h _ _ hr).1 rfl
  · intro r hr; exact (h _ _ hr).2 rfl

/-! ### fields -/

theorem fieldVal_digs {d : Str} (hd : Digs d) (hne : d ≠ []) : fieldVal d = some (digitsVal d) := by
  have := spanDigits_eq d
  rw [spanDigits_digs hd] at this
  obtain ⟨h1, h2⟩ := Prod.mk.inj this
  unfold fieldVal
  simp only [← h1, ← h2]
  simp [hne]

theorem fieldVal_dec {d f : Str} (hd : Digs d) (hf : Digs f) (hne : d ≠ [] ∨ f ≠ []) :
    fieldVal (d ++ '.' :: f) = some (decimalVal d f) := by
  have := spanDigits_eq (d ++ '.' :: f)
  rw [spanDigits_append hd (spanDigits_nohead dot_facts.1)] at this
  obtain ⟨h1, h2⟩ := Prod.mk.inj this
  unfold fieldVal
  simp only [← h1, ← h2]
  have : (f.all pyIsDigit) = true := List.all_eq_true.mpr hf
  simp only [this, Bool.true_and]
  rcases hne with h | h <;> simp [h]

/-- last field `dd` or `dd.d+` -/
inductive LF (a b : Char) : Str → Rat → Prop
  | plain : LF a b [] (digitsVal [a, b])
  | frac (f : Str) (hf : Digs f) (hne : f ≠ []) : LF a b ('.' :: f) (decimalVal [a, b] f)

theorem Digs_two {a b : Char} (ha : pyIsDigit a = true) (hb : pyIsDigit b = true) : Digs [a, b] := by
  intro c hc; simp at hc; rcases hc with rfl | rfl <;> assumption

theorem LF.lastField {a b t v} (h : LF a b t v) (ha : pyIsDigit a = true) (hb : pyIsDigit b = true) :
    lastField (a :: b :: t) = some v := by
  cases h with
  | plain => simp [Num.lastField, ha, hb]
  | frac f hf hne => simp [Num.lastField, ha, hb, spanDigits_digs hf, hne]

theorem LF.fieldVal {a b t v} (h : LF a b t v) (ha : pyIsDigit a = true) (hb : pyIsDigit b = true) :
    fieldVal (a :: b :: t) = some v := by
  cases h with
  | plain => exact fieldVal_digs (Digs_two ha hb) (by simp)
  | frac f hf hne => exact fieldVal_dec (d := [a, b]) (Digs_two ha hb) hf (Or.inr hne)

theorem LF.optFracEnd {a b t v} (h : LF a b t v) : optFracEnd t = true := by
  cases h with
  | plain => rfl
  | frac f hf hne => simp [Indi.optFracEnd, spanDigits_digs hf, hne]

theorem LF.noSep {a b t v} (h : LF a b t v) (ha : pyIsDigit a = true) (hb : pyIsDigit b = true) :
    NoSep (a :: b :: t) := by
  cases h with
  | plain => exact (Digs_two ha hb).noSep
  | frac f hf hne =>
    intro c hc
    simp only [List.mem_cons] at hc
    rcases hc with rfl | rfl | rfl | hc
    · exact (digit_ne ha).2.2.2.1
    · exact (digit_ne hb).2.2.2.1
    · exact dot_facts.2.1
    · exact hf.noSep c hc

theorem LF.of_optFracEnd {t : Str} (h : Indi.optFracEnd t = true) (a b : Char) : ∃ v, LF a b t v := by
  unfold Indi.optFracEnd at h
  split at h
  · exact ⟨_, .plain⟩
  · rename_i rest
    obtain ⟨h1, h2, h3⟩ := spanDigits_inv rest (d := (spanDigits rest).1) (r := (spanDigits rest).2) rfl
    simp only [Bool.and_eq_true, Bool.not_eq_true', List.isEmpty_iff] at h
    rw [h.2, List.append_nil] at h1
    rw [h1]
    exact ⟨_, .frac _ h2 (by simpa using h.1)⟩
  · cases h

/-- the bodies (text after the sign) of the number grammar, with the integer they denote (if of
the integer form) and the magnitude they denote -/
inductive Shape : Str → Option Nat → Rat → Prop
  | int (d : Str) (hd : Digs d) (hne : d ≠ []) : Shape d (some (digitsVal d)) (digitsVal d)
  | dec (d f : Str) (hd : Digs d) (hf : Digs f) (hne : d ≠ [] ∨ f ≠ []) :
      Shape (d ++ '.' :: f) none (decimalVal d f)
  | s2 (d : Str) (c a b : Char) (t : Str) (v : Rat) (hd : Digs d) (hne : d ≠ [])
      (hc : isSexaSep c = true) (ha : pyIsDigit a = true) (hb : pyIsDigit b = true) (ht : LF a b t v) :
      Shape (d ++ c :: a :: b :: t) none ((digitsVal d : Rat) + v / 60)
  | s3 (d : Str) (c a b c2 a2 b2 : Char) (t : Str) (v : Rat) (hd : Digs d) (hne : d ≠ [])
      (hc : isSexaSep c = true) (ha : pyIsDigit a = true) (hb : pyIsDigit b = true)
      (hc2 : isSexaSep c2 = true) (ha2 : pyIsDigit a2 = true) (hb2 : pyIsDigit b2 = true)
      (ht : LF a2 b2 t v) :
      Shape (d ++ c :: a :: b :: c2 :: a2 :: b2 :: t) none
        ((digitsVal d : Rat) + (digitsVal [a, b] : Rat) / 60 + v / 3600)

/-! ## part NumT -/

theorem Shape.numberBody {body i m} (h : Shape body i m) : numberBody body = true := by
  cases h with
  | int d hd hne =>
    unfold Num.numberBody
    rw [spanDigits_digs hd]
    simp [hne]
  | dec d f hd hf hne =>
    unfold Num.numberBody
    rw [spanDigits_append hd (spanDigits_nohead dot_facts.1)]
    simp only [spanDigits_digs hf]
    rcases hne with h | h
    · simp [h]
    · cases d <;> simp [h]
  | s2 d c a b t v hd hne hc ha hb ht =>
    unfold Num.numberBody
    rw [spanDigits_append hd (spanDigits_nohead (sep_facts hc).1)]
    simp only [hne, List.isEmpty_iff, if_false]
    split
    · rename_i h; cases h
    · rename_i h; cases h; exact absurd rfl (sep_facts hc).2
    · rename_i h1 h2 h; cases h
      simp only [hc, if_true, twoDigits, ha, hb, Bool.and_self]
      cases ht with
      | plain => rfl
      | frac f hf hne' => simp [optFracEnd, spanDigits_digs hf, hne']
  | s3 d c a b c2 a2 b2 t v hd hne hc ha hb hc2 ha2 hb2 ht =>
    unfold Num.numberBody
    rw [spanDigits_append hd (spanDigits_nohead (sep_facts hc).1)]
    simp only [hne, List.isEmpty_iff, if_false]
    split
    · rename_i h; cases h
    · rename_i h; cases h; exact absurd rfl (sep_facts hc).2
    · rename_i h1 h2 h; cases h
      simp only [hc, if_true, twoDigits, ha, hb, Bool.and_self]
      split
      · rename_i h; cases h
      · rename_i h; cases h; exact absurd rfl (sep_facts hc2).2
      · rename_i h; cases h
        simp only [hc2, if_true, ha2, hb2, Bool.and_self]
        exact ht.optFracEnd

theorem sexaVal_int {d : Str} (hd : Digs d) : sexaVal d = none := by
  unfold sexaVal
  rw [spanDigits_digs hd]
  simp

theorem sexaVal_dec {d f : Str} (hd : Digs d) : sexaVal (d ++ '.' :: f) = none := by
  unfold sexaVal
  rw [spanDigits_append hd (spanDigits_nohead dot_facts.1)]
  simp [dot_facts.2.2]

theorem sexaVal_s2 {d : Str} {c a b : Char} {t : Str} {v : Rat} (hd : Digs d) (hne : d ≠ [])
    (hc : isSexaSep c = true) (ha : pyIsDigit a = true) (hb : pyIsDigit b = true) (ht : LF a b t v) :
    sexaVal (d ++ c :: a :: b :: t) = some ((digitsVal d : Rat) + v / 60) := by
  unfold sexaVal
  rw [spanDigits_append hd (spanDigits_nohead (sep_facts hc).1)]
  simp [hne, hc, ht.lastField ha hb]

theorem lastField_none {a b c2 : Char} {r : Str} (hc2 : isSexaSep c2 = true) :
    lastField (a :: b :: c2 :: r) = none := by
  simp only [lastField]
  split
  · split
    · rename_i h; cases h
    · rename_i h; cases h; exact absurd rfl (sep_facts hc2).2
    · rfl
  · rfl

theorem sexaVal_s3 {d : Str} {c a b c2 a2 b2 : Char} {t : Str} {v : Rat} (hd : Digs d) (hne : d ≠ [])
    (hc : isSexaSep c = true) (ha : pyIsDigit a = true) (hb : pyIsDigit b = true)
    (hc2 : isSexaSep c2 = true) (ha2 : pyIsDigit a2 = true) (hb2 : pyIsDigit b2 = true)
    (ht : LF a2 b2 t v) :
    sexaVal (d ++ c :: a :: b :: c2 :: a2 :: b2 :: t) =
      some ((digitsVal d : Rat) + (digitsVal [a, b] : Rat) / 60 + v / 3600) := by
  unfold sexaVal
  rw [spanDigits_append hd (spanDigits_nohead (sep_facts hc).1)]
  simp [hne, hc, lastField_none hc2, ha, hb, hc2, ht.lastField ha2 hb2]

/-- what `str_to_num` returns on a body of the grammar -/
def shapeResult (A : Arith) (neg : Bool) (i : Option Nat) (m : Rat) : NumVal :=
  match i with
  | some n => .int (if neg then -(n : Int) else n)
  | none => .float (A.fl (if neg then -m else m))

theorem Shape.strBody {body i m} (h : Shape body i m) (A : Arith) (neg : Bool) :
    strBody A neg body = .ok (shapeResult A neg i m) := by
  cases h with
  | int d hd hne =>
    unfold Num.strBody
    rw [sexaVal_int hd, spanDigits_digs hd]
    simp [hne, shapeResult]
  | dec d f hd hf hne =>
    unfold Num.strBody
    rw [sexaVal_dec hd, spanDigits_append hd (spanDigits_nohead dot_facts.1)]
    simp only [spanDigits_digs hf, shapeResult]
    rcases hne with h | h <;> simp [h]
  | s2 d c a b t v hd hne hc ha hb ht =>
    unfold Num.strBody
    rw [sexaVal_s2 hd hne hc ha hb ht]
    rfl
  | s3 d c a b c2 a2 b2 t v hd hne hc ha hb hc2 ha2 hb2 ht =>
    unfold Num.strBody
    rw [sexaVal_s3 hd hne hc ha hb hc2 ha2 hb2 ht]
    rfl

theorem Shape.denBody {body i m} (h : Shape body i m) (neg : Bool) :
    denBody neg body = some (if neg then -m else m) := by
  cases h with
  | int d hd hne =>
    unfold Num.denBody
    rw [splitFields_noSep hd.noSep]
    simp [fieldVal_digs hd hne]
  | dec d f hd hf hne =>
    unfold Num.denBody
    have : NoSep (d ++ '.' :: f) := by
      intro c hc
      rcases List.mem_append.mp hc with h | h
      · exact hd.noSep c h
      · simp only [List.mem_cons] at h
        rcases h with rfl | h
        · exact dot_facts.2.1
        · exact hf.noSep c h
    rw [splitFields_noSep this]
    simp [fieldVal_dec hd hf hne]
  | s2 d c a b t v hd hne hc ha hb ht =>
    unfold Num.denBody
    rw [splitFields_sep hd.noSep hc, splitFields_noSep (ht.noSep ha hb)]
    simp [fieldVal_digs hd hne, ht.fieldVal ha hb]
  | s3 d c a b c2 a2 b2 t v hd hne hc ha hb hc2 ha2 hb2 ht =>
    unfold Num.denBody
    have h2 := splitFields_sep (f := [a, b]) (Digs_two ha hb).noSep hc2 (a2 :: b2 :: t)
    simp only [List.cons_append, List.nil_append] at h2
    rw [splitFields_sep hd.noSep hc, h2, splitFields_noSep (ht.noSep ha2 hb2)]
    simp [fieldVal_digs hd hne, fieldVal_digs (Digs_two ha hb), ht.fieldVal ha2 hb2]

theorem Shape.head {body i m} (h : Shape body i m) : ∀ c r, body = c :: r → c ≠ '-' ∧ c ≠ '+' := by
  have key : ∀ (d rest : Str), Digs d → (d ≠ [] ∨ ∃ r, rest = '.' :: r) →
      ∀ c r, d ++ rest = c :: r → c ≠ '-' ∧ c ≠ '+' := by
    intro d rest hd hne c r hcr
    cases d with
    | nil =>
      obtain ⟨r', rfl⟩ := hne.resolve_left (by simp)
      simp at hcr; rw [← hcr.1]; decide
    | cons a d =>
      simp at hcr; rw [← hcr.1]
      have := digit_ne (hd a (by simp))
      exact ⟨this.2.1, this.2.2.1⟩
  cases h with
  | int _ hd hne => simpa using key _ [] hd (Or.inl hne)
  | dec d f hd hf hne => exact key d _ hd (Or.inr ⟨_, rfl⟩)
  | s2 d c a b t v hd hne hc ha hb ht => exact key d _ hd (Or.inl hne)
  | s3 d c a b c2 a2 b2 t v hd hne hc ha hb hc2 ha2 hb2 ht => exact key d _ hd (Or.inl hne)

theorem twoDigits_inv {r r2 : Str} (h : twoDigits r = some r2) :
    ∃ a b, r = a :: b :: r2 ∧ pyIsDigit a = true ∧ pyIsDigit b = true := by
  unfold twoDigits at h
  split at h
  · rename_i a b rest
    split at h
    · rename_i hab
      simp only [Bool.and_eq_true] at hab
      cases h
      exact ⟨a, b, rfl, hab.1, hab.2⟩
    · cases h
  · cases h

theorem Shape.of_numberBody {body : Str} (h : Num.numberBody body = true) : ∃ i m, Shape body i m := by
  rcases hs : spanDigits body with ⟨d, r⟩
  obtain ⟨hbody, hd, hr⟩ := spanDigits_inv body hs
  unfold Num.numberBody at h
  rw [hs] at h
  simp only at h
  clear hs
  subst hbody
  by_cases hde : d = []
  · -- no integer digits
    subst hde
    simp only [List.isEmpty_nil, if_true] at h
    split at h
    · rename_i r'
      rcases hs' : spanDigits r' with ⟨d', r''⟩
      obtain ⟨h1, h2, h3⟩ := spanDigits_inv r' hs'
      rw [hs'] at h
      simp only [Bool.and_eq_true, Bool.not_eq_true', List.isEmpty_iff] at h
      rw [h.2, List.append_nil] at h1
      subst h1
      exact ⟨_, _, Shape.dec [] r' Digs_nil h2 (Or.inr (by simpa using h.1))⟩
    · cases h
  · have hde' : d.isEmpty = false := by simpa using hde
    simp only [hde', Bool.false_eq_true, if_false] at h
    rcases hr with rfl | ⟨c, r', rfl, hc⟩
    · exact ⟨_, _, by simpa using Shape.int d hd hde⟩
    · by_cases hdot : c = '.'
      · subst hdot
        simp only at h
        rcases hs' : spanDigits r' with ⟨d', r''⟩
        obtain ⟨h1, h2, h3⟩ := spanDigits_inv r' hs'
        rw [hs'] at h
        simp only [List.isEmpty_iff] at h
        rw [h, List.append_nil] at h1
        subst h1
        exact ⟨_, _, Shape.dec d r' hd h2 (Or.inl hde)⟩
      · split at h
        · rename_i heq; cases heq
        · rename_i heq; cases heq; exact absurd rfl hdot
        · rename_i c0 r0 _ heq
          cases heq
          by_cases hcs : isSexaSep c = true
          · simp only [hcs, if_true] at h
            split at h
            · cases h
            · rename_i r2 htd
              obtain ⟨a, b, rfl, ha, hb⟩ := twoDigits_inv htd
              split at h
              · exact ⟨_, _, Shape.s2 d c a b [] _ hd hde hcs ha hb .plain⟩
              · rename_i tl
                obtain ⟨v, hv⟩ := LF.of_optFracEnd h a b
                exact ⟨_, _, Shape.s2 d c a b _ v hd hde hcs ha hb hv⟩
              · rename_i c2 r3 hnd2
                split at h
                · rename_i hc2
                  split at h
                  · cases h
                  · rename_i r4 htd2
                    obtain ⟨a2, b2, rfl, ha2, hb2⟩ := twoDigits_inv htd2
                    obtain ⟨v, hv⟩ := LF.of_optFracEnd h a2 b2
                    exact ⟨_, _, Shape.s3 d c a b c2 a2 b2 _ v hd hde hcs ha hb hc2 ha2 hb2 hv⟩
                · cases h
          · simp [hcs] at h

/-! ## part NumR -/

theorem sexaBase_cases {frac base : Nat} (h : sexaBase frac = some base) :
    (frac = 3 ∧ base = 60) ∨ (frac = 5 ∧ base = 600) ∨ (frac = 6 ∧ base = 3600) ∨
    (frac = 8 ∧ base = 36000) ∨ (frac = 9 ∧ base = 360000) := by
  unfold sexaBase Generated.sexaBases at h
  simp only [List.find?_cons, List.find?_nil] at h
  by_cases h3 : frac = 3
  · subst h3; simp at h; omega
  by_cases h5 : frac = 5
  · subst h5; simp at h; omega
  by_cases h6 : frac = 6
  · subst h6; simp at h; omega
  by_cases h8 : frac = 8
  · subst h8; simp at h; omega
  by_cases h9 : frac = 9
  · subst h9; simp at h; omega
  have e3 : decide (3 = frac) = false := by simp; omega
  have e5 : decide (5 = frac) = false := by simp; omega
  have e6 : decide (6 = frac) = false := by simp; omega
  have e8 : decide (8 = frac) = false := by simp; omega
  have e9 : decide (9 = frac) = false := by simp; omega
  simp [e3, e5, e6, e8, e9] at h

theorem shaped {sg body : Str} {i m} (hsg : sg = [] ∨ sg = ['-'] ∨ sg = ['+']) (hs : Shape body i m) :
    numberCore (sg ++ body) = true ∧ denote (sg ++ body) = some (if sg = ['-'] then -m else m) ∧
      ∀ A, strToNumCore A (sg ++ body) = .ok (shapeResult A (decide (sg = ['-'])) i m) := by
  have hstrip : stripSign (sg ++ body) = (decide (sg = ['-']), body) := by
    rcases hsg with rfl | rfl | rfl
    · simpa using stripSign_body hs.head
    · exact stripSign_neg body
    · exact stripSign_pos body
  refine ⟨?_, ?_, fun A => ?_⟩
  · rw [numberCore_eq, hstrip]; exact hs.numberBody
  · rw [denote_eq, hstrip, hs.denBody]; simp
  · rw [strToNumCore_eq, hstrip, hs.strBody]

/-! ### printf padding -/

def AllSp (l : Str) : Prop := ∀ c ∈ l, c = ' '

theorem AllSp.eq {l : Str} (h : AllSp l) : l = List.replicate l.length ' ' :=
  List.eq_replicate_iff.mpr ⟨rfl, h⟩

theorem pyStrip_pad' {x sp sp' : Str} (h : NoSpace x) (h1 : AllSp sp) (h2 : AllSp sp') :
    pyStrip (sp ++ x ++ sp') = x := by
  rw [h1.eq, h2.eq]; exact pyStrip_pad h _ _

theorem AllSp_nil : AllSp [] := by intro c hc; cases hc
theorem AllSp_replicate (n : Nat) : AllSp (List.replicate n ' ') := fun _ hc => (List.mem_replicate.mp hc).2
theorem AllSp.append {a b : Str} (ha : AllSp a) (hb : AllSp b) : AllSp (a ++ b) := by
  intro c hc; rcases List.mem_append.mp hc with h | h
  · exact ha c h
  · exact hb c h
theorem NoSpace.append {a b : Str} (ha : NoSpace a) (hb : NoSpace b) : NoSpace (a ++ b) := by
  intro c hc; rcases List.mem_append.mp hc with h | h
  · exact ha c h
  · exact hb c h
theorem NoSpace_nil : NoSpace [] := by intro c hc; cases hc
theorem ADs.noSpace {d : Str} (h : ADs d) : NoSpace d := fun c hc => (h c hc).noSpace
theorem NoSpace_dot : NoSpace ['.'] := by
  intro c hc; simp at hc; subst hc; decide +kernel
theorem NoSpace_colon : NoSpace [':'] := by
  intro c hc; simp at hc; subst hc; decide +kernel
theorem NoSpace_minus : NoSpace ['-'] := by
  intro c hc; simp at hc; subst hc; decide +kernel
theorem NoSpace_plus : NoSpace ['+'] := by
  intro c hc; simp at hc; subst hc; decide +kernel

theorem padField_strip (fl : Flags) (width : Nat) {sp sg body : Str} (hsp : AllSp sp) (hsg : NoSpace sg)
    (hb : NoSpace body) :
    ∃ k, pyStrip (padField fl width (sp ++ sg) body) = sg ++ (List.replicate k '0' ++ body) := by
  unfold padField
  simp only
  split
  · refine ⟨0, ?_⟩
    have := pyStrip_pad' (hsg.append hb) hsp AllSp_nil
    simpa using this
  · split
    · refine ⟨0, ?_⟩
      have := pyStrip_pad' (hsg.append hb) hsp (AllSp_replicate (width - ((sp ++ sg).length + body.length)))
      simpa using this
    · split
      · refine ⟨width - ((sp ++ sg).length + body.length), ?_⟩
        have := pyStrip_pad' (hsg.append ((ADs_replicate (width - ((sp ++ sg).length + body.length))).noSpace.append hb)) hsp AllSp_nil
        simpa using this
      · refine ⟨0, ?_⟩
        have := pyStrip_pad' (hsg.append hb) ((AllSp_replicate (width - ((sp ++ sg).length + body.length))).append hsp) AllSp_nil
        simpa using this

theorem signStr_split (fl : Flags) (neg : Bool) : ∃ sp sg, signStr fl neg = sp ++ sg ∧ AllSp sp ∧ NoSpace sg ∧
    (sg = [] ∨ sg = ['-'] ∨ sg = ['+']) ∧ (sg = ['-'] ↔ neg = true) := by
  unfold signStr
  split
  · rename_i h; exact ⟨[], ['-'], rfl, AllSp_nil, NoSpace_minus, by simp, by simp [h]⟩
  · rename_i h
    split
    · exact ⟨[], ['+'], rfl, AllSp_nil, NoSpace_plus, by simp, by simp [h]⟩
    · split
      · exact ⟨[' '], [], rfl, by intro _ hc; simpa using hc, NoSpace_nil, by simp, by simp [h]⟩
      · exact ⟨[], [], rfl, AllSp_nil, NoSpace_nil, by simp, by simp [h]⟩

theorem Shape.int_eq {body n m} (h : Shape body (some n) m) : m = (n : Rat) := by
  cases h; rfl

theorem Shape.cast {body i m m'} (h : Shape body i m) (e : m = m') : Shape body i m' := e ▸ h

theorem NoSpace_body {ds tl : Str} (hds : ADs ds) (htl : tl = [] ∨ ∃ f, ADs f ∧ tl = '.' :: f) :
    NoSpace (ds ++ tl) := by
  apply hds.noSpace.append
  rcases htl with rfl | ⟨f, hf, rfl⟩
  · exact NoSpace_nil
  · exact NoSpace_dot.append hf.noSpace

/-- what a printf conversion followed by `strip()` produces: an optional sign and a body of the grammar -/
theorem printf_text (fl : Flags) (width : Nat) (neg : Bool) {ds tl : Str} {fv : Rat} (hds : ADs ds) (hne : ds ≠ [])
    (htl : (tl = [] ∧ fv = 0) ∨ ∃ f, ADs f ∧ tl = '.' :: f ∧ fv = (digitsVal f : Rat) / (10 : Rat) ^ f.length) :
    numberCore (pyStrip (padField fl width (signStr fl neg) (ds ++ tl))) = true ∧
    denote (pyStrip (padField fl width (signStr fl neg) (ds ++ tl))) =
      some (if neg then -((digitsVal ds : Rat) + fv) else (digitsVal ds : Rat) + fv) := by
  obtain ⟨sp, sg, hsplit, hsp, hsgn, hsg, hneg⟩ := signStr_split fl neg
  have hbody : NoSpace (ds ++ tl) := by
    apply NoSpace_body hds
    rcases htl with ⟨h, _⟩ | ⟨f, hf, h, _⟩
    · exact Or.inl h
    · exact Or.inr ⟨f, hf, h⟩
  obtain ⟨k, hk⟩ := padField_strip fl width hsp hsgn hbody
  rw [hsplit, hk, ← List.append_assoc (List.replicate k '0')]
  have hd : ADs (List.replicate k '0' ++ ds) := (ADs_replicate k).append hds
  have hdne : List.replicate k '0' ++ ds ≠ [] := by simp [hne]
  have hval : digitsVal (List.replicate k '0' ++ ds) = digitsVal ds := digitsVal_zeros_append k ds
  have hshape : ∃ i, Shape (List.replicate k '0' ++ ds ++ tl) i ((digitsVal ds : Rat) + fv) := by
    rcases htl with ⟨rfl, rfl⟩ | ⟨f, hf, rfl, rfl⟩
    · refine ⟨some (digitsVal (List.replicate k '0' ++ ds)), ?_⟩
      rw [List.append_nil]
      exact (Shape.int _ hd.digs hdne).cast (by rw [hval]; simp)
    · refine ⟨_, (Shape.dec _ f hd.digs hf.digs (Or.inl hdne)).cast ?_⟩
      rw [decimalVal, hval]
  obtain ⟨i, hs⟩ := hshape
  obtain ⟨h1, h2, _⟩ := shaped hsg hs
  refine ⟨h1, ?_⟩
  rw [h2]
  by_cases hn : neg = true
  · simp [hn, hneg.mpr hn]
  · have : sg ≠ ['-'] := fun h => hn (hneg.mp h)
    simp [hn, this]

theorem pad2 {n : Nat} (hn : n < 100) : ∃ a b, padDigits 2 n = [a, b] ∧ pyIsDigit a = true ∧ pyIsDigit b = true ∧
    digitsVal [a, b] = n ∧ NoSpace [a, b] := by
  obtain ⟨a, b, hab, ha, hb⟩ := padDigits2 hn
  refine ⟨a, b, hab, ha.isDigit, hb.isDigit, hab ▸ padDigits_val 2 n, ?_⟩
  intro c hc; simp at hc; rcases hc with rfl | rfl
  · exact ha.noSpace
  · exact hb.noSpace

theorem sexaFields_shape3 (total : Nat) :
    Shape (sexaFields 3 60 total) none ((total : Rat) / (60 : Nat)) ∧ NoSpace (sexaFields 3 60 total) := by
  simp only [sexaFields, reduceIte]
  obtain ⟨a, b, hab, ha, hb, hv, hns⟩ := pad2 (n := total % 60) (by omega)
  rw [hab]
  constructor
  · simp only [List.append_assoc, List.cons_append, List.nil_append]
    refine (Shape.s2 _ ':' a b [] _ (natDigits_ads _).digs (natDigits_ne _) (by decide) ha hb .plain).cast ?_
    rw [hv, natDigits_val]
    have : (total : Rat) = 60 * (total / 60 : Nat) + (total % 60 : Nat) := by
      exact_mod_cast (Nat.div_add_mod total 60).symm
    rw [this]
    push_cast
    ring
  · exact ((natDigits_ads _).noSpace.append NoSpace_colon).append hns

theorem sexaFields_shape5 (total : Nat) :
    Shape (sexaFields 5 600 total) none ((total : Rat) / (600 : Nat)) ∧ NoSpace (sexaFields 5 600 total) := by
  simp only [sexaFields, reduceIte, Nat.reduceEqDiff]
  obtain ⟨a, b, hab, ha, hb, hv, hns⟩ := pad2 (n := total % 600 / 10) (by omega)
  rw [hab]
  constructor
  · simp only [List.append_assoc, List.cons_append, List.nil_append]
    refine (Shape.s2 _ ':' a b _ _ (natDigits_ads _).digs (natDigits_ne _) (by decide) ha hb
      (.frac _ (natDigits_ads (total % 600 % 10)).digs (natDigits_ne _))).cast ?_
    rw [decimalVal, hv, natDigits_val, natDigits_val, natDigits_len1 (by omega)]
    have : (total : Rat) = 600 * (total / 600 : Nat) + 10 * (total % 600 / 10 : Nat) + (total % 600 % 10 : Nat) := by
      exact_mod_cast (by omega : total = 600 * (total / 600) + 10 * (total % 600 / 10) + total % 600 % 10)
    rw [this]
    push_cast
    ring
  · exact ((((natDigits_ads _).noSpace.append NoSpace_colon).append hns).append NoSpace_dot).append
      (natDigits_ads _).noSpace

theorem sexaFields_shape6 (total : Nat) :
    Shape (sexaFields 6 3600 total) none ((total : Rat) / (3600 : Nat)) ∧ NoSpace (sexaFields 6 3600 total) := by
  simp only [sexaFields, reduceIte, Nat.reduceEqDiff]
  obtain ⟨a, b, hab, ha, hb, hv, hns⟩ := pad2 (n := total % 3600 / 60) (by omega)
  obtain ⟨a2, b2, hab2, ha2, hb2, hv2, hns2⟩ := pad2 (n := total % 3600 % 60) (by omega)
  rw [hab, hab2]
  constructor
  · simp only [List.append_assoc, List.cons_append, List.nil_append]
    refine (Shape.s3 _ ':' a b ':' a2 b2 _ _ (natDigits_ads _).digs (natDigits_ne _) (by decide) ha hb
      (by decide) ha2 hb2 .plain).cast ?_
    rw [hv, hv2, natDigits_val]
    have : (total : Rat) = 3600 * (total / 3600 : Nat) + 60 * (total % 3600 / 60 : Nat) + (total % 3600 % 60 : Nat) := by
      exact_mod_cast (by omega : total = 3600 * (total / 3600) + 60 * (total % 3600 / 60) + total % 3600 % 60)
    rw [this]
    push_cast
    ring
  · exact ((((natDigits_ads _).noSpace.append NoSpace_colon).append hns).append NoSpace_colon).append hns2

theorem sexaFields_shape8 (total : Nat) :
    Shape (sexaFields 8 36000 total) none ((total : Rat) / (36000 : Nat)) ∧ NoSpace (sexaFields 8 36000 total) := by
  simp only [sexaFields, reduceIte, Nat.reduceEqDiff]
  obtain ⟨a, b, hab, ha, hb, hv, hns⟩ := pad2 (n := total % 36000 / 600) (by omega)
  obtain ⟨a2, b2, hab2, ha2, hb2, hv2, hns2⟩ := pad2 (n := total % 36000 % 600 / 10) (by omega)
  rw [hab, hab2]
  constructor
  · simp only [List.append_assoc, List.cons_append, List.nil_append]
    refine (Shape.s3 _ ':' a b ':' a2 b2 _ _ (natDigits_ads _).digs (natDigits_ne _) (by decide) ha hb
      (by decide) ha2 hb2 (.frac _ (natDigits_ads (total % 36000 % 600 % 10)).digs (natDigits_ne _))).cast ?_
    rw [decimalVal, hv, hv2, natDigits_val, natDigits_val, natDigits_len1 (by omega)]
    have : (total : Rat) = 36000 * (total / 36000 : Nat) + 600 * (total % 36000 / 600 : Nat)
        + 10 * (total % 36000 % 600 / 10 : Nat) + (total % 36000 % 600 % 10 : Nat) := by
      exact_mod_cast (by omega : total = 36000 * (total / 36000) + 600 * (total % 36000 / 600)
        + 10 * (total % 36000 % 600 / 10) + total % 36000 % 600 % 10)
    rw [this]
    push_cast
    ring
  · exact ((((((natDigits_ads _).noSpace.append NoSpace_colon).append hns).append NoSpace_colon).append hns2).append
      NoSpace_dot).append (natDigits_ads _).noSpace

theorem sexaFields_shape9 (total : Nat) :
    Shape (sexaFields 9 360000 total) none ((total : Rat) / (360000 : Nat)) ∧ NoSpace (sexaFields 9 360000 total) := by
  simp only [sexaFields, reduceIte, Nat.reduceEqDiff]
  obtain ⟨a, b, hab, ha, hb, hv, hns⟩ := pad2 (n := total % 360000 / 6000) (by omega)
  obtain ⟨a2, b2, hab2, ha2, hb2, hv2, hns2⟩ := pad2 (n := total % 360000 % 6000 / 100) (by omega)
  rw [hab, hab2]
  constructor
  · simp only [List.append_assoc, List.cons_append, List.nil_append]
    refine (Shape.s3 _ ':' a b ':' a2 b2 _ _ (natDigits_ads _).digs (natDigits_ne _) (by decide) ha hb
      (by decide) ha2 hb2 (.frac _ (padDigits_ads 2 (total % 360000 % 6000 % 100)).digs (padDigits_ne _ _))).cast ?_
    rw [decimalVal, hv, hv2, natDigits_val, padDigits_val, padDigits_len (by omega) (by omega)]
    have : (total : Rat) = 360000 * (total / 360000 : Nat) + 6000 * (total % 360000 / 6000 : Nat)
        + 100 * (total % 360000 % 6000 / 100 : Nat) + (total % 360000 % 6000 % 100 : Nat) := by
      exact_mod_cast (by omega : total = 360000 * (total / 360000) + 6000 * (total % 360000 / 6000)
        + 100 * (total % 360000 % 6000 / 100) + total % 360000 % 6000 % 100)
    rw [this]
    push_cast
    ring
  · exact ((((((natDigits_ads _).noSpace.append NoSpace_colon).append hns).append NoSpace_colon).append hns2).append
      NoSpace_dot).append (padDigits_ads _ _).noSpace

theorem sexaFields_shape {frac base : Nat} (hb : sexaBase frac = some base) (total : Nat) :
    Shape (sexaFields frac base total) none ((total : Rat) / (base : Rat)) ∧ NoSpace (sexaFields frac base total) := by
  rcases sexaBase_cases hb with ⟨rfl, rfl⟩ | ⟨rfl, rfl⟩ | ⟨rfl, rfl⟩ | ⟨rfl, rfl⟩ | ⟨rfl, rfl⟩
  · exact sexaFields_shape3 total
  · exact sexaFields_shape5 total
  · exact sexaFields_shape6 total
  · exact sexaFields_shape8 total
  · exact sexaFields_shape9 total

theorem absR_mul_le {a c b : Rat} (hc : 0 < c) : absR a * c ≤ b ↔ (-b ≤ a * c ∧ a * c ≤ b) := by
  unfold absR
  split
  · rename_i h
    have : a * c < 0 := mul_neg_of_neg_of_pos h hc
    constructor
    · intro h'; constructor <;> linarith
    · intro h'; linarith [h'.1]
  · rename_i h
    have : 0 ≤ a * c := mul_nonneg (not_lt.mp h) hc.le
    constructor
    · intro h'; constructor <;> linarith
    · intro h'; exact h'.2

theorem toNat_cast {z : Int} (h : 0 ≤ z) : ((z.toNat : Nat) : Rat) = (z : Rat) := by
  have : ((z.toNat : Nat) : Int) = z := Int.toNat_of_nonneg h
  exact_mod_cast this

/-- the numeric heart of the sexagesimal round trip: the total is exact to half a unit, only the
re-parsed quotient is rounded -/
theorem sexa_arith {ax b t g : Rat} (h1 : ax ≤ 10 ^ 9) (hb0 : 0 < b) (hb1 : b ≤ 360000)
    (ht : t - ax * b ≤ 1 / 2 ∧ ax * b - t ≤ 1 / 2) (ht0 : 0 ≤ t)
    (hg : absR (g - t / b) * 2 ^ 53 ≤ absR (t / b)) :
    -1 ≤ g * b - ax * b ∧ g * b - ax * b ≤ 1 := by
  have hy1 : ax * b ≤ 10 ^ 9 * 360000 := mul_le_mul h1 hb1 hb0.le (by norm_num)
  norm_num at hy1
  have hqb : t / b * b = t := div_mul_cancel₀ t hb0.ne'
  have hq0 : 0 ≤ t / b := div_nonneg ht0 hb0.le
  generalize t / b = q at *
  have habs2 : absR q = q := by unfold absR; rw [if_neg (not_lt.mpr hq0)]
  rw [habs2, absR_mul_le (by norm_num)] at hg
  norm_num at hg
  have g1 := mul_le_mul_of_nonneg_right hg.1 hb0.le
  have g2 := mul_le_mul_of_nonneg_right hg.2 hb0.le
  constructor <;> linarith [ht.1, ht.2]

theorem render_sexa_text {A : Arith} {frac base : Nat} {x : Rat} {text : Str} (hb : sexaBase frac = some base)
    (h : render A (.sexa frac) x = .ok text) :
    numberCore text = true ∧
    denote text = some (if x < 0 then -(((rhe (ratAbs x * base)).toNat : Rat) / base)
      else ((rhe (ratAbs x * base)).toNat : Rat) / base) ∧
    strToNum A text = .ok (.float (A.fl (if x < 0 then -(((rhe (ratAbs x * base)).toNat : Rat) / base)
      else ((rhe (ratAbs x * base)).toNat : Rat) / base))) := by
  simp only [render, hb, Outcome.ok.injEq] at h
  subst h
  obtain ⟨hs, hns⟩ := sexaFields_shape hb (rhe (ratAbs x * base)).toNat
  by_cases hx : x < 0
  · obtain ⟨h1, h2, h3⟩ := shaped (sg := ['-']) (by simp) hs
    simp only [hx, if_true]
    refine ⟨h1, by simpa using h2, ?_⟩
    unfold strToNum
    rw [pyStrip_noSpace (NoSpace_minus.append hns), h3]
    simp [shapeResult]
  · obtain ⟨h1, h2, h3⟩ := shaped (sg := []) (by simp) hs
    simp only [hx, if_false]
    refine ⟨h1, by simpa using h2, ?_⟩
    unfold strToNum
    rw [pyStrip_noSpace (NoSpace_nil.append hns), h3]
    simp [shapeResult]

theorem numberOk_of_core {x : Str} (h : numberCore x = true) : numberOk x = true := by
  simp [numberOk, h]

theorem absR_neg (a : Rat) : absR (-a) = absR a := by
  unfold absR
  split <;> split <;> linarith

theorem absR_of_nonneg {a : Rat} (h : 0 ≤ a) : absR a = a := by
  unfold absR; rw [if_neg (not_lt.mpr h)]

theorem absR_of_neg {a : Rat} (h : a < 0) : absR a = -a := by
  unfold absR; rw [if_pos h]

/-- a magnitude rounded half-even at scale `P` and re-signed is within half a unit of scale `P`: no
floating point, no bound on the value -/
theorem scaled_numeric {P : Rat} (hP : 0 < P) (x v : Rat)
    (hv : v = if x < 0 then -(((rhe (ratAbs x * P)).toNat : Rat) / P)
      else ((rhe (ratAbs x * P)).toNat : Rat) / P) :
    absR (v - x) * (2 * P) ≤ 1 := by
  rw [ratAbs_eq] at hv
  have h0 := absR_nonneg x
  have hy0 : 0 ≤ absR x * P := mul_nonneg h0 hP.le
  have hcast := toNat_cast (rhe_nonneg hy0)
  have hrb := rhe_bounds (absR x * P)
  rw [← hcast] at hrb
  generalize ((rhe (absR x * P)).toNat : Rat) = t at *
  rw [absR_mul_le (by positivity)]
  by_cases hneg : x < 0
  · rw [if_pos hneg] at hv
    subst hv
    have hax : absR x = -x := absR_of_neg hneg
    have hqb : -(t / P) * P = -t := by field_simp
    rw [hax] at hrb
    constructor <;> linarith [hrb.1, hrb.2]
  · rw [if_neg hneg] at hv
    subst hv
    have hax : absR x = x := absR_of_nonneg (not_lt.mp hneg)
    have hqb : t / P * P = t := by field_simp
    rw [hax] at hrb
    constructor <;> linarith [hrb.1, hrb.2]

theorem sexaBase_pos {frac base : Nat} (hb : sexaBase frac = some base) :
    (0 : Rat) < base ∧ (base : Rat) ≤ 360000 := by
  rcases sexaBase_cases hb with ⟨_, rfl⟩ | ⟨_, rfl⟩ | ⟨_, rfl⟩ | ⟨_, rfl⟩ | ⟨_, rfl⟩ <;> norm_num

/-- the sexagesimal text denotes the value to half a unit of the last place, for every value -/
theorem sexa_exact {frac base : Nat} (hb : sexaBase frac = some base) (x q : Rat)
    (hq : q = if x < 0 then -(((rhe (ratAbs x * base)).toNat : Rat) / base)
      else ((rhe (ratAbs x * base)).toNat : Rat) / base) :
    absR (q - x) * (2 * base) ≤ 1 :=
  scaled_numeric (sexaBase_pos hb).1 x q hq

/-- parsing the sexagesimal text back (one float rounding of the quotient) stays within one unit -/
theorem sexa_numeric {A : Arith} (hA : ∀ q : Rat, absR (A.fl q - q) * 2 ^ 53 ≤ absR q) {frac base : Nat}
    (hb : sexaBase frac = some base) {x : Rat} (hx : absR x ≤ 10 ^ 9) (q : Rat)
    (hq : q = if x < 0 then -(((rhe (ratAbs x * base)).toNat : Rat) / base)
      else ((rhe (ratAbs x * base)).toNat : Rat) / base) :
    absR (A.fl q - x) * base ≤ 1 := by
  obtain ⟨hb0, hb1⟩ := sexaBase_pos hb
  rw [ratAbs_eq] at hq
  have h0 := absR_nonneg x
  have hy0 : 0 ≤ absR x * base := mul_nonneg h0 hb0.le
  have hcast := toNat_cast (rhe_nonneg hy0)
  have hrb := rhe_bounds (absR x * base)
  rw [← hcast] at hrb
  have ht0 : (0 : Rat) ≤ ((rhe (absR x * base)).toNat : Rat) := by positivity
  generalize ((rhe (absR x * base)).toNat : Rat) = t at *
  by_cases hneg : x < 0
  · rw [if_pos hneg] at hq
    subst hq
    have hax : absR x = -x := absR_of_neg hneg
    have hg := hA (-(t / base))
    have hg' : absR (-(A.fl (-(t / base))) - t / base) * 2 ^ 53 ≤ absR (t / base) := by
      rw [← absR_neg, ← absR_neg (t / base)]
      convert hg using 3
      ring
    obtain ⟨a3, a4⟩ := sexa_arith hx hb0 hb1 hrb ht0 hg'
    rw [absR_mul_le hb0]
    rw [hax] at a3 a4
    exact ⟨by linarith, by linarith⟩
  · rw [if_neg hneg] at hq
    subst hq
    have hax : absR x = x := absR_of_nonneg (not_lt.mp hneg)
    have hg := hA (t / base)
    obtain ⟨a3, a4⟩ := sexa_arith hx hb0 hb1 hrb ht0 hg
    rw [absR_mul_le hb0]
    rw [hax] at a3 a4
    exact ⟨by linarith, by linarith⟩

theorem divmod_cast (s prec : Nat) :
    ((s / 10 ^ prec : Nat) : Rat) + ((s % 10 ^ prec : Nat) : Rat) / (10 : Rat) ^ prec = (s : Rat) / (10 : Rat) ^ prec := by
  have h : (s : Rat) = (10 : Rat) ^ prec * ((s / 10 ^ prec : Nat) : Rat) + ((s % 10 ^ prec : Nat) : Rat) := by
    exact_mod_cast (Nat.div_add_mod s (10 ^ prec)).symm
  have hp : (0 : Rat) < (10 : Rat) ^ prec := by positivity
  rw [h]
  field_simp

theorem render_f_text {A : Arith} {fl : Flags} {width prec : Nat} {x : Rat} {text : Str}
    (h : render A (.f fl width prec) x = .ok text) :
    numberCore text = true ∧
    denote text = some (if x < 0 then -(((rhe (ratAbs x * (10 : Rat) ^ prec)).toNat : Rat) / (10 : Rat) ^ prec)
      else ((rhe (ratAbs x * (10 : Rat) ^ prec)).toNat : Rat) / (10 : Rat) ^ prec) := by
  simp only [render, Outcome.ok.injEq] at h
  subst h
  generalize (rhe (ratAbs x * (10 : Rat) ^ prec)).toNat = s
  have htl : ((if prec > 0 then ['.'] ++ padDigits prec (s % 10 ^ prec) else if fl.hash then ['.'] else []) = [] ∧
      ((s % 10 ^ prec : Nat) : Rat) / (10 : Rat) ^ prec = 0) ∨
      ∃ f, ADs f ∧ (if prec > 0 then ['.'] ++ padDigits prec (s % 10 ^ prec) else if fl.hash then ['.'] else [])
        = '.' :: f ∧ ((s % 10 ^ prec : Nat) : Rat) / (10 : Rat) ^ prec = (digitsVal f : Rat) / (10 : Rat) ^ f.length := by
    by_cases hp : prec > 0
    · right
      refine ⟨padDigits prec (s % 10 ^ prec), padDigits_ads _ _, by simp [hp], ?_⟩
      rw [padDigits_val, padDigits_len hp (Nat.mod_lt _ (by positivity))]
    · have hp0 : prec = 0 := by omega
      subst hp0
      by_cases hh : fl.hash = true
      · right
        exact ⟨[], ADs_nil, by simp [hh], by simp [digitsVal, Nat.mod_one]⟩
      · left
        exact ⟨by simp [hh], by simp [Nat.mod_one]⟩
  obtain ⟨h1, h2⟩ := printf_text fl width (decide (x < 0)) (natDigits_ads (s / 10 ^ prec)) (natDigits_ne _) htl
  refine ⟨h1, ?_⟩
  rw [h2, natDigits_val, divmod_cast]
  simp

/-! ## part Scratch -/

theorem f_numeric (prec : Nat) (x v : Rat)
    (hv : v = if x < 0 then -(((rhe (ratAbs x * (10 : Rat) ^ prec)).toNat : Rat) / (10 : Rat) ^ prec)
      else ((rhe (ratAbs x * (10 : Rat) ^ prec)).toNat : Rat) / (10 : Rat) ^ prec) :
    absR (v - x) * (2 * 10 ^ prec) ≤ 1 :=
  scaled_numeric (by positivity) x v hv

theorem d_text_aux (fl : Flags) (width : Nat) (neg : Bool) {ds : Str} {mag : Nat} (hads : ADs ds) (hne : ds ≠ [])
    (hval : digitsVal ds = mag) :
    numberCore (pyStrip (padField fl width (signStr fl neg) ds)) = true ∧
    denote (pyStrip (padField fl width (signStr fl neg) ds)) = some (if neg = true then -(mag : Rat) else (mag : Rat)) := by
  obtain ⟨h1, h2⟩ := printf_text fl width neg (tl := []) (fv := 0) hads hne (Or.inl ⟨rfl, rfl⟩)
  rw [List.append_nil] at h1 h2
  refine ⟨h1, ?_⟩
  rw [h2, hval]
  simp

theorem render_d_text {A : Arith} {fl : Flags} {width : Nat} {prec : Option Nat} {x : Rat} {text : Str}
    (h : render A (.d fl width prec) x = .ok text) :
    numberCore text = true ∧
    denote text = some (if (decide (x < 0) && (ratAbs x).floor.toNat != 0) = true
      then -(((ratAbs x).floor.toNat : Nat) : Rat) else (((ratAbs x).floor.toNat : Nat) : Rat)) := by
  simp only [render, Outcome.ok.injEq] at h
  subst h
  cases prec with
  | some p => exact d_text_aux fl width _ (padDigits_ads _ _) (padDigits_ne _ _) (padDigits_val _ _)
  | none => exact d_text_aux fl width _ (natDigits_ads _) (natDigits_ne _) (natDigits_val _)

theorem d_numeric (x v : Rat)
    (hv : v = if (decide (x < 0) && (ratAbs x).floor.toNat != 0) = true
      then -(((ratAbs x).floor.toNat : Nat) : Rat) else (((ratAbs x).floor.toNat : Nat) : Rat)) :
    absR (v - x) < 1 := by
  rw [ratAbs_eq] at hv
  have h0 := absR_nonneg x
  have hf0 : (0 : Int) ≤ (absR x).floor := Rat.le_floor_iff.mpr (by simpa using h0)
  have hcast := toNat_cast hf0
  have h1 := Rat.floor_le (absR x)
  have h2 := Rat.lt_floor_add_one (absR x)
  push_cast at h2
  rw [← hcast] at h1 h2
  rw [absR_lt]
  generalize (absR x).floor.toNat = M at *
  by_cases hneg : x < 0
  · have hax : absR x = -x := absR_of_neg hneg
    rw [hax] at h1 h2
    by_cases hm : M = 0
    · subst hm
      simp only [bne_self_eq_false, Bool.and_false, Bool.false_eq_true, if_false] at hv
      subst hv
      push_cast at h1 h2 ⊢
      constructor <;> linarith
    · have : (decide (x < 0) && M != 0) = true := by simp [hneg, hm]
      rw [if_pos this] at hv
      subst hv
      constructor <;> linarith
  · have hax : absR x = x := absR_of_nonneg (not_lt.mp hneg)
    rw [hax] at h1 h2
    have : ¬ (decide (x < 0) && M != 0) = true := by simp [hneg]
    rw [if_neg this] at hv
    subst hv
    constructor <;> linarith

end Indi.Num
