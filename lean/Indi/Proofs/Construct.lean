/-
  Helper lemmas about the table-driven constructor model (`construct`,
  `fromXml`): what a successful construction says about each stored field.
-/
import Indi.Model.Msg

namespace Indi

def viewOf : PyVal → Option (Option Str)
  | .none => some none
  | .str x => some (some x)
  | .parts _ => none

theorem findClass_some_aux {tag : Str} :
    ∀ (cs : List ClassSpec) (acc : Option ClassSpec) {c : ClassSpec},
      cs.foldl (fun acc c => if c.tag = tag then some c else acc) acc = some c →
      (c ∈ cs ∧ c.tag = tag) ∨ acc = some c := by
  intro cs
  induction cs with
  | nil => intro acc c h; exact Or.inr h
  | cons x xs ih =>
    intro acc c h
    simp only [List.foldl_cons] at h
    rcases ih _ h with ⟨hm, ht⟩ | hacc
    · exact Or.inl ⟨List.mem_cons_of_mem _ hm, ht⟩
    · split at hacc
      · rename_i hx
        cases hacc
        exact Or.inl ⟨List.mem_cons_self, hx⟩
      · exact Or.inr hacc

theorem findClass_some {tag : Str} {cs : List ClassSpec} {c : ClassSpec}
    (h : findClass tag cs = some c) : c ∈ cs ∧ c.tag = tag := by
  rcases findClass_some_aux cs none h with h | h
  · exact h
  · cases h

theorem buildFields_lookup {kw : List (Str × PyVal)} :
    ∀ {fs : List FieldSpec} {l : List (Str × PyVal)}, buildFields kw fs = .ok l →
      (fs.map (·.name)).Nodup → ∀ {f : FieldSpec}, f ∈ fs →
      ∃ v, checkGuard f.guard (kwGet kw f.source) = .ok v ∧ alookup f.name l = some v := by
  intro fs
  induction fs with
  | nil => intro l _ _ f hf; cases hf
  | cons g gs ih =>
    intro l h hnd f hf
    simp only [buildFields] at h
    split at h
    · cases h
    · rename_i v hv
      split at h
      · cases h
      · rename_i rest hrest
        cases h
        simp only [List.map_cons, List.nodup_cons] at hnd
        rcases List.mem_cons.mp hf with rfl | hf'
        · exact ⟨v, hv, by simp [alookup]⟩
        · obtain ⟨w, hw, hl⟩ := ih hrest hnd.2 hf'
          refine ⟨w, hw, ?_⟩
          have : g.name ≠ f.name := fun e => hnd.1 (e ▸ List.mem_map.mpr ⟨f, hf', rfl⟩)
          simp [alookup, this, hl]

theorem scalarView_lookup :
    ∀ {l : List (Str × PyVal)} {sv : List (Str × Option Str)}, scalarView l = .ok sv →
      ∀ {k : Str}, k ≠ s "children" → ∀ {v : PyVal}, alookup k l = some v →
      ∃ o, viewOf v = some o ∧ alookup k sv = some o := by
  intro l
  induction l with
  | nil => intro sv _ k _ v hl; simp [alookup] at hl
  | cons x xs ih =>
    intro sv h k hk v hl
    obtain ⟨k', v'⟩ := x
    simp only [scalarView] at h
    split at h
    · -- key is "children": skipped
      rename_i hc
      simp only [alookup] at hl
      have : k' ≠ k := fun e => hk (e ▸ hc)
      simp only [this, if_false] at hl
      exact ih h hk hl
    · rename_i hc
      simp only [alookup] at hl
      split at h
      · cases h
      · rename_i r hr
        cases h
        split at hl
        · cases hl; exact ⟨none, rfl, by simp [alookup, *]⟩
        · rename_i hne
          obtain ⟨o, ho, hlo⟩ := ih hr hk hl
          exact ⟨o, ho, by simp [alookup, hne, hlo]⟩
      · rename_i y r hr
        cases h
        split at hl
        · cases hl; exact ⟨some y, rfl, by simp [alookup, *]⟩
        · rename_i hne
          obtain ⟨o, ho, hlo⟩ := ih hr hk hl
          exact ⟨o, ho, by simp [alookup, hne, hlo]⟩
      · cases h

theorem construct_ok {c : ClassSpec} {kw : List (Str × PyVal)} {m : Msg} (h : construct c kw = .ok m) :
    (c.required.all fun r => ahas r kw) = true ∧
    ∃ l, buildFields kw c.fields = .ok l ∧ scalarView l = .ok m.fields ∧
      childrenView l = .ok m.children ∧ m.tag = c.tag := by
  unfold construct at h
  split at h
  · cases h
  · split at h
    · cases h
    · split at h
      · cases h
      · rename_i hreq
        split at h
        · cases h
        · rename_i l hl
          split at h
          · cases h
          · cases h
          · rename_i sv ch hsv hch
            cases h
            refine ⟨by simpa using hreq, l, hl, hsv, hch, rfl⟩

/-- what a successful construction says about a scalar attribute -/
theorem field_view {c : ClassSpec} {kw : List (Str × PyVal)} {m : Msg} (h : construct c kw = .ok m)
    (hnd : (c.fields.map (·.name)).Nodup) {f : FieldSpec} (hf : f ∈ c.fields) (hk : f.name ≠ s "children") :
    ∃ v o, checkGuard f.guard (kwGet kw f.source) = .ok v ∧ viewOf v = some o ∧
      alookup f.name m.fields = some o := by
  obtain ⟨_, l, hl, hsv, _, _⟩ := construct_ok h
  obtain ⟨v, hv, hlv⟩ := buildFields_lookup hl hnd hf
  obtain ⟨o, ho, hlo⟩ := scalarView_lookup hsv hk hlv
  exact ⟨v, o, hv, ho, hlo⟩

/-- what a successful construction says about the children attribute -/
theorem children_view {c : ClassSpec} {kw : List (Str × PyVal)} {m : Msg} (h : construct c kw = .ok m)
    (hnd : (c.fields.map (·.name)).Nodup) :
    (∀ f ∈ c.fields, f.name = s "children" →
        ∃ ps, checkGuard f.guard (kwGet kw f.source) = .ok (.parts ps) ∧ m.children = some ps) ∧
    ((∀ f ∈ c.fields, f.name ≠ s "children") → m.children = none) := by
  obtain ⟨_, l, hl, _, hch, _⟩ := construct_ok h
  constructor
  · intro f hf hname
    obtain ⟨v, hv, hlv⟩ := buildFields_lookup hl hnd hf
    rw [hname] at hlv
    unfold childrenView at hch
    rw [hlv] at hch
    cases v with
    | none => cases hch
    | str x => cases hch
    | parts ps =>
      simp only [Except.ok.injEq] at hch
      exact ⟨ps, hv, hch.symm⟩
  · intro hno
    have : alookup (s "children") l = none := by
      clear hch
      have key : ∀ {fs : List FieldSpec} {l : List (Str × PyVal)}, buildFields kw fs = .ok l →
          (∀ f ∈ fs, f.name ≠ s "children") → alookup (s "children") l = none := by
        intro fs
        induction fs with
        | nil => intro l h _; simp only [buildFields] at h; cases h; rfl
        | cons g gs ih =>
          intro l h hno
          simp only [buildFields] at h
          split at h
          · cases h
          · split at h
            · cases h
            · rename_i rest hrest
              cases h
              have hg := hno g List.mem_cons_self
              simp [alookup, hg, ih hrest (fun f hf => hno f (List.mem_cons_of_mem _ hf))]
      exact key hl hno
    unfold childrenView at hch
    rw [this] at hch
    simp only [Except.ok.injEq] at hch
    exact hch.symm

end Indi
