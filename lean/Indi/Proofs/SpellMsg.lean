/-
  Message level of foreign spellings: the element the parser reads back from a spelling (`spelled sp e`: attributes in the
  written order, the indentation before the first child appended to the root's text) is read by `from_xml` as the very same
  message as the element `to_xml` built.
-/
import Indi.Spec.XmlSpell
import Indi.Properties.C03

namespace Indi.Xml
open Indi Indi.Spec.MsgValid
open Indi.C03 (alookup_of_mem mem_of_alookup regW regW_generated regW_msg regW_part findClass_spec classW_unpack
  fieldsOk_nodup presentAttrs_keys valid_nodup)
open Indi.DevB (alookup_attrKw alookup_aset')

/-- no registered message class that has children takes a `value` keyword: white space before the first child (which
`from_xml` passes on as `value=""`) is swallowed by `**junk`.  Decided on the regenerated class table. -/
def childrenClassesIgnoreValue (reg : Registry) : Bool :=
  reg.messages.all fun c =>
    (childTagsOf c).isNone || c.fields.all fun f => f.source != some (s "value")

theorem childrenClassesIgnoreValue_generated : childrenClassesIgnoreValue Generated.registry = true := by
  decide +kernel

/-! ### association lists: order does not matter when the keys are distinct -/

theorem alookup_reverse {α : Type} (k : Str) (l : List (Str × α)) (hn : (l.map Prod.fst).Nodup) :
    alookup k l.reverse = alookup k l := by
  have hn' : (l.reverse.map Prod.fst).Nodup := by
    rw [List.map_reverse]; exact ((List.reverse_perm _).nodup_iff).2 hn
  cases h1 : alookup k l with
  | some v => exact alookup_of_mem hn' (List.mem_reverse.2 (mem_of_alookup h1))
  | none =>
    cases h2 : alookup k l.reverse with
    | none => rfl
    | some v =>
      have := alookup_of_mem hn (List.mem_reverse.1 (mem_of_alookup h2))
      rw [h1] at this; cases this

theorem alookup_ordered (sp : Style) (k : Str) (l : List (Str × Str)) (hn : (l.map Prod.fst).Nodup) :
    alookup k (ordered sp l) = alookup k l := by
  unfold ordered
  split
  · exact alookup_reverse k l hn
  · rfl

theorem insertSorted_perm (kv : Str × Str) : ∀ l : List (Str × Str), (insertSorted kv l).Perm (kv :: l)
  | [] => List.Perm.refl _
  | x :: xs => by
    simp only [insertSorted]
    split
    · exact List.Perm.refl _
    · exact ((insertSorted_perm kv xs).cons x).trans (List.Perm.swap kv x xs)

theorem sortByKey_perm : ∀ l : List (Str × Str), (sortByKey l).Perm l
  | [] => List.Perm.refl _
  | x :: xs => (insertSorted_perm x (sortByKey xs)).trans ((sortByKey_perm xs).cons x)

theorem sortByKey_nodup (l : List (Str × Str)) (hn : (l.map Prod.fst).Nodup) :
    ((sortByKey l).map Prod.fst).Nodup :=
  (((sortByKey_perm l).map Prod.fst).nodup_iff).2 hn

/-! ### the constructor only looks keywords up -/

theorem buildFields_congr (kw1 kw2 : List (Str × PyVal)) : ∀ L : List FieldSpec,
    (∀ f ∈ L, ∀ k, f.source = some k → alookup k kw1 = alookup k kw2) → buildFields kw1 L = buildFields kw2 L
  | [], _ => rfl
  | f :: fs, h => by
    have h1 : kwGet kw1 f.source = kwGet kw2 f.source := by
      cases hs : f.source with
      | none => rfl
      | some k => simp only [kwGet, h f (List.mem_cons_self ..) k hs]
    have h2 := buildFields_congr kw1 kw2 fs (fun g hg => h g (List.mem_cons_of_mem _ hg))
    simp only [buildFields, h1, h2]

theorem all_ahas_congr (kw1 kw2 : List (Str × PyVal)) : ∀ L : List Str,
    (∀ r ∈ L, alookup r kw1 = alookup r kw2) → (L.all fun r => ahas r kw1) = (L.all fun r => ahas r kw2)
  | [], _ => rfl
  | r :: rs, h => by
    have h2 := all_ahas_congr kw1 kw2 rs (fun x hx => h x (List.mem_cons_of_mem _ hx))
    simp only [List.all_cons, ahas, h r (List.mem_cons_self ..)]
    simp only [ahas] at h2
    rw [h2]

/-- two keyword lists that agree on every keyword the class looks at construct the same -/
theorem construct_congr (c : ClassSpec) (kw1 kw2 : List (Str × PyVal))
    (hself : alookup (s "self") kw1 = alookup (s "self") kw2)
    (hreq : ∀ r ∈ c.required, alookup r kw1 = alookup r kw2)
    (hsrc : ∀ f ∈ c.fields, ∀ k, f.source = some k → alookup k kw1 = alookup k kw2) :
    construct c kw1 = construct c kw2 := by
  have h1 : ahas (s "self") kw1 = ahas (s "self") kw2 := by simp only [ahas, hself]
  have h2 := all_ahas_congr kw1 kw2 c.required hreq
  unfold construct
  rw [h1, h2, buildFields_congr kw1 kw2 c.fields hsrc]

/-! ### parts -/

theorem partFromXml_ordered (reg : Registry) (sp : Style) (x : Elem1) (hn : (x.attrs.map Prod.fst).Nodup) :
    partFromXml reg { x with attrs := ordered sp x.attrs } = partFromXml reg x := by
  unfold partFromXml
  show (match findClass x.tag reg.parts with
    | none => Except.error Err.invalidTag
    | some c => constructPart c (partKw { x with attrs := ordered sp x.attrs })) = _
  cases findClass x.tag reg.parts with
  | none => rfl
  | some c =>
    have hk : ∀ k, alookup k (partKw { x with attrs := ordered sp x.attrs }) = alookup k (partKw x) := by
      intro k
      simp only [partKw, alookup_aset', alookup_attrKw, alookup_ordered sp k x.attrs hn]
    simp only [constructPart, construct_congr c _ _ (hk _) (fun r _ => hk r) (fun f _ k _ => hk k)]

theorem partsFromXml_ordered (reg : Registry) (sp : Style) : ∀ xs : List Elem1,
    (∀ x ∈ xs, (x.attrs.map Prod.fst).Nodup) →
      partsFromXml reg (xs.map fun c => { c with attrs := ordered sp c.attrs }) = partsFromXml reg xs
  | [], _ => rfl
  | x :: xs, h => by
    have h1 := partFromXml_ordered reg sp x (h x (List.mem_cons_self ..))
    have h2 := partsFromXml_ordered reg sp xs (fun y hy => h y (List.mem_cons_of_mem _ hy))
    simp only [List.map_cons, partsFromXml, h1, h2]

theorem partToXml_nodup (p : Part) (hn : (p.fields.map Prod.fst).Nodup) :
    ((partToXml p).attrs.map Prod.fst).Nodup :=
  List.Nodup.sublist (presentAttrs_keys p.fields) hn

/-! ### the root -/

/-- the keywords without `value` -/
def kwBase (attrs : List (Str × Str)) (ps : List Part) : List (Str × PyVal) :=
  if ps.isEmpty then attrKw attrs else aset (s "children") (PyVal.parts ps) (attrKw attrs)

theorem alookup_msgKw (x : Elem) (ps : List Part) (k : Str) :
    alookup k (msgKw x ps) =
      if x.text.isEmpty then alookup k (kwBase x.attrs ps)
      else if s "value" = k then some (PyVal.str (pyStrip x.text)) else alookup k (kwBase x.attrs ps) := by
  unfold msgKw kwBase
  dsimp only
  split
  · rfl
  · rw [alookup_aset']

theorem alookup_kwBase_ordered (sp : Style) (attrs : List (Str × Str)) (hn : (attrs.map Prod.fst).Nodup)
    (ps : List Part) (k : Str) : alookup k (kwBase (ordered sp attrs) ps) = alookup k (kwBase attrs ps) := by
  unfold kwBase
  split
  · simp only [alookup_attrKw, alookup_ordered sp k attrs hn]
  · simp only [alookup_aset', alookup_attrKw, alookup_ordered sp k attrs hn]

/-- generic in the class table -/
theorem fromXml_spelled_gen {reg : Registry} (hreg : regW reg = true) (hiv : childrenClassesIgnoreValue reg = true)
    (sp : Style) (m : Msg) (h : valid reg m = true) :
    fromXml reg (spelled sp (toXml m)) = fromXml reg (toXml m) := by
  obtain ⟨hnf, hnc⟩ := valid_nodup hreg h
  unfold valid at h
  split at h
  · cases h
  rename_i c hc
  simp only [Bool.and_eq_true] at h
  obtain ⟨⟨hs, hf⟩, hchild⟩ := h
  have hW := regW_msg hreg hc
  obtain ⟨hnd, hfw, hreq⟩ := classW_unpack hW
  have hcm : c ∈ reg.messages := (findClass_spec hc).1
  -- the attributes of the root have distinct names
  have hna : ((toXml m).attrs.map Prod.fst).Nodup :=
    sortByKey_nodup _ (List.Nodup.sublist (presentAttrs_keys m.fields) hnf)
  -- the children are read alike
  have hparts : partsFromXml reg (spelled sp (toXml m)).children = partsFromXml reg (toXml m).children := by
    apply partsFromXml_ordered
    intro x hx
    obtain ⟨p, hp, rfl⟩ := List.mem_map.1 hx
    cases hmc : m.children with
    | none => rw [hmc] at hp; cases hp
    | some ps =>
      rw [hmc] at hp
      exact partToXml_nodup p (hnc ps hmc p hp)
  show (match findClass m.tag reg.messages with
    | none => Except.error Err.invalidTag
    | some c => match partsFromXml reg (spelled sp (toXml m)).children with
      | .error e => .error e
      | .ok ps => construct c (msgKw (spelled sp (toXml m)) ps)) =
    (match findClass m.tag reg.messages with
    | none => Except.error Err.invalidTag
    | some c => match partsFromXml reg (toXml m).children with
      | .error e => .error e
      | .ok ps => construct c (msgKw (toXml m) ps))
  rw [hc, hparts]
  cases hps : partsFromXml reg (toXml m).children with
  | error e => rfl
  | ok ps =>
    dsimp only
    by_cases hemp : (toXml m).children.isEmpty = true
    · -- no children: the text is untouched
      have htext : (spelled sp (toXml m)).text = (toXml m).text := by
        simp only [spelled, hemp, if_true, List.append_nil]
      have hk : ∀ k, alookup k (msgKw (spelled sp (toXml m)) ps) = alookup k (msgKw (toXml m) ps) := by
        intro k
        rw [alookup_msgKw, alookup_msgKw, htext]
        show (if (toXml m).text.isEmpty then alookup k (kwBase (ordered sp (toXml m).attrs) ps) else
          if s "value" = k then some (PyVal.str (pyStrip (toXml m).text))
          else alookup k (kwBase (ordered sp (toXml m).attrs) ps)) = _
        rw [alookup_kwBase_ordered sp _ hna]
      exact construct_congr c _ _ (hk _) (fun r _ => hk r) (fun f _ k _ => hk k)
    · -- children: the class never looks at `value`
      have hsome : ∃ tags, childTagsOf c = some tags := by
        cases hct : childTagsOf c with
        | some tags => exact ⟨tags, rfl⟩
        | none =>
          rw [hct] at hchild
          cases hmc : m.children with
          | some ps' => rw [hmc] at hchild; cases hchild
          | none =>
            exfalso; apply hemp
            simp only [toXml, hmc, Option.getD_none, List.map_nil, List.isEmpty_nil]
      obtain ⟨tags, hct⟩ := hsome
      have hnv : ∀ f ∈ c.fields, f.source ≠ some (s "value") := by
        simp only [childrenClassesIgnoreValue, List.all_eq_true, Bool.or_eq_true] at hiv
        rcases hiv c hcm with h1 | h1
        · rw [hct] at h1; cases h1
        · intro f hfm
          simpa using h1 f hfm
      have hk : ∀ k, k ≠ s "value" →
          alookup k (msgKw (spelled sp (toXml m)) ps) = alookup k (msgKw (toXml m) ps) := by
        intro k hne
        have hne' : ¬ s "value" = k := fun e => hne e.symm
        rw [alookup_msgKw, alookup_msgKw]
        simp only [if_neg hne', ite_self]
        exact alookup_kwBase_ordered sp _ hna ps k
      refine construct_congr c _ _ (hk _ (by decide)) (fun r hr => hk r ?_) (fun f hfm k hsrc => hk k ?_)
      · rintro rfl
        obtain ⟨_, f, hfm, hsrc⟩ := hreq _ hr
        exact hnv f hfm hsrc
      · rintro rfl
        exact hnv f hfm hsrc

/-- **C03, foreign spellings (message level)**: reading back the spelled element gives exactly what reading back the
library's own element gives -/
theorem fromXml_spelled (sp : Style) (hsp : sp.ok = true) (m : Msg) (h : valid Generated.registry m = true) :
    fromXml Generated.registry (spelled sp (toXml m)) = fromXml Generated.registry (toXml m) := by
  have _ := hsp   -- not needed: the value keyword is ignored whatever the indentation is
  exact fromXml_spelled_gen regW_generated childrenClassesIgnoreValue_generated sp m h

end Indi.Xml

namespace Indi.Xml
open Indi Indi.Spec.MsgValid

/-! ### non-vacuity -/

local instance : DecidableEq (Except Err Msg)
  | .ok a, .ok b => if h : a = b then isTrue (h ▸ rfl) else isFalse (fun e => h (Except.ok.inj e))
  | .error a, .error b => if h : a = b then isTrue (h ▸ rfl) else isFalse (fun e => h (Except.error.inj e))
  | .ok _, .error _ => isFalse (fun e => by cases e)
  | .error _, .ok _ => isFalse (fun e => by cases e)

def exStyle : Style := { single := true, revAttrs := true, indent := s "\n  ", closeIndent := s "\n" }

def exMsg : Msg :=
  { tag := s "defTextVector",
    fields := [(s "device", some (s "cam")), (s "name", some (s "INFO")), (s "state", some (s "Ok")),
      (s "label", some (s "Info")), (s "group", none), (s "timestamp", none), (s "message", none),
      (s "perm", some (s "rw")), (s "timeout", none)],
    children := some [
      { tag := s "defText", fields := [(s "name", some (s "a")), (s "value", some (s "x")), (s "label", some (s "A"))] },
      { tag := s "defText", fields := [(s "name", some (s "b")), (s "value", some (s "y z")), (s "label", none)] }] }

/-- a valid `defTextVector` with two children, attributes reversed and indented: the spelled element differs from the
library's, the style is admissible, and both are read as the same message -/
example :
    exStyle.ok = true ∧ valid Generated.registry exMsg = true ∧
    spelled exStyle (toXml exMsg) ≠ toXml exMsg ∧
    (spelled exStyle (toXml exMsg)).text = s "\n  " ∧
    fromXml Generated.registry (spelled exStyle (toXml exMsg)) = .ok exMsg ∧
    fromXml Generated.registry (toXml exMsg) = .ok exMsg := by
  decide +kernel

end Indi.Xml

