/-
  One-step facts about the parser automaton, proved once by case analysis over every mode (`step_trans`):
  how a step can change `done` and the tags on the stack, and how the modes `.lt` / `.tagName` are entered.
  Used by `Indi.Proofs.XmlDoc`.
-/
import Indi.Proofs.XmlRT

namespace Indi.Xml.Doc
open Indi Indi.Xml

theorem run_nil (st : St) : run st [] = st := rfl
theorem run_cons (st : St) (c : Char) (cs : Str) : run st (c :: cs) = run (step st c) cs := rfl

theorem step_err (st : St) (c : Char) (h : st.mode = .err) : step st c = st := by
  simp [step, h]
theorem step_uns (st : St) (c : Char) (h : st.mode = .uns) : step st c = st := by
  simp [step, h]

theorem run_err (st : St) (x : Str) (h : st.mode = .err) : run st x = st := by
  induction x with
  | nil => rfl
  | cons c cs ih => rw [run_cons, step_err st c h, ih]
theorem run_uns (st : St) (x : Str) (h : st.mode = .uns) : run st x = st := by
  induction x with
  | nil => rfl
  | cons c cs ih => rw [run_cons, step_uns st c h, ih]

def tags (st : St) : List Str := st.stack.map (·.tag)


@[simp] theorem emit_done (st : St) (d : Str) : (st.emit d).done = st.done := by
  unfold St.emit; (repeat' split) <;> rfl
@[simp] theorem emit_tags (st : St) (d : Str) : (st.emit d).stack.map (·.tag) = st.stack.map (·.tag) := by
  unfold St.emit; split
  · rfl
  · split <;> simp_all

theorem close_mode (st : St) : st.close.mode = .err ∨ st.close.mode = .misc ∨ st.close.mode = .text 0 := by
  unfold St.close; (repeat' split) <;> simp [St.fail]
@[simp] theorem close_mode_lt (st : St) (b : Bool) : (st.close.mode = .lt b) = False := by
  rcases close_mode st with h | h | h <;> simp [h]
@[simp] theorem close_mode_tagName (st : St) (acc : Str) : (st.close.mode = .tagName acc) = False := by
  rcases close_mode st with h | h | h <;> simp [h]

def Trans (st : St) (c : Char) (st' : St) : Prop :=
  (∀ b, st'.mode = .lt b → c = '<') ∧
  (∀ acc, st'.mode = .tagName acc →
    (∃ b, st.mode = .lt b ∧ acc = [c] ∧ st.done = none) ∨ (∃ acc', st.mode = .tagName acc' ∧ acc = c :: acc')) ∧
  ((st'.done = st.done ∧ tags st' = tags st) ∨
   (∃ acc, st.mode = .tagName acc ∧ st'.done = st.done ∧ tags st' = acc.reverse :: tags st) ∨
   st' = st.close)

theorem step_trans (st : St) (c : Char) : Trans st c (step st c) := by
  obtain ⟨mode, stack, done, cr⟩ := st
  cases mode <;> simp only [step, stepMode, St.fail, St.unsup, St.resume, St.addAttr, St.openTag] <;> (repeat' split) <;> simp_all [Trans, tags]

end Indi.Xml.Doc
