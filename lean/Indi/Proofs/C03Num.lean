/-
  C03: a text accepted by `checks.number` is non-empty, stays non-empty after `strip()`,
  and is still accepted after `strip()`.
-/
import Indi.Proofs.DevB

namespace Indi.C03Num
open Indi Indi.DevBNum Indi.DevB

/-! ### digits are not blanks -/

theorem tbl : Generated.pySpaces.all
    (fun n => !(Generated.ndZeros.any fun z => z ≤ n && n < z + 10)) = true := by decide +kernel

theorem digit_ns {c : Char} (h : pyIsDigit c = true) : pyIsSpace c = false := by
  cases hs : pyIsSpace c with
  | false => rfl
  | true =>
    have hm : c.toNat ∈ Generated.pySpaces := List.contains_iff_mem.1 hs
    have h2 := List.all_eq_true.1 tbl _ hm
    unfold pyIsDigit at h
    rw [h] at h2
    exact absurd h2 (by decide)

def AllD (l : Str) : Prop := ∀ c ∈ l, pyIsDigit c = true

theorem allNS_of_allD {l : Str} (h : AllD l) : AllNS l := fun c hc => digit_ns (h c hc)

theorem span_spec : ∀ (x d r : Str), spanDigits x = (d, r) → x = d ++ r ∧ AllD d
  | [], d, r, h => by
    simp only [spanDigits, Prod.mk.injEq] at h
    obtain ⟨rfl, rfl⟩ := h
    exact ⟨rfl, fun c hc => nomatch hc⟩
  | c :: cs, d, r, h => by
    cases hs : spanDigits cs with
    | mk d' r' =>
      obtain ⟨h1, h2⟩ := span_spec cs d' r' hs
      cases hc : pyIsDigit c with
      | false =>
        simp only [spanDigits, hc, Bool.false_eq_true, if_false, Prod.mk.injEq] at h
        obtain ⟨rfl, rfl⟩ := h
        exact ⟨rfl, fun c hc => nomatch hc⟩
      | true =>
        simp only [spanDigits, hc, hs, if_true, Prod.mk.injEq] at h
        obtain ⟨rfl, rfl⟩ := h
        refine ⟨by rw [h1]; rfl, ?_⟩
        intro x hx
        cases hx with
        | head => exact hc
        | tail _ hx => exact h2 x hx

/-- `spanDigits` consumed everything -/
theorem span_all {x d r : Str} (h : spanDigits x = (d, r)) (hr : r.isEmpty = true) :
    x = d ∧ AllNS x := by
  obtain ⟨h1, h2⟩ := span_spec x d r h
  have : r = [] := List.isEmpty_iff.1 hr
  subst this
  rw [List.append_nil] at h1
  subst h1
  exact ⟨rfl, allNS_of_allD h2⟩

theorem twoDigits_spec {x r : Str} (h : twoDigits x = some r) :
    ∃ a b, x = a :: b :: r ∧ pyIsSpace a = false ∧ pyIsSpace b = false := by
  match x, h with
  | a :: b :: rest, h =>
    simp only [twoDigits] at h
    split at h
    · rename_i hab
      simp only [Bool.and_eq_true] at hab
      cases h
      exact ⟨a, b, rfl, digit_ns hab.1, digit_ns hab.2⟩
    · cases h

theorem optFracEnd_spec {x : Str} (h : optFracEnd x = true) : AllNS x := by
  unfold optFracEnd at h
  split at h
  · exact allNS_nil
  · rename_i rest
    cases hs : spanDigits rest with
    | mk d r =>
      rw [hs] at h
      simp only [Bool.and_eq_true] at h
      exact allNS_cons misc.2.2.1 (span_all hs h.2).2
  · cases h

/-! ### the last character -/

theorem hdOk_rev (pre s : Str) (hne : s ≠ []) (hs : AllNS s) :
    hdOk (pre ++ s).reverse = true := by
  rw [List.reverse_append]
  cases hr : s.reverse with
  | nil => exact absurd (List.reverse_eq_nil_iff.1 hr) hne
  | cons c cs =>
    have : c ∈ s := List.mem_reverse.1 (by rw [hr]; exact List.mem_cons_self)
    simp [hdOk, hs c this]

/-! ### accepted texts start and end with a non-blank -/

/-- non-empty, first character not blank, and a non-empty blank-free suffix -/
def Edges (x : Str) : Prop :=
  x ≠ [] ∧ hdOk x = true ∧ ∃ pre s, x = pre ++ s ∧ s ≠ [] ∧ AllNS s

theorem edges_cons {c : Char} {x : Str} (hc : pyIsSpace c = false) (h : Edges x) :
    Edges (c :: x) := by
  obtain ⟨_, _, pre, s, rfl, hne, hs⟩ := h
  exact ⟨List.cons_ne_nil _ _, by simp [hdOk, hc], c :: pre, s, rfl, hne, hs⟩

theorem body_spec {b : Str} (h : numberBody b = true) : Edges b := by
  unfold numberBody at h
  cases hs : spanDigits b with
  | mk d r =>
    rw [hs] at h
    obtain ⟨hb, hd⟩ := span_spec b d r hs
    subst hb
    simp only at h
    split at h
    · -- `.d+`
      rename_i hde
      have : d = [] := List.isEmpty_iff.1 hde
      subst this
      split at h
      · rename_i r'
        cases hs2 : spanDigits r' with
        | mk d' r'' =>
          rw [hs2] at h
          simp only [Bool.and_eq_true] at h
          have hns : AllNS ('.' :: r') := allNS_cons misc.2.2.1 (span_all hs2 h.2).2
          exact ⟨List.cons_ne_nil _ _, by simp [hdOk, misc.2.2.1], [], _, rfl,
            List.cons_ne_nil _ _, hns⟩
      · cases h
    · rename_i hde
      match d, hde, hd with
      | c0 :: d0, _, hd =>
        have hdn : AllNS (c0 :: d0) := allNS_of_allD hd
        have hc0 : pyIsSpace c0 = false := hdn c0 List.mem_cons_self
        refine ⟨List.cons_ne_nil _ _, by simp [hdOk, hc0], ?_⟩
        split at h
        · exact ⟨[], c0 :: d0, by simp, List.cons_ne_nil _ _, hdn⟩
        · rename_i r'
          cases hs2 : spanDigits r' with
          | mk d' r'' =>
            rw [hs2] at h
            exact ⟨c0 :: d0, '.' :: r', rfl, List.cons_ne_nil _ _,
              allNS_cons misc.2.2.1 (span_all hs2 h).2⟩
        · rename_i c r' _
          split at h
          · split at h
            · cases h
            · rename_i r2 htd
              obtain ⟨a1, b1, rfl, ha1, hb1⟩ := twoDigits_spec htd
              split at h
              · exact ⟨c0 :: d0 ++ [c], [a1, b1], by simp, List.cons_ne_nil _ _,
                  allNS_cons ha1 (allNS_cons hb1 allNS_nil)⟩
              · exact ⟨c0 :: d0 ++ [c], a1 :: b1 :: _, by simp, List.cons_ne_nil _ _,
                  allNS_cons ha1 (allNS_cons hb1 (optFracEnd_spec h))⟩
              · rename_i c2 r3 _
                split at h
                · split at h
                  · cases h
                  · rename_i r4 htd2
                    obtain ⟨a2, b2, rfl, ha2, hb2⟩ := twoDigits_spec htd2
                    exact ⟨c0 :: d0 ++ [c, a1, b1, c2], a2 :: b2 :: r4, by simp,
                      List.cons_ne_nil _ _,
                      allNS_cons ha2 (allNS_cons hb2 (optFracEnd_spec h))⟩
                · cases h
          · cases h

theorem core_spec {u : Str} (h : numberCore u = true) : Edges u := by
  match u, h with
  | [], h => exact absurd h (by decide)
  | c :: r, h =>
    by_cases h1 : c = '-'
    · subst h1
      rw [numberCore_neg] at h
      exact edges_cons misc.2.2.2.2.1 (body_spec h)
    · by_cases h2 : c = '+'
      · subst h2
        rw [numberCore_pos] at h
        exact edges_cons misc.2.2.2.2.2.1 (body_spec h)
      · rw [numberCore_other c r h1 h2] at h
        exact body_spec h

theorem strip_of_edges {u : Str} (h : Edges u) : pyStrip u = u := by
  obtain ⟨_, h1, pre, s, rfl, hne, hs⟩ := h
  unfold pyStrip
  rw [dropSpaces_of_hdOk _ h1, dropSpaces_of_hdOk _ (hdOk_rev pre s hne hs), List.reverse_reverse]

theorem numberOk_of_core {u : Str} (h : numberCore u = true) : numberOk u = true := by
  simp [numberOk, h]

theorem nl_space : pyIsSpace '\n' = true := by decide

theorem numberOk_strip (t : Str) (h : numberOk t = true) :
    t ≠ [] ∧ pyStrip t ≠ [] ∧ numberOk (pyStrip t) = true := by
  unfold numberOk at h
  rcases Bool.or_eq_true_iff.1 h with h | h
  · have he := core_spec h
    rw [strip_of_edges he]
    exact ⟨he.1, he.1, numberOk_of_core h⟩
  · unfold dropLastNewline at h
    split at h
    · rename_i r hr
      have ht : t = r.reverse ++ ['\n'] := by
        have := congrArg List.reverse hr
        simpa using this
      have he := core_spec h
      have hst : pyStrip t = r.reverse := by
        have h2 : hdOk t = true := by
          obtain ⟨hne, hh, _⟩ := he
          rw [ht]
          cases hrr : r.reverse with
          | nil => exact absurd hrr hne
          | cons a as => rw [hrr] at hh; exact hh
        have h3 : hdOk r = true := by
          obtain ⟨_, _, pre, s, e, hne, hs⟩ := he
          have := hdOk_rev pre s hne hs
          rwa [← e, List.reverse_reverse] at this
        unfold pyStrip
        rw [dropSpaces_of_hdOk _ h2, hr]
        simp only [dropSpaces, nl_space, if_true]
        rw [dropSpaces_of_hdOk _ h3]
      rw [hst]
      refine ⟨?_, he.1, numberOk_of_core h⟩
      rw [ht]; simp
    · have he := core_spec h
      rw [strip_of_edges he]
      exact ⟨he.1, he.1, numberOk_of_core h⟩

end Indi.C03Num
