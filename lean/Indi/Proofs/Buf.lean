/-
  Helper lemmas for C02 / C11 (framing buffer).
-/
import Indi.Spec.Buf2

namespace Indi.Buf

variable {M : Type}

/-! ### startsKnown / openers -/

theorem startsKnown_iff (tags : List Str) (d : Str) :
    startsKnown tags d = true ↔ ∃ t ∈ tags, ('<' :: t) <+: d := by
  simp [startsKnown, List.any_eq_true, List.isPrefixOf_iff_prefix]

theorem startsKnown_nil (tags : List Str) : startsKnown tags [] = false := by
  cases h : startsKnown tags [] with
  | false => rfl
  | true =>
    obtain ⟨t, _, ht⟩ := (startsKnown_iff tags []).1 h
    simp at ht

theorem startsKnown_head (tags : List Str) (c : Char) (cs : Str)
    (h : startsKnown tags (c :: cs) = true) : c = '<' := by
  obtain ⟨t, _, ht⟩ := (startsKnown_iff tags _).1 h
  obtain ⟨u, hu⟩ := ht
  simp at hu
  exact hu.1.symm

theorem startsKnown_append (tags : List Str) (a b : Str)
    (h : startsKnown tags a = true) : startsKnown tags (a ++ b) = true := by
  obtain ⟨t, htm, ht⟩ := (startsKnown_iff tags _).1 h
  exact (startsKnown_iff tags _).2 ⟨t, htm, ht.trans (List.prefix_append a b)⟩

/-- an opener cannot start in a non-empty `a` and reach over a following `'<'` -/
theorem startsKnown_span (tags : List Str) (hA2 : TagsOk tags) (a b : Str) (ha : a ≠ [])
    (h : startsKnown tags (a ++ '<' :: b) = true) : startsKnown tags a = true := by
  obtain ⟨t, htm, ht⟩ := (startsKnown_iff tags _).1 h
  have h2 : a <+: a ++ '<' :: b := List.prefix_append _ _
  rcases List.prefix_or_prefix_of_prefix ht h2 with h3 | h3
  · exact (startsKnown_iff tags _).2 ⟨t, htm, h3⟩
  · obtain ⟨u, hu⟩ := h3
    cases u with
    | nil =>
      refine (startsKnown_iff tags _).2 ⟨t, htm, ?_⟩
      rw [← hu]; simp
    | cons d u' =>
      exfalso
      rw [← hu] at ht
      have h4 : d :: u' <+: '<' :: b := by
        simpa [List.append_assoc] using (List.prefix_append_right_inj a).1 ht
      obtain ⟨w, hw⟩ := h4
      simp at hw
      obtain ⟨hd, _⟩ := hw
      subst hd
      cases a with
      | nil => exact ha rfl
      | cons a0 a' =>
        simp at hu
        have : '<' ∈ t := by rw [← hu.2]; simp
        exact hA2 t htm this

theorem HasOpener_append (tags : List Str) (x y : Str) (h : HasOpener tags x) :
    HasOpener tags (x ++ y) := by
  obtain ⟨i, hi⟩ := h
  refine ⟨i, ?_⟩
  rw [List.drop_append]
  exact startsKnown_append _ _ _ hi

theorem NoOpener_not_HasOpener (tags : List Str) (g : Str) (h : NoOpener tags g) :
    ¬ HasOpener tags g := by
  rintro ⟨i, hi⟩
  rw [h i] at hi
  cases hi

theorem NoOpener_drop (tags : List Str) (g : Str) (k : Nat) (h : NoOpener tags g) :
    NoOpener tags (g.drop k) := by
  intro i
  rw [List.drop_drop]
  exact h _

theorem NoOpener_suffix (tags : List Str) (g s : Str) (hs : s <:+ g) (h : NoOpener tags g) :
    NoOpener tags s := by
  obtain ⟨p, hp⟩ := hs
  have : s = g.drop p.length := by rw [← hp]; simp
  rw [this]
  exact NoOpener_drop _ _ _ h

theorem NoOpener_prefix (tags : List Str) (a b : Str) (h : NoOpener tags (a ++ b)) :
    NoOpener tags a := by
  intro i
  cases hh : startsKnown tags (a.drop i) with
  | false => rfl
  | true =>
    have := h i
    rw [List.drop_append] at this
    rw [startsKnown_append _ _ _ hh] at this
    cases this

theorem NoOpener_of_prefix (tags : List Str) (a g : Str) (ha : a <+: g) (h : NoOpener tags g) :
    NoOpener tags a := by
  obtain ⟨b, hb⟩ := ha
  subst hb
  exact NoOpener_prefix _ _ _ h

/-! ### cleanup -/

theorem dropToKnown_suffix (tags : List Str) (d : Str) :
    ∀ r, dropToKnown tags d = some r → r <:+ d := by
  induction d with
  | nil => intro r h; simp [dropToKnown] at h
  | cons c cs ih =>
    intro r h
    simp only [dropToKnown] at h
    split at h
    · cases h; exact List.suffix_refl _
    · exact (ih r h).trans (List.suffix_cons _ _)

theorem dropToLastLt_suffix (d : Str) : ∀ r, dropToLastLt d = some r → r <:+ d := by
  induction d with
  | nil => intro r h; simp [dropToLastLt] at h
  | cons c cs ih =>
    intro r h
    simp only [dropToLastLt] at h
    split at h
    · rename_i r' hr'
      cases h
      exact (ih _ hr').trans (List.suffix_cons _ _)
    · split at h
      · cases h; exact List.suffix_refl _
      · cases h

theorem cleanup_suffix (tags : List Str) (d : Str) : cleanup tags d <:+ d := by
  unfold cleanup
  split
  · rename_i r h; exact dropToKnown_suffix tags d r h
  · split
    · rename_i r h; exact dropToLastLt_suffix d r h
    · exact List.nil_suffix

theorem dropToKnown_ne_nil (tags : List Str) (d : Str) :
    ∀ r, dropToKnown tags d = some r → r ≠ [] := by
  induction d with
  | nil => intro r h; simp [dropToKnown] at h
  | cons c cs ih =>
    intro r h
    simp only [dropToKnown] at h
    split at h
    · cases h; simp
    · exact ih r h

theorem dropToLastLt_ne_nil (d : Str) : ∀ r, dropToLastLt d = some r → r ≠ [] := by
  induction d with
  | nil => intro r h; simp [dropToLastLt] at h
  | cons c cs ih =>
    intro r h
    simp only [dropToLastLt] at h
    split at h
    · rename_i r' hr'
      cases h
      exact ih _ hr'
    · split at h
      · cases h; simp
      · cases h

/-- recursive characterisation of `cleanup` -/
theorem cleanup_cons (tags : List Str) (c : Char) (cs : Str) :
    cleanup tags (c :: cs) =
      if startsKnown tags (c :: cs) = true then c :: cs
      else if cleanup tags cs = [] ∧ c = '<' then c :: cs
      else cleanup tags cs := by
  unfold cleanup
  simp only [dropToKnown, dropToLastLt]
  by_cases hs : startsKnown tags (c :: cs) = true
  · simp [hs]
  · simp only [hs, Bool.false_eq_true, if_false]
    cases hk : dropToKnown tags cs with
    | some r =>
      have := dropToKnown_ne_nil tags cs r hk
      simp [this]
    | none =>
      cases hl : dropToLastLt cs with
      | some r =>
        have := dropToLastLt_ne_nil cs r hl
        simp [this]
      | none =>
        by_cases hc : c = '<'
        · simp [hc]
        · simp [hc]

theorem cleanup_nil (tags : List Str) : cleanup tags [] = [] := by
  simp [cleanup, dropToKnown, dropToLastLt]

theorem cleanup_eq_nil_iff (tags : List Str) (z : Str) : cleanup tags z = [] ↔ '<' ∉ z := by
  induction z with
  | nil => simp [cleanup_nil]
  | cons c cs ih =>
    rw [cleanup_cons]
    by_cases hs : startsKnown tags (c :: cs) = true
    · have := startsKnown_head _ _ _ hs
      subst this
      simp [hs]
    · by_cases hc : c = '<'
      · by_cases hn : cleanup tags cs = []
        · simp [hc, hn]
        · subst hc
          simp [hs, hn]
      · simp only [hs, hc, and_false, if_false, Bool.false_eq_true]
        rw [ih]
        simp [Ne.symm hc]

theorem cleanup_of_startsKnown (tags : List Str) (d : Str) (h : startsKnown tags d = true) :
    cleanup tags d = d := by
  cases d with
  | nil => exact cleanup_nil _
  | cons c cs => rw [cleanup_cons]; simp [h]

/-- L2: cleaning up early does not change the result of a later clean-up -/
theorem cleanup_absorb (tags : List Str) (hA2 : TagsOk tags) (x y : Str) :
    cleanup tags (cleanup tags x ++ y) = cleanup tags (x ++ y) := by
  induction x with
  | nil => simp [cleanup_nil]
  | cons c cs ih =>
    rw [cleanup_cons tags c cs]
    by_cases hs : startsKnown tags (c :: cs) = true
    · simp [hs]
    · by_cases h2 : cleanup tags cs = [] ∧ c = '<'
      · simp [h2]
      · simp only [hs, h2, if_false, Bool.false_eq_true]
        rw [ih, List.cons_append, cleanup_cons tags c (cs ++ y)]
        have h3 : ¬ (startsKnown tags (c :: (cs ++ y)) = true) := by
          intro h3
          have hc := startsKnown_head _ _ _ h3
          subst hc
          have hne : cleanup tags cs ≠ [] := fun h => h2 ⟨h, rfl⟩
          have hmem : '<' ∈ cs := by
            by_cases hm : '<' ∈ cs
            · exact hm
            · exact absurd ((cleanup_eq_nil_iff tags cs).2 hm) hne
          obtain ⟨a', b', hab⟩ := List.append_of_mem hmem
          subst hab
          have h4 : startsKnown tags (('<' :: a') ++ '<' :: (b' ++ y)) = true := by
            simpa [List.append_assoc] using h3
          have h5 := startsKnown_span tags hA2 ('<' :: a') (b' ++ y) (by simp) h4
          have h6 := startsKnown_append tags _ ('<' :: b') h5
          exact hs (by simpa [List.append_assoc] using h6)
        have h4 : ¬ (cleanup tags (cs ++ y) = [] ∧ c = '<') := by
          rintro ⟨h4, hc⟩
          have hne : cleanup tags cs ≠ [] := fun h => h2 ⟨h, hc⟩
          rw [cleanup_eq_nil_iff] at h4
          apply hne
          rw [cleanup_eq_nil_iff]
          intro hm
          exact h4 (List.mem_append_left _ hm)
        simp [h3, h4]

/-- L1: a gap without opener in front of text that starts with `'<'` and is stable under clean-up -/
theorem cleanup_gap (tags : List Str) (hA2 : TagsOk tags) (g p' : Str) (hg : NoOpener tags g)
    (hp : cleanup tags ('<' :: p') = '<' :: p') :
    cleanup tags (g ++ '<' :: p') = '<' :: p' := by
  induction g with
  | nil => simpa using hp
  | cons c g' ih =>
    have ih' := ih (NoOpener_drop tags (c :: g') 1 hg)
    rw [List.cons_append, cleanup_cons]
    have h1 : ¬ (startsKnown tags (c :: (g' ++ '<' :: p')) = true) := by
      intro h1
      have := startsKnown_span tags hA2 (c :: g') p' (by simp) (by simpa using h1)
      have h0 := hg 0
      simp at h0
      rw [h0] at this
      cases this
    have h2 : ¬ (cleanup tags (g' ++ '<' :: p') = [] ∧ c = '<') := by
      rintro ⟨h2, _⟩
      rw [ih'] at h2
      cases h2
    simp only [h1, h2, if_false]
    exact ih'

theorem cleanup_lt_noLt (tags : List Str) (p' : Str) (h : '<' ∉ p') :
    cleanup tags ('<' :: p') = '<' :: p' := by
  rw [cleanup_cons]
  have := (cleanup_eq_nil_iff tags p').2 h
  simp [this]

/-! ### scan / findMessage -/

/-- a hit of the scan is a candidate (prefix of the data ending at the scan position) that parses -/
theorem scan_found_candidate (parse : Str → ParseRes M) :
    ∀ (rest preRev : Str) (m : M) (r : Str), scan parse preRev rest = .found m r →
      ∃ k, parse (preRev.reverse ++ rest.take k) = .msg m := by
  intro rest
  induction rest with
  | nil => intro preRev m r h; simp [scan] at h
  | cons c cs ih =>
    intro preRev m r h
    have hstep : scan parse (c :: preRev) cs = .found m r →
        ∃ k, parse (preRev.reverse ++ (c :: cs).take k) = .msg m := by
      intro h'
      obtain ⟨k, hk⟩ := ih _ _ _ h'
      exact ⟨k + 1, by simpa using hk⟩
    simp only [scan] at h
    split at h
    · split at h
      · rename_i m' hm'
        cases h
        exact ⟨1, by simpa using hm'⟩
      · cases h
      · split at h
        · cases h
        · exact hstep h
    · exact hstep h

theorem scan_found_parses (parse : Str → ParseRes M)
    (rest preRev : Str) (m : M) (r : Str) (h : scan parse preRev rest = .found m r) :
    ∃ x, parse x = .msg m := by
  obtain ⟨k, hk⟩ := scan_found_candidate parse rest preRev m r h
  exact ⟨_, hk⟩

theorem scan_suffix (parse : Str → ParseRes M) :
    ∀ (rest preRev : Str),
      (∀ (m : M) (r : Str), scan parse preRev rest = .found m r → r <:+ rest) ∧
      (∀ (r : Str), scan parse preRev rest = .skip r → r <:+ rest) := by
  intro rest
  induction rest with
  | nil => intro preRev; constructor <;> intros <;> simp [scan] at *
  | cons c cs ih =>
    intro preRev
    have hstep := ih (c :: preRev)
    simp only [scan]
    split
    · split
      · constructor
        · intro m r h; cases h; exact List.suffix_cons _ _
        · intro r h; cases h
      · constructor
        · intro m r h; cases h
        · intro r h; cases h; exact List.suffix_cons _ _
      · split
        · constructor
          · intro m r h; cases h
          · intro r h; cases h
        · exact ⟨fun m r h => (hstep.1 m r h).trans (List.suffix_cons _ _),
            fun r h => (hstep.2 r h).trans (List.suffix_cons _ _)⟩
    · exact ⟨fun m r h => (hstep.1 m r h).trans (List.suffix_cons _ _),
        fun r h => (hstep.2 r h).trans (List.suffix_cons _ _)⟩

theorem findMessage_found_candidate (parse : Str → ParseRes M) (data : Str) (m : M) (r : Str)
    (h : findMessage parse data = .found m r) : ∃ k, parse (data.take k) = .msg m := by
  unfold findMessage at h
  split at h
  · cases h
  · simpa using scan_found_candidate parse _ _ _ _ h

theorem findMessage_found_parses (parse : Str → ParseRes M) (data : Str) (m : M) (r : Str)
    (h : findMessage parse data = .found m r) : ∃ x, parse x = .msg m := by
  obtain ⟨k, hk⟩ := findMessage_found_candidate parse data m r h
  exact ⟨_, hk⟩

theorem findMessage_suffix (parse : Str → ParseRes M) (data : Str) (m : M) (r : Str)
    (h : findMessage parse data = .found m r) : r <:+ data := by
  unfold findMessage at h
  split at h
  · cases h
  · exact (scan_suffix parse _ _).1 _ _ h

theorem findMessage_skip_suffix (parse : Str → ParseRes M) (data : Str) (r : Str)
    (h : findMessage parse data = .skip r) : r <:+ data := by
  unfold findMessage at h
  split at h
  · cases h
  · exact (scan_suffix parse _ _).2 _ h

/-- if no candidate is XML, the scan finds nothing -/
theorem scan_nothing (parse : Str → ParseRes M) :
    ∀ (rest preRev : Str), (∀ k, parse (preRev.reverse ++ rest.take k) = .notXml) →
      scan parse preRev rest = .nothing := by
  intro rest
  induction rest with
  | nil => intro preRev _; simp [scan]
  | cons c cs ih =>
    intro preRev h
    have hstep : scan parse (c :: preRev) cs = .nothing := by
      apply ih
      intro k
      have := h (k + 1)
      simpa using this
    simp only [scan]
    split
    · have h1 := h 1
      simp only [List.take_succ_cons, List.take_zero] at h1
      have h1' : parse (c :: preRev).reverse = .notXml := by simpa using h1
      rw [h1']
      simp only
      split
      · rfl
      · exact hstep
    · exact hstep

theorem findMessage_nothing_of_prefixes (parse : Str → ParseRes M) (data : Str)
    (h : ∀ k, parse (data.take k) = .notXml) : findMessage parse data = .nothing := by
  unfold findMessage
  split
  · rfl
  · apply scan_nothing
    simpa using h

/-- L5: on opener-free data nothing is ever found (a complete non-message element may be skipped) -/
theorem findMessage_noOpener (parse : Str → ParseRes M) (tags : List Str)
    (hA1 : ParserNeedsOpener parse tags) (data : Str) (hd : NoOpener tags data) (m : M) (r : Str) :
    findMessage parse data ≠ .found m r := by
  intro h
  obtain ⟨k, hk⟩ := findMessage_found_candidate parse data m r h
  have h1 := hA1 _ _ hk
  have h2 := HasOpener_append tags _ (data.drop k) h1
  rw [List.take_append_drop] at h2
  exact NoOpener_not_HasOpener tags data hd h2

/-! ### processLoop: one-step unfoldings -/

theorem processLoop_nil (parse : Str → ParseRes M) (tags : List Str) (T : Option Nat) :
    processLoop parse tags T [] = ([], []) := by
  rw [processLoop.eq_def]; simp

theorem processLoop_found (parse : Str → ParseRes M) (tags : List Str) (T : Option Nat)
    (data : Str) (m : M) (rest : Str) (hf : findMessage parse data = .found m rest) :
    processLoop parse tags T data =
      (m :: (processLoop parse tags T (cleanup tags rest)).1,
        (processLoop parse tags T (cleanup tags rest)).2) := by
  have hne : data ≠ [] := by
    intro h; subst h; simp [findMessage] at hf
  rw [processLoop.eq_def]
  simp only [hne, dite_false]
  split
  · rename_i m' rest' h'
    rw [hf] at h'
    cases h'
    rfl
  · rename_i h'
    rw [hf] at h'
    cases h'
  · rename_i h'
    rw [hf] at h'
    cases h'

theorem processLoop_skip (parse : Str → ParseRes M) (tags : List Str) (T : Option Nat)
    (data : Str) (rest : Str) (hf : findMessage parse data = .skip rest) :
    processLoop parse tags T data = processLoop parse tags T (cleanup tags rest) := by
  have hne : data ≠ [] := by
    intro h; subst h; simp [findMessage] at hf
  rw [processLoop.eq_def]
  simp only [hne, dite_false]
  split
  · rename_i h'
    rw [hf] at h'
    cases h'
  · rename_i rest' h'
    rw [hf] at h'
    cases h'
    rfl
  · rename_i h'
    rw [hf] at h'
    cases h'

theorem processLoop_keep (parse : Str → ParseRes M) (tags : List Str) (T : Option Nat)
    (data : Str) (hf : findMessage parse data = .nothing) (hfit : fits T data) :
    processLoop parse tags T data = ([], data) := by
  rw [processLoop.eq_def]
  split
  · rename_i h; subst h; rfl
  · split
    · rename_i m' rest' h'
      rw [hf] at h'
      cases h'
    · rename_i rest' h'
      rw [hf] at h'
      cases h'
    · cases T with
      | none => rfl
      | some t =>
        simp only [fits] at hfit
        simp only
        rw [if_neg (by omega)]

theorem processLoop_drop (parse : Str → ParseRes M) (tags : List Str) (t : Nat)
    (data : Str) (hf : findMessage parse data = .nothing) (hgt : data.length > t) :
    processLoop parse tags (some t) data =
      processLoop parse tags (some t) (cleanup tags data.tail) := by
  have hne : data ≠ [] := by
    intro h; subst h; simp at hgt
  rw [processLoop.eq_def]
  simp only [hne, dite_false]
  split
  · rename_i m' rest' h'
    rw [hf] at h'
    cases h'
  · rename_i rest' h'
    rw [hf] at h'
    cases h'
  · rw [if_pos hgt]

/-! ### C11 on `processLoop` -/

theorem processLoop_bounded (parse : Str → ParseRes M) (tags : List Str)
    (t : Nat) (data : Str) :
    (processLoop parse tags (some t) data).2.length ≤ t := by
  induction data using processLoop.induct parse tags (some t) with
  | case1 => simp [processLoop_nil]
  | case2 data hd m rest hf ih => rw [processLoop_found _ _ _ _ _ _ hf]; exact ih
  | case3 data hd rest hf ih => rw [processLoop_skip _ _ _ _ _ hf]; exact ih
  | case4 data hd hf t' ht hgt ih =>
    cases ht
    rw [processLoop_drop _ _ _ _ hf hgt]; exact ih
  | case5 data hd hf t' ht hle =>
    cases ht
    rw [processLoop_keep _ _ _ _ hf (by simp only [fits]; omega)]
    show data.length ≤ t
    omega
  | case6 data hd hf ht => cases ht

theorem processLoop_genuine (parse : Str → ParseRes M) (tags : List Str) (T : Option Nat)
    (data : Str) (m : M) (h : m ∈ (processLoop parse tags T data).1) :
    ∃ x, parse x = .msg m := by
  induction data using processLoop.induct parse tags T with
  | case1 => simp [processLoop_nil] at h
  | case2 data hd m' rest hf ih =>
    rw [processLoop_found _ _ _ _ _ _ hf] at h
    simp only [List.mem_cons] at h
    rcases h with h | h
    · subst h; exact findMessage_found_parses parse _ _ _ hf
    · exact ih h
  | case3 data hd rest hf ih =>
    rw [processLoop_skip _ _ _ _ _ hf] at h; exact ih h
  | case4 data hd hf t' ht hgt ih =>
    subst ht
    rw [processLoop_drop _ _ _ _ hf hgt] at h; exact ih h
  | case5 data hd hf t' ht hle =>
    subst ht
    rw [processLoop_keep _ _ _ _ hf (by simp only [fits]; omega)] at h
    simp at h
  | case6 data hd hf ht =>
    subst ht
    rw [processLoop_keep _ _ _ _ hf (by simp only [fits])] at h
    simp at h

theorem processLoop_suffix (parse : Str → ParseRes M) (tags : List Str) (T : Option Nat)
    (data : Str) : (processLoop parse tags T data).2 <:+ data := by
  induction data using processLoop.induct parse tags T with
  | case1 => simp [processLoop_nil]
  | case2 data hd m' rest hf ih =>
    rw [processLoop_found _ _ _ _ _ _ hf]
    exact ih.trans ((cleanup_suffix tags rest).trans (findMessage_suffix parse _ _ _ hf))
  | case3 data hd rest hf ih =>
    rw [processLoop_skip _ _ _ _ _ hf]
    exact ih.trans ((cleanup_suffix tags rest).trans (findMessage_skip_suffix parse _ _ hf))
  | case4 data hd hf t' ht hgt ih =>
    subst ht
    rw [processLoop_drop _ _ _ _ hf hgt]
    exact ih.trans ((cleanup_suffix tags _).trans (List.tail_suffix data))
  | case5 data hd hf t' ht hle =>
    subst ht
    rw [processLoop_keep _ _ _ _ hf (by simp only [fits]; omega)]
    exact List.suffix_refl _
  | case6 data hd hf ht =>
    subst ht
    rw [processLoop_keep _ _ _ _ hf (by simp only [fits])]
    exact List.suffix_refl _

theorem processLoop_noOpener (parse : Str → ParseRes M) (tags : List Str) (T : Option Nat)
    (hA1 : ParserNeedsOpener parse tags) (data : Str) (hd : NoOpener tags data) :
    (processLoop parse tags T data).1 = [] := by
  induction data using processLoop.induct parse tags T with
  | case1 => simp [processLoop_nil]
  | case2 data hne m' rest hf ih =>
    exact absurd hf (findMessage_noOpener parse tags hA1 data hd m' rest)
  | case3 data hne rest hf ih =>
    -- a complete element that is not a message is dropped; what follows is still opener-free
    rw [processLoop_skip _ _ _ _ _ hf]
    apply ih
    exact NoOpener_suffix tags data _
      ((cleanup_suffix tags _).trans (findMessage_skip_suffix parse _ _ hf)) hd
  | case4 data hne hf t' ht hgt ih =>
    subst ht
    rw [processLoop_drop _ _ _ _ hf hgt]
    apply ih
    exact NoOpener_suffix tags data _ ((cleanup_suffix tags _).trans (List.tail_suffix data)) hd
  | case5 data hne hf t' ht hle =>
    subst ht
    rw [processLoop_keep _ _ _ _ hf (by simp only [fits]; omega)]
  | case6 data hne hf ht =>
    subst ht
    rw [processLoop_keep _ _ _ _ hf (by simp only [fits])]

/-! ### C02: finding complete / partial bodies -/

theorem fits_mono (T : Option Nat) (a b : Str) (h : fits T a) (hl : b.length ≤ a.length) :
    fits T b := by
  cases T with
  | none => trivial
  | some t => simp only [fits] at *; omega

/-- L3, generalised over the scan position -/
theorem scan_complete (parse : Str → ParseRes M) (body : Str) (m : M) (rest : Str)
    (hparse : parse body = .msg m)
    (hmin : ∀ k, k < body.length → parse (body.take k) = .notXml)
    (pre : Str) (c0 : Char) (hend : body = pre ++ [c0, '>']) (hc0 : c0 ≠ '>') :
    ∀ (b a : Str), body = a ++ b → b ≠ [] →
      scan parse a.reverse (b ++ rest) = .found m rest := by
  intro b
  induction b with
  | nil => intro a _ h; exact absurd rfl h
  | cons c cs ih =>
    intro a hab _
    have hrev : (a ++ c :: cs).reverse = (pre ++ [c0, '>']).reverse := by
      rw [← hab, hend]
    have hstep : cs ≠ [] → scan parse (c :: a.reverse) (cs ++ rest) = .found m rest := by
      intro hcs
      have := ih (a ++ [c]) (by simp [hab]) hcs
      simpa using this
    simp only [List.cons_append, scan]
    by_cases hc : c = '>'
    · subst hc
      simp only [if_true]
      cases cs with
      | nil =>
        have : ('>' :: a.reverse).reverse = body := by simp [hab]
        rw [this, hparse]
        simp
      | cons d cs' =>
        have hcand : ('>' :: a.reverse).reverse = body.take (a.length + 1) := by
          rw [hab]; simp [List.take_append, List.take_of_length_le]
        have hlt : a.length + 1 < body.length := by rw [hab]; simp
        rw [hcand, hmin _ hlt]
        simp only
        cases cs' with
        | nil =>
          exfalso
          simp at hrev
          exact hc0 hrev.2.1.symm
        | cons e cs'' =>
          have : ¬ ((d :: e :: cs'' ++ rest).length < 2) := by simp
          rw [if_neg this]
          exact hstep (by simp)
    · simp only [hc, if_false]
      apply hstep
      intro hcs
      subst hcs
      simp at hrev
      exact hc hrev.1

theorem findMessage_complete (parse : Str → ParseRes M) (tags : List Str) (body : Str) (m : M)
    (hadm : Admissible parse tags body m) (rest : Str) :
    findMessage parse (body ++ rest) = .found m rest := by
  obtain ⟨pre, c0, hend, hc0⟩ := hadm.ending
  have hlen : ¬ ((body ++ rest).length < 2) := by
    rw [hend]; simp; omega
  unfold findMessage
  rw [if_neg hlen]
  have hb : body ≠ [] := by rw [hend]; simp
  exact scan_complete parse body m rest hadm.parses hadm.minimal pre c0 hend hc0 body []
    (by simp) hb

/-- L4 -/
theorem findMessage_properPrefix (parse : Str → ParseRes M) (body p : Str)
    (hmin : ∀ k, k < body.length → parse (body.take k) = .notXml)
    (hp : p <+: body) (hlt : p.length < body.length) :
    findMessage parse p = .nothing := by
  apply findMessage_nothing_of_prefixes
  intro k
  have h1 : p.take k <+: body := (List.take_prefix k p).trans hp
  rw [List.prefix_iff_eq_take.1 h1]
  apply hmin
  have := List.length_take_le' k p
  omega

/-! ### C02: position arithmetic on a stream -/

/-- total length of the segments that are complete within the first `n` characters -/
def off : List (Seg M) → Nat → Nat
  | [], _ => 0
  | sg :: rest, n =>
    let len := sg.gap.length + sg.body.length
    if len ≤ n then len + off rest (n - len) else 0

theorem StreamOk_tail (parse : Str → ParseRes M) (tags : List Str) (T : Option Nat)
    (sg : Seg M) (rest : List (Seg M)) (final : Str)
    (hok : StreamOk parse tags T (sg :: rest) final) : StreamOk parse tags T rest final :=
  ⟨fun s hs => hok.seg s (List.mem_cons_of_mem _ hs), hok.final⟩

theorem StreamOk_drop (parse : Str → ParseRes M) (tags : List Str) (T : Option Nat)
    (segs : List (Seg M)) (final : Str) (j : Nat)
    (hok : StreamOk parse tags T segs final) : StreamOk parse tags T (segs.drop j) final :=
  ⟨fun s hs => hok.seg s (List.mem_of_mem_drop hs), hok.final⟩

/-- a stream whose gaps fit the threshold together with the bodies is in particular a stream
whose bodies fit it -/
theorem StreamOk.toStreamOk2 {parse : Str → ParseRes M} {tags : List Str} {T : Option Nat}
    {segs : List (Seg M)} {final : Str} (hok : StreamOk parse tags T segs final) :
    StreamOk2 parse tags T segs final :=
  ⟨fun sg hs =>
    let ⟨hadm, hgap, hfit⟩ := hok.seg sg hs
    ⟨hadm, hgap, fits_mono T _ _ hfit (by simp)⟩, hok.final.1⟩

/-! ### C02: arithmetic of `countDone` / `off` -/

theorem off_le (segs : List (Seg M)) : ∀ n, off segs n ≤ n := by
  induction segs with
  | nil => intro n; simp [off]
  | cons sg rest ih =>
    intro n
    simp only [off]
    split
    · have := ih (n - (sg.gap.length + sg.body.length)); omega
    · omega

theorem encode_drop (final : Str) (segs : List (Seg M)) :
    ∀ n, (encode segs final).drop (off segs n) = encode (segs.drop (countDone segs n)) final := by
  induction segs with
  | nil => intro n; simp [off, countDone, encode]
  | cons sg rest ih =>
    intro n
    simp only [off, countDone]
    split
    · have h3 : 1 + countDone rest (n - (sg.gap.length + sg.body.length))
          = countDone rest (n - (sg.gap.length + sg.body.length)) + 1 := by omega
      rw [h3, List.drop_succ_cons, ← ih, encode, ← List.drop_drop]
      congr 1
      have : sg.gap.length + sg.body.length = (sg.gap ++ sg.body).length := by simp
      rw [this, List.drop_left]
    · simp

theorem countDone_rem (segs : List (Seg M)) :
    ∀ n, countDone (segs.drop (countDone segs n)) (n - off segs n) = 0 := by
  induction segs with
  | nil => intro n; simp [countDone]
  | cons sg rest ih =>
    intro n
    by_cases h : sg.gap.length + sg.body.length ≤ n
    · have h3 : 1 + countDone rest (n - (sg.gap.length + sg.body.length))
          = countDone rest (n - (sg.gap.length + sg.body.length)) + 1 := by omega
      simp only [off, countDone, h, if_true]
      rw [h3, List.drop_succ_cons, ← ih (n - (sg.gap.length + sg.body.length))]
      congr 1
      omega
    · simp [off, countDone, h]

theorem countDone_split (segs : List (Seg M)) :
    ∀ n N, n ≤ N → countDone segs N =
      countDone segs n + countDone (segs.drop (countDone segs n)) (N - off segs n) := by
  induction segs with
  | nil => intro n N _; simp [countDone]
  | cons sg rest ih =>
    intro n N hnN
    by_cases h : sg.gap.length + sg.body.length ≤ n
    · have hN : sg.gap.length + sg.body.length ≤ N := by omega
      have h3 : 1 + countDone rest (n - (sg.gap.length + sg.body.length))
          = countDone rest (n - (sg.gap.length + sg.body.length)) + 1 := by omega
      have := ih (n - (sg.gap.length + sg.body.length)) (N - (sg.gap.length + sg.body.length))
        (by omega)
      simp only [off, h, if_true]
      rw [show countDone (sg :: rest) N
          = 1 + countDone rest (N - (sg.gap.length + sg.body.length)) by simp [countDone, hN]]
      rw [show countDone (sg :: rest) n
          = 1 + countDone rest (n - (sg.gap.length + sg.body.length)) by simp [countDone, h]]
      rw [h3, List.drop_succ_cons, this]
      have e : N - (sg.gap.length + sg.body.length) - off rest (n - (sg.gap.length + sg.body.length))
          = N - (sg.gap.length + sg.body.length + off rest (n - (sg.gap.length + sg.body.length))) := by
        omega
      rw [e]
      omega
    · simp [off, countDone, h]

theorem countDone_zero (parse : Str → ParseRes M) (tags : List Str) (T : Option Nat)
    (segs : List (Seg M)) (final : Str) (hok : StreamOk parse tags T segs final) :
    countDone segs 0 = 0 := by
  cases segs with
  | nil => rfl
  | cons sg rest =>
    obtain ⟨hadm, _, _⟩ := hok.seg sg (by simp)
    obtain ⟨pre, c0, hend, _⟩ := hadm.ending
    have : ¬ (sg.gap.length + sg.body.length ≤ 0) := by rw [hend]; simp
    simp [countDone, this]


/-! ### StreamOk2 basics -/

theorem StreamOk2_tail (parse : Str → ParseRes M) (tags : List Str) (T : Option Nat)
    (sg : Seg M) (rest : List (Seg M)) (final : Str)
    (hok : StreamOk2 parse tags T (sg :: rest) final) : StreamOk2 parse tags T rest final :=
  ⟨fun s hs => hok.seg s (List.mem_cons_of_mem _ hs), hok.final⟩

theorem StreamOk2_drop (parse : Str → ParseRes M) (tags : List Str) (T : Option Nat)
    (segs : List (Seg M)) (final : Str) (j : Nat)
    (hok : StreamOk2 parse tags T segs final) : StreamOk2 parse tags T (segs.drop j) final :=
  ⟨fun s hs => hok.seg s (List.mem_of_mem_drop hs), hok.final⟩

theorem Admissible_length (parse : Str → ParseRes M) (tags : List Str) (body : Str) (m : M)
    (hadm : Admissible parse tags body m) : 2 ≤ body.length := by
  obtain ⟨pre, c0, hend, _⟩ := hadm.ending
  rw [hend]; simp

theorem countDone_zero2 (parse : Str → ParseRes M) (tags : List Str) (T : Option Nat)
    (segs : List (Seg M)) (final : Str) (hok : StreamOk2 parse tags T segs final) :
    countDone segs 0 = 0 := by
  cases segs with
  | nil => rfl
  | cons sg rest =>
    obtain ⟨hadm, _, _⟩ := hok.seg sg (by simp)
    have := Admissible_length parse tags _ _ hadm
    have : ¬ (sg.gap.length + sg.body.length ≤ 0) := by omega
    simp [countDone, this]

theorem countDone_all (final : Str) (segs : List (Seg M)) :
    countDone segs (encode segs final).length = segs.length := by
  induction segs with
  | nil => simp [countDone]
  | cons sg rest ih =>
    have h : sg.gap.length + sg.body.length ≤ (encode (sg :: rest) final).length := by
      simp only [encode, List.length_append]; omega
    have e : (encode (sg :: rest) final).length - (sg.gap.length + sg.body.length)
        = (encode rest final).length := by
      simp only [encode, List.length_append]; omega
    simp only [countDone, h, if_true, e, ih, List.length_cons]
    omega

/-! ### clean-up in front of a body -/

/-- a non-empty prefix of `body ++ z` (body starting with a known opener) begins with `'<'`,
and an opener-free gap in front of it is removed by the clean-up — and nothing more -/
theorem cleanup_gap_body (tags : List Str) (hA2 : TagsOk tags) (g body z y : Str)
    (hg : NoOpener tags g) (hb : startsKnown tags body = true)
    (hy : y <+: body ++ z) (hne : y ≠ []) :
    cleanup tags (g ++ y) = y := by
  obtain ⟨t, htm, ht⟩ := (startsKnown_iff tags body).1 hb
  have ht' : ('<' :: t) <+: body ++ z := ht.trans (List.prefix_append _ _)
  cases y with
  | nil => exact absurd rfl hne
  | cons c y' =>
    have hc : c = '<' := by
      obtain ⟨u, hu⟩ := hy
      obtain ⟨v, hv⟩ := ht'
      rw [← hu] at hv
      simp at hv
      exact hv.1.symm
    subst hc
    have hstable : cleanup tags ('<' :: y') = '<' :: y' := by
      by_cases hs : startsKnown tags ('<' :: y') = true
      · exact cleanup_of_startsKnown tags _ hs
      · apply cleanup_lt_noLt
        rcases List.prefix_or_prefix_of_prefix ht' hy with h3 | h3
        · exact absurd ((startsKnown_iff tags _).2 ⟨t, htm, h3⟩) hs
        · intro hmem
          have h4 : y' <+: t := by simpa using h3
          exact hA2 t htm (h4.subset hmem)
    exact cleanup_gap tags hA2 g y' hg hstable

/-! ### the session invariant for streams with long gaps -/

/-- the opener-free text in front of the next body (or the final junk) -/
def headGap : List (Seg M) → Str → Str
  | [], final => final
  | sg :: _, _ => sg.gap

/-- `B` is the retained buffer, `x` the part of the stream that has arrived after the last complete
segment: either `B` is the clean-up of `x`, or `x` is still within the junk and `B` is any suffix -/
def Inv2 (tags : List Str) (final : Str) (B x : Str) (segs : List (Seg M)) : Prop :=
  B = cleanup tags x ∨ (B <:+ x ∧ x <+: headGap segs final)

/-- opener-free data: nothing delivered, a suffix retained -/
theorem processLoop_junk (parse : Str → ParseRes M) (tags : List Str) (T : Option Nat)
    (hA1 : ParserNeedsOpener parse tags) (d : Str) (hd : NoOpener tags d) :
    ∃ R, processLoop parse tags T (cleanup tags d) = ([], R) ∧ R <:+ d := by
  refine ⟨(processLoop parse tags T (cleanup tags d)).2, ?_, ?_⟩
  · have := processLoop_noOpener parse tags T hA1 (cleanup tags d)
      (NoOpener_suffix tags d _ (cleanup_suffix tags d) hd)
    rw [← this]
  · exact (processLoop_suffix parse tags T _).trans (cleanup_suffix tags d)

/-- one-shot lemma for `StreamOk2` -/
theorem processLoop_stream2 (parse : Str → ParseRes M) (tags : List Str) (T : Option Nat)
    (hA1 : ParserNeedsOpener parse tags) (hA2 : TagsOk tags) (final : Str) :
    ∀ (segs : List (Seg M)), StreamOk2 parse tags T segs final →
      ∀ (x : Str), x <+: encode segs final →
      ∃ R, processLoop parse tags T (cleanup tags x) =
        ((segs.take (countDone segs x.length)).map (·.msg), R) ∧
        Inv2 tags final R (x.drop (off segs x.length)) (segs.drop (countDone segs x.length)) := by
  intro segs
  induction segs with
  | nil =>
    intro hok x hx
    simp only [encode] at hx
    simp only [countDone, off, List.take_nil, List.map_nil, List.drop_zero, List.drop_nil]
    obtain ⟨R, hR, hsuf⟩ := processLoop_junk parse tags T hA1 x
      (NoOpener_of_prefix tags x final hx hok.final)
    exact ⟨R, hR, Or.inr ⟨hsuf, hx⟩⟩
  | cons sg rest ih =>
    intro hok x hx
    obtain ⟨hadm, hgap, hfit⟩ := hok.seg sg (by simp)
    have hokr := StreamOk2_tail parse tags T sg rest final hok
    have hblen := Admissible_length parse tags _ _ hadm
    simp only [encode] at hx
    have hgb : sg.gap ++ sg.body <+: sg.gap ++ sg.body ++ encode rest final :=
      List.prefix_append _ _
    by_cases h : sg.gap.length + sg.body.length ≤ x.length
    · have h1 : sg.gap ++ sg.body <+: x :=
        List.prefix_of_prefix_length_le hgb hx (by simpa using h)
      obtain ⟨x', hx'⟩ := h1
      subst hx'
      have hx'p : x' <+: encode rest final := (List.prefix_append_right_inj _).1 hx
      have hcl : cleanup tags (sg.gap ++ sg.body ++ x') = sg.body ++ x' := by
        rw [List.append_assoc]
        apply cleanup_gap_body tags hA2 sg.gap sg.body x' _ hgap hadm.starts (List.prefix_refl _)
        intro hnil
        have := congrArg List.length hnil
        simp only [List.length_append, List.length_nil] at this
        omega
      obtain ⟨R, hR, hinv⟩ := ih hokr x' hx'p
      refine ⟨R, ?_, ?_⟩
      · rw [hcl, processLoop_found parse tags T _ sg.msg x'
          (findMessage_complete parse tags sg.body sg.msg hadm x'), hR]
        have hl : (sg.gap ++ sg.body ++ x').length - (sg.gap.length + sg.body.length) = x'.length := by
          simp only [List.length_append]; omega
        simp only [countDone, h, if_true, hl]
        have h3 : 1 + countDone rest x'.length = countDone rest x'.length + 1 := by omega
        rw [h3, List.take_succ_cons, List.map_cons]
      · have hl : (sg.gap ++ sg.body ++ x').length - (sg.gap.length + sg.body.length) = x'.length := by
          simp only [List.length_append]; omega
        simp only [countDone, off, h, if_true, hl]
        have h3 : 1 + countDone rest x'.length = countDone rest x'.length + 1 := by omega
        rw [h3, List.drop_succ_cons]
        have e : (sg.gap ++ sg.body ++ x').drop (sg.gap.length + sg.body.length + off rest x'.length)
            = x'.drop (off rest x'.length) := by
          rw [← List.drop_drop]
          congr 1
          have : sg.gap.length + sg.body.length = (sg.gap ++ sg.body).length := by simp
          rw [this, List.drop_left]
        rw [e]
        exact hinv
    · have hlt : x.length < sg.gap.length + sg.body.length := by omega
      have h1 : x <+: sg.gap ++ sg.body :=
        List.prefix_of_prefix_length_le hx hgb (by simp; omega)
      simp only [countDone, off, h, if_false, List.take_zero, List.map_nil, List.drop_zero]
      rcases List.prefix_or_prefix_of_prefix h1 (List.prefix_append sg.gap sg.body) with h2 | h2
      · -- still within the gap
        obtain ⟨R, hR, hsuf⟩ := processLoop_junk parse tags T hA1 x
          (NoOpener_of_prefix tags x sg.gap h2 hgap)
        exact ⟨R, hR, Or.inr ⟨hsuf, h2⟩⟩
      · obtain ⟨p, hp⟩ := h2
        subst hp
        have hpb : p <+: sg.body := (List.prefix_append_right_inj sg.gap).1 h1
        have hplt : p.length < sg.body.length := by simp at hlt; omega
        by_cases hpn : p = []
        · subst hpn
          obtain ⟨R, hR, hsuf⟩ := processLoop_junk parse tags T hA1 (sg.gap ++ [])
            (by simpa using hgap)
          exact ⟨R, hR, Or.inr ⟨hsuf, by simp [headGap]⟩⟩
        · have hcl : cleanup tags (sg.gap ++ p) = p :=
            cleanup_gap_body tags hA2 sg.gap sg.body [] p hgap hadm.starts (by simpa using hpb) hpn
          refine ⟨cleanup tags (sg.gap ++ p), ?_, Or.inl rfl⟩
          apply processLoop_keep
          · rw [hcl]
            exact findMessage_properPrefix parse sg.body _ hadm.minimal hpb hplt
          · rw [hcl]
            exact fits_mono T _ _ hfit (by omega)

/-- one `feed` from a buffer satisfying the invariant -/
theorem feed_stream2 (parse : Str → ParseRes M) (tags : List Str) (T : Option Nat)
    (hA1 : ParserNeedsOpener parse tags) (hA2 : TagsOk tags) (final : Str)
    (segs : List (Seg M)) (hok : StreamOk2 parse tags T segs final)
    (B x q : Str) (hinv : Inv2 tags final B x segs) (hx : x ++ q <+: encode segs final) :
    ∃ R, feed parse tags T B q =
        ((segs.take (countDone segs (x ++ q).length)).map (·.msg), R) ∧
        Inv2 tags final R ((x ++ q).drop (off segs (x ++ q).length))
          (segs.drop (countDone segs (x ++ q).length)) := by
  have hA := processLoop_stream2 parse tags T hA1 hA2 final segs hok (x ++ q) hx
  rcases hinv with hB | ⟨hsuf, hxg⟩
  · subst hB
    unfold feed process
    rw [cleanup_absorb tags hA2]
    exact hA
  · -- `x` is within the junk, `B` is a suffix of it
    obtain ⟨u, hu⟩ := hsuf
    have junk : NoOpener tags (x ++ q) →
        countDone segs (x ++ q).length = 0 → off segs (x ++ q).length = 0 →
        x ++ q <+: headGap segs final →
        ∃ R, feed parse tags T B q =
          ((segs.take (countDone segs (x ++ q).length)).map (·.msg), R) ∧
          Inv2 tags final R ((x ++ q).drop (off segs (x ++ q).length))
            (segs.drop (countDone segs (x ++ q).length)) := by
      intro hno hc ho hpg
      have hBq : B ++ q <:+ x ++ q := ⟨u, by rw [← hu]; simp⟩
      obtain ⟨R, hR, hRs⟩ := processLoop_junk parse tags T hA1 (B ++ q)
        (NoOpener_suffix tags _ _ hBq hno)
      refine ⟨R, ?_, ?_⟩
      · unfold feed process
        rw [hR, hc]; simp
      · rw [hc, ho]
        exact Or.inr ⟨by simpa using hRs.trans hBq, by simpa using hpg⟩
    cases segs with
    | nil =>
      simp only [encode] at hx
      exact junk (NoOpener_of_prefix tags _ final hx hok.final) rfl rfl hx
    | cons sg rest =>
      obtain ⟨hadm, hgap, hfit⟩ := hok.seg sg (by simp)
      have hblen := Admissible_length parse tags _ _ hadm
      simp only [headGap] at hxg
      simp only [encode] at hx
      have hgp : sg.gap <+: sg.gap ++ sg.body ++ encode rest final := by
        rw [List.append_assoc]; exact List.prefix_append _ _
      by_cases hl : (x ++ q).length ≤ sg.gap.length
      · have hpg : x ++ q <+: sg.gap := List.prefix_of_prefix_length_le hx hgp hl
        have hn : ¬ (sg.gap.length + sg.body.length ≤ (x ++ q).length) := by omega
        exact junk (NoOpener_of_prefix tags _ _ hpg hgap) (by simp only [countDone, hn, if_false])
          (by simp only [off, hn, if_false]) hpg
      · have hgx : sg.gap <+: x ++ q := List.prefix_of_prefix_length_le hgp hx (by omega)
        obtain ⟨y, hy⟩ := hgx
        obtain ⟨v, hv⟩ := hxg
        have hq : q = v ++ y := by
          have : x ++ q = x ++ (v ++ y) := by rw [← hy, ← hv, List.append_assoc]
          exact List.append_cancel_left this
        have hyne : y ≠ [] := by
          intro h; subst h
          have := congrArg List.length hy
          simp only [List.length_append, List.length_nil] at this hl; omega
        have hyp : y <+: sg.body ++ encode rest final := by
          rw [← hy, List.append_assoc] at hx
          exact (List.prefix_append_right_inj _).1 hx
        have hBv : B ++ v <:+ sg.gap := ⟨u, by rw [← hv, ← hu]; simp⟩
        have e1 : cleanup tags (B ++ q) = y := by
          rw [hq, ← List.append_assoc]
          exact cleanup_gap_body tags hA2 (B ++ v) sg.body _ y
            (NoOpener_suffix tags _ _ hBv hgap) hadm.starts hyp hyne
        have e2 : cleanup tags (x ++ q) = y := by
          rw [← hy]
          exact cleanup_gap_body tags hA2 sg.gap sg.body _ y hgap hadm.starts hyp hyne
        unfold feed process
        rw [e1, ← e2]
        exact hA

theorem session_stream2 (parse : Str → ParseRes M) (tags : List Str) (T : Option Nat)
    (hA1 : ParserNeedsOpener parse tags) (hA2 : TagsOk tags) (final : Str) :
    ∀ (pieces : List Str) (segs : List (Seg M)), StreamOk2 parse tags T segs final →
      ∀ (B tail0 : Str), Inv2 tags final B tail0 segs →
      tail0 ++ pieces.flatten <+: encode segs final →
      countDone segs tail0.length = 0 →
      (session parse tags T B pieces).1.flatten =
        (segs.take (countDone segs (tail0.length + pieces.flatten.length))).map (·.msg) := by
  intro pieces
  induction pieces with
  | nil =>
    intro segs hok B tail0 hinv hpre h0
    simp [session, h0]
  | cons q ps ih =>
    intro segs hok B tail0 hinv hpre h0
    simp only [List.flatten_cons] at hpre
    have hx : tail0 ++ q <+: encode segs final := by
      refine (List.prefix_append _ ps.flatten).trans ?_
      simpa [List.append_assoc] using hpre
    obtain ⟨R, hfeed, hinv'⟩ :=
      feed_stream2 parse tags T hA1 hA2 final segs hok B tail0 q hinv hx
    have hole := off_le segs (tail0 ++ q).length
    have hpre' : (tail0 ++ q).drop (off segs (tail0 ++ q).length) ++ ps.flatten <+:
        encode (segs.drop (countDone segs (tail0 ++ q).length)) final := by
      rw [← encode_drop]
      obtain ⟨u, hu⟩ := hpre
      have e : encode segs final = (tail0 ++ q) ++ (ps.flatten ++ u) := by
        rw [← hu]; simp
      rw [e, List.drop_append_of_le_length hole, ← List.append_assoc]
      exact List.prefix_append _ _
    have h0' : countDone (segs.drop (countDone segs (tail0 ++ q).length))
        ((tail0 ++ q).drop (off segs (tail0 ++ q).length)).length = 0 := by
      rw [List.length_drop]
      exact countDone_rem segs _
    have := ih (segs.drop (countDone segs (tail0 ++ q).length))
      (StreamOk2_drop parse tags T segs final _ hok) R _ hinv' hpre' h0'
    simp only [session, List.flatten_cons]
    rw [hfeed]
    simp only
    rw [this, ← List.map_append, ← List.take_add]
    congr 2
    rw [countDone_split segs (tail0 ++ q).length (tail0.length + (q ++ ps.flatten).length)
      (by simp only [List.length_append]; omega)]
    congr 2
    rw [List.length_drop]
    simp only [List.length_append] at hole ⊢
    omega

/-! ### C02: the session on a `StreamOk` stream (corollary of the long-gap version) -/

theorem session_stream (parse : Str → ParseRes M) (tags : List Str) (T : Option Nat)
    (hA1 : ParserNeedsOpener parse tags) (hA2 : TagsOk tags) (final : Str)
    (pieces : List Str) (segs : List (Seg M)) (hok : StreamOk parse tags T segs final)
    (tail0 : Str) (hpre : tail0 ++ pieces.flatten <+: encode segs final)
    (h0 : countDone segs tail0.length = 0) :
    (session parse tags T (cleanup tags tail0) pieces).1.flatten =
      (segs.take (countDone segs (tail0.length + pieces.flatten.length))).map (·.msg) :=
  session_stream2 parse tags T hA1 hA2 final pieces segs hok.toStreamOk2
    (cleanup tags tail0) tail0 (Or.inl rfl) hpre h0

end Indi.Buf
