/-
  Helper lemmas for C17 (`waitforevent`): the operational model `Wait.run` against the
  declarative specification `Spec.Wait`, by an invariant over the instants 1 … n.
-/
import Indi.Spec.Wait

namespace Indi.Wait
open Indi.Spec.Wait

/-! ### peeling the last instant -/

theorem runFrom_succ (cfg : Cfg) (batches : List Batch) (st : St) (t n : Nat) :
    runFrom cfg batches st t (n + 1) = instant cfg batches (runFrom cfg batches st t n) (t + n) := by
  induction n generalizing st t with
  | zero => simp [runFrom]
  | succ n ih =>
    rw [runFrom, ih, runFrom]
    congr 1
    omega

/-! ### the specification, instant by instant -/

/-- the first matching event among the batches processed at instant `t` -/
def newMatch (batches : List Batch) (t : Nat) : Option (Nat × Nat) :=
  (batches.filter fun b => b.1 = t).findSome? fun b => (firstTrue b.2 0).map fun i => (t, i)

theorem firstMatch_succ (batches : List Batch) (n : Nat) :
    firstMatch batches (n + 1) = (firstMatch batches n).or (newMatch batches (n + 1)) := by
  unfold firstMatch newMatch
  rw [List.range_succ, List.findSome?_append]
  simp

theorem firstMatch_zero (batches : List Batch) (hb : ∀ b ∈ batches, 1 ≤ b.1) :
    firstMatch batches 0 = none := by
  unfold firstMatch
  have : (batches.filter fun b => b.1 = 0) = [] := by
    rw [List.filter_eq_nil_iff]
    intro b hb'
    have := hb b hb'
    simp
    omega
  simp [List.range_succ, this]

theorem newMatch_fst {batches : List Batch} {t t' i : Nat} (h : newMatch batches t = some (t', i)) :
    t' = t := by
  unfold newMatch at h
  obtain ⟨b, _, hb⟩ := List.exists_of_findSome?_eq_some h
  cases hf : firstTrue b.2 0 with
  | none => simp [hf] at hb
  | some j =>
    simp [hf] at hb
    omega

theorem firstMatch_le {batches : List Batch} {n t i : Nat} (h : firstMatch batches n = some (t, i)) :
    t ≤ n := by
  unfold firstMatch at h
  obtain ⟨a, ha, hb⟩ := List.exists_of_findSome?_eq_some h
  have := newMatch_fst (batches := batches) hb
  simp at ha
  omega

/-- what the synchronous deliveries of instant `t` do to the state -/
theorem deliver_fold (batches : List Batch) (st : St) (t : Nat) :
    (batches.filter fun b => b.1 = t).foldl (fun s b => deliver s t b.2) st =
      if st.lockSet then st else
      match newMatch batches t with
      | some (_, i) => { st with lockSet := true, result := some (t, i) }
      | none => st := by
  unfold newMatch
  generalize (batches.filter fun b => b.1 = t) = l
  induction l generalizing st with
  | nil => simp
  | cons b l ih =>
    rw [List.foldl_cons, ih]
    cases hl : st.lockSet with
    | true => simp [deliver, hl]
    | false =>
      simp only [deliver, hl, Bool.false_eq_true, if_false, List.findSome?_cons]
      cases hf : firstTrue b.2 0 with
      | some i => simp
      | none => simp [hl]

theorem timeoutStep_eq (st : St) (cfg : Cfg) (t : Nat) :
    timeoutStep st cfg t =
      if effectiveTimeout cfg = some t ∧ st.lockSet = false
      then { st with timedOut := true, lockSet := true } else st := by
  unfold timeoutStep effectiveTimeout
  cases h : cfg.timeout with
  | none => simp
  | some τ =>
    by_cases h0 : τ > 0 <;> by_cases h1 : t = τ <;> cases hl : st.lockSet <;> simp [h0, h1] <;> omega

/-! ### the expected outcome, instant by instant -/

theorem out_pending_iff (cfg : Cfg) (batches : List Batch) (n : Nat) :
    expectedOutcome cfg batches n = .pending ↔
      firstMatch batches n = none ∧ ∀ τ, effectiveTimeout cfg = some τ → n < τ := by
  unfold expectedOutcome
  cases hm : firstMatch batches n with
  | none =>
    cases he : effectiveTimeout cfg with
    | none => simp
    | some τ =>
      simp
  | some p =>
    obtain ⟨t, i⟩ := p
    have := firstMatch_le hm
    cases he : effectiveTimeout cfg with
    | none => simp
    | some τ =>
      simp
      split
      · simp
      · split
        · simp
        · omega

theorem out_event_le {cfg : Cfg} {batches : List Batch} {n t i : Nat}
    (h : expectedOutcome cfg batches n = .event t i) : t ≤ n := by
  unfold expectedOutcome at h
  cases hm : firstMatch batches n with
  | none =>
    rw [hm] at h
    cases he : effectiveTimeout cfg with
    | none => simp [he] at h
    | some τ =>
      simp [he] at h
      split at h <;> simp at h
  | some p =>
    obtain ⟨t', i'⟩ := p
    have := firstMatch_le hm
    rw [hm] at h
    cases he : effectiveTimeout cfg with
    | none =>
      simp [he] at h
      omega
    | some τ =>
      simp [he] at h
      split at h
      · simp at h
        omega
      · split at h <;> simp at h

theorem out_timeout_le {cfg : Cfg} {batches : List Batch} {n τ : Nat}
    (h : expectedOutcome cfg batches n = .timeout τ) : τ ≤ n := by
  unfold expectedOutcome at h
  cases hm : firstMatch batches n with
  | none =>
    rw [hm] at h
    cases he : effectiveTimeout cfg with
    | none => simp [he] at h
    | some τ' =>
      simp [he] at h
      split at h <;> simp at h
      omega
  | some p =>
    obtain ⟨t', i'⟩ := p
    rw [hm] at h
    cases he : effectiveTimeout cfg with
    | none => simp [he] at h
    | some τ' =>
      simp [he] at h
      split at h
      · simp at h
      · split at h <;> simp at h
        omega

/-- once completed, the expected outcome never changes -/
theorem out_succ_of_done {cfg : Cfg} {batches : List Batch} {n : Nat}
    (h : expectedOutcome cfg batches n ≠ .pending) :
    expectedOutcome cfg batches (n + 1) = expectedOutcome cfg batches n := by
  unfold expectedOutcome at h ⊢
  rw [firstMatch_succ]
  cases hm : firstMatch batches n with
  | some p =>
    obtain ⟨t, i⟩ := p
    have := firstMatch_le hm
    rw [hm] at h
    cases he : effectiveTimeout cfg with
    | none => simp
    | some τ =>
      simp only [he] at h
      simp only [Option.some_or]
      by_cases h1 : t ≤ τ
      · simp [h1]
      · have h2 : τ ≤ n := by omega
        have h3 : τ ≤ n + 1 := by omega
        simp [h1, h2, h3]
  | none =>
    rw [hm] at h
    cases he : effectiveTimeout cfg with
    | none => simp [he] at h
    | some τ =>
      simp only [he] at h
      have hτ : τ ≤ n := by
        split at h
        · assumption
        · simp at h
      have h3 : τ ≤ n + 1 := by omega
      simp only [Option.none_or]
      cases hn : newMatch batches (n + 1) with
      | none => simp [hτ, h3]
      | some q =>
        obtain ⟨t', i⟩ := q
        have := newMatch_fst hn
        have h1 : ¬ t' ≤ τ := by omega
        simp [hτ, h3, h1]

theorem out_succ_event {cfg : Cfg} {batches : List Batch} {n t' i : Nat}
    (h : expectedOutcome cfg batches n = .pending) (hn : newMatch batches (n + 1) = some (t', i)) :
    expectedOutcome cfg batches (n + 1) = .event (n + 1) i := by
  obtain ⟨hm, hτ⟩ := (out_pending_iff cfg batches n).1 h
  have := newMatch_fst hn
  subst this
  unfold expectedOutcome
  rw [firstMatch_succ, hm, hn]
  cases he : effectiveTimeout cfg with
  | none => simp
  | some τ =>
    have := hτ τ he
    simp
    omega

theorem out_succ_timeout {cfg : Cfg} {batches : List Batch} {n : Nat}
    (h : expectedOutcome cfg batches n = .pending) (hn : newMatch batches (n + 1) = none)
    (he : effectiveTimeout cfg = some (n + 1)) :
    expectedOutcome cfg batches (n + 1) = .timeout (n + 1) := by
  obtain ⟨hm, hτ⟩ := (out_pending_iff cfg batches n).1 h
  unfold expectedOutcome
  rw [firstMatch_succ, hm, hn, he]
  simp

theorem out_succ_pending {cfg : Cfg} {batches : List Batch} {n : Nat}
    (h : expectedOutcome cfg batches n = .pending) (hn : newMatch batches (n + 1) = none)
    (he : effectiveTimeout cfg ≠ some (n + 1)) :
    expectedOutcome cfg batches (n + 1) = .pending := by
  obtain ⟨hm, hτ⟩ := (out_pending_iff cfg batches n).1 h
  rw [out_pending_iff, firstMatch_succ, hm, hn]
  refine ⟨rfl, fun τ h => ?_⟩
  have := hτ τ h
  have : τ ≠ n + 1 := fun h' => he (h' ▸ h)
  omega

/-! ### polling ticks and the expected sends -/

/-- `t` is a polling instant `delay + k·interval` -/
def isTick (cfg : Cfg) (t : Nat) : Bool := t ≥ cfg.delay && (t - cfg.delay) % cfg.interval = 0

/-- must a tick at `t` carry a getProperties, given the final outcome? -/
def sendCond (cfg : Cfg) (out : Outcome) (t : Nat) : Bool :=
  match out with
  | .pending => true
  | .event tc _ => t < tc
  | .timeout tc => t < tc || (t = tc && t = cfg.delay)

theorem expectedSends_eq (cfg : Cfg) (batches : List Batch) (n : Nat) :
    expectedSends cfg batches n =
      if !cfg.polling then [] else
      (List.range (n + 1)).filter fun t => isTick cfg t && sendCond cfg (expectedOutcome cfg batches n) t := rfl

theorem isTick_delay (cfg : Cfg) : isTick cfg cfg.delay = true := by
  simp [isTick]

theorem isTick_next {cfg : Cfg} {a : Nat} (h : isTick cfg a = true) :
    isTick cfg (a + cfg.interval) = true := by
  simp only [isTick, Bool.and_eq_true, decide_eq_true_eq] at h ⊢
  obtain ⟨h1, h2⟩ := h
  refine ⟨by omega, ?_⟩
  have : a + cfg.interval - cfg.delay = (a - cfg.delay) + cfg.interval := by omega
  rw [this, Nat.add_mod_right]
  exact h2

theorem isTick_gap {cfg : Cfg} {a t : Nat} (h : isTick cfg a = true)
    (h1 : a < t) (h2 : t < a + cfg.interval) : isTick cfg t = false := by
  cases ht : isTick cfg t with
  | false => rfl
  | true =>
    exfalso
    simp only [isTick, Bool.and_eq_true, decide_eq_true_eq] at h ht
    obtain ⟨ha, ha'⟩ := h
    obtain ⟨ht, ht'⟩ := ht
    have d1 := Nat.dvd_of_mod_eq_zero ha'
    have d2 := Nat.dvd_of_mod_eq_zero ht'
    have d3 := Nat.dvd_sub d2 d1
    have e : t - cfg.delay - (a - cfg.delay) = t - a := by omega
    rw [e] at d3
    have := Nat.le_of_dvd (by omega) d3
    omega

theorem sends_succ_gen {cfg : Cfg} {batches : List Batch} {n : Nat}
    (h : ∀ t, t ≤ n → sendCond cfg (expectedOutcome cfg batches (n + 1)) t
      = sendCond cfg (expectedOutcome cfg batches n) t) :
    expectedSends cfg batches (n + 1) = expectedSends cfg batches n ++
      if cfg.polling && isTick cfg (n + 1) && sendCond cfg (expectedOutcome cfg batches (n + 1)) (n + 1)
      then [n + 1] else [] := by
  rw [expectedSends_eq, expectedSends_eq]
  cases hp : cfg.polling with
  | false => simp
  | true =>
    simp only [Bool.not_true, Bool.false_eq_true, if_false, Bool.true_and]
    rw [List.range_succ, List.filter_append]
    congr 1
    · apply List.filter_congr
      intro t ht
      simp at ht
      rw [h t (by omega)]
    · simp [List.filter_cons]

theorem sends_succ_done {cfg : Cfg} {batches : List Batch} {n : Nat}
    (h : expectedOutcome cfg batches n ≠ .pending) :
    expectedSends cfg batches (n + 1) = expectedSends cfg batches n := by
  have ho := out_succ_of_done h
  rw [sends_succ_gen (by intro t _; rw [ho]), ho]
  have : sendCond cfg (expectedOutcome cfg batches n) (n + 1) = false := by
    cases hc : expectedOutcome cfg batches n with
    | pending => exact absurd hc h
    | event tc i =>
      have := out_event_le hc
      simp [sendCond]
      omega
    | timeout tc =>
      have := out_timeout_le hc
      simp [sendCond]
      omega
  simp [this]

theorem sends_succ_event {cfg : Cfg} {batches : List Batch} {n i : Nat}
    (h : expectedOutcome cfg batches n = .pending)
    (h' : expectedOutcome cfg batches (n + 1) = .event (n + 1) i) :
    expectedSends cfg batches (n + 1) = expectedSends cfg batches n := by
  rw [sends_succ_gen, h']
  · simp [sendCond]
  · intro t ht
    rw [h, h']
    simp [sendCond]
    omega

theorem sends_succ_timeout {cfg : Cfg} {batches : List Batch} {n : Nat}
    (h : expectedOutcome cfg batches n = .pending)
    (h' : expectedOutcome cfg batches (n + 1) = .timeout (n + 1)) :
    expectedSends cfg batches (n + 1) = expectedSends cfg batches n ++
      if cfg.polling && isTick cfg (n + 1) && decide (n + 1 = cfg.delay) then [n + 1] else [] := by
  rw [sends_succ_gen, h']
  · simp [sendCond]
  · intro t ht
    rw [h, h']
    simp [sendCond]
    omega

theorem sends_succ_pending {cfg : Cfg} {batches : List Batch} {n : Nat}
    (h : expectedOutcome cfg batches n = .pending)
    (h' : expectedOutcome cfg batches (n + 1) = .pending) :
    expectedSends cfg batches (n + 1) = expectedSends cfg batches n ++
      if cfg.polling && isTick cfg (n + 1) then [n + 1] else [] := by
  rw [sends_succ_gen, h']
  · simp [sendCond]
  · intro t ht
    rw [h, h']

/-! ### the polling schedule -/

/-- `nt` is the first polling instant after `n` -/
def Sched (cfg : Cfg) (n nt : Nat) : Prop :=
  n < nt ∧ isTick cfg nt = true ∧ ∀ t, n < t → t < nt → isTick cfg t = false

theorem sched_tick_iff {cfg : Cfg} {n nt : Nat} (h : Sched cfg n nt) :
    isTick cfg (n + 1) = true ↔ n + 1 = nt := by
  obtain ⟨h1, h2, h3⟩ := h
  constructor
  · intro ht
    by_cases hlt : n + 1 < nt
    · have := h3 (n + 1) (by omega) hlt
      simp [ht] at this
    · omega
  · intro he
    rw [he]
    exact h2

theorem sched_advance {cfg : Cfg} {n : Nat} (hi : 1 ≤ cfg.interval) (h : Sched cfg n (n + 1)) :
    Sched cfg (n + 1) (n + 1 + cfg.interval) :=
  ⟨by omega, isTick_next h.2.1, fun _ h1 h2 => isTick_gap h.2.1 h1 h2⟩

theorem sched_keep {cfg : Cfg} {n nt : Nat} (h : Sched cfg n nt) (hne : n + 1 ≠ nt) :
    Sched cfg (n + 1) nt :=
  ⟨by have := h.1; omega, h.2.1, fun t h1 h2 => h.2.2 t (by omega) h2⟩

/-! ### the invariant -/

/-- what is known about the state after the instants 1 … n -/
structure Inv (cfg : Cfg) (batches : List Batch) (n : Nat) (st : St) : Prop where
  outcome : st.outcome = expectedOutcome cfg batches n
  cb : st.cbRegistered = decide (expectedOutcome cfg batches n = .pending)
  lock : st.lockSet = !st.cbRegistered
  timed : st.lockSet = false → st.timedOut = false
  sends : st.sends.reverse = expectedSends cfg batches n
  dead : cfg.polling = true → st.pollAlive = false → st.lockSet = true
  alive : cfg.polling = true → st.pollAlive = true → Sched cfg n st.nextTick

theorem inv_init (cfg : Cfg) (batches : List Batch) (hb : ∀ b ∈ batches, 1 ≤ b.1) (hd : 1 ≤ cfg.delay) :
    Inv cfg batches 0 { pollAlive := cfg.polling, nextTick := cfg.delay } := by
  have hm := firstMatch_zero batches hb
  have ho : expectedOutcome cfg batches 0 = .pending := by
    rw [out_pending_iff]
    refine ⟨hm, fun τ h => ?_⟩
    unfold effectiveTimeout at h
    split at h
    · split at h
      · simp at h; omega
      · simp at h
    · simp at h
  refine ⟨by simp [ho], by simp [ho], by simp, by simp, ?_, ?_, ?_⟩
  · rw [expectedSends_eq, ho]
    cases cfg.polling with
    | false => simp
    | true =>
      simp [List.range_succ, List.filter_cons, isTick]
      omega
  · intro h1 h2
    simp [h1] at h2
  · intro _ _
    refine ⟨by show 0 < cfg.delay; omega, isTick_delay cfg, fun t h1 h2 => ?_⟩
    simp [isTick]
    intro h
    simp at h2
    omega

/-! ### one instant -/

theorem instant_locked (cfg : Cfg) (batches : List Batch) (st : St) (t : Nat)
    (hl : st.lockSet = true) (hcb : st.cbRegistered = false) :
    instant cfg batches st t =
      if cfg.polling && st.pollAlive && t = st.nextTick then { st with pollAlive := false } else st := by
  unfold instant
  simp only [deliver_fold, hl, if_true]
  obtain ⟨lockSet, result, timedOut, pollAlive, nextTick, sends, outcome, cbRegistered⟩ := st
  simp only at hl hcb
  subst hl hcb
  by_cases hd : t = cfg.delay
  · subst hd
    by_cases hc : (cfg.polling = true ∧ pollAlive = true) ∧ cfg.delay = nextTick <;>
      simp [timeoutStep_eq, pollStep, waiterStep, hc]
  · by_cases hc : (cfg.polling = true ∧ pollAlive = true) ∧ t = nextTick <;>
      simp [timeoutStep_eq, pollStep, waiterStep, hc, hd]

theorem instant_event (cfg : Cfg) (batches : List Batch) (st : St) (t t' i : Nat)
    (hl : st.lockSet = false) (hcb : st.cbRegistered = true) (hto : st.timedOut = false)
    (hn : newMatch batches t = some (t', i)) :
    instant cfg batches st t =
      { st with lockSet := true, result := some (t, i), cbRegistered := false, outcome := .event t i,
                pollAlive := if cfg.polling && st.pollAlive && t = st.nextTick then false else st.pollAlive } := by
  unfold instant
  simp only [deliver_fold, hl, hn]
  obtain ⟨lockSet, result, timedOut, pollAlive, nextTick, sends, outcome, cbRegistered⟩ := st
  simp only at hl hcb hto
  subst hl hcb hto
  by_cases hd : t = cfg.delay
  · subst hd
    by_cases hc : (cfg.polling = true ∧ pollAlive = true) ∧ cfg.delay = nextTick <;>
      simp [timeoutStep_eq, pollStep, waiterStep, hc]
  · by_cases hc : (cfg.polling = true ∧ pollAlive = true) ∧ t = nextTick <;>
      simp [timeoutStep_eq, pollStep, waiterStep, hc, hd]

theorem instant_timeout (cfg : Cfg) (batches : List Batch) (st : St) (t : Nat)
    (hl : st.lockSet = false) (hcb : st.cbRegistered = true)
    (hn : newMatch batches t = none) (he : effectiveTimeout cfg = some t) :
    instant cfg batches st t =
      { st with
        lockSet := true, timedOut := true, cbRegistered := false, outcome := .timeout t,
        sends := if ((cfg.polling = true ∧ st.pollAlive = true) ∧ t = st.nextTick) ∧ t = cfg.delay
                 then t :: st.sends else st.sends,
        nextTick := if ((cfg.polling = true ∧ st.pollAlive = true) ∧ t = st.nextTick) ∧ t = cfg.delay
                 then t + cfg.interval else st.nextTick,
        pollAlive := if ((cfg.polling = true ∧ st.pollAlive = true) ∧ t = st.nextTick) ∧ t ≠ cfg.delay
                 then false else st.pollAlive } := by
  unfold instant
  simp only [deliver_fold, hl, hn]
  obtain ⟨lockSet, result, timedOut, pollAlive, nextTick, sends, outcome, cbRegistered⟩ := st
  simp only at hl hcb
  subst hl hcb
  by_cases hd : t = cfg.delay
  · subst hd
    by_cases hc : (cfg.polling = true ∧ pollAlive = true) ∧ cfg.delay = nextTick
    · obtain ⟨⟨hp, ha⟩, rfl⟩ := hc
      simp [timeoutStep_eq, pollStep, waiterStep, hp, ha, he]
    · simp [timeoutStep_eq, pollStep, waiterStep, hc, he]
  · by_cases hc : (cfg.polling = true ∧ pollAlive = true) ∧ t = nextTick
    · obtain ⟨⟨hp, ha⟩, rfl⟩ := hc
      simp [timeoutStep_eq, pollStep, waiterStep, hp, ha, hd, he]
    · simp [timeoutStep_eq, pollStep, waiterStep, hc, hd, he]

theorem instant_pending (cfg : Cfg) (batches : List Batch) (st : St) (t : Nat)
    (hl : st.lockSet = false)
    (hn : newMatch batches t = none) (he : effectiveTimeout cfg ≠ some t) :
    instant cfg batches st t =
      { st with
        sends := if (cfg.polling = true ∧ st.pollAlive = true) ∧ t = st.nextTick
                 then t :: st.sends else st.sends,
        nextTick := if (cfg.polling = true ∧ st.pollAlive = true) ∧ t = st.nextTick
                 then t + cfg.interval else st.nextTick } := by
  unfold instant
  simp only [deliver_fold, hl, hn]
  obtain ⟨lockSet, result, timedOut, pollAlive, nextTick, sends, outcome, cbRegistered⟩ := st
  simp only at hl
  subst hl
  by_cases hd : t = cfg.delay
  · subst hd
    by_cases hc : (cfg.polling = true ∧ pollAlive = true) ∧ cfg.delay = nextTick
    · obtain ⟨⟨hp, ha⟩, rfl⟩ := hc
      simp [timeoutStep_eq, pollStep, waiterStep, hp, ha, he]
    · simp [timeoutStep_eq, pollStep, waiterStep, hc, he]
  · by_cases hc : (cfg.polling = true ∧ pollAlive = true) ∧ t = nextTick
    · obtain ⟨⟨hp, ha⟩, rfl⟩ := hc
      simp [timeoutStep_eq, pollStep, waiterStep, hp, ha, hd, he]
    · simp [timeoutStep_eq, pollStep, waiterStep, hc, hd, he]

/-! ### the invariant is preserved by every instant -/

theorem inv_step {cfg : Cfg} {batches : List Batch} {n : Nat} {st : St} (hi : 1 ≤ cfg.interval)
    (h : Inv cfg batches n st) : Inv cfg batches (n + 1) (instant cfg batches st (n + 1)) := by
  obtain ⟨h_out, h_cb, h_lock, h_timed, h_sends, h_dead, h_alive⟩ := h
  cases hl : st.lockSet with
  | true =>
    have hcb : st.cbRegistered = false := by
      rw [hl] at h_lock
      simpa using h_lock
    have hne : expectedOutcome cfg batches n ≠ .pending := by
      rw [hcb] at h_cb
      simpa using h_cb
    have ho := out_succ_of_done hne
    have hs := sends_succ_done hne
    rw [instant_locked _ _ _ _ hl hcb]
    split
    · refine ⟨by simp [ho, h_out], by simp [ho, hcb, hne], by simp [hl, hcb], by simp [hl],
        by simp [hs, h_sends], by simp [hl], by simp⟩
    · rename_i hc
      refine ⟨by simp [ho, h_out], by simp [ho, hcb, hne], by simp [hl, hcb], by simp [hl],
        by simp [hs, h_sends], fun _ _ => hl, fun hp ha => ?_⟩
      refine sched_keep (h_alive hp ha) (fun he => hc ?_)
      simp [hp, ha, he]
  | false =>
    have hcb : st.cbRegistered = true := by
      rw [hl] at h_lock
      simpa using h_lock
    have hpend : expectedOutcome cfg batches n = .pending := by
      rw [hcb] at h_cb
      simpa using h_cb
    have hto := h_timed hl
    have hal : cfg.polling = true → st.pollAlive = true := by
      intro hp
      cases ha : st.pollAlive with
      | true => rfl
      | false =>
        have := h_dead hp ha
        simp [hl] at this
    cases hn : newMatch batches (n + 1) with
    | some q =>
      obtain ⟨t', i⟩ := q
      have ho := out_succ_event hpend hn
      have hs := sends_succ_event hpend ho
      rw [instant_event _ _ _ _ _ _ hl hcb hto hn]
      refine ⟨by simp [ho], by simp [ho], by simp, by simp, by simp [hs, h_sends], by simp,
        fun hp ha => ?_⟩
      have ha' := hal hp
      simp only [hp, ha', Bool.and_self, Bool.true_and, decide_eq_true_eq] at ha
      refine sched_keep (h_alive hp ha') (fun he => ?_)
      simp [he] at ha
    | none =>
      by_cases he : effectiveTimeout cfg = some (n + 1)
      · have ho := out_succ_timeout hpend hn he
        have hs := sends_succ_timeout hpend ho
        rw [instant_timeout _ _ _ _ hl hcb hn he]
        refine ⟨by simp [ho], by simp [ho], by simp, by simp, ?_, by simp, fun hp ha => ?_⟩
        · rw [hs]
          cases hp : cfg.polling with
          | false => simp [h_sends]
          | true =>
            have ha' := hal hp
            have hsch := h_alive hp ha'
            have hti := sched_tick_iff hsch
            by_cases hd : n + 1 = cfg.delay
            · have ht : isTick cfg (n + 1) = true := by rw [hd]; exact isTick_delay cfg
              have := hti.1 ht
              simp [ha', hd, ← this, h_sends, isTick_delay]
            · simp [hd, h_sends]
        · have ha' := hal hp
          have hsch := h_alive hp ha'
          dsimp only at ha ⊢
          by_cases hnt : n + 1 = st.nextTick
          · by_cases hd : n + 1 = cfg.delay
            · rw [if_pos ⟨⟨⟨hp, ha'⟩, hnt⟩, hd⟩]
              exact sched_advance hi (hnt ▸ hsch)
            · rw [if_pos ⟨⟨⟨hp, ha'⟩, hnt⟩, hd⟩] at ha
              simp at ha
          · rw [if_neg (fun h => hnt h.1.2)]
            exact sched_keep hsch hnt
      · have ho := out_succ_pending hpend hn he
        have hs := sends_succ_pending hpend ho
        rw [instant_pending _ _ _ _ hl hn he]
        refine ⟨by simp [ho, h_out, hpend], by simp [ho, hcb], by simp [hl, hcb], by simpa using h_timed,
          ?_, by simpa using h_dead, fun hp ha => ?_⟩
        · rw [hs]
          cases hp : cfg.polling with
          | false => simp [h_sends]
          | true =>
            have ha' := hal hp
            have hsch := h_alive hp ha'
            have hti := sched_tick_iff hsch
            by_cases hnt : n + 1 = st.nextTick
            · have ht := hti.2 hnt
              simp [ha', ht, ← hnt, h_sends]
            · have ht : isTick cfg (n + 1) = false := by
                cases hx : isTick cfg (n + 1) with
                | false => rfl
                | true => exact absurd (hti.1 hx) hnt
              simp [hnt, ht, h_sends]
        · have ha' := hal hp
          have hsch := h_alive hp ha'
          dsimp only at ha ⊢
          by_cases hnt : n + 1 = st.nextTick
          · rw [if_pos ⟨⟨hp, ha'⟩, hnt⟩]
            exact sched_advance hi (hnt ▸ hsch)
          · rw [if_neg (fun h => hnt h.2)]
            exact sched_keep hsch hnt

theorem inv_run (cfg : Cfg) (hd : 1 ≤ cfg.delay) (hi : 1 ≤ cfg.interval)
    (batches : List Batch) (hb : ∀ b ∈ batches, 1 ≤ b.1) (n : Nat) :
    Inv cfg batches n (run cfg batches n) := by
  induction n with
  | zero => exact inv_init cfg batches hb hd
  | succ n ih =>
    unfold run at ih ⊢
    rw [runFrom_succ, Nat.add_comm 1 n]
    exact inv_step hi ih

end Indi.Wait
