/-
  Exact serialise-then-parse on the messages a driver vector emits: the parser returns `C03.canon m`.

  Emitted number messages are in general not `valid` (a rendered number may carry padding spaces), so this
  does not go through `C03.msg_canon`; it strengthens the computational proofs of `Indi.DevB` (Part 3).
-/
import Indi.Proofs.DevB
import Indi.Proofs.C03

namespace Indi.SysWire
open Indi Indi.Dev Indi.Spec.Dev
open Indi.DevB
open Indi.C03 (canonVal cv canonFields canonPart canon)

/-! ### parts -/

/-- a part that reads back exactly as its canonical form -/
def PartCanon (tag : Str) (p : Part) : Prop :=
  p.tag = tag ∧ partFromXml Generated.registry (partToXml p) = .ok (canonPart p)

/-- evaluate `partFromXml registry (partToXml p)` and `canonPart p` on a part with explicit keys -/
macro "partc_simp" " [" ts:Lean.Parser.Tactic.simpLemma,* "]" : tactic =>
  `(tactic| simp [partFromXml, partToXml, findClass, Generated.registry, Generated.partClasses, constructPart, construct,
      buildFields, partKw, aset, attrKw, presentAttrs, valueOf, alookup, ahas, kwGet, checkGuard, scalarView, childrenView,
      s, canonPart, canonFields, cv, canonVal, strip_On, strip_Off, strip_Idle, strip_Ok, strip_Busy,
      strip_Alert, $ts,*])

theorem partc_defText (n l : Str) (v : Option Str) :
    PartCanon (s "defText") { tag := s "defText", fields := [(s "name", some n), (s "value", v), (s "label", some l)] } := by
  refine ⟨rfl, ?_⟩
  rcases v with _ | (_ | ⟨c, cs⟩) <;> partc_simp []

theorem partc_defBLOB (n l : Str) (v : Option Str) :
    PartCanon (s "defBLOB") { tag := s "defBLOB", fields := [(s "name", some n), (s "value", v), (s "label", some l)] } := by
  refine ⟨rfl, ?_⟩
  rcases v with _ | (_ | ⟨c, cs⟩) <;> partc_simp []

theorem partc_defSwitch (n l t : Str) (ht : t = s "On" ∨ t = s "Off") :
    PartCanon (s "defSwitch") { tag := s "defSwitch", fields := [(s "name", some n), (s "value", some t), (s "label", some l)] } := by
  refine ⟨rfl, ?_⟩
  rcases ht with rfl | rfl <;> partc_simp []

theorem partc_defLight (n l t : Str) (ht : states.contains t = true) :
    PartCanon (s "defLight") { tag := s "defLight", fields := [(s "name", some n), (s "value", some t), (s "label", some l)] } := by
  refine ⟨rfl, ?_⟩
  simp [states, s] at ht
  rcases ht with rfl | rfl | rfl | rfl <;> partc_simp []

theorem partc_defNumber (n l f mn mx st : Str) (v : Option Str)
    (hv : ∀ x, v = some x → numberOk (pyStrip x) = true) :
    PartCanon (s "defNumber")
      { tag := s "defNumber",
        fields := [(s "name", some n), (s "value", v), (s "label", some l), (s "format", some f), (s "min", some mn),
                   (s "max", some mx), (s "step", some st)] } := by
  refine ⟨rfl, ?_⟩
  rcases v with _ | (_ | ⟨c, cs⟩)
  · partc_simp []
  · partc_simp []
  · have h := hv _ rfl
    partc_simp [h]

theorem partc_oneText (n : Str) (v : Option Str) :
    PartCanon (s "oneText") { tag := s "oneText", fields := [(s "name", some n), (s "value", v)] } := by
  refine ⟨rfl, ?_⟩
  rcases v with _ | (_ | ⟨c, cs⟩) <;> partc_simp []

theorem partc_oneSwitch (n t : Str) (ht : t = s "On" ∨ t = s "Off") :
    PartCanon (s "oneSwitch") { tag := s "oneSwitch", fields := [(s "name", some n), (s "value", some t)] } := by
  refine ⟨rfl, ?_⟩
  rcases ht with rfl | rfl <;> partc_simp []

theorem partc_oneLight (n t : Str) (ht : states.contains t = true) :
    PartCanon (s "oneLight") { tag := s "oneLight", fields := [(s "name", some n), (s "value", some t)] } := by
  refine ⟨rfl, ?_⟩
  simp [states, s] at ht
  rcases ht with rfl | rfl | rfl | rfl <;> partc_simp []

theorem partc_oneNumber (n : Str) (v : Option Str) (hv : ∀ x, v = some x → numberOk (pyStrip x) = true) :
    PartCanon (s "oneNumber") { tag := s "oneNumber", fields := [(s "name", some n), (s "value", v)] } := by
  refine ⟨rfl, ?_⟩
  rcases v with _ | (_ | ⟨c, cs⟩)
  · partc_simp []
  · partc_simp []
  · have h := hv _ rfl
    partc_simp [h]

theorem partc_oneBLOB (n sz f : Str) (v : Option Str) :
    PartCanon (s "oneBLOB")
      { tag := s "oneBLOB",
        fields := [(s "name", some n), (s "value", v), (s "size", some sz), (s "format", some f)] } := by
  refine ⟨rfl, ?_⟩
  rcases v with _ | (_ | ⟨c, cs⟩) <;> partc_simp []

theorem defPart_canon (hnum : NumValid) {k : Kind} {e : Dev.Elem} {p : Part}
    (hok : elemOk k e = true) (h : defPart k e = .ok p) : PartCanon (defTag k) p := by
  have hv := readValue_ok hok
  unfold defPart at h
  cases k with
  | text =>
    cases hr : readValue e <;> rw [hr] at h hv <;> simp [valueOk] at h hv
    · subst h; exact partc_defText _ _ _
    · subst h; exact partc_defText _ _ _
  | switch =>
    cases hr : readValue e <;> rw [hr] at h hv <;> simp [valueOk] at h hv
    subst h; exact partc_defSwitch _ _ _ hv
  | light =>
    cases hr : readValue e <;> rw [hr] at h hv <;> simp only [valueOk] at h hv <;> try cases hv
    simp at h
    subst h; exact partc_defLight _ _ _ hv
  | number =>
    simp only at h
    cases hr : renderNum e.d.format (readValue e) with
    | ok t =>
      rw [hr] at h
      simp at h
      subst h
      exact partc_defNumber _ _ _ _ _ _ _ (renderNum_valid hnum hr)
    | fail x => rw [hr] at h; cases h
  | blob =>
    simp at h
    subst h; exact partc_defBLOB _ _ _

theorem onePart_canon (hnum : NumValid) {k : Kind} {e : Dev.Elem} {p : Part}
    (hok : elemOk k e = true) (hf : hasFormat e.value = true) (h : onePart k e = .ok p) : PartCanon (oneTag k) p := by
  have hv := readValue_ok hok
  have hfr := readValue_fmt hok hf
  unfold onePart at h
  cases k with
  | text =>
    cases hr : readValue e <;> rw [hr] at h hv <;> simp [valueOk] at h hv
    · subst h; exact partc_oneText _ _
    · subst h; exact partc_oneText _ _
  | switch =>
    cases hr : readValue e <;> rw [hr] at h hv <;> simp [valueOk] at h hv
    subst h; exact partc_oneSwitch _ _ hv
  | light =>
    cases hr : readValue e <;> rw [hr] at h hv <;> simp only [valueOk] at h hv <;> try cases hv
    simp at h
    subst h; exact partc_oneLight _ _ hv
  | number =>
    simp only at h
    cases hr : renderNum e.d.format (readValue e) with
    | ok t =>
      rw [hr] at h
      simp at h
      subst h
      exact partc_oneNumber _ _ (renderNum_valid hnum hr)
    | fail x => rw [hr] at h; cases h
  | blob =>
    cases hr : readValue e with
    | none => rw [hr] at h; simp at h; subst h; exact partc_oneBLOB _ _ _ _
    | blob bs f =>
      rw [hr] at h hfr
      cases f with
      | none => simp [hasFormat] at hfr
      | some f => simp at h; subst h; exact partc_oneBLOB _ _ _ _
    | text _ => rw [hr] at hv; simp [valueOk] at hv
    | num _ _ => rw [hr] at hv; simp [valueOk] at hv
    | other => rw [hr] at hv; simp [valueOk] at hv

theorem parts_canon' {tag : Str} :
    ∀ {ps : List Part}, (∀ p ∈ ps, PartCanon tag p) →
      partsFromXml Generated.registry (ps.map partToXml) = .ok (ps.map canonPart) ∧
        ∀ p ∈ ps.map canonPart, p.tag = tag
  | [], _ => ⟨rfl, by simp⟩
  | p :: ps, h => by
    obtain ⟨ht, hp'⟩ := h p List.mem_cons_self
    obtain ⟨hps', hts⟩ := parts_canon' (ps := ps) fun q hq => h q (List.mem_cons_of_mem _ hq)
    refine ⟨?_, ?_⟩
    · simp only [List.map_cons, partsFromXml, hp', hps']
    · intro q hq
      rw [List.map_cons] at hq
      rcases List.mem_cons.mp hq with rfl | hq'
      · exact ht
      · exact hts q hq'

/-! ### messages -/

theorem fromXml_of {tag : Str} {fs : List (Str × Option Str)} {ps ps' : List Part}
    (hv : valueOf fs = none) (hnd : ((presentAttrs fs).map Prod.fst).Nodup)
    (hps : partsFromXml Generated.registry (ps.map partToXml) = .ok ps')
    (hc : consMsg tag (childKw ps' (presentAttrs fs)) = .ok { tag := tag, fields := fs, children := some ps' }) :
    fromXml Generated.registry (toXml { tag := tag, fields := fs, children := some ps }) =
      .ok { tag := tag, fields := fs, children := some ps' } := by
  unfold consMsg at hc
  unfold fromXml
  have hx : (toXml { tag := tag, fields := fs, children := some ps }).tag = tag := rfl
  have hch : (toXml { tag := tag, fields := fs, children := some ps }).children = ps.map partToXml := rfl
  rw [hx, hch, hps]
  cases hfc : findClass tag Generated.registry.messages with
  | none => rw [hfc] at hc; cases hc
  | some c =>
    simp only [hfc] at hc
    simp only
    rw [construct_congr (msgKw_toXml_eq hv hnd) c, hc]

theorem fromXml_of_nochild {tag : Str} {fs : List (Str × Option Str)}
    (hv : valueOf fs = none) (hnd : ((presentAttrs fs).map Prod.fst).Nodup)
    (hc : consMsg tag (attrKw (presentAttrs fs)) = .ok { tag := tag, fields := fs, children := none }) :
    fromXml Generated.registry (toXml { tag := tag, fields := fs, children := none }) =
      .ok { tag := tag, fields := fs, children := none } := by
  unfold consMsg at hc
  unfold fromXml
  have hx : (toXml { tag := tag, fields := fs, children := none }).tag = tag := rfl
  have hch : (toXml { tag := tag, fields := fs, children := none }).children = [] := rfl
  rw [hx, hch]
  cases hfc : findClass tag Generated.registry.messages with
  | none => rw [hfc] at hc; cases hc
  | some c =>
    simp only [hfc] at hc
    simp only [partsFromXml]
    rw [construct_congr (msgKw_toXml_eq hv hnd) c]
    simp only [childKw, List.isEmpty_nil, if_true]
    rw [hc]

/-- evaluate `consMsg tag kw` on explicit keys -/
macro "msgc_simp" " [" ts:Lean.Parser.Tactic.simpLemma,* "]" : tactic =>
  `(tactic| simp [consMsg, childKw, findClass, Generated.registry, Generated.messageClasses, construct,
      buildFields, aset, attrKw, presentAttrs, valueOf, alookup, alookup_aset', ahas, kwGet, checkGuard, scalarView,
      childrenView, s, stamp, $ts,*])

/-- the common proof: split on whether there are children, then evaluate -/
macro "msgc_tac" ps':ident htag:ident " [" ts:Lean.Parser.Tactic.simpLemma,* "]" : tactic =>
  `(tactic| (
    refine fromXml_of (by msgc_simp []) (by msgc_simp []) ‹_› ?_
    cases $ps':ident with
    | nil => msgc_simp [$ts,*]
    | cons p ps'' =>
      simp only [List.mem_cons, forall_eq_or_imp] at $htag:ident
      obtain ⟨h1, h2⟩ := $htag:ident
      simp [s] at h1 h2
      have h2' := eq_true h2
      msgc_simp [h1, h2', $ts,*]))

section
variable {dev name state label group perm timeout : Str} {ps ps' : List Part}

theorem msgc_defText
    (hst : states.contains state = true) (hperm : perms.contains perm = true)
    (hps : partsFromXml Generated.registry (ps.map partToXml) = .ok ps')
    (htag : ∀ p ∈ ps', p.tag = s "defText") :
    fromXml Generated.registry (toXml
      { tag := s "defTextVector",
        fields := [(s "device", some dev), (s "name", some name), (s "state", some state), (s "label", some label),
                   (s "group", some group), (s "timestamp", some stamp), (s "message", none)] ++
                  [(s "perm", some perm), (s "timeout", some timeout)],
        children := some ps }) = .ok
      { tag := s "defTextVector",
        fields := [(s "device", some dev), (s "name", some name), (s "state", some state), (s "label", some label),
                   (s "group", some group), (s "timestamp", some stamp), (s "message", none)] ++
                  [(s "perm", some perm), (s "timeout", some timeout)],
        children := some ps' } := by
  simp [states, perms, s] at hst hperm
  msgc_tac ps' htag [hst, hperm]

theorem msgc_defNumber
    (hst : states.contains state = true) (hperm : perms.contains perm = true)
    (hps : partsFromXml Generated.registry (ps.map partToXml) = .ok ps')
    (htag : ∀ p ∈ ps', p.tag = s "defNumber") :
    fromXml Generated.registry (toXml
      { tag := s "defNumberVector",
        fields := [(s "device", some dev), (s "name", some name), (s "state", some state), (s "label", some label),
                   (s "group", some group), (s "timestamp", some stamp), (s "message", none)] ++
                  [(s "perm", some perm), (s "timeout", some timeout)],
        children := some ps }) = .ok
      { tag := s "defNumberVector",
        fields := [(s "device", some dev), (s "name", some name), (s "state", some state), (s "label", some label),
                   (s "group", some group), (s "timestamp", some stamp), (s "message", none)] ++
                  [(s "perm", some perm), (s "timeout", some timeout)],
        children := some ps' } := by
  simp [states, perms, s] at hst hperm
  msgc_tac ps' htag [hst, hperm]

theorem msgc_defBLOB
    (hst : states.contains state = true) (hperm : perms.contains perm = true)
    (hps : partsFromXml Generated.registry (ps.map partToXml) = .ok ps')
    (htag : ∀ p ∈ ps', p.tag = s "defBLOB") :
    fromXml Generated.registry (toXml
      { tag := s "defBLOBVector",
        fields := [(s "device", some dev), (s "name", some name), (s "state", some state), (s "label", some label),
                   (s "group", some group), (s "timestamp", some stamp), (s "message", none)] ++
                  [(s "perm", some perm), (s "timeout", some timeout)],
        children := some ps }) = .ok
      { tag := s "defBLOBVector",
        fields := [(s "device", some dev), (s "name", some name), (s "state", some state), (s "label", some label),
                   (s "group", some group), (s "timestamp", some stamp), (s "message", none)] ++
                  [(s "perm", some perm), (s "timeout", some timeout)],
        children := some ps' } := by
  simp [states, perms, s] at hst hperm
  msgc_tac ps' htag [hst, hperm]

theorem msgc_defSwitch {r : Switch.Rule}
    (hst : states.contains state = true) (hperm : perms.contains perm = true)
    (hps : partsFromXml Generated.registry (ps.map partToXml) = .ok ps')
    (htag : ∀ p ∈ ps', p.tag = s "defSwitch") :
    fromXml Generated.registry (toXml
      { tag := s "defSwitchVector",
        fields := [(s "device", some dev), (s "name", some name), (s "state", some state), (s "label", some label),
                   (s "group", some group), (s "timestamp", some stamp), (s "message", none)] ++
                  [(s "perm", some perm), (s "timeout", some timeout)] ++ [(s "rule", some (ruleName r))],
        children := some ps }) = .ok
      { tag := s "defSwitchVector",
        fields := [(s "device", some dev), (s "name", some name), (s "state", some state), (s "label", some label),
                   (s "group", some group), (s "timestamp", some stamp), (s "message", none)] ++
                  [(s "perm", some perm), (s "timeout", some timeout)] ++ [(s "rule", some (ruleName r))],
        children := some ps' } := by
  simp [states, perms, s] at hst hperm
  cases r <;> simp only [ruleName] <;> msgc_tac ps' htag [hst, hperm]

theorem msgc_defLight
    (hst : states.contains state = true)
    (hps : partsFromXml Generated.registry (ps.map partToXml) = .ok ps')
    (htag : ∀ p ∈ ps', p.tag = s "defLight") :
    fromXml Generated.registry (toXml
      { tag := s "defLightVector",
        fields := [(s "device", some dev), (s "name", some name), (s "state", some state), (s "label", some label),
                   (s "group", some group), (s "timestamp", some stamp), (s "message", none)],
        children := some ps }) = .ok
      { tag := s "defLightVector",
        fields := [(s "device", some dev), (s "name", some name), (s "state", some state), (s "label", some label),
                   (s "group", some group), (s "timestamp", some stamp), (s "message", none)],
        children := some ps' } := by
  simp [states, s] at hst
  msgc_tac ps' htag [hst]

theorem msgc_set {kind : String} {ptag : Str} {tmo : Option Str}
    (hk : (kind, ptag) ∈ [("Text", s "oneText"), ("Number", s "oneNumber"), ("Switch", s "oneSwitch"),
                           ("Light", s "oneLight"), ("BLOB", s "oneBLOB")])
    (hst : states.contains state = true)
    (hps : partsFromXml Generated.registry (ps.map partToXml) = .ok ps')
    (htag : ∀ p ∈ ps', p.tag = ptag) :
    fromXml Generated.registry (toXml
      { tag := s ("set" ++ kind ++ "Vector"),
        fields := [(s "device", some dev), (s "name", some name), (s "state", some state), (s "timeout", tmo),
                   (s "timestamp", some stamp), (s "message", none)],
        children := some ps }) = .ok
      { tag := s ("set" ++ kind ++ "Vector"),
        fields := [(s "device", some dev), (s "name", some name), (s "state", some state), (s "timeout", tmo),
                   (s "timestamp", some stamp), (s "message", none)],
        children := some ps' } := by
  simp [states, s] at hst
  simp only [List.mem_cons, Prod.mk.injEq, List.not_mem_nil, or_false] at hk
  rcases hk with ⟨rfl, rfl⟩ | ⟨rfl, rfl⟩ | ⟨rfl, rfl⟩ | ⟨rfl, rfl⟩ | ⟨rfl, rfl⟩ <;>
    cases tmo <;> msgc_tac ps' htag [hst]

theorem msgc_del :
    fromXml Generated.registry (toXml
      { tag := s "delProperty",
        fields := [(s "device", some dev), (s "name", some name), (s "timestamp", some stamp), (s "message", none)],
        children := none }) = .ok
      { tag := s "delProperty",
        fields := [(s "device", some dev), (s "name", some name), (s "timestamp", some stamp), (s "message", none)],
        children := none } := by
  refine fromXml_of_nochild (by msgc_simp []) (by msgc_simp []) ?_
  msgc_simp []

end

/-- close `.ok ⟨tag, fs, ch'⟩ = .ok (canon ⟨tag, fs, ch⟩)` on explicit keys without a `value` key -/
macro "canon_tac" : tactic =>
  `(tactic| simp [canon, canonFields, cv, s, kindName])

/-! ### the messages of a well-formed vector -/

theorem wire_def {dev : Str} {g : Group} {v : Vec} {m : Msg}
    (hok : vecOk v = true) (h : defMsg dev g v = .ok m) :
    fromXml Generated.registry (toXml m) = .ok (Indi.C03.canon m) := by
  have hnum := numValid
  unfold defMsg at h
  split at h
  · simp only [Except.ok.injEq] at h
    subst h
    refine msgc_del.trans ?_
    canon_tac
  · cases hmp : mapParts (defPart v.kind) v.elems with
    | error x => rw [hmp] at h; cases h
    | ok ps =>
      rw [hmp] at h
      simp only [Except.ok.injEq] at h
      have hgood : ∀ p ∈ ps, PartCanon (defTag v.kind) p := fun p hp => by
        obtain ⟨e, he, hpe⟩ := mapParts_mem hmp p hp
        exact defPart_canon hnum (vecOk_elems hok e he) hpe
      obtain ⟨hps, htag⟩ := parts_canon' hgood
      have hst := vecOk_state hok
      cases hk : v.kind with
      | light =>
        rw [hk] at h htag
        subst h
        refine (msgc_defLight hst hps htag).trans ?_
        canon_tac
      | text =>
        obtain ⟨p, t, hp, hpp, ht⟩ := vecOk_perm hok (by rw [hk]; simp)
        rw [hk, hp, ht] at h
        rw [hk] at htag
        subst h
        refine (msgc_defText hst hpp hps htag).trans ?_
        canon_tac
      | number =>
        obtain ⟨p, t, hp, hpp, ht⟩ := vecOk_perm hok (by rw [hk]; simp)
        rw [hk, hp, ht] at h
        rw [hk] at htag
        subst h
        refine (msgc_defNumber hst hpp hps htag).trans ?_
        canon_tac
      | blob =>
        obtain ⟨p, t, hp, hpp, ht⟩ := vecOk_perm hok (by rw [hk]; simp)
        rw [hk, hp, ht] at h
        rw [hk] at htag
        subst h
        refine (msgc_defBLOB hst hpp hps htag).trans ?_
        canon_tac
      | switch =>
        obtain ⟨p, t, hp, hpp, ht⟩ := vecOk_perm hok (by rw [hk]; simp)
        obtain ⟨r, hr⟩ := vecOk_rule hok hk
        rw [hk, hp, ht, hr] at h
        rw [hk] at htag
        subst h
        refine (msgc_defSwitch hst hpp hps htag).trans ?_
        canon_tac

theorem wire_set {dev : Str} {g : Group} {v : Vec} {m : Msg}
    (hgood : Indi.DevB.VecGood v) (h : setMsg dev g v = .ok (some m)) :
    fromXml Generated.registry (toXml m) = .ok (Indi.C03.canon m) := by
  have hnum := numValid
  obtain ⟨hok, hfmt⟩ := hgood
  unfold setMsg at h
  split at h
  · cases h
  · cases hmp : mapParts (onePart v.kind) v.elems with
    | error x => rw [hmp] at h; cases h
    | ok ps =>
      rw [hmp] at h
      simp only [Except.ok.injEq, Option.some.injEq] at h
      have hgood : ∀ p ∈ ps, PartCanon (oneTag v.kind) p := fun p hp => by
        obtain ⟨e, he, hpe⟩ := mapParts_mem hmp p hp
        refine onePart_canon hnum (vecOk_elems hok e he) ?_ hpe
        simp only [vecFmt, List.all_eq_true] at hfmt
        exact hfmt e he
      obtain ⟨hps, htag⟩ := parts_canon' hgood
      have hst := vecOk_state hok
      subst h
      cases hk : v.kind <;> rw [hk] at htag <;> simp only [kindName] <;>
        refine (msgc_set (by simp [oneTag]) hst hps htag).trans ?_ <;> canon_tac

end Indi.SysWire

