/-
  Generic half of C13: for every class table that passes the decidable check
  `regConf` (each class's guards imply the protocol requirements written in
  `Spec/Msg.lean`), whatever `fromXml` accepts is conformant.
-/
import Indi.Proofs.Construct
import Indi.Spec.Msg

namespace Indi
open Spec

/-- can a stored value be `None`, given that every keyword a parser passes
(other than `value`) is not `None`? -/
def guardNonNone (c : ClassSpec) (f : FieldSpec) : Bool :=
  match f.guard with
  | .oneOf vals => !vals.contains none
  | .any | .number =>
    (match f.source with
     | some p => c.required.contains p && p ≠ s "value"
     | none => false)
  | .children _ => false

def guardWithin (vals : List Str) (f : FieldSpec) : Bool :=
  match f.guard with
  | .oneOf vs => vs.all fun o => match o with
      | some x => vals.contains x
      | none => false
  | _ => false

def guardNumber (f : FieldSpec) : Bool :=
  match f.guard with
  | .number => true
  | _ => false

def guardChildrenOnly (t : Str) (f : FieldSpec) : Bool :=
  match f.guard with
  | .children tags => tags.all fun x => x = t
  | _ => false

def fieldWith (c : ClassSpec) (k : Str) (P : FieldSpec → Bool) : Bool :=
  c.fields.any fun f => f.name = k && P f

def valueConf (c : ClassSpec) : ValueReq → Bool
  | .free => true
  | .vocab vals => fieldWith c (s "value") (guardWithin vals)
  | .numberOrAbsent => fieldWith c (s "value") guardNumber

def classWf (c : ClassSpec) : Bool := decide (c.fields.map (·.name)).Nodup

def partConf (c : ClassSpec) (r : PartReq) : Bool :=
  classWf c && r.required.all (fun k => k ≠ s "children" && fieldWith c k (guardNonNone c)) && valueConf c r.value

def msgConf (c : ClassSpec) (r : MsgReq) : Bool :=
  classWf c &&
  r.required.all (fun k => k ≠ s "children" && fieldWith c k (guardNonNone c)) &&
  r.vocab.all (fun (kv : Str × List Str) => kv.1 ≠ s "children" && fieldWith c kv.1 (guardWithin kv.2)) &&
  valueConf c r.value &&
  (match r.childTag with
   | none => c.fields.all fun f => f.name ≠ s "children"
   | some t => fieldWith c (s "children") (guardChildrenOnly t) && (findPartReq t).isSome)

/-- the decidable link between a class table and the protocol requirements -/
def regConf (reg : Registry) : Bool :=
  reg.messages.all (fun c => match findMsgReq c.tag with
    | some r => msgConf c r
    | none => false) &&
  reg.parts.all (fun c => match findPartReq c.tag with
    | some r => partConf c r
    | none => true)

/-- keywords as a parser passes them: only `value` can be `None` -/
def KwOk (kw : List (Str × PyVal)) : Prop := ∀ k, alookup k kw = some PyVal.none → k = s "value"

theorem fieldWith_elim {c : ClassSpec} {k : Str} {P : FieldSpec → Bool} (h : fieldWith c k P = true) :
    ∃ f ∈ c.fields, f.name = k ∧ P f = true := by
  simp only [fieldWith, List.any_eq_true, Bool.and_eq_true, decide_eq_true_eq] at h
  obtain ⟨f, hf, hn, hp⟩ := h
  exact ⟨f, hf, hn, hp⟩

theorem nonNone_of_guard {c : ClassSpec} {kw : List (Str × PyVal)} {f : FieldSpec} {v : PyVal}
    (hreq : (c.required.all fun r => ahas r kw) = true) (hkw : KwOk kw)
    (hg : guardNonNone c f = true) (hv : checkGuard f.guard (kwGet kw f.source) = .ok v) : v ≠ .none := by
  unfold guardNonNone at hg
  have hsrc : ∀ p, f.source = some p → c.required.contains p = true → p ≠ s "value" → kwGet kw f.source ≠ .none := by
    intro p hp hc hne
    rw [hp]
    simp only [kwGet]
    have : ahas p kw = true := by
      simp only [List.all_eq_true] at hreq
      exact hreq p (by simpa using hc)
    simp only [ahas, Option.isSome_iff_exists] at this
    obtain ⟨w, hw⟩ := this
    rw [hw]
    intro e
    simp only [Option.getD_some] at e
    subst e
    exact hne (hkw p hw)
  cases hgu : f.guard with
  | oneOf vals =>
    rw [hgu] at hg hv
    simp only [Bool.not_eq_true'] at hg
    cases hval : kwGet kw f.source with
    | none => rw [hval] at hv; simp only [checkGuard, hg] at hv; cases hv
    | str x => rw [hval] at hv; simp only [checkGuard] at hv; split at hv <;> cases hv; simp
    | parts ps => rw [hval] at hv; simp only [checkGuard] at hv; cases hv
  | any =>
    rw [hgu] at hg hv
    simp only [checkGuard] at hv
    cases hv
    cases hs : f.source with
    | none => rw [hs] at hg; simp at hg
    | some p =>
      rw [hs] at hg
      simp only [Bool.and_eq_true, decide_eq_true_eq] at hg
      exact hs ▸ hsrc p hs hg.1 hg.2
  | number =>
    rw [hgu] at hg hv
    cases hs : f.source with
    | none => rw [hs] at hg; simp at hg
    | some p =>
      rw [hs] at hg
      simp only [Bool.and_eq_true, decide_eq_true_eq] at hg
      have hne := hsrc p hs hg.1 hg.2
      cases hval : kwGet kw f.source with
      | none => exact absurd hval hne
      | str x => rw [hval] at hv; simp only [checkGuard] at hv; split at hv <;> cases hv; simp
      | parts ps => rw [hval] at hv; simp only [checkGuard] at hv; cases hv
  | children tags => rw [hgu] at hg; simp at hg

theorem present_of_conf {c : ClassSpec} {kw : List (Str × PyVal)} {m : Msg} (h : construct c kw = .ok m)
    (hwf : classWf c = true) (hkw : KwOk kw) {k : Str} (hk : k ≠ s "children")
    (hconf : fieldWith c k (guardNonNone c) = true) : present m.fields k = true := by
  obtain ⟨f, hf, hn, hp⟩ := fieldWith_elim hconf
  have hnd : (c.fields.map (·.name)).Nodup := by simpa [classWf] using hwf
  obtain ⟨v, o, hv, ho, hl⟩ := field_view h hnd hf (hn ▸ hk)
  have hne := nonNone_of_guard (construct_ok h).1 hkw hp hv
  rw [hn] at hl
  unfold present
  rw [hl]
  cases v with
  | none => exact absurd rfl hne
  | str x => simp only [viewOf, Option.some.injEq] at ho; subst ho; rfl
  | parts ps => simp [viewOf] at ho

theorem member_of_conf {c : ClassSpec} {kw : List (Str × PyVal)} {m : Msg} (h : construct c kw = .ok m)
    (hwf : classWf c = true) {k : Str} {vals : List Str} (hk : k ≠ s "children")
    (hconf : fieldWith c k (guardWithin vals) = true) : member m.fields k vals = true := by
  obtain ⟨f, hf, hn, hp⟩ := fieldWith_elim hconf
  have hnd : (c.fields.map (·.name)).Nodup := by simpa [classWf] using hwf
  obtain ⟨v, o, hv, ho, hl⟩ := field_view h hnd hf (hn ▸ hk)
  rw [hn] at hl
  unfold member
  rw [hl]
  unfold guardWithin at hp
  cases hgu : f.guard with
  | oneOf vs =>
    rw [hgu] at hp hv
    simp only [List.all_eq_true] at hp
    cases hval : kwGet kw f.source with
    | none =>
      rw [hval] at hv
      simp only [checkGuard] at hv
      split at hv
      · rename_i hc
        have := hp none (by simpa using hc)
        simp at this
      · cases hv
    | str x =>
      rw [hval] at hv
      simp only [checkGuard] at hv
      split at hv
      · rename_i hc
        cases hv
        simp only [viewOf, Option.some.injEq] at ho
        subst ho
        have := hp (some x) (by simpa using hc)
        simpa using this
      · cases hv
    | parts ps => rw [hval] at hv; simp only [checkGuard] at hv; cases hv
  | any => rw [hgu] at hp; cases hp
  | number => rw [hgu] at hp; cases hp
  | children t => rw [hgu] at hp; cases hp

theorem valueOk_of_conf {c : ClassSpec} {kw : List (Str × PyVal)} {m : Msg} (h : construct c kw = .ok m)
    (hwf : classWf c = true) {r : ValueReq} (hconf : valueConf c r = true) : valueOk m.fields r = true := by
  have hvc : s "value" ≠ s "children" := by decide
  cases r with
  | free => rfl
  | vocab vals => exact member_of_conf h hwf hvc hconf
  | numberOrAbsent =>
    simp only [valueConf] at hconf
    obtain ⟨f, hf, hn, hp⟩ := fieldWith_elim hconf
    have hnd : (c.fields.map (·.name)).Nodup := by simpa [classWf] using hwf
    obtain ⟨v, o, hv, ho, hl⟩ := field_view h hnd hf (hn ▸ hvc)
    rw [hn] at hl
    simp only [valueOk, hl]
    unfold guardNumber at hp
    cases hgu : f.guard with
    | number =>
      rw [hgu] at hv
      cases hval : kwGet kw f.source with
      | none =>
        rw [hval] at hv; simp only [checkGuard] at hv; cases hv
        simp only [viewOf, Option.some.injEq] at ho; subst ho; rfl
      | str x =>
        rw [hval] at hv; simp only [checkGuard] at hv
        split at hv
        · rename_i hok
          cases hv
          simp only [viewOf, Option.some.injEq] at ho; subst ho; exact hok
        · cases hv
      | parts ps => rw [hval] at hv; simp only [checkGuard] at hv; cases hv
    | any => rw [hgu] at hp; cases hp
    | oneOf vs => rw [hgu] at hp; cases hp
    | children t => rw [hgu] at hp; cases hp

theorem attrKw_lookup {attrs : List (Str × Str)} {k : Str} {v : PyVal} (h : alookup k (attrKw attrs) = some v) :
    ∃ x, v = .str x := by
  induction attrs with
  | nil => simp [attrKw, alookup] at h
  | cons a as ih =>
    obtain ⟨k', v'⟩ := a
    simp only [attrKw, List.map_cons, alookup] at h ih
    split at h
    · cases h; exact ⟨v', rfl⟩
    · exact ih h

theorem alookup_aset {α : Type} (k k' : Str) (v : α) (l : List (Str × α)) :
    alookup k' (aset k v l) = if k' = k then some v else alookup k' l := by
  induction l with
  | nil =>
    simp only [aset, alookup]
    by_cases h : k = k'
    · subst h; simp
    · have : ¬ k' = k := fun e => h e.symm
      simp [h, this]
  | cons x xs ih =>
    obtain ⟨a, b⟩ := x
    simp only [aset]
    split
    · rename_i hak
      subst hak
      simp only [alookup]
      by_cases h : a = k'
      · subst h; simp
      · have : ¬ k' = a := fun e => h e.symm
        simp [h, this]
    · rename_i hak
      simp only [alookup, ih]
      by_cases h : a = k'
      · subst h
        simp [hak]
      · simp [h]

theorem partKw_ok (x : Elem1) : KwOk (partKw x) := by
  intro k hk
  unfold partKw at hk
  rw [alookup_aset] at hk
  split at hk
  · assumption
  · obtain ⟨y, hy⟩ := attrKw_lookup hk
    cases hy

theorem msgKw_lookup {x : Elem} {ps : List Part} {k : Str} {v : PyVal} (hk : alookup k (msgKw x ps) = some v) :
    (∃ y, v = .str y) ∨ v = .parts ps := by
  unfold msgKw at hk
  simp only at hk
  split at hk
  · split at hk
    · exact Or.inl (attrKw_lookup hk)
    · rw [alookup_aset] at hk
      split at hk
      · cases hk; exact Or.inr rfl
      · exact Or.inl (attrKw_lookup hk)
  · rw [alookup_aset] at hk
    split at hk
    · cases hk; exact Or.inl ⟨_, rfl⟩
    · split at hk
      · exact Or.inl (attrKw_lookup hk)
      · rw [alookup_aset] at hk
        split at hk
        · cases hk; exact Or.inr rfl
        · exact Or.inl (attrKw_lookup hk)

theorem msgKw_ok (x : Elem) (ps : List Part) : KwOk (msgKw x ps) := by
  intro k hk
  rcases msgKw_lookup hk with ⟨y, hy⟩ | hy <;> cases hy

/-- a part accepted by `partFromXml` whose tag the protocol knows is conformant -/
theorem part_conformant {reg : Registry} (hreg : regConf reg = true) {x : Elem1} {p : Part}
    (h : partFromXml reg x = .ok p) {r : PartReq} (hr : findPartReq p.tag = some r) :
    conformantPart p = true := by
  unfold partFromXml at h
  split at h
  · cases h
  · rename_i c hc
    obtain ⟨hcm, hct⟩ := findClass_some hc
    unfold constructPart at h
    split at h
    · cases h
    · rename_i m hm
      split at h
      · cases h
      · cases h
        have htag : m.tag = c.tag := (construct_ok hm).2.choose_spec.2.2.2
        simp only [regConf, Bool.and_eq_true, List.all_eq_true] at hreg
        have hpc := hreg.2 c hcm
        simp only at hr
        rw [htag] at hr
        rw [hr] at hpc
        simp only [partConf, Bool.and_eq_true, List.all_eq_true, decide_eq_true_eq] at hpc
        obtain ⟨⟨hwf, hreqs⟩, hval⟩ := hpc
        have hkw := partKw_ok x
        unfold conformantPart
        simp only [htag, hr, Bool.and_eq_true, List.all_eq_true]
        refine ⟨?_, valueOk_of_conf hm hwf hval⟩
        intro k hk
        have := hreqs k hk
        exact present_of_conf hm hwf hkw this.1 this.2

theorem partsFromXml_mem {reg : Registry} :
    ∀ {xs : List Elem1} {ps : List Part}, partsFromXml reg xs = .ok ps →
      ∀ p ∈ ps, ∃ x, partFromXml reg x = .ok p := by
  intro xs
  induction xs with
  | nil => intro ps h p hp; simp only [partsFromXml] at h; cases h; cases hp
  | cons x xs ih =>
    intro ps h p hp
    simp only [partsFromXml] at h
    split at h
    · cases h
    · rename_i q hq
      split at h
      · cases h
      · rename_i qs hqs
        cases h
        rcases List.mem_cons.mp hp with rfl | hp'
        · exact ⟨x, hq⟩
        · exact ih hqs p hp'

/-- **generic C13**: with a class table whose guards imply the protocol
requirements, every message `fromXml` accepts is conformant -/
theorem fromXml_conformant {reg : Registry} (hreg : regConf reg = true) (x : Elem) (m : Msg)
    (h : fromXml reg x = .ok m) : conformant m = true := by
  unfold fromXml at h
  split at h
  · cases h
  · rename_i c hc
    obtain ⟨hcm, hct⟩ := findClass_some hc
    split at h
    · cases h
    · rename_i ps hps
      have htag : m.tag = c.tag := (construct_ok h).2.choose_spec.2.2.2
      have hreg' := hreg
      simp only [regConf, Bool.and_eq_true, List.all_eq_true] at hreg'
      have hmc := hreg'.1 c hcm
      split at hmc
      · rename_i r hr
        simp only [msgConf, Bool.and_eq_true, List.all_eq_true, decide_eq_true_eq] at hmc
        obtain ⟨⟨⟨⟨hwf, hreqs⟩, hvocab⟩, hval⟩, hchild⟩ := hmc
        have hkwv : ∀ k v, alookup k (msgKw x ps) = some v → (∃ y, v = .str y) ∨ v = .parts ps :=
          fun k v hk => msgKw_lookup hk
        have hkw := msgKw_ok x ps
        unfold conformant
        rw [htag, hr]
        simp only [Bool.and_eq_true, List.all_eq_true]
        refine ⟨⟨⟨?_, ?_⟩, valueOk_of_conf h hwf hval⟩, ?_⟩
        · intro k hk
          have := hreqs k hk
          exact present_of_conf h hwf hkw this.1 this.2
        · intro kv hkv
          have := hvocab kv hkv
          exact member_of_conf h hwf this.1 this.2
        · have hnd : (c.fields.map (·.name)).Nodup := by simpa [classWf] using hwf
          obtain ⟨hch1, hch2⟩ := children_view h hnd
          cases hrt : r.childTag with
          | none =>
            rw [hrt] at hchild
            simp only [List.all_eq_true, decide_eq_true_eq] at hchild
            rw [hch2 hchild]
          | some t =>
            rw [hrt] at hchild
            simp only [Bool.and_eq_true] at hchild
            obtain ⟨f, hf, hn, hp⟩ := fieldWith_elim hchild.1
            obtain ⟨qs, hq, hmq⟩ := hch1 f hf hn
            rw [hmq]
            simp only [List.all_eq_true, Bool.and_eq_true, decide_eq_true_eq]
            intro p hp'
            -- where do the stored children come from?
            unfold guardChildrenOnly at hp
            cases hgu : f.guard with
            | children tags =>
              rw [hgu] at hq hp
              simp only [List.all_eq_true, decide_eq_true_eq] at hp
              cases hval : kwGet (msgKw x ps) f.source with
              | none => rw [hval] at hq; simp only [checkGuard] at hq; cases hq; cases hp'
              | str y =>
                rw [hval] at hq; simp only [checkGuard] at hq
                split at hq
                · cases hq; cases hp'
                · cases hq
              | parts ps' =>
                rw [hval] at hq; simp only [checkGuard] at hq
                split at hq
                · rename_i hall
                  simp only [Except.ok.injEq, PyVal.parts.injEq] at hq
                  subst hq
                  simp only [List.all_eq_true] at hall
                  have hpt : p.tag = t := hp _ (by simpa using hall p hp')
                  -- ps' is the list the parser built
                  have hps' : ps' = ps := by
                    cases hs : f.source with
                    | none => rw [hs] at hval; simp [kwGet] at hval
                    | some src =>
                      rw [hs] at hval
                      simp only [kwGet] at hval
                      cases hlk : alookup src (msgKw x ps) with
                      | none => rw [hlk] at hval; simp at hval
                      | some w =>
                        rw [hlk] at hval
                        simp only [Option.getD_some] at hval
                        subst hval
                        rcases hkwv src _ hlk with ⟨y, hy⟩ | hy
                        · cases hy
                        · cases hy; rfl
                  subst hps'
                  obtain ⟨x1, hx1⟩ := partsFromXml_mem hps p hp'
                  refine ⟨hpt, ?_⟩
                  have : (findPartReq p.tag).isSome = true := hpt ▸ hchild.2
                  obtain ⟨pr, hpr⟩ := Option.isSome_iff_exists.mp this
                  exact part_conformant hreg hx1 hpr
                · cases hq
            | any => rw [hgu] at hp; cases hp
            | oneOf vs => rw [hgu] at hp; cases hp
            | number => rw [hgu] at hp; cases hp
      · cases hmc

end Indi
