/-
  C01, part 6: the driver side — what stays fixed in a vector (`Static`), what a mirror can
  tell apart (`Same`), well-formed devices (`DevOK`), structural relations between devices.
-/
import Indi.Proofs.Sys5
import Indi.Proofs.DevA

namespace Indi.SysP
open Indi Indi.Dev Indi.Cli Indi.Sys Indi.Spec.Sys Indi.Spec.Dev
open Indi.DevBResp (getVec_setVec)

/-! ### static part and visible part of a vector -/

def core (e : Dev.Elem) : ElemDef × Bool := (e.d, e.enabled)
def tri (e : Dev.Elem) : ElemDef × Bool × Value := (e.d, e.enabled, readValue e)

/-- same definition: names, labels, kind, the elements' definitions and flags -/
def Static (v v' : Vec) : Prop :=
  v'.name = v.name ∧ v'.label = v.label ∧ v'.kind = v.kind ∧ v'.elems.map core = v.elems.map core

/-- indistinguishable for any reader: same definition, state, flag, and values as read -/
def Same (v v' : Vec) : Prop :=
  v'.name = v.name ∧ v'.label = v.label ∧ v'.kind = v.kind ∧ v'.state = v.state ∧ v'.enabled = v.enabled ∧
  v'.elems.map tri = v.elems.map tri

theorem Static.refl (v : Vec) : Static v v := ⟨rfl, rfl, rfl, rfl⟩
theorem Static.trans {a b c : Vec} (h : Static a b) (h' : Static b c) : Static a c :=
  ⟨h'.1.trans h.1, h'.2.1.trans h.2.1, h'.2.2.1.trans h.2.2.1, h'.2.2.2.trans h.2.2.2⟩
theorem Static.symm {a b : Vec} (h : Static a b) : Static b a :=
  ⟨h.1.symm, h.2.1.symm, h.2.2.1.symm, h.2.2.2.symm⟩

theorem Same.refl (v : Vec) : Same v v := ⟨rfl, rfl, rfl, rfl, rfl, rfl⟩
theorem Same.trans {a b c : Vec} (h : Same a b) (h' : Same b c) : Same a c :=
  ⟨h'.1.trans h.1, h'.2.1.trans h.2.1, h'.2.2.1.trans h.2.2.1, h'.2.2.2.1.trans h.2.2.2.1,
   h'.2.2.2.2.1.trans h.2.2.2.2.1, h'.2.2.2.2.2.trans h.2.2.2.2.2⟩

theorem Same.static {a b : Vec} (h : Same a b) : Static a b := by
  obtain ⟨h1, h2, h3, _, _, h6⟩ := h
  refine ⟨h1, h2, h3, ?_⟩
  have := congrArg (List.map fun (t : ElemDef × Bool × Value) => (t.1, t.2.1)) h6
  have hc : core = fun e => (e.d, e.enabled) := rfl
  rw [hc]
  simpa [List.map_map, Function.comp_def, tri] using this

theorem enabled_of_core (f : ElemDef → α) (l : List Dev.Elem) :
    (l.filter (·.enabled)).map (fun e => f e.d) = ((l.map core).filter (·.2)).map (fun c => f c.1) := by
  rw [List.filter_map, List.map_map]
  rfl

theorem enabled_of_tri (f : ElemDef → Value → α) (l : List Dev.Elem) :
    (l.filter (·.enabled)).map (fun e => f e.d (readValue e)) =
      ((l.map tri).filter (·.2.1)).map (fun c => f c.1 c.2.2) := by
  rw [List.filter_map, List.map_map]
  rfl

theorem Static.shape {g g' : Group} {v v' : Vec} (h : Static v v') (hg : g'.name = g.name) : ShapeEq g v g' v' := by
  obtain ⟨h1, h2, h3, h4⟩ := h
  refine ⟨hg, h1, h2, h3, ?_⟩
  unfold enabledElems
  rw [enabled_of_core (fun d => (d.name, d.label)), enabled_of_core (fun d => (d.name, d.label)), h4]

theorem Static.names {v v' : Vec} (h : Static v v') :
    (enabledElems v').map (·.d.name) = (enabledElems v).map (·.d.name) := by
  unfold enabledElems
  rw [enabled_of_core (fun d => d.name), enabled_of_core (fun d => d.name), h.2.2.2]

theorem Same.view {g g' : Group} {v v' : Vec} (h : Same v v') (hg : g'.name = g.name) : ViewEq g v g' v' := by
  obtain ⟨h1, h2, h3, h4, _, h6⟩ := h
  refine ⟨hg, h1, h2, h3, h4, ?_⟩
  unfold enabledElems
  have e : ∀ l : List Dev.Elem, (l.filter (·.enabled)).map elemView =
      ((l.map tri).filter (·.2.1)).map (fun c => (c.1.name, c.1.label, c.1.format, c.2.2)) :=
    fun l => enabled_of_tri (fun d x => (d.name, d.label, d.format, x)) l
  rw [e, e, h6]

/-! ### refresh -/

theorem tri_afterRead (e : Dev.Elem) : tri (afterRead e) = tri e := by
  unfold tri afterRead readValue
  cases e.d.refresh <;> rfl

theorem same_refresh (v : Vec) : Same v (refreshVec v) := by
  refine ⟨rfl, rfl, rfl, rfl, rfl, ?_⟩
  simp only [refreshVec, List.map_map]
  apply List.map_congr_left
  intro e _
  simp only [Function.comp]
  split
  · exact tri_afterRead e
  · rfl

theorem same_refresh_if (c : Bool) (v : Vec) : Same v (if c then refreshVec v else v) := by
  cases c
  · exact Same.refl v
  · exact same_refresh v

/-- building a definition reads the values or (BLOB) leaves the vector alone: no reader can tell -/
theorem same_refreshDef (v : Vec) : Same v (refreshDef v) := by
  rcases refreshDef_cases v with h | h <;> rw [h]
  · exact Same.refl v
  · exact same_refresh v

theorem same_refreshDef_if (c : Bool) (v : Vec) : Same v (if c then refreshDef v else v) := by
  cases c
  · exact Same.refl v
  · exact same_refreshDef v

theorem bytesOk_readValue {k : Kind} {e : Dev.Elem} (hok : elemOk k e = true) (hb : bytesOk e.value = true) :
    bytesOk (readValue e) = true := by
  unfold readValue
  cases hr : e.d.refresh with
  | none => exact hb
  | some rv =>
    simp only [elemOk, Bool.and_eq_true] at hok
    have := hok.1.2
    rw [hr] at this
    simp only [Bool.and_eq_true, Bool.or_eq_true, decide_eq_true_eq] at this
    obtain ⟨hv, hk⟩ := this
    rcases hk with rfl | rfl <;> cases rv <;> simp_all [valueOk, bytesOk]

theorem VG.of_static {v v' : Vec} (h : VG v) (hs : Static v v') (hok : vecOk v' = true) (hf : DevB.vecFmt v' = true)
    (hb : vecBytes v' = true) : VG v' := by
  refine ⟨hok, hf, hb, ?_⟩
  have := h.names
  simp only [vecNames, decide_eq_true_eq] at this ⊢
  rw [hs.names]; exact this

theorem VG.refresh {v : Vec} (h : VG v) : VG (refreshVec v) := by
  refine h.of_static (same_refresh v).static (DevBResp.vecOk_refresh h.ok) (DevB.vecGood_refresh h.good).2 ?_
  simp only [vecBytes, refreshVec, List.all_eq_true, List.mem_map]
  rintro e ⟨e0, he0, rfl⟩
  have hb := h.bytes
  simp only [vecBytes, List.all_eq_true] at hb
  split
  · exact bytesOk_readValue (DevB.vecOk_elems h.ok e0 he0) (hb e0 he0)
  · exact hb e0 he0

theorem VG.refresh_if {v : Vec} (h : VG v) (c : Bool) : VG (if c then refreshVec v else v) := by
  cases c
  · exact h
  · exact h.refresh

theorem VG.refreshDef {v : Vec} (h : VG v) : VG (Dev.refreshDef v) := by
  rcases refreshDef_cases v with h' | h' <;> rw [h']
  · exact h
  · exact h.refresh

theorem VG.refreshDef_if {v : Vec} (h : VG v) (c : Bool) : VG (if c then Dev.refreshDef v else v) := by
  cases c
  · exact h
  · exact h.refreshDef

theorem VG.enabled {v : Vec} (h : VG v) (b : Bool) : VG { v with enabled := b } :=
  ⟨h.ok, h.fmt, h.bytes, h.names⟩

/-! ### devices -/

/-- a well-formed device all of whose vectors are good -/
def DevOK (d : Device) : Prop := WF d = true ∧ ∀ gi vi g v, getVec d gi vi = some (g, v) → VG v

/-- structural relation between two states of a device: same positions; corresponding vectors related by `R` -/
def Rel (R : Nat → Nat → Group → Vec → Group → Vec → Prop) (d d' : Device) : Prop :=
  d'.name = d.name ∧ (∀ gi vi, getVec d gi vi = none → getVec d' gi vi = none) ∧
  ∀ gi vi g v, getVec d gi vi = some (g, v) → ∃ g' v', getVec d' gi vi = some (g', v') ∧ R gi vi g v g' v'

theorem Rel.refl {R} (hr : ∀ gi vi g v, R gi vi g v g v) (d : Device) : Rel R d d :=
  ⟨rfl, fun _ _ h => h, fun gi vi g v h => ⟨g, v, h, hr gi vi g v⟩⟩

theorem Rel.trans {R S T} (ht : ∀ gi vi g v g' v' g'' v'', R gi vi g v g' v' → S gi vi g' v' g'' v'' → T gi vi g v g'' v'')
    {d d' d'' : Device} (h : Rel R d d') (h' : Rel S d' d'') : Rel T d d'' := by
  refine ⟨h'.1.trans h.1, fun gi vi hn => h'.2.1 gi vi (h.2.1 gi vi hn), ?_⟩
  intro gi vi g v hg
  obtain ⟨g', v', hg', hr⟩ := h.2.2 gi vi g v hg
  obtain ⟨g'', v'', hg'', hs⟩ := h'.2.2 gi vi g' v' hg'
  exact ⟨g'', v'', hg'', ht _ _ _ _ _ _ _ _ hr hs⟩

theorem Rel.mono {R S} (hrs : ∀ gi vi g v g' v', R gi vi g v g' v' → S gi vi g v g' v') {d d' : Device}
    (h : Rel R d d') : Rel S d d' := by
  refine ⟨h.1, h.2.1, ?_⟩
  intro gi vi g v hg
  obtain ⟨g', v', hg', hr⟩ := h.2.2 gi vi g v hg
  exact ⟨g', v', hg', hrs _ _ _ _ _ _ hr⟩

/-- the group keeps its name and flag -/
def GEq (g g' : Group) : Prop := g'.name = g.name ∧ g'.enabled = g.enabled

theorem GEq.refl (g : Group) : GEq g g := ⟨rfl, rfl⟩
theorem GEq.trans {a b c : Group} (h : GEq a b) (h' : GEq b c) : GEq a c := ⟨h'.1.trans h.1, h'.2.trans h.2⟩

/-- replacing one vector: it is related as given, every other vector is untouched -/
theorem rel_setVec {d : Device} {gi vi : Nat} {g : Group} {v : Vec} (v' : Vec) (h : getVec d gi vi = some (g, v)) :
    Rel (fun gj vj g0 v0 g1 v1 => GEq g0 g1 ∧ (if gi = gj ∧ vi = vj then v0 = v ∧ v1 = v' else v1 = v0)) d (setVec d gi vi v') := by
  refine ⟨rfl, ?_, ?_⟩
  · intro gj vj hn
    rw [getVec_setVec, hn]
  · intro gj vj g0 v0 h0
    rw [getVec_setVec, h0]
    refine ⟨_, _, rfl, ?_, ?_⟩
    · split <;> exact ⟨rfl, rfl⟩
    · split
      · rename_i hc
        obtain ⟨rfl, rfl⟩ := hc
        rw [h] at h0
        simp only [Option.some.injEq, Prod.mk.injEq] at h0
        exact ⟨h0.2.symm, rfl⟩
      · rfl

theorem getVec_setVec_self {d : Device} {gi vi : Nat} {g : Group} {v : Vec} (v' : Vec) (h : getVec d gi vi = some (g, v)) :
    ∃ g', getVec (setVec d gi vi v') gi vi = some (g', v') ∧ GEq g g' := by
  rw [getVec_setVec, h]
  simp only [and_self, if_true]
  exact ⟨_, rfl, rfl, rfl⟩

/-! ### distinct names -/

theorem names_inj {d : Device} (hwf : WF d = true) {gi vi gj vj : Nat} {g g2 : Group} {v v2 : Vec}
    (h1 : getVec d gi vi = some (g, v)) (h2 : getVec d gj vj = some (g2, v2)) (hn : v.name = v2.name) :
    gi = gj ∧ vi = vj := by
  have hnd : DevBResp.NamesNodup d := by
    simp only [WF, Bool.and_eq_true] at hwf
    exact DevBResp.names_nodup hwf.2
  have hx : ((g, v), (gi, vi)) ∈ DevBResp.full d := DevBResp.mem_full.2 h1
  have hy : ((g2, v2), (gj, vj)) ∈ DevBResp.full d := DevBResp.mem_full.2 h2
  have := DevBResp.inj_of_nodup_map (fun (x : (Group × Vec) × (Nat × Nat)) => x.1.2.name) hnd hx hy hn
  simp only [Prod.mk.injEq] at this
  exact this.2

theorem mem_allVecs {d : Device} {gv : Group × Vec} : gv ∈ allVecs d ↔ ∃ gi vi, getVec d gi vi = some gv := by
  rw [DevBResp.allVecs_eq, List.mem_map]
  constructor
  · rintro ⟨x, hx, rfl⟩
    exact ⟨x.2.1, x.2.2, DevBResp.mem_full.1 hx⟩
  · rintro ⟨gi, vi, h⟩
    exact ⟨(gv, (gi, vi)), DevBResp.mem_full.2 h, rfl⟩

/-! ### the messages of good vectors -/

theorem onePart_ok {k : Kind} {e : Dev.Elem} (h : elemOk k e = true) : ∃ p, onePart k e = .ok p := by
  have hv := DevBResp.readValue_ok h
  unfold onePart
  cases k with
  | text => cases hr : readValue e <;> simp [hr, valueOk] at hv ⊢
  | switch => cases hr : readValue e <;> simp [hr, valueOk] at hv ⊢
  | light => cases hr : readValue e <;> simp [hr, valueOk] at hv ⊢
  | blob => cases hr : readValue e <;> simp [hr, valueOk] at hv ⊢
  | number =>
    have hf : fmtOk e.d.format = true := by
      unfold elemOk at h
      simp only [Bool.and_eq_true, Bool.or_eq_true] at h
      rcases h.2 with h2 | h2
      · simp at h2
      · exact h2
    obtain ⟨t, ht⟩ := DevBResp.renderNum_ok hf hv
    simp only [ht]
    exact ⟨_, rfl⟩

theorem setMsg_ok (dn : Str) (g : Group) {v : Vec} (h : vecOk v = true) : ∃ mo, setMsg dn g v = .ok mo := by
  unfold setMsg
  split
  · exact ⟨_, rfl⟩
  · obtain ⟨ps, hps⟩ := DevBResp.mapParts_ok (f := onePart v.kind) (es := v.elems)
      (fun e he => onePart_ok (DevB.vecOk_elems h e he))
    simp only [hps]
    exact ⟨_, rfl⟩

theorem def_tag_ne_del (k : Kind) : s ("def" ++ kindName k ++ "Vector") ≠ s "delProperty" := by
  cases k <;> decide

theorem set_tag_ne_del (k : Kind) : s ("set" ++ kindName k ++ "Vector") ≠ s "delProperty" := by
  cases k <;> decide

theorem wire_of_fromXml {m : Msg} (h : fromXml reg (toXml m) = .ok (C03.canon m)) : wire reg m = some (C03.canon m) := by
  unfold wire; rw [h]

theorem emitted_def {dn : Str} {g : Group} {v : Vec} {m : Msg} (hok : vecOk v = true) (h : defMsg dn g v = .ok m) :
    Emitted m := by
  refine ⟨wire_of_fromXml (SysWire.wire_def hok h), ?_⟩
  intro ht
  by_cases hen : vecEnabled g v = true
  · obtain ⟨_, _, htag, _⟩ := defMsg_enabled h hen
    rw [htag] at ht
    exact absurd ht (def_tag_ne_del _)
  · simp only [Bool.not_eq_true] at hen
    rw [defMsg_disabled h hen]
    simp [delMsg, attr, alookup, s]

theorem emitted_set {dn : Str} {g : Group} {v : Vec} {m : Msg} (hg : VG v) (h : setMsg dn g v = .ok (some m)) :
    Emitted m := by
  refine ⟨wire_of_fromXml (SysWire.wire_set hg.good h), ?_⟩
  intro ht
  obtain ⟨_, _, _, htag, _⟩ := setMsg_some h
  rw [htag] at ht
  exact absurd ht (set_tag_ne_del _)

theorem key_def {dn : Str} {g : Group} {v : Vec} {m : Msg} (h : defMsg dn g v = .ok m) :
    key m = (some dn, some v.name) := by
  by_cases hen : vecEnabled g v = true
  · obtain ⟨_, _, _, _, h1, h2, _⟩ := defMsg_enabled h hen
    simp [key, h1, h2]
  · simp only [Bool.not_eq_true] at hen
    rw [defMsg_disabled h hen]
    exact key_delMsg _ _

theorem key_set {dn : Str} {g : Group} {v : Vec} {m : Msg} (h : setMsg dn g v = .ok (some m)) :
    key m = (some dn, some v.name) := by
  obtain ⟨_, _, _, _, _, h1, h2, _⟩ := setMsg_some h
  simp [key, h1, h2]

theorem setMsg_group (dn : Str) {g g' : Group} (v : Vec) (h : GEq g g') : setMsg dn g' v = setMsg dn g v := by
  unfold setMsg vecEnabled
  rw [h.2]

theorem defMsg_group (dn : Str) {g g' : Group} (v : Vec) (h : GEq g g') : defMsg dn g' v = defMsg dn g v :=
  DevBResp.defMsg_group dn g g' v h.1 h.2

theorem vecEnabled_group {g g' : Group} (v : Vec) (h : GEq g g') : vecEnabled g' v = vecEnabled g v := by
  unfold vecEnabled; rw [h.2]

end Indi.SysP
