/-
  C01: lemma library (parts 1-12) behind Properties/C01.lean.
    Sys1   interleavings (`merges`), the mirror as a map (`look`), one message (`upd`)
    Sys2   reading a message (in-process / through the wire), `vecShown` pointwise, views and shapes
    Sys3   structure of emitted messages; a definition / deletion at a mirror
    Sys4   an update at a mirror
    Sys5   delivery of a batch per property; arrival orders
    Sys6   static / visible part of a vector, well-formed devices
    Sys7   write-type operations (`WSum`)
    Sys8   announce-type operations (`ASum`)
    Sys9   per-property summary of a driver's batch (`KeyCase`, `DevBatch`) for every operation in scope
    Sys10  `synced` by property; one peer after a driver's batch
    Sys11  the deployment: `react`, all peers, `nextOk`
    Sys12  the start
    SysWire  exact wire image of emitted messages;  SysB64  base64 / int leaf lemmas
-/
import Indi.Proofs.Sys12
